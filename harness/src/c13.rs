//! C13 — compaction never changes what recovery returns.
//! Correspondence: generated segment layouts (several replicas, overlapping stamp ranges,
//! tombstones, hashes, segments over the size target, selection cut by max-per-compaction) written
//! by the real `StreamingPersistence`, compacted by the real `Compactor`, recovered by the real
//! `RecoveryManager` before and after — vs the model (`Stream.compactWith`, `recover`); plus the
//! interleaving "one whole flush between the compactor's reads and its writes"
//! (`Stream.compactInterleaved`).
//! Oracle (real code only): the recovered fold after == before (exact when no tombstone was
//! dropped, modulo tombstones otherwise); for the interleaving part ALL interleavings of the store
//! calls of `compact()` and `flush()` (two futures stepped by the harness through a gated store)
//! are enumerated for a small workload: recovery must succeed, keep the old content and contain
//! the flush's update if the flush returned Ok.
use crate::c11::{coherent, fold_recovered, gen_updates, show_upds, sorted_map, Upd, PREFIX};
use crate::c12::{compactor, lww_upd, recover_image, refs_complete, CCfg, Fault, FaultStore, Proc};
use crate::enc::{hex, MCrdt, MLww, MRv};
use crate::out::Out;
use crate::rng::Rng;
use crate::Args;
use redis_sim::replication::lattice::ReplicaId;
use redis_sim::replication::state::{ReplicatedValue, ReplicationDelta};
use redis_sim::streaming::{
    CompactionConfig, CompactionError, Compactor, ManifestManager, RecoveredState, RecoveryError, StreamingPersistence,
    SimulatedClock,
};
use serde_json::json;
use std::collections::{BTreeMap, HashMap};
use std::future::Future;
use std::sync::Arc;
use std::task::{Context, Poll, Waker};

fn noop_waker() -> Waker {
    Waker::noop().clone()
}

type Fold = Vec<(String, MRv)>;

fn fold_of(r: &Result<RecoveredState, RecoveryError>) -> Option<Fold> {
    r.as_ref().ok().map(|rs| sorted_map(&fold_recovered(rs)))
}

fn visible(f: &Fold) -> Fold {
    f.iter()
        .filter(|(_, v)| !matches!(&v.crdt, MCrdt::Lww(l) if l.tomb))
        .cloned()
        .collect()
}

pub fn tomb_upd(key: &str, t: u64, r: u64) -> Upd {
    lww_upd(key, b"", t, r, true)
}

fn hash_upd(key: &str, fields: &[(&str, &[u8], u64, u64)], t: u64, r: u64) -> Upd {
    let mut h = BTreeMap::new();
    for (f, v, ft, fr) in fields {
        h.insert(f.to_string(), MLww { v: Some(v.to_vec()), t: *ft, r: *fr, tomb: false });
    }
    (key.to_string(), MRv { crdt: MCrdt::H(h), vc: None, exp: None, t, r, rf: None }.to_real())
}

/// classify a before/after difference BY CAUSE.
/// * a tombstone was dropped (`tombs_removed > 0`):
///   - a key that read as deleted is live now                      → older-value-resurfaces
///   - same register, only the expiry differs, and the key has a tombstone below the cutoff
///                                                                 → expiry-of-dropped-tombstone
///   - same register, other merged metadata (vector clock / rf / outer stamp) differs likewise
///                                                                 → metadata-of-dropped-tombstone
/// * no tombstone was dropped and the value / fields differ        → keep-latest:* (fixed defect:
///   listed under `fixed`, so firing is a VIOLATION)
/// * anything else                                                 → compaction:state-differs / key-lost
fn classify(before: &Fold, after: &Fold, tombs_removed: u64, all: &[Upd], cutoff: u64) -> (String, Option<String>) {
    let b: HashMap<&String, &MRv> = before.iter().map(|(k, v)| (k, v)).collect();
    let a: HashMap<&String, &MRv> = after.iter().map(|(k, v)| (k, v)).collect();
    let is_tomb = |v: &MRv| matches!(&v.crdt, MCrdt::Lww(l) if l.tomb);
    let expired_tombs = |k: &String| -> Vec<MRv> {
        all.iter().filter(|(k2, _)| k2 == k).map(|(_, v)| MRv::from_real(v)).filter(|m| is_tomb(m) && m.t < cutoff).collect()
    };
    if tombs_removed > 0 {
        for (k, v) in &b {
            match a.get(k) {
                Some(x) if is_tomb(v) && !is_tomb(x) => return ("C13:tombstone-gc:older-value-resurfaces".into(), Some((*k).clone())),
                Some(x) if !is_tomb(v) && *x != *v => {
                    // the dropped survivor is the merge of the compacted deltas of the key: with
                    // it goes everything they contributed to the merged value of a NEWER write
                    // held outside the compaction — expiry, vector clock, rf, outer stamp
                    if x.crdt == v.crdt && !expired_tombs(k).is_empty() {
                        if x.vc == v.vc && x.rf == v.rf && (x.t, x.r) == (v.t, v.r) && x.exp != v.exp {
                            return ("C13:tombstone-gc:expiry-of-dropped-tombstone".into(), Some((*k).clone()));
                        }
                        return ("C13:tombstone-gc:metadata-of-dropped-tombstone".into(), Some((*k).clone()));
                    }
                    return ("C13:compaction:state-differs".into(), None);
                }
                None if !is_tomb(v) => return ("C13:compaction:key-lost".into(), Some((*k).clone())),
                _ => {}
            }
        }
        return ("C13:compaction:state-differs".into(), None);
    }
    for (k, v) in &b {
        match a.get(k) {
            None => return ("C13:compaction:key-lost".into(), Some((*k).clone())),
            Some(x) if *x != *v => {
                if x.crdt != v.crdt || (x.t, x.r) != (v.t, v.r) {
                    let sig: String = match (&v.crdt, &x.crdt) {
                        (MCrdt::H(_), _) | (_, MCrdt::H(_)) => "C13:keep-latest:hash".into(),
                        (MCrdt::Lww(_), MCrdt::Lww(_)) => "C13:keep-latest:lww".into(),
                        _ => "C13:keep-latest:counter-or-set".into(),
                    };
                    return (sig, Some((*k).clone()));
                }
                // value and stamp equal, merged metadata (expiry / vector clock / rf) differs
                return ("C13:keep-latest:metadata".into(), Some((*k).clone()));
            }
            _ => {}
        }
    }
    ("C13:compaction:state-differs".into(), None)
}

/// flush the layout (one segment per group), compact, compare recovery before / after
pub async fn layout_case(out: &mut Out, groups: &[Vec<Upd>], c: &CCfg, read_fault: Option<(u64, Fault)>, tag: &str, expect_known: bool) {
    let mut p = Proc::new(out, 1, &[]).await;
    let mut all: Vec<Upd> = Vec::new();
    for (gi, g) in groups.iter().enumerate() {
        for u in g {
            p.push(out, u);
            all.push(u.clone());
        }
        p.flush(out).await;
        let _ = gi;
    }
    let before = p.rec(out).await;
    // optionally a read fault on one of the pass's reads (the object at rest stays intact)
    if let Some(rf) = read_fault {
        let at = p.store.calls() + 1 + rf.0;
        p.set_fault(at, rf.1);
    }
    let r = p.compact(out, c).await;
    if let Some(msg) = &p.panicked {
        out.violation("C13:compaction:panic", &format!("Compactor::compact panicked under a legal configuration: {}", msg),
            json!({"workload": p.text, "now_ms": c.now, "tombstone_ttl_ms": c.ttl.as_millis().to_string(), "target": c.target, "min": c.min, "max_per_compaction": c.maxper}));
    }
    let after = p.rec(out).await;
    p.man(out);
    let read_recs = p.store.inner.lock().unwrap().read_faults.clone();
    let undetectable = !p.undetectable().is_empty();
    p.commit(out);
    let co = coherent(&all);
    out.count(&format!("layout:{}", tag));
    for r in &read_recs {
        out.count(&format!("pass-read-fault:{}:{}:{}", r.kind, r.object, r.outcome));
    }
    out.count(if co { "content:coherent" } else { "content:incoherent" });
    let (tombs, outcome) = match &r {
        Ok(cr) => (cr.tombstones_removed, if cr.segment_created.is_some() { "compacted" } else { "emptied-or-cleaned" }),
        Err(CompactionError::NothingToCompact) => (0, "nothing"),
        Err(_) => (0, "error"),
    };
    out.count(&format!("compaction:{}", outcome));
    if tombs > 0 {
        out.count("compaction:tombstones-dropped");
    }
    // direct oracle on the selection rule (independent of tombstones): the segments a pass removes
    // are the oldest-first prefix (by id) of the candidates (size < target), of length
    // min(#candidates, max_segments_per_compaction)
    let mut cand: Vec<(u64, u64)> = p.segs.iter().filter(|(_, sz, _)| *sz < c.target).map(|(id, sz, _)| (*id, *sz)).collect();
    cand.sort();
    let uneven = cand.iter().map(|x| x.1).max().unwrap_or(0) > cand.iter().map(|x| x.1).min().unwrap_or(0) + 40;
    out.count(if cand.len() as u64 > c.maxper { if uneven { "selection:candidates>maxper:uneven-sizes" } else { "selection:candidates>maxper:even-sizes" } } else { "selection:candidates<=maxper" });
    // a selected segment whose read came back mangled is skipped by the pass (stays listed)
    let skipped: Vec<u64> = read_recs.iter().filter(|r| r.object == "segment" && r.outcome == "rejected")
        .filter_map(|r| p.segs.iter().find(|(id, _, _)| r.key.ends_with(&format!("segment-{:08}.seg", id))).map(|x| x.0)).collect();
    let expected: Vec<u64> = cand.iter().take(c.maxper as usize).map(|x| x.0).filter(|id| !skipped.contains(id)).collect();
    let mut removed: Vec<u64> = match &r {
        Ok(cr) => cr.segments_removed.iter().map(|s| s.id).collect(),
        Err(_) => Vec::new(),
    };
    removed.sort();
    if r.is_ok() && removed != expected {
        out.violation("C13:selection:not-oldest-first",
            "the segments removed by the compaction pass are not the oldest-first prefix (by id) of the candidate segments (size < target), of length min(#candidates, max_segments_per_compaction)",
            json!({"workload": p.text, "segments(id,size)": p.segs.iter().map(|(i, z, _)| (*i, *z)).collect::<Vec<_>>(), "target": c.target, "max_per_compaction": c.maxper, "candidates": cand, "expected_removed": expected, "removed": removed}));
    }
    // oracle independent of the model: with a TTL longer than `now` no tombstone may be dropped
    if tombs > 0 && c.ttl.as_millis() > c.now as u128 {
        let sig = if c.ttl.as_millis() >= (1u128 << 64) { "C13:tombstone-gc:ttl-truncated-to-u64" } else { "C13:tombstone-gc:dropped-although-ttl-not-elapsed" };
        out.violation(sig, "the pass dropped a tombstone although the configured tombstone TTL is longer than the time elapsed since the epoch (now)",
            json!({"workload": p.text, "now_ms": c.now, "tombstone_ttl_ms": c.ttl.as_millis().to_string(), "tombstones_removed": tombs}));
    }
    // the regime of C13.compaction_preserves_visible_full_pass: the pass takes every listed segment
    let full_pass = r.is_ok() && cand.len() == p.segs.len() && cand.len() as u64 <= c.maxper && skipped.is_empty() && read_recs.is_empty();
    if full_pass {
        out.count(if tombs > 0 { "gc:full-pass:tombstones-dropped" } else { "gc:full-pass:none-dropped" });
    }
    let (fb, fa) = (fold_of(&before), fold_of(&after));
    let nontrivial = outcome == "compacted" && groups.len() >= 2;
    out.case(&p.text, nontrivial);
    out.sample(json!({"workload": p.text}));
    let replay = |extra: serde_json::Value| json!({"workload": p.text, "detail": extra});
    match (&fb, &fa) {
        (Some(b), Some(a)) => {
            if !co {
                out.count("excluded:incoherent-content");
                return;
            }
            let differs = if tombs == 0 { a != b } else { visible(a) != visible(b) };
            if differs && full_pass {
                // every listed segment took part (no checkpoint in these stores): proved impossible for
                // the modelled code at every cutoff — never a listed finding
                out.violation("C13:full-pass:visible-state-differs", "a compaction pass that took EVERY listed segment changed what a reader sees after recovery",
                    replay(json!({"before": show_upds(b), "after": show_upds(a), "tombstones_removed": tombs, "removed_segments": removed})));
            } else if differs {
                let (mut sig, key) = classify(b, a, tombs, &all, c.cutoff());
                // cause of the uncompacted value: where does the key live outside the pass?
                let mut outside: Vec<serde_json::Value> = Vec::new();
                if let Some(k) = &key {
                    let newest_removed = removed.iter().max().cloned().unwrap_or(0);
                    let mut skipped_older_candidate = false;
                    let mut skipped_unreadable = false;
                    for (id, sz, ups) in &p.segs {
                        if removed.contains(id) || !ups.iter().any(|(k2, _)| k2 == k) {
                            continue;
                        }
                        let candidate = *sz < c.target;
                        let why = if skipped.contains(id) { "selected but SKIPPED by the pass: its read came back mangled" } else if !candidate { "not a candidate (size >= target)" } else if *id > newest_removed { "candidate newer than every removed segment (cut off by max_segments_per_compaction)" } else { "CANDIDATE OLDER THAN A REMOVED SEGMENT (skipped by the selection)" };
                        if skipped.contains(id) {
                            skipped_unreadable = true;
                        } else if candidate && *id < newest_removed {
                            skipped_older_candidate = true;
                        }
                        outside.push(json!({"segment": id, "size": sz, "why_outside": why}));
                    }
                    if skipped_older_candidate {
                        if let Some(sym) = sig.strip_prefix("C13:tombstone-gc:") {
                            sig = format!("C13:selection:not-oldest-first:{}", sym);
                        }
                    } else if skipped_unreadable && sig.starts_with("C13:tombstone-gc:") {
                        sig = "C13:tombstone-gc:skipped-unreadable-segment".to_string();
                    } else if outside.is_empty() {
                        // the listed tombstone-gc findings all need the key to live on in a listed
                        // segment OUTSIDE the pass (what `GcSafe` excludes); with nothing outside the
                        // pass must not change what a reader sees (C13.tombstone_gc_safe_partial,
                        // C13.compaction_preserves_visible_full_pass): a different cause
                        if let Some(sym) = sig.strip_prefix("C13:tombstone-gc:") {
                            sig = format!("C13:tombstone-gc:key-not-outside-the-pass:{}", sym);
                        }
                    }
                }
                if !read_recs.is_empty() && sig != "C13:tombstone-gc:skipped-unreadable-segment" {
                    // a read of the pass was mangled: cause first
                    sig = if undetectable {
                        let r0 = &read_recs[0];
                        format!("C13:read-corruption-accepted:{}:{}", r0.object, r0.kind)
                    } else if sig.starts_with("C13:tombstone-gc:") && (read_recs.iter().all(|r| r.outcome == "benign") || outside.iter().any(|o| !o["why_outside"].as_str().unwrap_or("").contains("SKIPPED"))) {
                        // the key lives on in a segment outside the pass for a reason that does not
                        // depend on the read fault (non-candidate / cut off): the listed GC cause
                        sig
                    } else {
                        "C13:compaction:read-fault:state-differs".to_string()
                    };
                }
                out.violation(&sig, "the state recovered after the compaction differs from the state recovered before it",
                    replay(json!({"read_faults": format!("{:?}", read_recs), "before": show_upds(b), "after": show_upds(a), "tombstones_removed": tombs, "key": key.as_ref().map(|k| hex(k.as_bytes())), "removed_segments": removed, "key_outside_the_pass": outside})));
            } else if expect_known {
                out.count("corpus:witness-of-fixed-defect-passes");
            }
        }
        _ => out.violation("C13:recovery-fails-around-compaction", "recover() failed before or after a fault-free compaction", replay(json!(null))),
    }
    if !refs_complete(&p.store.image()) {
        out.violation("C13:manifest-references-incomplete-object", "after the compaction the manifest references a missing object", replay(json!(null)));
    }
}

/// the production wiring: `Compactor::new` (ProductionTimeSource) with the default 24 h TTL
async fn production_clock_witness(out: &mut Out) {
    let store = FaultStore::new(&[]);
    let mut pers = StreamingPersistence::with_clock(Arc::new(store.clone()), PREFIX.to_string(), 1, crate::c12::wb_config(), SimulatedClock::new(0))
        .await
        .unwrap();
    // an old value in a segment above the size target, a delete at Lamport time 5, a second small segment
    let big: Vec<Upd> = (0..40).map(|i| lww_upd(&format!("pad{}", i), &[b'x'; 40], 1, 1, false)).collect();
    pers.push(ReplicationDelta::new("t".into(), lww_upd("t", b"x", 3, 1, false).1, ReplicaId::new(1))).unwrap();
    for (k, v) in &big {
        pers.push(ReplicationDelta::new(k.clone(), v.clone(), ReplicaId::new(1))).unwrap();
    }
    pers.flush().await.unwrap();
    pers.push(ReplicationDelta::new("t".into(), tomb_upd("t", 5, 1).1, ReplicaId::new(1))).unwrap();
    pers.flush().await.unwrap();
    pers.push(ReplicationDelta::new("u".into(), lww_upd("u", b"1", 6, 1, false).1, ReplicaId::new(1))).unwrap();
    pers.flush().await.unwrap();
    let before = recover_image(&store.image(), 1).await;
    let cfg = CompactionConfig { target_segment_size: 1000, min_segments_to_compact: 2, compression_enabled: false, ..CompactionConfig::default() };
    let mut comp = Compactor::new(Arc::new(store.clone()), PREFIX.to_string(), ManifestManager::new(store.clone(), PREFIX), cfg);
    let r = comp.compact().await;
    let after = recover_image(&store.image(), 1).await;
    let (fb, fa) = (fold_of(&before).unwrap_or_default(), fold_of(&after).unwrap_or_default());
    out.count("witness:production-clock");
    let t_before = visible(&fb).iter().any(|(k, _)| k == "t");
    let t_after = visible(&fa).iter().any(|(k, _)| k == "t");
    if !t_before && t_after {
        out.violation(
            "C13:tombstone-gc:clock-domains",
            "Compactor::new (production clock, TTL 24 h): a tombstone written at Lamport time 5 is dropped by the first compaction (wall-clock ms minus TTL compared with Lamport times) and the deleted key's older value in a segment that was not compacted resurfaces",
            json!({"tombstones_removed": r.as_ref().map(|c| c.tombstones_removed).unwrap_or(0), "visible_before": show_upds(&visible(&fb).into_iter().filter(|(k, _)| !k.starts_with("pad")).collect::<Vec<_>>()), "visible_after": show_upds(&visible(&fa).into_iter().filter(|(k, _)| !k.starts_with("pad")).collect::<Vec<_>>())}),
        );
    }
}

// ---------------------------------------------------------------------------------------------
// interleavings of compact() and flush()
// ---------------------------------------------------------------------------------------------

struct RaceResult {
    /// task tag of every logged store call
    tags: Vec<usize>,
    done: [bool; 2],
    flush_ok: Option<bool>,
    compact: Option<String>,
    image: BTreeMap<String, Vec<u8>>,
    calls: Vec<String>,
}

/// set up two small segments, a pending delta, then step the two futures along `schedule`
/// (0 = flush task, 1 = compaction task); once one of them is done the other runs to completion
/// only if `finish` is set
async fn race_run(schedule: &[u8], finish: bool) -> RaceResult {
    let store = FaultStore::new(&[]);
    let mut pers = StreamingPersistence::with_clock(Arc::new(store.clone()), PREFIX.to_string(), 1, crate::c12::wb_config(), SimulatedClock::new(0))
        .await
        .unwrap();
    for (k, v) in [lww_upd("k", b"1", 5, 1, false), lww_upd("l", b"2", 6, 1, false)] {
        pers.push(ReplicationDelta::new(k, v, ReplicaId::new(1))).unwrap();
        pers.flush().await.unwrap();
    }
    let n = lww_upd("n", b"9", 7, 1, false);
    pers.push(ReplicationDelta::new(n.0.clone(), n.1.clone(), ReplicaId::new(1))).unwrap();
    let cstore = store.with_tag(1);
    let mut comp = compactor(&cstore, &CCfg { target: 1 << 20, min: 2, maxper: 5, now: 0, ttl: std::time::Duration::ZERO });
    {
        let mut g = store.inner.lock().unwrap();
        g.gate = Some([0, 0]);
        g.log.clear();
        g.log_tags.clear();
        g.snapshots.clear();
        g.calls = 0;
        g.record = true;
    }
    let waker = noop_waker();
    let mut cx = Context::from_waker(&waker);
    let mut res = RaceResult { tags: Vec::new(), done: [false, false], flush_ok: None, compact: None, image: BTreeMap::new(), calls: Vec::new() };
    {
        let mut f0 = Box::pin(pers.flush());
        let mut f1 = Box::pin(comp.compact());
        let mut step = |t: usize, res: &mut RaceResult| {
            {
                let mut g = store.inner.lock().unwrap();
                g.gate.as_mut().unwrap()[t] += 1;
            }
            if t == 0 {
                if let Poll::Ready(r) = f0.as_mut().poll(&mut cx) {
                    res.done[0] = true;
                    res.flush_ok = Some(r.is_ok());
                }
            } else if let Poll::Ready(r) = f1.as_mut().poll(&mut cx) {
                res.done[1] = true;
                res.compact = Some(match r {
                    Ok(c) => format!("ok removed={} created={:?}", c.segments_removed.len(), c.segment_created.map(|s| s.id)),
                    Err(CompactionError::NothingToCompact) => "nothing".into(),
                    Err(e) => format!("err {}", e),
                });
            }
            // a permit that was not consumed (the task finished without another store call) is withdrawn
            let mut g = store.inner.lock().unwrap();
            g.gate.as_mut().unwrap()[t] = 0;
        };
        for t in schedule {
            let t = *t as usize;
            if !res.done[t] {
                step(t, &mut res);
            }
        }
        if finish {
            let mut guard = 0;
            while !(res.done[0] && res.done[1]) && guard < 100 {
                guard += 1;
                let t = if res.done[0] { 1 } else { 0 };
                step(t, &mut res);
            }
        }
    }
    let g = store.inner.lock().unwrap();
    res.image = g.objects.clone();
    res.calls = g.log.clone();
    res.tags = g.log_tags.clone();
    res
}

/// Do the two read-modify-write sections on the manifest OVERLAP in this schedule?  (flush: its
/// `get manifest.json` … its `rename`; compaction: likewise.)  The known flush-race findings all
/// need an overlap — one task writes a manifest computed from a snapshot the other has replaced
/// meanwhile.  When the sections are serialized the unchanged tree is correct, so a violation
/// there has ANOTHER cause and must not be absorbed by the listed signatures.
fn manifest_sections_overlap(r: &RaceResult) -> bool {
    let pos = |tag: usize, pred: &dyn Fn(&str) -> bool| -> Option<usize> {
        r.calls.iter().zip(r.tags.iter()).position(|(l, t)| *t == tag && pred(l))
    };
    let is_load = |l: &str| l.contains(":get ") && l.ends_with("manifest.json");
    let is_save = |l: &str| l.contains(":rename ");
    let (fl, fs) = (pos(0, &is_load), pos(0, &is_save));
    let (cl, cs) = (pos(1, &is_load), pos(1, &is_save));
    match (fl, cl) {
        (Some(fl), Some(cl)) => {
            let fs = fs.unwrap_or(usize::MAX);
            let cs = cs.unwrap_or(usize::MAX);
            fl < cs && cl < fs
        }
        _ => false,
    }
}

/// depth-first enumeration of all interleavings at store-call granularity
async fn enumerate_races(out: &mut Out) {
    let mut stack: Vec<Vec<u8>> = vec![vec![]];
    let mut leaves = 0u64;
    let base = [lww_upd("k", b"1", 5, 1, false), lww_upd("l", b"2", 6, 1, false)];
    let n = lww_upd("n", b"9", 7, 1, false);
    while let Some(prefix) = stack.pop() {
        let r = race_run(&prefix, false).await;
        if !(r.done[0] || r.done[1]) {
            for t in [1u8, 0u8] {
                let mut p = prefix.clone();
                p.push(t);
                stack.push(p);
            }
            continue;
        }
        // one task is done: the other runs to completion (a single continuation)
        let r = race_run(&prefix, true).await;
        leaves += 1;
        out.count("interleaving:leaf");
        let sched: String = prefix.iter().map(|t| if *t == 0 { 'F' } else { 'C' }).collect();
        let replay = json!({"schedule": format!("{}(+rest)", sched), "store_calls": r.calls, "flush": r.flush_ok, "compaction": r.compact});
        let rec = recover_image(&r.image, 1).await;
        let refs = refs_complete(&r.image);
        let mut bad = false;
        // cause: the listed flush-race findings need overlapping manifest sections
        let overlap = manifest_sections_overlap(&r);
        out.count(if overlap { "interleaving:manifest-sections-overlap" } else { "interleaving:manifest-sections-serialized" });
        let known = |sig: &str| -> String { if overlap { sig.to_string() } else { format!("{}:with-serialized-manifest-updates", sig) } };
        match fold_of(&rec) {
            None => {
                bad = true;
                out.violation(&known("C13:flush-race:recovery-fails"), "after an interleaving of flush() and compact() the manifest references a deleted / overwritten object: recovery fails", replay.clone());
            }
            Some(f) => {
                let has = |u: &Upd| f.iter().any(|(k, v)| k == &u.0 && *v == MRv::from_real(&u.1));
                if !base.iter().all(|u| has(u)) {
                    bad = true;
                    out.violation(&known("C13:flush-race:compacted-data-lost"), "after an interleaving of flush() and compact() previously flushed updates are gone", replay.clone());
                }
                if r.flush_ok == Some(true) && !has(&n) {
                    bad = true;
                    out.violation(&known("C13:flush-race:confirmed-flush-lost"), "flush() returned Ok while a compaction was running and its update is not recovered (both allocated manifest.next_segment_id; the compactor's put / manifest swap overwrote it)", replay.clone());
                }
            }
        }
        if !refs && !bad {
            out.violation(&known("C13:flush-race:recovery-fails"), "manifest references an incomplete object after an interleaving", replay.clone());
        }
        out.count(if bad { "interleaving:violating" } else { "interleaving:ok" });
        out.case(&format!("race:{}", sched), true);
    }
    out.extra.insert("interleavings_enumerated".into(), json!(leaves));
}

/// correspondence for the one interleaving the model has: flush between the reads and the writes
async fn interleave_case(out: &mut Out) {
    let mut p = Proc::new(out, 1, &[]).await;
    for u in [lww_upd("k", b"1", 5, 1, false), lww_upd("l", b"2", 6, 1, false)] {
        p.push(out, &u);
        p.flush(out).await;
    }
    let n = lww_upd("n", b"9", 7, 1, false);
    p.push(out, &n);
    let c = CCfg { target: 1 << 20, min: 2, maxper: 5, now: 0, ttl: std::time::Duration::ZERO };
    let cstore = p.store.with_tag(1);
    let mut comp = compactor(&cstore, &c);
    {
        let mut g = p.store.inner.lock().unwrap();
        g.gate = Some([0, 0]);
    }
    let waker = noop_waker();
    let mut cx = Context::from_waker(&waker);
    let (fo, co, szf, szc);
    {
        let mut f0 = Box::pin(p.pers.flush());
        let mut f1 = Box::pin(comp.compact());
        let mut fr = None;
        let mut cr = None;
        // compaction: load manifest + the two segment reads; then the whole flush; then the rest
        let sched: Vec<usize> = vec![1, 1, 1, 0, 0, 0, 0, 1, 1, 1, 1, 1, 1, 1, 1];
        for t in sched {
            {
                let mut g = p.store.inner.lock().unwrap();
                g.gate.as_mut().unwrap()[t] += 1;
            }
            if t == 0 && fr.is_none() {
                if let Poll::Ready(r) = f0.as_mut().poll(&mut cx) {
                    fr = Some(r);
                }
            } else if t == 1 && cr.is_none() {
                if let Poll::Ready(r) = f1.as_mut().poll(&mut cx) {
                    cr = Some(r);
                }
            }
            let mut g = p.store.inner.lock().unwrap();
            g.gate.as_mut().unwrap()[t] = 0;
        }
        let fr = fr.expect("flush finished");
        let cr = cr.expect("compaction finished");
        szf = fr.as_ref().ok().and_then(|f| f.segment.as_ref().map(|s| s.size_bytes)).unwrap_or(0);
        fo = match &fr {
            Ok(f) => match &f.segment {
                Some(s) => format!("ok seg={} n={}", s.id, f.deltas_flushed),
                None => "empty".into(),
            },
            Err(_) => "err".into(),
        };
        szc = cr.as_ref().ok().and_then(|c| c.segment_created.as_ref().map(|s| s.size_bytes)).unwrap_or(0);
        co = match &cr {
            Err(CompactionError::NothingToCompact) => "nothing".to_string(),
            Err(_) => "err".to_string(),
            Ok(c) => match &c.segment_created {
                Some(s) => format!("compacted [{}] -> {} n={} tombs={}", c.segments_removed.iter().map(|s| s.id.to_string()).collect::<Vec<_>>().join(","), s.id, s.record_count, c.tombstones_removed),
                None => "emptied".to_string(),
            },
        };
    }
    {
        let mut g = p.store.inner.lock().unwrap();
        g.gate = None;
    }
    let calls = p.store.calls();
    p.log(out, format!("INTERLEAVE {} {} {} {} {} {} {}", c.target, c.min, c.maxper, c.now, c.ttl.as_millis(), szc, szf), format!("flush={} compact={} calls={}", fo, co, calls));
    p.rec(out).await.ok();
    p.commit(out);
    out.count("interleaving:model-correspondence");
}

// ---------------------------------------------------------------------------------------------

fn split_groups(rng: &mut Rng, ups: &[Upd]) -> Vec<Vec<Upd>> {
    let ng = rng.range(2, 6) as usize;
    let mut g: Vec<Vec<Upd>> = vec![Vec::new(); ng];
    for u in ups {
        let copies = if rng.chance(1, 8) { 2 } else { 1 };
        for _ in 0..copies {
            g[rng.below(ng as u64) as usize].push(u.clone());
        }
    }
    g.retain(|x| !x.is_empty());
    g
}

async fn random_case(out: &mut Out, rng: &mut Rng) {
    let mode = rng.below(4);
    let ups: Vec<Upd> = if mode == 0 {
        // single replica, strictly increasing stamps per key, no expiry: keep-latest agrees with merge
        // stamps near 0, near 2^63 and near u64::MAX
        let base: u64 = *rng.pick(&[0u64, 0, 0, (1u64 << 63) - 25, u64::MAX - 80]);
        out.count(&format!("stamps:{}", if base == 0 { "small" } else if base < (1u64 << 63) { "around-2^63" } else { "near-u64-max" }));
        let mut clock = base + rng.range(1, 30);
        (0..rng.range(3, 14))
            .map(|_| {
                clock += rng.range(1, 3);
                let key = *rng.pick(&["k", "k2", "é", "t"]);
                if rng.chance(1, 5) {
                    tomb_upd(key, clock, 1)
                } else {
                    lww_upd(key, format!("v{}", rng.below(40)).as_bytes(), clock, 1, false)
                }
            })
            .collect()
    } else {
        gen_updates(rng, out, 16)
    };
    if ups.is_empty() {
        return;
    }
    let groups = split_groups(rng, &ups);
    if groups.is_empty() {
        return;
    }
    // configuration is generated input, extremes included
    let target: u64 = match rng.below(8) {
        0 => 260,
        1 | 2 => 400,
        3 => if rng.chance(1, 2) { 0 } else { 1 },
        _ => 1 << 20,
    };
    let max_t = ups.iter().map(|u| u.1.timestamp.time).max().unwrap_or(0);
    use std::time::Duration;
    let (now, ttl): (u64, Duration) = match rng.below(10) {
        // cutoff given directly (ttl 0): none / mid-range / above every stamp
        0 | 1 => (0, Duration::ZERO),
        2 => (rng.below(max_t.saturating_add(2).max(1)), Duration::ZERO),
        3 => (max_t.saturating_add(1), Duration::ZERO),
        // a clock ahead of the stamps and a typical TTL
        4 => (max_t.saturating_add(5000), Duration::from_millis(rng.range(1, 6000))),
        5 => (max_t.saturating_add(1), Duration::from_millis(1)),
        // TTL beyond `now`: nothing may be collected
        6 => (max_t.saturating_add(1), Duration::from_millis(max_t.saturating_add(1).saturating_add(rng.below(3)))),
        7 => (*rng.pick(&[max_t.saturating_add(1), 1_700_000_000_000u64.max(max_t), u64::MAX]),
              *rng.pick(&[Duration::from_millis((1u64 << 63) - 1), Duration::from_millis(1u64 << 63), Duration::from_millis(u64::MAX), Duration::MAX])),
        // 2^64 + 384 ms: `as_millis() as u64` wraps to 384 ms (known finding ttl-truncated-to-u64)
        8 => (max_t.saturating_add(1000), Duration::from_secs(18446744073709552)),
        _ => (1_700_000_000_000u64.max(max_t), Duration::from_secs(24 * 3600)),
    };
    let min = *rng.pick(&[0u64, 1, 1, 2, 2, 3, 1 << 40]);
    let maxper = if rng.chance(1, 2) { 2 } else { *rng.pick(&[0u64, 1, 2, 3, 4, 5, 1 << 40]) };
    out.count(&format!("config:ttl:{}", if ttl.is_zero() { "0" } else if ttl.as_millis() >= (1u128 << 64) { ">=2^64ms" } else if ttl.as_millis() >= (1u128 << 63) { ">=2^63ms" } else if ttl.as_millis() > now as u128 { ">now" } else { "<=now" }));
    out.count(&format!("config:min={}", if min > 5 { "huge".to_string() } else { min.to_string() }));
    out.count(&format!("config:maxper={}", if maxper > 5 { "huge".to_string() } else { maxper.to_string() }));
    out.count(&format!("config:target={}", if target > 1000 { "huge".to_string() } else { target.to_string() }));
    let c = CCfg { target, min, maxper, now, ttl };
    // 1/3 of the layouts: one read of the pass comes back mangled (or fails)
    let rf = if rng.chance(1, 3) {
        let f = match rng.below(5) {
            0 => Fault::Fail,
            1 => Fault::ReadEmpty { persistent: false },
            2 => Fault::ReadTrunc { permille: rng.below(1001) as u16, persistent: false },
            _ => Fault::ReadFlip { permille: *rng.pick(&[0u16, 10, 40, 90, 150, 300, 450, 600, 750, 900, 960, 990, 999]), n: rng.range(1, 3) as u8, mask: if rng.chance(1, 2) { 1 << rng.below(8) } else { rng.range(1, 255) as u8 }, persistent: false },
        };
        Some((rng.below(groups.len() as u64), f))
    } else {
        None
    };
    layout_case(out, &groups, &c, rf, if mode == 0 { "single-replica-monotone" } else { "multi-replica" }, false).await;
}

pub fn run(a: &Args) {
    let mut out = Out::new(&a.out);
    let mut rng = Rng::new(a.seed);
    let rt = tokio::runtime::Builder::new_current_thread().enable_all().build().unwrap();
    rt.block_on(async {
        {
            let mark = out.n_ops();
            let o = &mut out;
            let r = crate::c12::guarded(async {
        let all = CCfg { target: 1 << 20, min: 2, maxper: 5, now: 0, ttl: std::time::Duration::ZERO };
        // corpus: the kernel-checked counterexamples of Props/C13.lean on the real code
        layout_case(&mut *o, &[vec![lww_upd("k", b"1", 5, 1, false)], vec![lww_upd("k", b"2", 5, 2, false)]], &all, None, "corpus:equal-times", true).await;
        let mut e1 = lww_upd("e", b"1", 3, 1, false);
        e1.1.expiry_ms = Some(100000);
        layout_case(&mut *o, &[vec![e1], vec![lww_upd("e", b"2", 4, 1, false)]], &all, None, "corpus:expiry", true).await;
        layout_case(&mut *o, &[vec![hash_upd("h", &[("f", b"1", 1, 1)], 1, 1)], vec![hash_upd("h", &[("g", b"2", 2, 2)], 2, 2)]], &all, None, "corpus:hash", true).await;
        // older value in a segment over the size target; the tombstone IS older than the cutoff
        let big: Vec<Upd> = std::iter::once(lww_upd("t", b"x", 3, 1, false))
            .chain((0..12).map(|i| lww_upd(&format!("pad{}", i), &[b'x'; 30], 1, 1, false)))
            .collect();
        layout_case(&mut *o, &[big, vec![tomb_upd("t", 5, 1)], vec![lww_upd("u", b"1", 6, 1, false)]],
            &CCfg { target: 1000, min: 2, maxper: 5, now: 100, ttl: std::time::Duration::ZERO }, None, "corpus:older-value-in-skipped-segment", true).await;
        // the dropped tombstone carries an expiry (record_delete keeps expiry_ms) that the merge with a
        // newer value in an uncompacted segment retains (max of expiries): GC removes it
        let mut v13 = lww_upd("k", b"v13", 5, 1, false);
        v13.1.expiry_ms = Some(2000);
        let mut td = tomb_upd("k", 6, 1);
        td.1.expiry_ms = Some(2000);
        let bigk: Vec<Upd> = std::iter::once(lww_upd("k", b"v16", 8, 1, false))
            .chain((0..12).map(|i| lww_upd(&format!("pad{}", i), &[b'x'; 30], 1, 1, false)))
            .collect();
        layout_case(&mut *o, &[vec![v13], vec![td], bigk],
            &CCfg { target: 1000, min: 2, maxper: 5, now: 100, ttl: std::time::Duration::ZERO }, None, "corpus:expiry-of-dropped-tombstone", true).await;
        // same with the vector clock (Causal mode, two replicas): the dropped tombstone of r1 contributed
        // {r1:2} to the merged vector clock of r2's newer write
        let with_vc = |mut u: Upd, vc: &[(u64, u64)]| -> Upd {
            let mut m = MRv::from_real(&u.1);
            m.vc = Some(vc.iter().cloned().collect());
            u.1 = m.to_real();
            u
        };
        let bigv: Vec<Upd> = std::iter::once(with_vc(lww_upd("k", b"b", 8, 2, false), &[(2, 1)]))
            .chain((0..12).map(|i| lww_upd(&format!("pad{}", i), &[b'x'; 30], 1, 1, false)))
            .collect();
        layout_case(&mut *o, &[vec![with_vc(lww_upd("k", b"a", 5, 1, false), &[(1, 1)])], vec![with_vc(tomb_upd("k", 6, 1), &[(1, 2)])], bigv],
            &CCfg { target: 1000, min: 2, maxper: 5, now: 100, ttl: std::time::Duration::ZERO }, None, "corpus:vclock-of-dropped-tombstone", true).await;
        // three candidates of uneven sizes, max_segments_per_compaction = 2: oldest-first takes the
        // large old segment (k = v1) together with k's expired tombstone — must pass
        let seg0: Vec<Upd> = std::iter::once(lww_upd("k", b"v1", 10, 1, false))
            .chain((0..8).map(|i| lww_upd(&format!("pad{}", i), b"padding-value", 11 + i, 1, false)))
            .collect();
        layout_case(&mut *o, &[seg0, vec![tomb_upd("k", 20, 1)], vec![lww_upd("x", b"1", 30, 1, false)]],
            &CCfg { target: 1 << 20, min: 2, maxper: 2, now: 100, ttl: std::time::Duration::ZERO }, None, "corpus:uneven-candidates-maxper-2", true).await;
        // one read of the pass comes back with a flipped byte in the record region (checksum fails,
        // some positions still decode): the segment must be skipped, recovery unchanged
        for pm in [350u16, 450, 550, 650, 750, 850] {
            layout_case(&mut *o, &[vec![lww_upd("k", b"value-one", 5, 1, false)], vec![lww_upd("l", b"value-two", 6, 1, false)], vec![lww_upd("m", b"value-three", 7, 1, false)]],
                &CCfg { target: 1 << 20, min: 1, maxper: 5, now: 0, ttl: std::time::Duration::ZERO }, Some((1, Fault::ReadFlip { permille: pm, n: 1, mask: 1, persistent: false })), "corpus:pass-read-flip", true).await;
        }
        // tombstone GC in a pass that SKIPPED the older segment holding the key's value (its read
        // came back empty): the tombstone is dropped, the value resurfaces
        layout_case(&mut *o, &[vec![lww_upd("k", b"old", 5, 1, false)], vec![tomb_upd("k", 8, 1)], vec![lww_upd("u", b"1", 9, 1, false)]],
            &CCfg { target: 1 << 20, min: 2, maxper: 5, now: 100, ttl: std::time::Duration::ZERO }, Some((0, Fault::ReadEmpty { persistent: false })), "corpus:gc-skipped-unreadable-segment", true).await;
        // "never collect": TTL u64::MAX ms / Duration::MAX — no tombstone may be dropped (cutoff 0)
        for ttl in [std::time::Duration::from_millis(u64::MAX), std::time::Duration::MAX, std::time::Duration::from_millis(1u64 << 63)] {
            let big2: Vec<Upd> = std::iter::once(lww_upd("t", b"x", 3, 1, false))
                .chain((0..12).map(|i| lww_upd(&format!("pad{}", i), &[b'x'; 30], 1, 1, false)))
                .collect();
            layout_case(&mut *o, &[big2, vec![tomb_upd("t", 5, 1)], vec![lww_upd("u", b"1", 6, 1, false)]],
                &CCfg { target: 1000, min: 2, maxper: 5, now: 1000, ttl }, None, "corpus:ttl-never-collect", true).await;
        }
        // TTL 2^64 + 384 ms: `as_millis() as u64` wraps to 384 ms
        let big3: Vec<Upd> = std::iter::once(lww_upd("t", b"x", 3, 1, false))
            .chain((0..12).map(|i| lww_upd(&format!("pad{}", i), &[b'x'; 30], 1, 1, false)))
            .collect();
        layout_case(&mut *o, &[big3, vec![tomb_upd("t", 5, 1)], vec![lww_upd("u", b"1", 6, 1, false)]],
            &CCfg { target: 1000, min: 2, maxper: 5, now: 1000, ttl: std::time::Duration::from_secs(18446744073709552) }, None, "corpus:ttl-wraps-u64", true).await;
            }).await;
            if let Err(msg) = r {
                crate::c12::report_panic(&mut out, "C13", "corpus", "witnesses of Props/C13.lean", mark, &msg);
            }
        }
        { let mark = out.n_ops(); if let Err(msg) = crate::c12::guarded(production_clock_witness(&mut out)).await { crate::c12::report_panic(&mut out, "C13", "production-clock", "witness", mark, &msg); } }
        { let mark = out.n_ops(); if let Err(msg) = crate::c12::guarded(interleave_case(&mut out)).await { crate::c12::report_panic(&mut out, "C13", "interleave", "model interleaving", mark, &msg); } }
        { let mark = out.n_ops(); if let Err(msg) = crate::c12::guarded(enumerate_races(&mut out)).await { crate::c12::report_panic(&mut out, "C13", "races", "enumeration", mark, &msg); } }
        for i in 0..a.n {
            let mut r = rng.fork();
            let mark = out.n_ops();
            if let Err(msg) = crate::c12::guarded(random_case(&mut out, &mut r)).await {
                crate::c12::report_panic(&mut out, "C13", "layout", &format!("seed {} case {}", a.seed, i), mark, &msg);
            }
        }
        // histories (repeated compactions), compact_if_needed / max_segments
        { let mark = out.n_ops(); if let Err(msg) = crate::c12::guarded(crate::c13x::run_all(&mut out, &mut rng, a.n / 8 + 20, false)).await { crate::c12::report_panic(&mut out, "C13", "histories", &format!("seed {}", a.seed), mark, &msg); } }
    });
    // the real CompactionWorker loop under tokio's paused clock
    let rt2 = tokio::runtime::Builder::new_current_thread().enable_all().start_paused(true).build().unwrap();
    rt2.block_on(async {
        { let mark = out.n_ops(); if let Err(msg) = crate::c12::guarded(crate::c13x::run_all(&mut out, &mut rng, a.n / 40 + 10, true)).await { crate::c12::report_panic(&mut out, "C13", "compaction-worker", &format!("seed {}", a.seed), mark, &msg); } }
    });
    let _ = (hex(b""), ReplicatedValue::new(ReplicaId::new(1)));
    crate::stream_api::report(&mut out, "C13");
    out.finish("case = one segment layout: an update set (single replica with monotone stamps, or 1..3 replicas × 1..16 shards with interleaved clocks, hashes, tombstones, expiries, 1/8 type changes) split into 2..6 segments (1/8 duplicated) by the real StreamingPersistence, compacted by the real Compactor under a generated configuration (size target below some segments 1/2, max-per-compaction 2 (1/2) or 2..5, min 1..3, tombstone cutoff 0 / mid-range / above all stamps), recovered before and after; plus the exhaustive enumeration of all store-call interleavings of compact() and flush() on a 2-segment store; distinct by op text / schedule; non-trivial iff a compacted segment was written from ≥ 2 segments, or an interleaving leaf");
}
