//! C02 through the REAL connection handler (hook H1 `verif_hooks::run_connection`), and the script
//! cache as node-global state under SCRIPT FLUSH.
//!
//! **Connections.**  Since fix de38a13 the GET/SET fast path (`try_fast_get/set` → `pooled_fast_*`) and the
//! batch collectors (`collect_get_keys` / `collect_set_pairs` → `fast_batch_*_pipeline`) of
//! `OptimizedConnectionHandler` are LIVE for well-formed frames: "whichever internal path carries a
//! command" is decided by the bytes a connection happens to hold when it looks at its buffer.  2..4
//! client tasks each own one in-memory duplex connection to ONE shared `ShardedActorState` (1, 2, 4, 8
//! shards) under a generated batching configuration (`min_pipeline_buffer`, `batch_threshold`,
//! `read_size`, through the real `validate()`); a client sends its program round by round — a round is
//! ONE pipeline written with one `write_all` (1 frame = the P=1 fast path; runs of plain GET / SET just
//! below / at / above `batch_threshold`; long runs of more than 20 / 32 SETs; the same key several times
//! in a run; GET / SET / other commands mixed) — then reads that round's replies one by one.
//!
//! Two histories come out of one case:
//! * SHARED keys (every client reads and writes them): invocation stamp = before the `write_all` of the
//!   round, response stamp = when the reply was decoded; the operations of one round overlap each other
//!   (pipelining), so real time is under-approximated — may hide, never invents.  Judged by the verified
//!   checker and the Rust checker like every other C02 history (class `conn`).
//! * PRIVATE keys (only the owning connection touches them): a connection's commands take effect in the
//!   order it sent them, whichever path carries them (each reply is written before the next command of
//!   the connection is looked at, a batch's items of one shard are applied in batch order) — the history
//!   of a private key is therefore SEQUENTIAL in program order and is handed to both checkers with
//!   sequential stamps (class `conn-order`).  A batch that applies one connection's writes to one key
//!   out of order, or a reply delivered at the wrong index, has no linearization here.
//!
//! **Script cache.**  EVAL / SCRIPT LOAD make a script known to the NODE, EVALSHA / SCRIPT EXISTS ask the
//! node, SCRIPT FLUSH forgets everything — but only shard 0 executes SCRIPT LOAD / EXISTS / FLUSH while
//! EVAL / EVALSHA run on the shard of KEYS[1].  Per script: a register (`SET 1` = EVAL / LOAD, `SET 0`
//! = FLUSH, `GET` = EVALSHA ran / NOSCRIPT, EXISTS 1 / 0), concurrent clients on every shard, SCRIPT
//! FLUSH only while the other clients are idle (an EVALSHA that overlaps a FLUSH re-publishes the
//! script it just fetched — `execute_lua_script` caches what it runs — which no register explains; the
//! model's requests are per key, the cache is not a key, so that overlap is not claimed).
use super::{judge, Event};
use crate::c03::{h_bytes, r1, script_text, Op};
use crate::out::Out;
use crate::rng::Rng;
use redis_sim::production::{ConnectionConfig, PerformanceConfig, ShardedActorState};
use redis_sim::redis::{Command, RespParser, RespValue};
use serde_json::json;
use std::sync::atomic::{AtomicU64, Ordering};
use std::sync::Arc;
use tokio::io::{AsyncReadExt, AsyncWriteExt};

fn frame_bytes(words: &[Vec<u8>]) -> Vec<u8> {
    let mut b = format!("*{}\r\n", words.len()).into_bytes();
    for w in words {
        b.extend_from_slice(format!("${}\r\n", w.len()).as_bytes());
        b.extend_from_slice(w);
        b.extend_from_slice(b"\r\n");
    }
    b
}

/// the frame of a checker operation; `style` varies the spelling of the command name
fn frame_of(op: &Op, style: u64) -> Vec<u8> {
    let name = |s: &str| -> Vec<u8> {
        match style % 4 {
            1 => s.to_lowercase().into_bytes(),
            2 => s.chars().enumerate().map(|(i, c)| if i % 2 == 0 { c.to_ascii_lowercase() } else { c }).collect::<String>().into_bytes(),
            _ => s.as_bytes().to_vec(),
        }
    };
    let mut w = vec![name(op.name), op.keys[0].clone()];
    w.extend(op.vals.iter().cloned());
    frame_bytes(&w)
}

struct Round {
    ops: Vec<Op>,
    bytes: Vec<u8>,
}

/// one client's view: (op, invocation stamp, response stamp, reply) in program order
type Done = Vec<(Op, u64, u64, String)>;

async fn client(mut cli: tokio::io::DuplexStream, clock: Arc<AtomicU64>, rounds: Vec<Round>) -> Result<Done, String> {
    let mut done = Vec::new();
    let mut buf: Vec<u8> = Vec::new();
    for r in rounds {
        let id0 = clock.fetch_add(r.ops.len() as u64, Ordering::SeqCst);
        cli.write_all(&r.bytes).await.map_err(|e| format!("write: {}", e))?;
        for (j, op) in r.ops.into_iter().enumerate() {
            let reply = loop {
                if !buf.is_empty() {
                    if let Ok((v, used)) = RespParser::parse(&buf) {
                        buf.drain(..used);
                        break v;
                    }
                }
                let mut tmp = [0u8; 8192];
                let n = match tokio::time::timeout(std::time::Duration::from_secs(20), cli.read(&mut tmp)).await {
                    Ok(Ok(n)) => n,
                    Ok(Err(e)) => return Err(format!("read: {}", e)),
                    Err(_) => return Err(format!("no reply to `{}` within 20 s ({} replies of this connection received so far)", op.line(), done.len())),
                };
                if n == 0 {
                    return Err(format!("the server closed the connection before answering `{}`", op.line()));
                }
                buf.extend_from_slice(&tmp[..n]);
            };
            let d = clock.fetch_add(1, Ordering::SeqCst);
            done.push((op, id0 + j as u64, d, r1(&reply)));
        }
        tokio::task::yield_now().await;
    }
    if !buf.is_empty() {
        return Err(format!("{} surplus bytes after the last reply", buf.len()));
    }
    Ok(done)
}

fn gen_op(rng: &mut Rng, k: &[u8], serial: &mut u64, plain_only: bool) -> Op {
    *serial += 1;
    let v = format!("w{}", serial).into_bytes();
    if plain_only {
        return if rng.chance(1, 2) { Op::k("GET", k) } else { Op::kv("SET", k, &v) };
    }
    match rng.below(12) {
        0..=3 => Op::k("GET", k),
        4..=7 => Op::kv("SET", k, &v),
        8 => Op::kv("APPEND", k, b"+"),
        9 => Op::k("STRLEN", k),
        10 => Op::k("GETDEL", k),
        _ => Op::kv("SETNX", k, &v),
    }
}

/// `shape`: Some(i) = the i-th fixed case (runs first on every run), None = drawn
pub async fn conn_case(out: &mut Out, rng: &mut Rng, fixed: bool, shape: Option<usize>) {
    let n = match shape {
        Some(i) => [2usize, 4, 2, 8, 1, 4][i % 6],
        None => *rng.pick(&[1usize, 2, 2, 4, 4, 8]),
    };
    let threshold = match shape {
        Some(i) => [2usize, 2, 3, 1, 2, 8][i % 6],
        None => *rng.pick(&[1usize, 2, 2, 3, 8]),
    };
    let min_pipeline = match shape {
        Some(i) => [60usize, 60, 16, 1, 60, 200][i % 6],
        None => *rng.pick(&[1usize, 16, 60, 60, 200]),
    };
    let read_size = if shape.is_some() || rng.chance(3, 4) { 8192usize } else { *rng.pick(&[64usize, 256]) };
    let mut pc = PerformanceConfig::default();
    pc.buffers.read_size = read_size;
    pc.batching.min_pipeline_buffer = min_pipeline;
    pc.batching.batch_threshold = threshold;
    if pc.validate().is_err() {
        out.count("conn:config-rejected");
        return;
    }
    let ccfg = ConnectionConfig::from_perf_config(&pc.buffers, &pc.batching);
    let state = ShardedActorState::with_shards(n);
    let clients = match shape {
        Some(_) => 3,
        None => rng.range(2, 4) as usize,
    };
    // shared keys: at most 9 operations each (they all may overlap); private keys: three per client, on
    // as many different shards as the pool gives
    let pool = super::pool();
    let mut cand: Vec<Vec<u8>> = pool.iter().filter(|k| !super::mismatched(k, n, fixed)).cloned().collect();
    rng.shuffle(&mut cand);
    let shared: Vec<Vec<u8>> = cand.iter().take(rng.range(1, 2) as usize).cloned().collect();
    let mut shared_budget: Vec<usize> = shared.iter().map(|_| 9).collect();
    let mut serial = 0u64;
    let mut programs: Vec<Vec<Round>> = Vec::new();
    let mut text: Vec<Vec<String>> = Vec::new();
    for c in 0..clients {
        let mut own: Vec<Vec<u8>> = Vec::new();
        for i in 0..200 {
            let k = format!("own:{}:{}", c, i).into_bytes();
            if super::mismatched(&k, n, fixed) {
                continue;
            }
            if own.len() < 3 && (own.iter().all(|x| h_bytes(x, n) != h_bytes(&k, n)) || i > 150) {
                own.push(k);
            }
        }
        let mut own_count = vec![0usize; own.len()];
        let mut rounds: Vec<Round> = Vec::new();
        let nrounds = match shape {
            Some(_) => 4,
            None => rng.range(2, 5),
        };
        for r in 0..nrounds {
            // the plan of this round
            let kind = match shape {
                Some(i) => (i + r as usize + c) % 5,
                None => rng.below(5) as usize,
            };
            let mut ops: Vec<Op> = Vec::new();
            let push_own = |ops: &mut Vec<Op>, own_count: &mut Vec<usize>, rng: &mut Rng, serial: &mut u64, plain: bool, which: Option<usize>| {
                let i = which.unwrap_or_else(|| rng.below(own.len() as u64) as usize);
                if own_count[i] < 50 {
                    own_count[i] += 1;
                    ops.push(gen_op(rng, &own[i], serial, plain));
                }
            };
            match kind {
                // a LONG run of plain SETs on the private keys (every key many times), then plain GETs
                0 => {
                    let len = *rng.pick(&[21usize, 24, 33, 40]);
                    for _ in 0..len {
                        let i = rng.below(own.len() as u64) as usize;
                        if own_count[i] < 46 {
                            own_count[i] += 1;
                            serial += 1;
                            ops.push(Op::kv("SET", &own[i], format!("w{}", serial).as_bytes()));
                        }
                    }
                    for i in 0..own.len() {
                        own_count[i] += 1;
                        ops.push(Op::k("GET", &own[i]));
                    }
                }
                // P = 1: one frame per round
                1 => {
                    let plain = rng.chance(2, 3);
                    if rng.chance(1, 2) && shared_budget[0] > 0 {
                        shared_budget[0] -= 1;
                        ops.push(gen_op(rng, &shared[0], &mut serial, plain));
                    } else {
                        push_own(&mut ops, &mut own_count, rng, &mut serial, plain, None);
                    }
                }
                // runs of plain GET / SET just below / at / above the threshold, on few keys
                2 | 3 => {
                    for _ in 0..rng.range(1, 3) {
                        let len = *rng.pick(&[threshold.saturating_sub(1).max(1), threshold, threshold + 1]);
                        let set = rng.chance(1, 2);
                        let which = rng.below(own.len() as u64) as usize;
                        for j in 0..len {
                            let si = rng.below(shared.len() as u64) as usize;
                            if rng.chance(1, 3) && shared_budget[si] > 0 {
                                shared_budget[si] -= 1;
                                serial += 1;
                                ops.push(if set { Op::kv("SET", &shared[si], format!("w{}", serial).as_bytes()) } else { Op::k("GET", &shared[si]) });
                            } else {
                                let i = if j % 2 == 0 { which } else { rng.below(own.len() as u64) as usize };
                                if own_count[i] < 50 {
                                    own_count[i] += 1;
                                    serial += 1;
                                    ops.push(if set { Op::kv("SET", &own[i], format!("w{}", serial).as_bytes()) } else { Op::k("GET", &own[i]) });
                                }
                            }
                        }
                        if kind == 3 {
                            // one generic command between the runs, on a key of the run
                            push_own(&mut ops, &mut own_count, rng, &mut serial, false, Some(which));
                        }
                    }
                }
                // GET / SET / other commands mixed on one or two keys
                _ => {
                    for _ in 0..rng.range(3, 10) {
                        let si = rng.below(shared.len() as u64) as usize;
                        if rng.chance(1, 3) && shared_budget[si] > 0 {
                            shared_budget[si] -= 1;
                            ops.push(gen_op(rng, &shared[si], &mut serial, false));
                        } else {
                            let which = rng.below(2.min(own.len() as u64)) as usize;
                            push_own(&mut ops, &mut own_count, rng, &mut serial, false, Some(which));
                        }
                    }
                }
            }
            if ops.is_empty() {
                continue;
            }
            out.count(&format!("conn:round-kind:{}", ["long-set-run", "single-frame", "runs-at-threshold", "runs+generic", "mixed"][kind]));
            let mut bytes = Vec::new();
            for o in &ops {
                bytes.extend_from_slice(&frame_of(o, rng.below(8)));
            }
            rounds.push(Round { ops, bytes });
        }
        text.push(rounds.iter().map(|r| r.ops.iter().map(|o| o.line()).collect::<Vec<_>>().join(" | ")).collect());
        programs.push(rounds);
    }
    out.count("class:conn");
    out.count(&format!("conn:shards={}", n));
    out.count(&format!("conn:batch_threshold={}", threshold));
    out.count(&format!("conn:min_pipeline_buffer={}", min_pipeline));
    out.count(&format!("conn:read_size={}", read_size));
    let clock = Arc::new(AtomicU64::new(1));
    let mut handles = Vec::new();
    for rounds in programs {
        let (cli, srv) = tokio::io::duplex(1 << 20);
        tokio::spawn(redis_sim::production::verif_hooks::run_connection(srv, state.clone(), ccfg.clone()));
        handles.push(tokio::spawn(client(cli, clock.clone(), rounds)));
    }
    let replay = json!({"shards": n, "batch_threshold": threshold, "min_pipeline_buffer": min_pipeline, "read_size": read_size, "connections": text});
    let mut per_client: Vec<Done> = Vec::new();
    for (c, h) in handles.into_iter().enumerate() {
        match h.await.expect("connection client") {
            Ok(d) => per_client.push(d),
            Err(e) => {
                out.violation(
                    &format!("C02:request-never-answered:conn:shards={}", n),
                    &format!("{} shards, {} connections through the real connection handler (batch_threshold {}, min_pipeline_buffer {}): connection {}: {}", n, clients, threshold, min_pipeline, c, e),
                    replay.clone(),
                );
                return;
            }
        }
    }
    // history 1: the shared keys, real-time stamps
    let is_shared = |k: &Vec<u8>| shared.contains(k);
    let mut events: Vec<Event> = Vec::new();
    for d in &per_client {
        for (op, inv, res, reply) in d {
            if is_shared(&op.keys[0]) {
                events.push(Event { stamp: *inv, id: *inv, inv: Some(op.clone()), res: None });
                events.push(Event { stamp: *res, id: *inv, inv: None, res: Some(reply.clone()) });
            }
        }
    }
    events.sort_by_key(|e| e.stamp);
    if !events.is_empty() {
        judge(out, events, "conn", n, clients, fixed, None);
    }
    // history 2: the private keys, in the order their connection sent the commands
    let mut events: Vec<Event> = Vec::new();
    for (c, d) in per_client.iter().enumerate() {
        let mut j = 0u64;
        for (op, _, _, reply) in d {
            if !is_shared(&op.keys[0]) {
                let id = (c as u64 + 1) * 1_000_000 + 2 * j;
                events.push(Event { stamp: id, id, inv: Some(op.clone()), res: None });
                events.push(Event { stamp: id + 1, id, inv: None, res: Some(reply.clone()) });
                j += 1;
            }
        }
    }
    events.sort_by_key(|e| e.stamp);
    if !events.is_empty() {
        judge(out, events, "conn-order", n, clients, fixed, None);
    }
}

// ───────────────────────── the script cache under SCRIPT FLUSH ─────────────────────────

#[derive(Clone, Debug)]
enum SOp {
    Load(u64),
    Exists(u64),
    Eval(u64, Vec<u8>),
    EvalSha(u64, Vec<u8>),
    Flush,
}

impl SOp {
    fn text(&self) -> String {
        let k = |k: &Vec<u8>| String::from_utf8_lossy(k).to_string();
        match self {
            SOp::Load(i) => format!("SCRIPT LOAD s{}", i),
            SOp::Exists(i) => format!("SCRIPT EXISTS sha(s{})", i),
            SOp::Eval(i, key) => format!("EVAL s{} 1 {}", i, k(key)),
            SOp::EvalSha(i, key) => format!("EVALSHA sha(s{}) 1 {}", i, k(key)),
            SOp::Flush => "SCRIPT FLUSH".into(),
        }
    }
}

/// scripts used here: `script_text(10 + i)` (GET of KEYS[1]; distinct bodies, so distinct SHA1s)
const NSCRIPTS: u64 = 3;

fn reg_key(i: u64) -> Vec<u8> {
    format!("script-cache:s{}", i).into_bytes()
}

async fn run_sop(st: &ShardedActorState, shas: &[String], clock: &AtomicU64, op: &SOp) -> Vec<Event> {
    let s = |k: &Vec<u8>| String::from_utf8(k.clone()).unwrap();
    // FLUSH writes every register
    let width = if matches!(op, SOp::Flush) { NSCRIPTS } else { 1 };
    let id0 = clock.fetch_add(width, Ordering::SeqCst);
    let reply = match op {
        SOp::Load(i) => st.execute(&Command::ScriptLoad(script_text(10 + i))).await,
        SOp::Exists(i) => st.execute(&Command::ScriptExists(vec![shas[*i as usize].clone()])).await,
        SOp::Eval(i, k) => st.execute(&Command::Eval { script: script_text(10 + i), keys: vec![s(k)], args: vec![] }).await,
        SOp::EvalSha(i, k) => st.execute(&Command::EvalSha { sha1: shas[*i as usize].clone(), keys: vec![s(k)], args: vec![] }).await,
        SOp::Flush => st.execute(&Command::ScriptFlush).await,
    };
    let d0 = clock.fetch_add(width, Ordering::SeqCst);
    let one = b"1".to_vec();
    let zero = b"0".to_vec();
    let bulk = |v: &[u8]| format!("b:{}", crate::enc::hex(v));
    let mut evs = Vec::new();
    let mut push = |j: u64, o: Op, r: String| {
        evs.push(Event { stamp: id0 + j, id: id0 + j, inv: Some(o), res: None });
        evs.push(Event { stamp: d0 + j, id: id0 + j, inv: None, res: Some(r) });
    };
    match op {
        SOp::Load(i) => {
            let ok = matches!(&reply, RespValue::BulkString(Some(x)) if x == shas[*i as usize].as_bytes());
            push(0, Op::kv("SET", &reg_key(*i), &one), if ok { "ok".into() } else { format!("e:?load:{}", r1(&reply)) });
        }
        SOp::Eval(i, _) => {
            let ok = !matches!(&reply, RespValue::Error(_));
            push(0, Op::kv("SET", &reg_key(*i), &one), if ok { "ok".into() } else { format!("e:?eval:{}", r1(&reply)) });
        }
        SOp::Exists(i) => {
            let r = match &reply {
                RespValue::Array(Some(v)) if v.len() == 1 => match &v[0] {
                    RespValue::Integer(1) => bulk(&one),
                    RespValue::Integer(0) => bulk(&zero),
                    o => format!("e:?exists:{}", r1(o)),
                },
                o => format!("e:?exists:{}", r1(o)),
            };
            push(0, Op::k("GET", &reg_key(*i)), r);
        }
        SOp::EvalSha(i, _) => {
            let r = match &reply {
                RespValue::Error(e) if e.starts_with("NOSCRIPT") => bulk(&zero),
                RespValue::Error(e) => format!("e:?evalsha:{}", e.replace(' ', "_")),
                _ => bulk(&one),
            };
            push(0, Op::k("GET", &reg_key(*i)), r);
        }
        SOp::Flush => {
            for i in 0..NSCRIPTS {
                push(i, Op::kv("SET", &reg_key(i), &zero), r1(&reply));
            }
        }
    }
    evs
}

/// `corpus`: the fixed sequential sessions (every shard uses a script by EVALSHA and by EVAL before a
/// SCRIPT FLUSH and again after it); else phases of concurrent clients with lone flushes in between
pub async fn script_cache_case(out: &mut Out, rng: &mut Rng, fixed: bool, corpus: Option<usize>) {
    let n = match corpus {
        Some(i) => [4usize, 2, 8][i % 3],
        None => *rng.pick(&[1usize, 2, 4, 4, 8, 16]),
    };
    let st = Arc::new(ShardedActorState::with_shards(n));
    // the SHA1s, from a scratch instance
    let helper = ShardedActorState::with_shards(1);
    let mut shas = Vec::new();
    for i in 0..NSCRIPTS {
        shas.push(match helper.execute(&Command::ScriptLoad(script_text(10 + i))).await {
            RespValue::BulkString(Some(x)) => String::from_utf8_lossy(&x).to_string(),
            _ => String::new(),
        });
    }
    let shas = Arc::new(shas);
    // one key per shard (as far as the pool reaches)
    let mut keys: Vec<Vec<u8>> = Vec::new();
    for k in super::pool() {
        if !super::mismatched(&k, n, fixed) && keys.iter().all(|x| h_bytes(x, n) != h_bytes(&k, n)) {
            keys.push(k);
        }
    }
    let clock = Arc::new(AtomicU64::new(1));
    let mut events: Vec<Event> = Vec::new();
    let mut text: Vec<String> = Vec::new();
    // phases: Ok(programs) = concurrent clients, Err(()) = one lone SCRIPT FLUSH
    let mut phases: Vec<Result<Vec<Vec<SOp>>, ()>> = vec![Err(())];
    match corpus {
        Some(_) => {
            // EVALSHA on every shard, flush, EVALSHA on every shard (NOSCRIPT everywhere), EXISTS
            let mut p = vec![SOp::Load(0)];
            p.extend(keys.iter().map(|k| SOp::EvalSha(0, k.clone())));
            p.extend(keys.iter().map(|k| SOp::Eval(1, k.clone())));
            phases.push(Ok(vec![p]));
            phases.push(Err(()));
            let mut p = vec![SOp::Exists(0), SOp::Exists(1)];
            p.extend(keys.iter().map(|k| SOp::EvalSha(0, k.clone())));
            p.extend(keys.iter().map(|k| SOp::EvalSha(1, k.clone())));
            phases.push(Ok(vec![p]));
            // EVAL on a shard that has EVALed the script before the flush, then everybody knows it again
            // (four shards at most: ≤ 60 operations per register)
            for (j, k) in keys.iter().enumerate().take(4) {
                let other = keys[(j + 1) % keys.len()].clone();
                phases.push(Ok(vec![vec![SOp::Eval(1, k.clone()), SOp::Exists(1), SOp::EvalSha(1, other)]]));
                phases.push(Err(()));
                phases.push(Ok(vec![vec![SOp::EvalSha(1, k.clone()), SOp::Exists(1)]]));
            }
        }
        None => {
            for _ in 0..rng.range(2, 4) {
                let clients = rng.range(2, 4) as usize;
                let mut progs: Vec<Vec<SOp>> = vec![Vec::new(); clients];
                // ≤ 9 operations per register and phase in all
                let mut budget = vec![3usize; NSCRIPTS as usize];
                for i in 0..rng.range(4, 9) as usize {
                    let sc = rng.below(NSCRIPTS);
                    if budget[sc as usize] == 0 {
                        continue;
                    }
                    budget[sc as usize] -= 1;
                    let k = keys[rng.below(keys.len() as u64) as usize].clone();
                    progs[i % clients].push(match rng.below(10) {
                        0 => SOp::Load(sc),
                        1 | 2 => SOp::Eval(sc, k),
                        3 | 4 => SOp::Exists(sc),
                        _ => SOp::EvalSha(sc, k),
                    });
                }
                phases.push(Ok(progs));
                if rng.chance(2, 3) {
                    phases.push(Err(()));
                }
            }
            // after the last flush: every shard once more
            let mut p: Vec<SOp> = Vec::new();
            let sc = rng.below(NSCRIPTS);
            p.extend(keys.iter().map(|k| SOp::EvalSha(sc, k.clone())));
            phases.push(Ok(vec![p]));
        }
    }
    let mut max_clients = 1;
    for ph in phases {
        match ph {
            Err(()) => {
                text.push("[alone] SCRIPT FLUSH".into());
                events.extend(run_sop(&st, &shas, &clock, &SOp::Flush).await);
            }
            Ok(progs) => {
                max_clients = max_clients.max(progs.len());
                text.push(format!("[concurrently] {}", progs.iter().map(|p| p.iter().map(|o| o.text()).collect::<Vec<_>>().join("; ")).collect::<Vec<_>>().join("  ||  ")));
                let mut hs = Vec::new();
                for p in progs {
                    let (st, shas, clock) = (st.clone(), shas.clone(), clock.clone());
                    hs.push(tokio::spawn(async move {
                        let mut evs = Vec::new();
                        for o in p {
                            evs.extend(run_sop(&st, &shas, &clock, &o).await);
                            tokio::task::yield_now().await;
                        }
                        evs
                    }));
                }
                for h in hs {
                    events.extend(h.await.expect("script client"));
                }
            }
        }
    }
    events.sort_by_key(|e| e.stamp);
    out.count(&format!("script-cache:shards={}", n));
    out.extra.insert("script_cache_history_encoding".into(), json!("one register per script: `script-cache:s<i>`; SET 1 = EVAL / SCRIPT LOAD, SET 0 = SCRIPT FLUSH (every register), GET = EVALSHA (1 = ran, 0 = NOSCRIPT) / SCRIPT EXISTS"));
    out.sample(json!({"shards": n, "class": "script-cache", "phases": text}));
    judge(out, events, "script-cache", n, max_clients, fixed, None);
}
