//! C02 — ENUMERATED schedules.  The histories of `c02.rs` are sampled by the multi-thread runtime;
//! here the interleaving is an INPUT: on a current-thread runtime the request futures of 3 (4)
//! operations are polled BY HAND with a no-op waker, so that every step of the model's transition
//! system (`Model/Actors.lean`) is a scheduled action of the harness:
//!
//!   Invoke(i)  first poll of request i = acquire slot / new channel + mpsc send (`Step.invokePooled`,
//!              `Step.invokeFresh`, `Step.invokeBatch`); the future is then parked
//!   Run        the root task yields: the shard actors drain their mailboxes (`Step.exec` of every
//!              queued message, mailbox order)
//!   Take(i)    poll request i until it is ready = take the value, release / drop the slot
//!              (`Step.retRelease` / `Step.retDrop`)
//!   Drop(i)    drop the parked future = the client gives up (`Step.abandon`), before or after the
//!              shard has answered
//!
//! For every template (3 operations on one or two keys through pooled / fast / generic / batched /
//! script paths), shard count and response-pool configuration, ALL interleavings of the invocations
//! and completions are enumerated (90 for 3 operations), each with every choice of "at most one
//! request abandoned (before / after the shard ran)" and with / without an eager Run after every
//! Invoke: reply-before-enqueue-of-the-next, pooled-slot reuse with a pool of capacity 1, a
//! cancelled request whose slot the next request acquires, a batch racing a pooled write, … are hit
//! on EVERY run, deterministically.  4-operation templates are enumerated in the thorough tier and
//! sampled in the quick one.  Every history goes to the verified checker and the Rust checker
//! (`judge`), plus a direct reply-kind oracle (a SET-like request must be answered `ok`, a GET-like one
//! nil / a bulk string: a reply delivered to the wrong requester shows at once).
use super::*;
use std::future::Future;
use std::pin::Pin;
use std::task::{Context, Poll, Wake, Waker};

#[derive(Clone, Copy, Debug, PartialEq)]
enum Act {
    Invoke(usize),
    Run,
    Take(usize),
    Drop(usize),
}

struct Noop;
impl Wake for Noop {
    fn wake(self: Arc<Self>) {}
}

/// the parked futures are polled by hand: nobody needs to be woken
fn noop_waker() -> Waker {
    Waker::from(Arc::new(Noop))
}

/// the items of a call: a batched call is one single-key operation per key (as in `client`)
fn items(op: &Op) -> Vec<Op> {
    match op.name {
        "BGET" => op.keys.iter().map(|k| Op::new("BGET", vec![k.clone()], vec![])).collect(),
        "BSET" => op.keys.iter().zip(&op.vals).map(|(k, v)| Op::new("BSET", vec![k.clone()], vec![v.clone()])).collect(),
        _ => vec![op.clone()],
    }
}

/// the replies of the items, from the canonical text of the call's reply
fn item_replies(op: &Op, reply: &str) -> Vec<String> {
    match op.name {
        "BGET" | "BSET" => {
            let inner = reply.strip_prefix("m:[").and_then(|r| r.strip_suffix(']')).unwrap_or("");
            let parts: Vec<&str> = if inner.is_empty() { vec![] } else { inner.split(',').collect() };
            (0..op.keys.len()).map(|j| format!("m:[{}]", parts.get(j).copied().unwrap_or("e:?missing"))).collect()
        }
        _ => vec![reply.to_string()],
    }
}

/// can this reply be the answer to this request at all?
fn kind_ok(op: &Op, reply: &str) -> bool {
    let getlike = |r: &str| r == "nil" || r.starts_with("b:") || r.starts_with("e:");
    match op.name {
        "GET" | "FGET" | "PGET" | "EGET" | "GETDEL" | "GETSET" => getlike(reply),
        "SET" | "FSET" | "PSET" => reply == "ok",
        "BGET" => reply.strip_prefix("m:[").and_then(|r| r.strip_suffix(']')).map(getlike).unwrap_or(false),
        "BSET" => reply == "m:[ok]",
        "APPEND" | "STRLEN" | "SETNX" => reply.starts_with("i:") || reply.starts_with("e:"),
        "INCR" | "XINCR" | "EINCR" => reply.starts_with("i:") || reply.starts_with("e:"),
        _ => true,
    }
}

type Fut = Pin<Box<dyn Future<Output = String>>>;

/// run one schedule on a fresh instance; returns the stamped events and a wrong-requester note
async fn exec_schedule(st: Arc<State>, ops: &[Op], sched: &[Act], finals: &[Vec<u8>]) -> (Vec<Event>, Option<String>) {
    let waker = noop_waker();
    let mut cx = Context::from_waker(&waker);
    let mut stamp: u64 = 1;
    let mut events: Vec<Event> = Vec::new();
    let mut futs: Vec<Option<Fut>> = ops.iter().map(|_| None).collect();
    let mut ids: Vec<u64> = vec![0; ops.len()];
    let mut wrong: Option<String> = None;
    let complete = |events: &mut Vec<Event>, stamp: &mut u64, wrong: &mut Option<String>, op: &Op, id0: u64, reply: String| {
        for (j, (item, r)) in items(op).into_iter().zip(item_replies(op, &reply)).enumerate() {
            if !kind_ok(&item, &r) && wrong.is_none() {
                *wrong = Some(format!("`{}` was answered {} — not a reply this request can get", item.line(), r));
            }
            events.push(Event { stamp: *stamp, id: id0 + j as u64, inv: None, res: Some(r) });
            *stamp += 1;
        }
    };
    let run = || async {
        for _ in 0..4 {
            tokio::task::yield_now().await;
        }
    };
    for act in sched {
        match *act {
            Act::Invoke(i) => {
                let op = ops[i].clone();
                ids[i] = stamp;
                for (j, item) in items(&op).into_iter().enumerate() {
                    events.push(Event { stamp, id: ids[i] + j as u64, inv: Some(item), res: None });
                    stamp += 1;
                }
                let st2 = st.clone();
                let mut f: Fut = Box::pin(async move { apply(&st2, &op).await });
                match f.as_mut().poll(&mut cx) {
                    Poll::Ready(r) => complete(&mut events, &mut stamp, &mut wrong, &ops[i], ids[i], r),
                    Poll::Pending => futs[i] = Some(f),
                }
            }
            Act::Run => run().await,
            Act::Take(i) => {
                if let Some(mut f) = futs[i].take() {
                    let mut tries = 0;
                    let r = loop {
                        match f.as_mut().poll(&mut cx) {
                            Poll::Ready(r) => break r,
                            Poll::Pending => {
                                tries += 1;
                                if tries > 200 {
                                    break "e:?never-answered".to_string();
                                }
                                tokio::task::yield_now().await;
                            }
                        }
                    };
                    complete(&mut events, &mut stamp, &mut wrong, &ops[i], ids[i], r);
                }
            }
            Act::Drop(i) => {
                futs[i] = None;
            }
        }
    }
    // whatever is still parked completes now, in request order
    for i in 0..ops.len() {
        if let Some(mut f) = futs[i].take() {
            let mut tries = 0;
            let r = loop {
                match f.as_mut().poll(&mut cx) {
                    Poll::Ready(r) => break r,
                    Poll::Pending => {
                        tries += 1;
                        if tries > 200 {
                            break "e:?never-answered".to_string();
                        }
                        tokio::task::yield_now().await;
                    }
                }
            };
            complete(&mut events, &mut stamp, &mut wrong, &ops[i], ids[i], r);
        }
    }
    run().await;
    // late sequential reads: what the abandoned / completed requests left behind
    for k in finals {
        let op = Op::k("PGET", k);
        let id = stamp;
        events.push(Event { stamp, id, inv: Some(op.clone()), res: None });
        stamp += 1;
        let r = apply(&st, &op).await;
        if !kind_ok(&op, &r) && wrong.is_none() {
            wrong = Some(format!("`{}` was answered {} — not a reply this request can get", op.line(), r));
        }
        events.push(Event { stamp, id, inv: None, res: Some(r) });
        stamp += 1;
    }
    (events, wrong)
}

/// all interleavings of the sequences `seqs` (each kept in order)
fn interleavings(seqs: &[Vec<Act>]) -> Vec<Vec<Act>> {
    fn go(seqs: &[Vec<Act>], pos: &mut Vec<usize>, cur: &mut Vec<Act>, out: &mut Vec<Vec<Act>>) {
        let mut done = true;
        for i in 0..seqs.len() {
            if pos[i] < seqs[i].len() {
                done = false;
                cur.push(seqs[i][pos[i]]);
                pos[i] += 1;
                go(seqs, pos, cur, out);
                pos[i] -= 1;
                cur.pop();
            }
        }
        if done {
            out.push(cur.clone());
        }
    }
    let mut out = Vec::new();
    go(seqs, &mut vec![0; seqs.len()], &mut Vec::new(), &mut out);
    out
}

/// every schedule of `m` operations: interleavings of (Invoke, end) × "at most one operation is
/// abandoned: before a Run / after a Run" × eager Run after every Invoke or not
fn schedules(m: usize) -> Vec<Vec<Act>> {
    let mut all = Vec::new();
    // mode of operation i: 0 = Take, 1 = Drop, 2 = Run then Drop
    let mut modes: Vec<Vec<u8>> = vec![vec![0; m]];
    for i in 0..m {
        for d in [1u8, 2] {
            let mut v = vec![0; m];
            v[i] = d;
            modes.push(v);
        }
    }
    for mode in &modes {
        let seqs: Vec<Vec<Act>> = (0..m)
            .map(|i| match mode[i] {
                0 => vec![Act::Invoke(i), Act::Take(i)],
                _ => vec![Act::Invoke(i), Act::Drop(i)],
            })
            .collect();
        for il in interleavings(&seqs) {
            for eager in [false, true] {
                let mut s = Vec::new();
                for a in &il {
                    if let Act::Drop(i) = a {
                        if mode[*i] == 2 {
                            s.push(Act::Run);
                        }
                    }
                    s.push(*a);
                    if eager && matches!(a, Act::Invoke(_)) {
                        s.push(Act::Run);
                    }
                }
                all.push(s);
            }
        }
    }
    all
}

struct Template {
    name: &'static str,
    ops: Vec<Op>,
    finals: Vec<Vec<u8>>,
}

/// `k`: a key; `o`: a key with another home (for n ≥ 2)
fn templates(k: &[u8], o: &[u8]) -> (Vec<Template>, Vec<Template>) {
    let t = |name: &'static str, ops: Vec<Op>| {
        let mut finals: Vec<Vec<u8>> = Vec::new();
        for op in &ops {
            for x in &op.keys {
                if !finals.contains(x) {
                    finals.push(x.clone());
                }
            }
        }
        Template { name, ops, finals }
    };
    let three = vec![
        t("pooled:set-get-set", vec![Op::kv("PSET", k, b"a"), Op::k("PGET", k), Op::kv("PSET", k, b"b")]),
        t("pooled+generic", vec![Op::kv("PSET", k, b"a"), Op::k("GET", k), Op::kv("APPEND", k, b"x")]),
        t("fast+pooled+incr", vec![Op::kv("FSET", k, b"10"), Op::k("PGET", k), Op::k("INCR", k)]),
        t("batch-across-shards", vec![Op::new("BSET", vec![k.to_vec(), o.to_vec()], vec![b"p".to_vec(), b"q".to_vec()]), Op::k("PGET", k), Op::kv("PSET", o, b"c")]),
        t("script+incr+pooled", vec![Op::k("XINCR", k), Op::k("INCR", k), Op::k("PGET", k)]),
        t("two-shards-pooled", vec![Op::kv("PSET", k, b"a"), Op::kv("PSET", o, b"b"), Op::k("PGET", k)]),
        t("batch-get+writes", vec![Op::new("BGET", vec![o.to_vec(), k.to_vec()], vec![]), Op::kv("PSET", k, b"w"), Op::kv("FSET", o, b"z")]),
        t("getdel+setnx+pooled", vec![Op::k("GETDEL", k), Op::kv("SETNX", k, b"n"), Op::kv("PSET", k, b"p")]),
    ];
    let four = vec![
        t("pooled:4", vec![Op::kv("PSET", k, b"a"), Op::k("PGET", k), Op::kv("PSET", k, b"b"), Op::k("PGET", k)]),
        t("mixed:4", vec![Op::kv("PSET", k, b"1"), Op::k("INCR", k), Op::new("BGET", vec![k.to_vec()], vec![]), Op::kv("FSET", k, b"5")]),
    ];
    (three, four)
}

pub fn run(out: &mut Out, fixed: bool, rng: &mut Rng, thorough: bool) {
    let rt = tokio::runtime::Builder::new_current_thread().enable_all().build().unwrap();
    let mut n_hist = 0u64;
    rt.block_on(async {
        let s3 = schedules(3);
        let s4 = schedules(4);
        out.extra.insert("enumerated_schedules".into(), json!({"3 operations": s3.len(), "4 operations": s4.len()}));
        // (shards, pool capacity, prewarm)
        let configs: &[(usize, usize, usize)] = if thorough { &[(1, 1, 1), (2, 1, 1), (2, 1, 0), (2, 2, 2), (4, 64, 64)] } else { &[(2, 1, 1), (1, 2, 0)] };
        for &(n, cap, pre) in configs {
            // a key and another one with a different home (same home when n = 1)
            let k = b"sk0".to_vec();
            let o = (1..200).map(|i| format!("sk{}", i).into_bytes()).find(|x| n == 1 || (h_bytes(x, n) != h_bytes(&k, n) && !mismatched(x, n, fixed))).unwrap();
            let (three, four) = templates(&k, &o);
            for t in &three {
                for s in &s3 {
                    one(out, &mut n_hist, fixed, n, cap, pre, t, s).await;
                }
            }
            for t in &four {
                if thorough {
                    for s in &s4 {
                        one(out, &mut n_hist, fixed, n, cap, pre, t, s).await;
                    }
                } else {
                    for _ in 0..150 {
                        let s = &s4[rng.below(s4.len() as u64) as usize];
                        one(out, &mut n_hist, fixed, n, cap, pre, t, s).await;
                    }
                }
            }
        }
    });
    out.extra.insert("enumerated_schedule_histories".into(), json!(n_hist));
}

#[allow(clippy::too_many_arguments)]
async fn one(out: &mut Out, n_hist: &mut u64, fixed: bool, n: usize, cap: usize, pre: usize, t: &Template, sched: &[Act]) {
    let st = Arc::new(new_state_perf(n, cap, pre).map(|x| x.0).unwrap_or_else(|| new_state(n)));
    let (events, wrong) = exec_schedule(st, &t.ops, sched, &t.finals).await;
    *n_hist += 1;
    out.count(&format!("sched:{}:shards={}:pool={}/{}", t.name, n, cap, pre));
    if sched.iter().any(|a| matches!(a, Act::Drop(_))) {
        out.count("sched:with-abandoned-request");
    }
    let wrong = wrong.map(|w| format!("{} [template {}, schedule {:?}, pool capacity {} prewarm {}]", w, t.name, sched, cap, pre));
    judge(out, events, "sched", n, t.ops.len(), fixed, wrong);
}

// ───────────────────────── timed enumerated schedules ─────────────────────────
// The clock moves WHILE requests are in flight.  A key gets a deadline (SETPX at time 0, deadline D);
// three requests are invoked at the times D-5, D, D+5 — in every order the interleaving allows, the
// j-th invocation gets the j-th time, so each mailbox sees non-decreasing stamps — through pooled /
// generic / batched reads and a plain write; optionally the clock jumps far past the deadline after
// the last invocation and BEFORE the shard runs (the stamp of a queued message, not the time at which
// the shard gets to it, decides what it sees).  Judged by the verified timed checker and the Rust one
// (an operation invoked at virtual time t sees a key iff t < its deadline).

struct TTemplate {
    name: &'static str,
    ops: Vec<Op>,
}

fn timed_templates(k: &[u8]) -> Vec<TTemplate> {
    vec![
        TTemplate { name: "reads:pooled+generic+batch", ops: vec![Op::k("PGET", k), Op::k("GET", k), Op::new("BGET", vec![k.to_vec()], vec![])] },
        TTemplate { name: "reads+exists+fast", ops: vec![Op::k("FGET", k), Op::new("EXISTS", vec![k.to_vec()], vec![]), Op::k("PGET", k)] },
        TTemplate { name: "write-between-reads", ops: vec![Op::k("PGET", k), Op::kv("PSET", k, b"w"), Op::k("GET", k)] },
    ]
}

async fn exec_timed_schedule(n: usize, deadline: u64, t: &TTemplate, sched: &[Act], far: bool) -> Vec<TEvent> {
    use crate::c03::set_now;
    let (st, sim) = new_state_ctx(n);
    let st = Arc::new(st);
    let waker = noop_waker();
    let mut cx = Context::from_waker(&waker);
    let mut stamp: u64 = 1;
    let mut events: Vec<TEvent> = Vec::new();
    let key = t.ops[0].keys[0].clone();
    // the key with its deadline, at time 0
    {
        let mut op = Op::kv("SETPX", &key, b"v");
        op.cursor = deadline;
        events.push(TEvent { stamp, id: stamp, now: 0, inv: Some(op.clone()), res: None });
        let r = apply_timed(&st, &op).await;
        events.push(TEvent { stamp: stamp + 1, id: stamp, now: 0, inv: None, res: Some(r) });
        stamp += 2;
    }
    let times = [deadline - 5, deadline, deadline + 5];
    let mut pos = 0usize;
    let mut futs: Vec<Option<Fut>> = t.ops.iter().map(|_| None).collect();
    let mut ids: Vec<(u64, u64)> = vec![(0, 0); t.ops.len()];
    let n_inv = sched.iter().filter(|a| matches!(a, Act::Invoke(_))).count();
    for act in sched {
        match *act {
            Act::Invoke(i) => {
                let now = times[pos.min(2)];
                set_now(&sim, now);
                pos += 1;
                let op = t.ops[i].clone();
                ids[i] = (stamp, now);
                events.push(TEvent { stamp, id: stamp, now, inv: Some(op.clone()), res: None });
                stamp += 1;
                let st2 = st.clone();
                let mut f: Fut = Box::pin(async move { apply_timed(&st2, &op).await });
                match f.as_mut().poll(&mut cx) {
                    Poll::Ready(r) => {
                        events.push(TEvent { stamp, id: ids[i].0, now, inv: None, res: Some(r) });
                        stamp += 1;
                    }
                    Poll::Pending => futs[i] = Some(f),
                }
                if far && pos == n_inv {
                    // the clock runs away while everything invoked so far may still be queued
                    set_now(&sim, deadline + 100_000);
                }
            }
            Act::Run => {
                for _ in 0..4 {
                    tokio::task::yield_now().await;
                }
            }
            Act::Take(i) => {
                if let Some(mut f) = futs[i].take() {
                    let mut tries = 0;
                    let r = loop {
                        match f.as_mut().poll(&mut cx) {
                            Poll::Ready(r) => break r,
                            Poll::Pending => {
                                tries += 1;
                                if tries > 200 {
                                    break "e:?never-answered".to_string();
                                }
                                tokio::task::yield_now().await;
                            }
                        }
                    };
                    events.push(TEvent { stamp, id: ids[i].0, now: ids[i].1, inv: None, res: Some(r) });
                    stamp += 1;
                }
            }
            Act::Drop(i) => futs[i] = None,
        }
    }
    events
}

pub fn run_timed(out: &mut Out, thorough: bool) {
    let rt = tokio::runtime::Builder::new_current_thread().enable_all().build().unwrap();
    let mut n_hist = 0u64;
    rt.block_on(async {
        // interleavings of (Invoke, Take) of 3 requests, lazy / eager shard runs
        let seqs: Vec<Vec<Act>> = (0..3).map(|i| vec![Act::Invoke(i), Act::Take(i)]).collect();
        let mut scheds: Vec<Vec<Act>> = Vec::new();
        for il in interleavings(&seqs) {
            for eager in [false, true] {
                let mut s = Vec::new();
                for a in &il {
                    s.push(*a);
                    if eager && matches!(a, Act::Invoke(_)) {
                        s.push(Act::Run);
                    }
                }
                scheds.push(s);
            }
        }
        let shard_counts: &[usize] = if thorough { &[1, 2, 4] } else { &[2] };
        for &n in shard_counts {
            for t in timed_templates(b"tk0") {
                for s in &scheds {
                    for far in [false, true] {
                        let events = exec_timed_schedule(n, 100, &t, s, far).await;
                        n_hist += 1;
                        out.count(&format!("sched-timed:{}:shards={}:{}", t.name, n, if far { "clock-runs-away-while-queued" } else { "clock-at-invocation" }));
                        judge_timed(out, events, n, &format!("sched:{}", t.name), 3);
                    }
                }
            }
        }
    });
    out.extra.insert("enumerated_timed_schedule_histories".into(), json!(n_hist));
}
