//! C16 — shape descriptors DERIVED FROM THE SOURCE: a small translator from the match arms of
//! `parser.rs` (`Command::from_resp`), `commands.rs` (`Command::from_resp_zero_copy`) and
//! `parse_lua_command_bytes` (script_ops.rs) to one descriptor per command: arity rule and text,
//! constructors, slot kinds (with their own error texts), optional slots, tail (Vec / pairs / option
//! scan / flags + pairs / raw), the option table (keyword, value kinds, text of a missing value,
//! refusal), the unknown-word policy, and the error literals that belong to none of these (the
//! finishing checks).  The descriptors are compared
//!   (i)  between the two RESP parsers, field by field (`C16:source:parsers-shape-differs:<CMD>:<field>`),
//!   (ii) with the rows of the model's shape table (`Grammar.shapeRows`, proved to BE the model grammar:
//!        `parse_is_generic`), committed as `c16_shapes.txt` and synchronised with the Lean model by the
//!        `SH` / `FA` ops on every run (`C16:source:shape:<grammar>:<CMD>:<field>`).
//! Syntax the translator does not recognise yields the field value `?`: the field is not compared and
//! the command is listed in the evidence (`shape.unrecognised`); a command whose fields are all
//! unrecognised or a table with too few rows is a violation of its own (`C16:source:shape-scan-failed`).
use std::collections::{BTreeMap, BTreeSet};

#[derive(Clone, Debug, PartialEq)]
pub enum Tk {
    Id(String),
    Num(String),
    Str(String),
    P(String),
}

fn lex(src: &str) -> Vec<Tk> {
    let b: Vec<char> = src.chars().collect();
    let mut i = 0;
    let mut out = Vec::new();
    while i < b.len() {
        let c = b[i];
        if c.is_whitespace() {
            i += 1;
        } else if c == '/' && i + 1 < b.len() && b[i + 1] == '/' {
            while i < b.len() && b[i] != '\n' {
                i += 1;
            }
        } else if c == '/' && i + 1 < b.len() && b[i + 1] == '*' {
            i += 2;
            while i + 1 < b.len() && !(b[i] == '*' && b[i + 1] == '/') {
                i += 1;
            }
            i += 2;
        } else if c == '"' {
            let mut s = String::new();
            i += 1;
            while i < b.len() && b[i] != '"' {
                if b[i] == '\\' && i + 1 < b.len() {
                    i += 1;
                    match b[i] {
                        'n' => s.push('\n'),
                        't' => s.push('\t'),
                        'r' => s.push('\r'),
                        '0' => s.push('\0'),
                        '\n' => {
                            // line continuation: skip the leading white space of the next line
                            while i + 1 < b.len() && b[i + 1].is_whitespace() {
                                i += 1;
                            }
                        }
                        o => s.push(o),
                    }
                } else {
                    s.push(b[i]);
                }
                i += 1;
            }
            i += 1;
            out.push(Tk::Str(s));
        } else if c == '\'' {
            // char literal 'x' / '\x' — or a lifetime tick
            if i + 2 < b.len() && b[i + 1] != '\\' && b[i + 2] == '\'' {
                out.push(Tk::Str(b[i + 1].to_string()));
                i += 3;
            } else if i + 3 < b.len() && b[i + 1] == '\\' && b[i + 3] == '\'' {
                out.push(Tk::Str(b[i + 2].to_string()));
                i += 4;
            } else {
                out.push(Tk::P("'".into()));
                i += 1;
            }
        } else if c.is_ascii_alphabetic() || c == '_' {
            let st = i;
            while i < b.len() && (b[i].is_ascii_alphanumeric() || b[i] == '_') {
                i += 1;
            }
            out.push(Tk::Id(b[st..i].iter().collect()));
        } else if c.is_ascii_digit() {
            let st = i;
            while i < b.len() && (b[i].is_ascii_alphanumeric() || b[i] == '_') {
                i += 1;
            }
            out.push(Tk::Num(b[st..i].iter().collect()));
        } else {
            let two: String = b[i..(i + 2).min(b.len())].iter().collect();
            if ["=>", "==", "!=", "<=", ">=", "&&", "||", "+=", "-=", "..", "::", "->"].contains(&two.as_str()) {
                out.push(Tk::P(two));
                i += 2;
            } else {
                out.push(Tk::P(c.to_string()));
                i += 1;
            }
        }
    }
    out
}

fn is_p(t: &Tk, s: &str) -> bool {
    matches!(t, Tk::P(x) if x == s)
}
fn is_id(t: &Tk, s: &str) -> bool {
    matches!(t, Tk::Id(x) if x == s)
}

/// index of the bracket that closes the one at `open`
fn close_of(t: &[Tk], open: usize) -> Option<usize> {
    let (o, c) = match &t[open] {
        Tk::P(x) if x == "{" => ("{", "}"),
        Tk::P(x) if x == "(" => ("(", ")"),
        Tk::P(x) if x == "[" => ("[", "]"),
        _ => return None,
    };
    let mut d = 0i32;
    for (i, x) in t.iter().enumerate().skip(open) {
        if is_p(x, o) {
            d += 1;
        } else if is_p(x, c) {
            d -= 1;
            if d == 0 {
                return Some(i);
            }
        }
    }
    None
}

/// match a space-separated token pattern at `at`: `$n` number, `$s` string, `$i` identifier (captured), `$A` the
/// argument array of the grammar; returns the index after the match and the captures
fn m_at(t: &[Tk], at: usize, pat: &str, arr: &str) -> Option<(usize, Vec<String>)> {
    m_at_ix(t, at, pat, arr).map(|(e, c, _)| (e, c))
}

/// as `m_at`, also the token index of every capture
fn m_at_ix(t: &[Tk], at: usize, pat: &str, arr: &str) -> Option<(usize, Vec<String>, Vec<usize>)> {
    let mut caps = Vec::new();
    let mut ix = Vec::new();
    let mut i = at;
    for p in pat.split_whitespace() {
        let x = t.get(i)?;
        match p {
            "$n" => match x { Tk::Num(v) => { caps.push(v.clone()); ix.push(i) } _ => return None },
            "$s" => match x { Tk::Str(v) => { caps.push(v.clone()); ix.push(i) } _ => return None },
            "$i" => match x { Tk::Id(v) => { caps.push(v.clone()); ix.push(i) } _ => return None },
            "$A" => if !is_id(x, arr) { return None },
            lit => {
                let ok = match x { Tk::Id(v) | Tk::Num(v) | Tk::P(v) => v == lit, Tk::Str(_) => false };
                if !ok { return None; }
            }
        }
        i += 1;
    }
    Some((i, caps, ix))
}

fn find_pat(t: &[Tk], from: usize, to: usize, pat: &str, arr: &str) -> Option<(usize, usize, Vec<String>)> {
    let mut i = from;
    while i < to {
        if let Some((e, c)) = m_at(t, i, pat, arr) {
            if e <= to { return Some((i, e, c)); }
        }
        i += 1;
    }
    None
}

fn find_all(t: &[Tk], from: usize, to: usize, pat: &str, arr: &str) -> Vec<(usize, usize, Vec<String>)> {
    let mut v = Vec::new();
    let mut i = from;
    while let Some((s, e, c)) = find_pat(t, i, to, pat, arr) {
        v.push((s, e, c));
        i = s + 1;
    }
    v
}

#[derive(Clone, Debug)]
struct Arm {
    pats: Vec<Tk>,
    body: (usize, usize), // token range
}

/// the arms of the match whose `{` is at `lb`
fn parse_arms(t: &[Tk], lb: usize) -> Vec<Arm> {
    let rb = match close_of(t, lb) { Some(x) => x, None => return vec![] };
    let mut arms = Vec::new();
    let mut i = lb + 1;
    while i < rb {
        // pattern up to `=>` at depth 0
        let st = i;
        let mut d = 0i32;
        while i < rb {
            match &t[i] {
                Tk::P(x) if x == "(" || x == "[" || x == "{" => d += 1,
                Tk::P(x) if x == ")" || x == "]" || x == "}" => d -= 1,
                Tk::P(x) if x == "=>" && d == 0 => break,
                _ => {}
            }
            i += 1;
        }
        if i >= rb { break; }
        let pats = t[st..i].to_vec();
        i += 1;
        if i < rb && is_p(&t[i], "{") {
            let c = close_of(t, i).unwrap_or(rb);
            arms.push(Arm { pats, body: (i + 1, c) });
            i = c + 1;
            if i < rb && is_p(&t[i], ",") { i += 1; }
        } else {
            let bs = i;
            let mut d = 0i32;
            while i < rb {
                match &t[i] {
                    Tk::P(x) if x == "(" || x == "[" || x == "{" => d += 1,
                    Tk::P(x) if x == ")" || x == "]" || x == "}" => d -= 1,
                    Tk::P(x) if x == "," && d == 0 => break,
                    _ => {}
                }
                i += 1;
            }
            arms.push(Arm { pats, body: (bs, i) });
            i += 1;
        }
    }
    arms
}

fn arm_names(a: &Arm) -> Vec<String> {
    a.pats.iter().filter_map(|t| match t { Tk::Str(s) => Some(s.clone()), _ => None }).collect()
}
fn arm_is_default(a: &Arm) -> bool {
    a.pats.len() == 1 && is_id(&a.pats[0], "_")
}

pub fn hexs(s: &str) -> String {
    let mut o = String::from("x");
    for b in s.bytes() {
        o.push_str(&format!("{:02x}", b));
    }
    o
}

#[derive(Clone, Copy, PartialEq, Debug)]
pub enum Style {
    Resp,
    Lua,
}

struct Cx<'a> {
    types: &'a FieldTypes,
    t: &'a [Tk],
    arr: &'static str,
    style: Style,
    /// index of the first argument in the array; also the number of non-argument elements `len()` counts
    first: usize,
}

pub type Row = BTreeMap<String, String>;

fn num(s: &str) -> Option<usize> {
    s.parse::<usize>().ok()
}

fn kind_of_extract(k: &str) -> &'static str {
    match k {
        "extract_string" => "str",
        "extract_sds" => "sds",
        "extract_integer" | "extract_i64" => "int",
        "extract_u64" => "u64",
        "extract_float" => "flt",
        _ => "?",
    }
}

fn kind_of_type(ty: &str) -> &'static str {
    match ty {
        "i64" | "isize" => "int",
        "u64" => "u64",
        "usize" => "usz",
        "u32" => "u32",
        "f64" => "flt",
        _ => "num",
    }
}

impl<'a> Cx<'a> {
    fn pat(&self, from: usize, to: usize, p: &str) -> Option<(usize, usize, Vec<String>)> {
        find_pat(self.t, from, to, p, self.arr)
    }
    fn all(&self, from: usize, to: usize, p: &str) -> Vec<(usize, usize, Vec<String>)> {
        find_all(self.t, from, to, p, self.arr)
    }
    fn at(&self, i: usize, p: &str) -> Option<(usize, Vec<String>)> {
        m_at(self.t, i, p, self.arr)
    }

    /// arity rule, its error text, and the token index of that literal
    fn arity(&self, b: (usize, usize)) -> (String, Option<String>, Option<usize>) {
        let (mut s, e) = b;
        let off = self.first as i64;
        let t = self.t;
        // leading macro statements (`tracing::debug!("…");`, `debug_assert!(…);`) are not part of the grammar
        loop {
            let mut j = s;
            while j + 2 < e && matches!(&t[j], Tk::Id(_)) && is_p(&t[j + 1], "::") { j += 2; }
            if j + 2 < e && matches!(&t[j], Tk::Id(_)) && is_p(&t[j + 1], "!") && (is_p(&t[j + 2], "(") || is_p(&t[j + 2], "[") || is_p(&t[j + 2], "{")) {
                if let Some(c) = close_of(t, j + 2) {
                    let mut k = c + 1;
                    if k < e && is_p(&t[k], ";") { k += 1; }
                    s = k;
                    continue;
                }
            }
            break;
        }
        if s >= e { return ("any".into(), None, None); }
        // A: `if COND { return Err("text"…`
        if is_id(&t[s], "if") {
            // condition up to the `{` at depth 0
            let mut i = s + 1;
            let mut d = 0i32;
            while i < e {
                match &t[i] {
                    Tk::P(x) if x == "(" || x == "[" => d += 1,
                    Tk::P(x) if x == ")" || x == "]" => d -= 1,
                    Tk::P(x) if x == "{" && d == 0 => break,
                    _ => {}
                }
                i += 1;
            }
            let lb = i;
            let mut mk = |pat: &str| self.at(lb, pat);
            let ret = mk("{ return Err ( $s");
            if let Some((_, caps)) = ret {
                let lit_idx = lb + 4;
                // atoms separated by `||`
                let mut atoms: Vec<(usize, usize)> = Vec::new();
                let mut st = s + 1;
                let mut d = 0i32;
                for j in s + 1..lb {
                    match &t[j] {
                        Tk::P(x) if x == "(" || x == "[" => d += 1,
                        Tk::P(x) if x == ")" || x == "]" => d -= 1,
                        Tk::P(x) if x == "||" && d == 0 => { atoms.push((st, j)); st = j + 1; }
                        _ => {}
                    }
                }
                atoms.push((st, lb));
                #[derive(Debug)]
                enum At { Ne(i64), Lt(i64), Gt(i64), OddAfter(i64), EvenLen, Other }
                let parsed: Vec<At> = atoms.iter().map(|(a, z)| {
                    let full = |p: &str| self.at(*a, p).filter(|(end, _)| *end == *z);
                    if let Some((_, c)) = full("$A . len ( ) != $n") { At::Ne(c[0].parse().unwrap_or(-1)) }
                    else if let Some((_, c)) = full("$A . len ( ) < $n") { At::Lt(c[0].parse().unwrap_or(-1)) }
                    else if let Some((_, c)) = full("$A . len ( ) > $n") { At::Gt(c[0].parse().unwrap_or(-1)) }
                    else if let Some((_, c)) = full("( $A . len ( ) - $n ) % 2 != 0") { At::OddAfter(c[0].parse().unwrap_or(-1)) }
                    else if full("$A . len ( ) % 2 == 0").is_some() { At::EvenLen }
                    else if full("$A . is_empty ( )").is_some() { At::Lt(1) }
                    // the same tests spelled differently: `<=` / `>=`, operands swapped, negated
                    else if let Some((_, c)) = full("$A . len ( ) <= $n") { At::Lt(c[0].parse::<i64>().unwrap_or(-2) + 1) }
                    else if let Some((_, c)) = full("$A . len ( ) >= $n") { At::Gt(c[0].parse::<i64>().unwrap_or(0) - 1) }
                    else if let Some((_, c)) = full("$n > $A . len ( )") { At::Lt(c[0].parse().unwrap_or(-1)) }
                    else if let Some((_, c)) = full("$n < $A . len ( )") { At::Gt(c[0].parse().unwrap_or(-1)) }
                    else if let Some((_, c)) = full("$n != $A . len ( )") { At::Ne(c[0].parse().unwrap_or(-1)) }
                    else if let Some((_, c)) = full("! ( $A . len ( ) >= $n )") { At::Lt(c[0].parse().unwrap_or(-1)) }
                    else if let Some((_, c)) = full("! ( $A . len ( ) == $n )") { At::Ne(c[0].parse().unwrap_or(-1)) }
                    else if let Some((_, c)) = full("! ( $A . len ( ) <= $n )") { At::Gt(c[0].parse().unwrap_or(-1)) }
                    else if let Some((_, c)) = full("! ( $A . len ( ) > $n )") { At::Lt(c[0].parse::<i64>().unwrap_or(-2) + 1) }
                    else if let Some((_, c)) = full("( $A . len ( ) - $n ) % 2 == 1") { At::OddAfter(c[0].parse().unwrap_or(-1)) }
                    else { At::Other }
                }).collect();
                let rule = match parsed.as_slice() {
                    [At::Ne(n)] => format!("eq{}", n - off),
                    [At::Lt(n)] => format!("ge{}", n - off),
                    [At::Lt(a), At::Gt(z)] => format!("in{}-{}", a - off, z - off),
                    [At::Lt(n), At::OddAfter(k)] => if (off - k).rem_euclid(2) == 0 { format!("even-ge{}", n - off) } else { format!("odd-ge{}", n - off) },
                    [At::Lt(n), At::EvenLen] => if off % 2 == 0 { format!("odd-ge{}", n - off) } else { format!("even-ge{}", n - off) },
                    _ => "?".to_string(),
                };
                // a guard on the argument count that is not one of the recognised forms: pattern not recognised
                let mentions_len = (s + 1..lb).any(|j| is_id(&t[j], "len") || is_id(&t[j], "is_empty"));
                if rule != "?" || mentions_len {
                    return (rule, Some(caps[0].clone()), Some(lit_idx));
                }
            }
            // C: `if A.len() == n { … } else if A.len() == m { … } else { Err("text") }`
            if let Some((_, c0)) = self.at(s, "if $A . len ( ) == $n {") {
                let mut ns = vec![c0[0].parse::<i64>().unwrap_or(-1)];
                let mut cur = s + 8; // index of `{`
                loop {
                    let cl = match close_of(t, cur) { Some(x) => x, None => break };
                    if let Some((e2, c)) = self.at(cl + 1, "else if $A . len ( ) == $n {") {
                        ns.push(c[0].parse().unwrap_or(-1));
                        cur = e2 - 1;
                        continue;
                    }
                    if let Some((_, _)) = self.at(cl + 1, "else {") {
                        if let Some((ls, _, c)) = self.pat(cl + 2, e, "Err ( $s") {
                            ns.sort();
                            let contiguous = ns.windows(2).all(|w| w[1] == w[0] + 1);
                            if contiguous {
                                return (format!("in{}-{}", ns[0] - off, ns[ns.len() - 1] - off), Some(c[0].clone()), Some(ls + 2));
                            }
                        }
                    }
                    break;
                }
                return ("?".into(), None, None);
            }
            return ("any".into(), None, None);
        }
        // B: `match A.len() { 2 => …, 3 => …, _ => Err("text") }`
        if let Some((e1, _)) = self.at(s, "match $A . len ( ) {") {
            let arms = parse_arms(t, e1 - 1);
            let mut ns: Vec<i64> = Vec::new();
            let mut text = None;
            let mut idx = None;
            for a in &arms {
                if arm_is_default(a) {
                    if let Some((ls, _, c)) = self.pat(a.body.0, a.body.1, "Err ( $s") { text = Some(c[0].clone()); idx = Some(ls + 2); }
                } else {
                    for p in &a.pats { if let Tk::Num(n) = p { ns.push(n.parse().unwrap_or(-1)); } }
                }
            }
            ns.sort();
            if !ns.is_empty() && ns.windows(2).all(|w| w[1] == w[0] + 1) && text.is_some() {
                return (format!("in{}-{}", ns[0] - off, ns[ns.len() - 1] - off), text, idx);
            }
            return ("?".into(), None, None);
        }
        ("any".into(), None, None)
    }
}

/// one positional slot found in an arm
#[derive(Clone, Debug)]
struct Slot {
    pos: usize,
    kind: String,
    err: Option<String>,
    lit_idx: Vec<usize>,
}

/// an explicit error text that is the kind's generic text (what the extract helper answers anyway) is not a
/// text of its own
fn show_slot(k: &str, err: &Option<String>) -> String {
    let generic = match k {
        "int" | "usz" | "pos" => Some("ERR value is not an integer or out of range"),
        "flt" => Some("ERR value is not a valid float"),
        _ => None,
    };
    match err {
        Some(e) if Some(e.as_str()) != generic => format!("{}!{}", k, hexs(e)),
        _ => k.to_string(),
    }
}

impl<'a> Cx<'a> {
    /// modifiers that follow an extraction ending at `e` (index after the closing parenthesis):
    /// (kind override, error text, literal index, saw `?;` directly)
    fn modifiers(&self, e: usize, base_kind: &str) -> (String, Option<String>, Vec<usize>) {
        let mut kind = base_kind.to_string();
        let mut err = None;
        let mut lits = Vec::new();
        let mut i = e;
        // Resp: `.map_err(|_| "text".to_string())?`
        if let Some((e2, c)) = self.at(i, ". map_err ( | _ | $s") { err = Some(c[0].clone()); lits.push(e2 - 1); i = e2; while i < self.t.len() && !is_p(&self.t[i], "?") && !is_p(&self.t[i], ";") { i += 1; } }
        if i < self.t.len() && is_p(&self.t[i], "?") { i += 1; }
        if self.at(i, ". to_uppercase ( )").is_some() { kind = "kw".into(); i += 5; }
        else if self.at(i, ". to_string ( )").is_some() { i += 5; }
        // `.parse::<T>()` / `.parse()`
        let mut parsed = false;
        if let Some((e2, c)) = self.at(i, ". parse :: < $i > ( )") { kind = kind_of_type(&c[0]).into(); i = e2; parsed = true; }
        else if let Some((e2, _)) = self.at(i, ". parse ( )") { if kind == "str" { kind = "num".into(); } i = e2; parsed = true; }
        if parsed {
            if let Some((e2, c)) = self.at(i, ". map_err ( | _ | $s") { err = Some(c[0].clone()); lits.push(e2 - 1); }
            else if let Some((e2, c)) = self.at(i, ". map_err ( | _ | { $s") { err = Some(c[0].clone()); lits.push(e2 - 1); }
        }
        (kind, err, lits)
    }

    /// every extraction `extract_K(&A[IDX])` / `to_string(&A[IDX])` in a range: (start, end-after-paren, base kind, index tokens)
    fn extractions(&self, from: usize, to: usize) -> Vec<(usize, usize, String, Vec<Tk>)> {
        let t = self.t;
        let mut v = Vec::new();
        let mut i = from;
        while i < to {
            let hit: Option<(usize, String)> = match self.style {
                Style::Resp => self.at(i, "Self :: $i ( & $A [").or_else(|| self.at(i, "Command :: $i ( & $A [")).and_then(|(e, c)| if c[0].starts_with("extract_") { Some((e, kind_of_extract(&c[0]).to_string())) } else { None }),
                Style::Lua => self.at(i, "to_string ( & $A [").map(|(e, _)| (e, "str".to_string())).or_else(|| self.at(i, "to_sds ( & $A [").map(|(e, _)| (e, "sds".to_string()))),
            };
            if let Some((e, k)) = hit {
                // index tokens up to `]`
                let lb = e - 1;
                if let Some(rb) = close_of(t, lb) {
                    // `)` — or `,)` when the call is spread over lines
                    let close = if rb + 1 < t.len() && is_p(&t[rb + 1], ")") { Some(rb + 2) }
                        else if rb + 2 < t.len() && is_p(&t[rb + 1], ",") && is_p(&t[rb + 2], ")") { Some(rb + 3) }
                        else { None };
                    if let Some(c) = close {
                        v.push((i, c, k, t[lb + 1..rb].to_vec()));
                        i = c;
                        continue;
                    }
                }
                // the call starts like an extraction and does not end like one: pattern not recognised
                v.push((i, e, "?".to_string(), vec![Tk::P("?".into())]));
                i = e;
                continue;
            }
            i += 1;
        }
        v
    }

    /// the type annotation of `let NAME: TYPE = <here>` when the extraction at `s` starts the initialiser
    fn let_type(&self, s: usize) -> Option<String> {
        if s >= 5 {
            if let Some((_, c)) = self.at(s - 5, "let $i : $i =") { return Some(c[1].clone()); }
        }
        None
    }
    fn let_name(&self, s: usize) -> Option<String> {
        if s >= 3 {
            if let Some((_, c)) = self.at(s - 3, "let $i =") { return Some(c[0].clone()); }
        }
        None
    }
}

fn tk_text(t: &[Tk]) -> String {
    t.iter().map(|x| match x { Tk::Id(s) | Tk::Num(s) | Tk::P(s) => s.clone(), Tk::Str(s) => format!("{:?}", s) }).collect::<Vec<_>>().join(" ")
}

/// the descriptor of one arm body
fn describe(cx: &Cx, name: &str, body: (usize, usize)) -> Row {
    let t = cx.t;
    let (s, e) = body;
    let mut row: Row = BTreeMap::new();
    row.insert("name".into(), name.to_string());
    let mut attributed: BTreeSet<usize> = BTreeSet::new();

    // ---- arity
    let (arity, aerr, aidx) = cx.arity(body);
    if let Some(i) = aidx { attributed.insert(i); }
    row.insert("arity".into(), arity.clone());
    let mut why: Vec<String> = Vec::new();
    let snippet = |from: usize, n: usize| tk_text(&t[from..(from + n).min(e)]);
    if arity == "?" { why.push(format!("arity: the guard on the argument count is not one of `len != n`, `len < n`, `len < a || len > b`, `len < n || (len - k) % 2 != 0`, `match len {{ … }}`, `if len == a {{ … }} else if len == b {{ … }} else {{ Err }}`: `{} …`", snippet(s, 24))); }
    row.insert("aerr".into(), aerr.as_ref().map(|x| hexs(x)).unwrap_or_else(|| "x".into()));
    let min_args: usize = {
        let digits: String = arity.chars().skip_while(|c| !c.is_ascii_digit()).take_while(|c| c.is_ascii_digit()).collect();
        digits.parse().unwrap_or(0)
    };

    // ---- constructors
    let mut ctors: BTreeSet<String> = BTreeSet::new();
    for (_, _, c) in cx.all(s, e, "Command :: $i") {
        let n = &c[0];
        if n.starts_with("extract_") { continue; }
        let mut cs = n.chars();
        let cap: String = match cs.next() { Some(f) => f.to_uppercase().collect::<String>() + cs.as_str(), None => String::new() };
        ctors.insert(cap);
    }
    row.insert("ctor".into(), ctors.iter().cloned().collect::<Vec<_>>().join("|"));

    // ---- the option loop(s)
    let mut loop_ranges: Vec<(usize, usize)> = Vec::new();
    let mut opts: Vec<String> = Vec::new();
    let mut unk = "-".to_string();
    let mut tail = String::new();
    let whiles = cx.all(s, e, "while i < $A . len ( ) {");
    let mut flags_loop = false;
    // the variable an option arm assigns (`"NX" => nx = true`, `"EX" => { …; ex = Some(…) }`) names the option in
    // the conflict rules that follow the loop
    let mut var_kw: BTreeMap<String, String> = BTreeMap::new();
    let mut loop_end: Option<usize> = None;
    for (wi, (_, we, _)) in whiles.iter().enumerate() {
        let lb = we - 1;
        let rb = close_of(t, lb).unwrap_or(e);
        loop_ranges.push((lb, rb));
        if let Some((_, me, _)) = cx.pat(lb, rb, "match opt . as_str ( ) {") {
            let arms = parse_arms(t, me - 1);
            for a in &arms {
                let (bs, be) = a.body;
                if arm_is_default(a) {
                    unk = if let Some((_, c, ix)) = m_at_ix(t, bs, "return Err ( format ! ( $s , opt ) )", cx.arr) {
                        attributed.insert(ix[0]);
                        format!("fmt:{}", hexs(c[0].split("{}").next().unwrap_or("")))
                    } else if let Some((_, c, ix)) = m_at_ix(t, bs, "return Err ( $s", cx.arr) {
                        attributed.insert(ix[0]);
                        format!("lit:{}", hexs(&c[0]))
                    } else if bs < be && is_id(&t[bs], "break") { flags_loop = true; "break".into() }
                    else if bs == be { "skip".into() }
                    else { why.push(format!("unk: the default arm of the option match is none of `return Err(\"…\")`, `return Err(format!(\"…{{}}\", opt))`, `break`, `{{}}`: `{} …`", snippet(bs, 12))); "?".into() };
                    continue;
                }
                let names = arm_names(a);
                if let Some(first) = names.first() {
                    for j in bs..be.saturating_sub(1) {
                        if let (Tk::Id(v), true) = (&t[j], is_p(&t[j + 1], "=")) {
                            if v != "i" && (j == bs || !is_id(&t[j - 1], "let")) { var_kw.entry(v.clone()).or_insert(first.clone()); break; }
                        }
                    }
                }
                // refused by name
                if let Some((_, c, ix)) = m_at_ix(t, bs, "return Err ( format ! ( $s , opt ) )", cx.arr) {
                    attributed.insert(ix[0]);
                    for n in &names { opts.push(format!("{}:-:m=-:r={}", n, hexs(c[0].split("{}").next().unwrap_or("")))); }
                    continue;
                }
                let mut kinds: Vec<String> = Vec::new();
                for (xs, xe, k, idx) in cx.extractions(bs, be) {
                    let idx_s = tk_text(&idx);
                    if !(idx_s == "i" || idx_s.starts_with("i +")) { kinds.push("?".into()); why.push(format!("opts: an option value is read at index `{}` (expected `i` / `i + n`)", idx_s)); continue; }
                    let (mut kind, err, lits) = cx.modifiers(xe, &k);
                    if kind == "num" { if let Some(ty) = cx.let_type(xs) { kind = kind_of_type(&ty).into(); } }
                    // `VAR = Some(<extraction>.parse()…)`: the type is that of the field `VAR` of the constructor(s) the arm builds
                    if kind == "num" && xs >= 4 && is_p(&t[xs - 1], "(") && is_id(&t[xs - 2], "Some") && is_p(&t[xs - 3], "=") {
                        if let Tk::Id(var) = &t[xs - 4] {
                            let tys: BTreeSet<&String> = ctors.iter().filter_map(|c| cx.types.get(&(c.clone(), var.clone()))).collect();
                            if tys.len() == 1 { kind = kind_of_type(tys.iter().next().unwrap()).into(); }
                        }
                    }
                    for l in lits { attributed.insert(l); }
                    // `let N = <integer extraction>?; if N < 1 { return Err("ERR syntax error") }`: a count that must be
                    // at least 1 (SCAN / HSCAN / ZSCAN COUNT) — slot kind `pos`, its range text belongs to the slot
                    if kind == "int" && xs >= 3 {
                        if let Some((_, c)) = cx.at(xs - 3, "let $i =") {
                            let stmt_end = (xe..be).find(|j| is_p(&t[*j], ";")).unwrap_or(be);
                            for guard in [format!("if {} < 1 {{ return Err ( $s", c[0]), format!("if {} <= 0 {{ return Err ( $s", c[0]), format!("if 1 > {} {{ return Err ( $s", c[0]), format!("if ! ( {} >= 1 ) {{ return Err ( $s", c[0])] {
                                if let Some((_, c2, ix)) = m_at_ix(t, stmt_end + 1, &guard, cx.arr) {
                                    if c2[0] == "ERR syntax error" { kind = "pos".into(); attributed.insert(ix[0]); }
                                    break;
                                }
                            }
                        }
                    }
                    kinds.push(show_slot(&kind, &err));
                }
                let missing = if kinds.is_empty() { "m=-".to_string() } else {
                    let g = cx.pat(bs, be, "if i >= $A . len ( ) { return Err ( $s").map(|(gs, _, c)| (gs + 12, c[0].clone()))
                        .or_else(|| cx.pat(bs, be, "if i + $n >= $A . len ( ) { return Err ( $s").map(|(gs, _, c)| (gs + 14, c[1].clone())));
                    match g { Some((li, text)) => { attributed.insert(li); format!("m={}", hexs(&text)) } None => "m=crash".to_string() }
                };
                for n in &names {
                    opts.push(format!("{}:{}:{}", n, if kinds.is_empty() { "-".to_string() } else { kinds.join(",") }, missing));
                }
            }
            if flags_loop { tail = "flags".into(); } else { tail = "scan".into(); loop_end = Some(rb); }
        } else if wi > 0 || flags_loop {
            // the pairs loop that follows a flags loop
            let ex = cx.extractions(lb, rb);
            if ex.len() == 2 {
                let mut ks = Vec::new();
                for (xs, xe, k, _) in &ex {
                    let (mut kind, err, lits) = cx.modifiers(*xe, k);
                    if kind == "num" { if let Some(ty) = cx.let_type(*xs) { kind = kind_of_type(&ty).into(); } }
                    for l in lits { attributed.insert(l); }
                    ks.push(show_slot(&kind, &err));
                }
                let odd = cx.pat(s, e, "if ( $A . len ( ) - i ) % 2 != 0 || i >= $A . len ( ) { return Err ( $s");
                let oddtext = match odd { Some((os, _, c)) => { attributed.insert(os + 26); hexs(&c[0]) } None => "?".into() };
                tail = format!("flags:{}:{}:{}", ks[0], ks[1], oddtext);
            } else { tail = "?".into(); }
        }
    }
    let in_loop = |i: usize| loop_ranges.iter().any(|(a, b)| i > *a && i < *b);

    // ---- positional slots (literal indices outside the loops)
    let mut slots: BTreeMap<usize, Slot> = BTreeMap::new();
    let mut vars: BTreeMap<String, usize> = BTreeMap::new();
    let mut slots_ok = true;
    for (xs, xe, k, idx) in cx.extractions(s, e) {
        if in_loop(xs) { continue; }
        if k == "?" { slots_ok = false; why.push(format!("slots: an extraction call that does not end `…[IDX])`: `{} …`", snippet(xs, 14))); continue; }
        if idx.len() != 1 { continue; }
        let n = match &idx[0] { Tk::Num(n) => match num(n) { Some(n) => n, None => continue }, _ => continue };
        if n < cx.first { slots_ok = false; continue; }
        let pos = n - cx.first + 1;
        let (mut kind, err, lits) = cx.modifiers(xe, &k);
        if kind == "num" { if let Some(ty) = cx.let_type(xs) { kind = kind_of_type(&ty).into(); } }
        for l in &lits { attributed.insert(*l); }
        // `let NAME = Self::extract_string(&A[n])?;` — a later `NAME.parse::<T>()` refines the kind
        if kind == "str" && xe + 1 < t.len() && is_p(&t[xe], "?") && is_p(&t[xe + 1], ";") {
            if let Some(v) = cx.let_name(xs) { vars.insert(v, pos); }
        }
        if let Some(old) = slots.get(&pos) {
            if old.kind != kind || old.err != err { slots_ok = false; why.push(format!("slots: argument {} is extracted twice with different kinds / error texts ({} vs {})", pos, old.kind, kind)); }
        }
        slots.insert(pos, Slot { pos, kind, err, lit_idx: lits });
    }
    for (v, pos) in &vars {
        if let Some((ps, pe, c)) = cx.pat(s, e, &format!("{} . parse :: < $i > ( )", v)) {
            let _ = ps;
            if let Some(sl) = slots.get_mut(pos) {
                sl.kind = kind_of_type(&c[0]).into();
                if let Some((e2, c2)) = cx.at(pe, ". map_err ( | _ | $s") { sl.err = Some(c2[0].clone()); attributed.insert(e2 - 1); sl.lit_idx.push(e2 - 1); }
            }
        }
    }
    let contiguous = slots.keys().enumerate().all(|(i, p)| *p == i + 1);
    if !contiguous || !slots_ok {
        if !contiguous { why.push(format!("slots: the literal argument indices read by the arm are not 1..n without a gap: {:?}", slots.keys().collect::<Vec<_>>())); }
        row.insert("slots".into(), "?".into());
        row.insert("opt".into(), "?".into());
    } else {
        let (req, opt): (Vec<&Slot>, Vec<&Slot>) = slots.values().partition(|sl| sl.pos <= min_args);
        let f = |v: &Vec<&Slot>| if v.is_empty() { "-".to_string() } else { v.iter().map(|sl| show_slot(&sl.kind, &sl.err)).collect::<Vec<_>>().join(",") };
        row.insert("slots".into(), f(&req));
        row.insert("opt".into(), f(&opt));
    }

    // ---- tail
    if tail.is_empty() {
        let t_many = match cx.style {
            Style::Resp => cx.pat(s, e, "$A [ $n .. ] . iter ( ) . map ( Self :: $i )").map(|(_, _, c)| (c[0].clone(), kind_of_extract(&c[1]).to_string())),
            Style::Lua => cx.pat(s, e, "$A [ $n .. ] . iter ( ) . map ( | a | $i ( a ) )").map(|(_, _, c)| (c[0].clone(), if c[1] == "to_sds" { "sds".to_string() } else { "str".to_string() }))
                .or_else(|| cx.pat(s, e, "$A . iter ( ) . map ( | a | $i ( a ) )").map(|(_, _, c)| ("0".to_string(), if c[0] == "to_sds" { "sds".to_string() } else { "str".to_string() }))),
        };
        let t_pairs = match cx.style {
            Style::Resp => cx.pat(s, e, "for i in ( $n .. $A . len ( ) ) . step_by ( 2 ) {").and_then(|(_, fe, _)| {
                let rb = close_of(t, fe - 1)?;
                let ex = cx.extractions(fe, rb);
                if ex.len() == 2 { Some(format!("pairs:{}:{}", ex[0].2, ex[1].2)) } else { None }
            }),
            Style::Lua => cx.pat(s, e, "$A [ $n .. ] . chunks ( 2 ) . map ( | chunk | ( $i ( & chunk [ 0 ] ) , $i ( & chunk [ 1 ] ) ) )").map(|(_, _, c)| {
                let k = |x: &str| if x == "to_sds" { "sds" } else { "str" };
                format!("pairs:{}:{}", k(&c[1]), k(&c[2]))
            }),
        };
        let raw = cx.pat(s, e, "$A [ $n .. $n + $i ]").is_some();
        tail = if let Some((_, k)) = t_many { format!("many:{}", k) }
            else if let Some(p) = t_pairs { p }
            else if raw { "raw".into() }
            else if arity == "any" { "ignore".into() }
            else if arity.starts_with("eq") || arity.starts_with("in") { "none".into() }
            else { "?".into() };
    }
    if tail == "flags" { tail = "?".into(); }
    if tail.contains('?') { why.push("tail: the arity rule admits further arguments, but none of `A[n..].iter().map(extract)`, `for i in (n..A.len()).step_by(2)`, `.chunks(2)`, `while i < A.len() { match opt … }`, `A[n..n + k]` is found in the arm".to_string()); }
    row.insert("tail".into(), tail);
    // ---- the conflict rules that follow an option scan: `if COND { return Err("text") }` over the option variables
    let mut checks: Vec<String> = Vec::new();
    let mut checks_why: Vec<String> = Vec::new();
    if let Some(le) = loop_end {
        // `let v = [a.is_some(), …, flag].iter().filter(|&&x| x).count();`
        let mut counts: BTreeMap<String, String> = BTreeMap::new();
        for (ls, _, c) in cx.all(le, e, "let $i = [") {
            let lb = ls + 3;
            if let Some(rb) = close_of(t, lb) {
                if cx.at(rb + 1, ". iter ( ) . filter ( | && x | x ) . count ( ) ;").is_some() {
                    let mut names: Vec<String> = Vec::new();
                    let mut ok = true;
                    let mut j = lb + 1;
                    while j < rb {
                        match &t[j] {
                            Tk::Id(v) => {
                                match var_kw.get(v) { Some(k) => names.push(k.clone()), None => ok = false }
                                j += 1;
                                if cx.at(j, ". is_some ( )").is_some() { j += 4; }
                            }
                            Tk::P(x) if x == "," => j += 1,
                            _ => { ok = false; j += 1; }
                        }
                    }
                    if ok { counts.insert(c[0].clone(), format!("count({})", names.join(","))); }
                }
            }
        }
        let mut i = le + 1;
        let mut d = 0i32;
        while i < e {
            match &t[i] {
                Tk::P(x) if x == "{" || x == "(" || x == "[" => d += 1,
                Tk::P(x) if x == "}" || x == ")" || x == "]" => d -= 1,
                _ => {}
            }
            if d == 0 && is_id(&t[i], "if") {
                // condition up to the `{`
                let mut j = i + 1;
                let mut pd = 0i32;
                while j < e {
                    match &t[j] {
                        Tk::P(x) if x == "(" || x == "[" => pd += 1,
                        Tk::P(x) if x == ")" || x == "]" => pd -= 1,
                        Tk::P(x) if x == "{" && pd == 0 => break,
                        _ => {}
                    }
                    j += 1;
                }
                if let Some((_, c, ix)) = m_at_ix(t, j, "{ return Err ( $s", cx.arr) {
                    let cond = parse_cond(&t[i + 1..j], &var_kw, &counts);
                    let _ = ix;
                    if cond.is_none() { checks_why.push(format!("checks: a condition after the option loop is not built from option variables with `&&`, `||`, `.is_some()`, `count > n`: `if {}`", tk_text(&t[i + 1..j]))); }
                    checks.push(format!("{}:{}", cond.unwrap_or_else(|| "?".to_string()), hexs(&c[0])));
                }
            }
            i += 1;
        }
    }
    row.insert("checks".into(), if checks.is_empty() { "-".into() } else { checks.join("|") });
    opts.sort();
    row.insert("opts".into(), if opts.is_empty() { "-".into() } else { opts.join("|") });
    row.insert("unk".into(), unk);

    // ---- error literals not attributed to the arity test, a slot, an option or the unknown-word policy
    let mut flits: BTreeSet<String> = BTreeSet::new();
    let mut all_lits: BTreeSet<String> = BTreeSet::new();
    for i in s..e {
        if let Tk::Str(text) = &t[i] {
            let after_err = i >= 2 && is_p(&t[i - 1], "(") && is_id(&t[i - 2], "Err");
            let after_fmt = i >= 5 && is_p(&t[i - 1], "(") && is_p(&t[i - 2], "!") && is_id(&t[i - 3], "format") && is_p(&t[i - 4], "(") && is_id(&t[i - 5], "Err");
            let after_closure = (i >= 3 && is_p(&t[i - 1], "|") && is_id(&t[i - 2], "_") && is_p(&t[i - 3], "|"))
                || (i >= 4 && is_p(&t[i - 1], "{") && is_p(&t[i - 2], "|") && is_id(&t[i - 3], "_") && is_p(&t[i - 4], "|"));
            if after_err || after_fmt || after_closure {
                all_lits.insert(text.clone());
                if !attributed.contains(&i) { flits.insert(hexs(text)); }
            }
        }
    }
    row.insert("flits".into(), if flits.is_empty() { "-".into() } else { flits.iter().cloned().collect::<Vec<_>>().join(";") });

    // ---- source-only fields (compared between the two RESP parsers)
    row.insert("lits".into(), all_lits.iter().map(|x| hexs(x)).collect::<Vec<_>>().join(";"));
    let mut words: BTreeSet<String> = BTreeSet::new();
    for i in s..e {
        if let Tk::Str(w) = &t[i] {
            let is_word = !w.is_empty() && w.bytes().all(|c| c.is_ascii_uppercase() || c.is_ascii_digit() || c == b'-');
            let compared = (i >= 1 && (is_p(&t[i - 1], "==") || is_p(&t[i - 1], "!=") || is_p(&t[i - 1], "|"))) || (i + 1 < e && (is_p(&t[i + 1], "=>") || is_p(&t[i + 1], "|")));
            if is_word && compared { words.insert(w.clone()); }
        }
    }
    row.insert("words".into(), words.iter().cloned().collect::<Vec<_>>().join(","));
    let mut conds: Vec<String> = Vec::new();
    for i in s..e {
        if is_id(&t[i], "if") || is_id(&t[i], "while") {
            let mut j = i + 1;
            let mut d = 0i32;
            while j < e {
                match &t[j] {
                    Tk::P(x) if x == "(" || x == "[" => d += 1,
                    Tk::P(x) if x == ")" || x == "]" => d -= 1,
                    Tk::P(x) if x == "{" && d == 0 => break,
                    _ => {}
                }
                j += 1;
            }
            conds.push(tk_text(&t[i + 1..j]).replace(' ', ""));
        }
    }
    conds.sort();
    row.insert("conds".into(), conds.join(";"));
    for c in &checks_why { why.push(c.clone()); }
    if !why.is_empty() { row.insert("why".into(), why.join(" | ")); }
    row
}

/// a conflict condition over option variables, printed as the model prints its `Cond`: `(A&&B)`, `(A||B)` (binary,
/// left-associated), `count(A,B,…)>n`; `None` = a form this reader does not know
fn parse_cond(t: &[Tk], var_kw: &BTreeMap<String, String>, counts: &BTreeMap<String, String>) -> Option<String> {
    fn atom(t: &[Tk], i: &mut usize, vk: &BTreeMap<String, String>, cn: &BTreeMap<String, String>) -> Option<String> {
        match t.get(*i)? {
            Tk::P(x) if x == "(" => {
                *i += 1;
                let r = or_expr(t, i, vk, cn)?;
                if !is_p(t.get(*i)?, ")") { return None; }
                *i += 1;
                Some(r)
            }
            Tk::Id(v) => {
                *i += 1;
                if let Some(c) = cn.get(v) {
                    // `count_var > n`
                    if is_p(t.get(*i)?, ">") {
                        if let Tk::Num(n) = t.get(*i + 1)? { *i += 2; return Some(format!("{}>{}", c, n)); }
                    }
                    return None;
                }
                let k = vk.get(v)?.clone();
                if m_at(t, *i, ". is_some ( )", "").is_some() { *i += 4; }
                Some(k)
            }
            _ => None,
        }
    }
    fn and_expr(t: &[Tk], i: &mut usize, vk: &BTreeMap<String, String>, cn: &BTreeMap<String, String>) -> Option<String> {
        let mut l = atom(t, i, vk, cn)?;
        while *i < t.len() && is_p(&t[*i], "&&") { *i += 1; let r = atom(t, i, vk, cn)?; l = format!("({}&&{})", l, r); }
        Some(l)
    }
    fn or_expr(t: &[Tk], i: &mut usize, vk: &BTreeMap<String, String>, cn: &BTreeMap<String, String>) -> Option<String> {
        let mut l = and_expr(t, i, vk, cn)?;
        while *i < t.len() && is_p(&t[*i], "||") { *i += 1; let r = and_expr(t, i, vk, cn)?; l = format!("({}||{})", l, r); }
        Some(l)
    }
    let mut i = 0;
    let r = or_expr(t, &mut i, var_kw, counts)?;
    if i == t.len() { Some(r) } else { None }
}

// ---------------------------------------------------------------------------------------------
// normalisation: the translator reads ROLES, not the names a contributor happened to choose
// ---------------------------------------------------------------------------------------------

fn rename_in(t: &mut [Tk], from: usize, to: usize, old: &str, new: &str) {
    if old == new { return; }
    let hi = to.min(t.len());
    for x in t[from..hi].iter_mut() {
        if let Tk::Id(v) = x { if v == old { *v = new.to_string(); } }
    }
}

/// the function `fn NAME (` … its body braces: (index of `fn`, `{`, `}`)
fn fn_span(t: &[Tk], name: &str) -> Option<(usize, usize, usize)> {
    let (s, e, _) = find_pat(t, 0, t.len(), &format!("fn {} (", name), "")?;
    let close_paren = close_of(t, e - 1)?;
    let lb = (close_paren..t.len()).find(|i| is_p(&t[*i], "{"))?;
    let rb = close_of(t, lb)?;
    Some((s, lb, rb))
}

/// names of the parameters of the function whose `(` is at `lp` (identifiers directly followed by `:` at depth 1)
fn param_names(t: &[Tk], lp: usize) -> Vec<String> {
    let rp = close_of(t, lp).unwrap_or(lp);
    let mut v = Vec::new();
    let mut d = 0i32;
    for i in lp..rp {
        match &t[i] {
            Tk::P(x) if x == "(" || x == "[" || x == "<" => d += 1,
            Tk::P(x) if x == ")" || x == "]" || x == ">" => d -= 1,
            Tk::Id(n) if d == 1 && i + 1 < rp && is_p(&t[i + 1], ":") && n != "self" => v.push(n.clone()),
            _ => {}
        }
    }
    v
}

/// Renames, inside the grammar function, the identifiers that play a role the translator keys on to the names it
/// expects — so that renaming a local (`elements` → `parts`, `cmd_name` → `name`, `i` → `idx`, `opt` → `word`,
/// `subcommand` → `sub`, the translator's `args` / `to_string` / `to_sds`) is read like the original — and replaces an
/// arm that only calls a private helper (`"SET" => Self::parse_set(elements)`) by the helper's body.
/// What was renamed / inlined is listed in `notes` (evidence).
fn normalise(t: &mut Vec<Tk>, fn_name: &str, style: Style, notes: &mut Vec<String>) {
    let (fs, mut lb, mut rb) = match fn_span(t, fn_name) { Some(x) => x, None => return };
    // (1) the dispatch variable: the first `match X.as_str() {` whose arms are string literals
    if let Some((ms, _, c)) = find_pat(t, lb, rb, "match $i . as_str ( ) {", "") {
        let _ = ms;
        if c[0] != "cmd_name" { notes.push(format!("{}: dispatch variable `{}` read as `cmd_name`", fn_name, c[0])); rename_in(t, lb, rb, &c[0], "cmd_name"); }
    }
    // (2) the argument array
    match style {
        Style::Resp => {
            // `Array(Some(X)) if !X.is_empty() =>` of the outer match
            if let Some((_, _, c)) = find_pat(t, lb, rb, "Array ( Some ( $i ) )", "") {
                if c[0] != "elements" { notes.push(format!("{}: argument array `{}` read as `elements`", fn_name, c[0])); rename_in(t, lb, rb, &c[0], "elements"); }
            }
        }
        Style::Lua => {
            // `let ARGS = &PARTS[1..];` and the two conversion closures
            if let Some((_, _, c)) = find_pat(t, lb, rb, "let $i = & $i [ 1 .. ] ;", "") {
                if c[0] != "args" { notes.push(format!("{}: argument slice `{}` read as `args`", fn_name, c[0])); rename_in(t, lb, rb, &c[0], "args"); }
            }
            for (pat, canon) in [("let $i = | $i : & [ u8 ] | String :: from_utf8_lossy ( $i ) . to_string ( ) ;", "to_string"),
                                 ("let $i = | $i : & [ u8 ] | SDS :: new ( $i . to_vec ( ) ) ;", "to_sds")] {
                if let Some((_, _, c)) = find_pat(t, lb, rb, pat, "") {
                    if c[0] != canon { notes.push(format!("{}: closure `{}` read as `{}`", fn_name, c[0], canon)); rename_in(t, lb, rb, &c[0], canon); }
                }
            }
        }
    }
    let arr = if style == Style::Resp { "elements" } else { "args" };
    // (3) an arm that only calls a private helper with the argument array: the helper's body takes its place
    let mpos = match find_pat(t, lb, rb, "match cmd_name . as_str ( ) {", "") { Some((_, e, _)) => e - 1, None => return };
    let mut guard = 0;
    loop {
        guard += 1;
        if guard > 64 { break; }
        let arms = parse_arms(t, mpos);
        let mut done = true;
        for a in &arms {
            let (bs, be) = a.body;
            // `[return] [Self::|self.]HELPER([&]ARR[, …literal args])[?][;]` and nothing else
            let mut i = bs;
            if i < be && is_id(&t[i], "return") { i += 1; }
            if i + 1 < be && (is_id(&t[i], "Self") && is_p(&t[i + 1], "::")) { i += 2; }
            else if i + 1 < be && (is_id(&t[i], "self") && is_p(&t[i + 1], ".")) { i += 2; }
            let helper = match t.get(i) { Some(Tk::Id(h)) if i + 1 < be && is_p(&t[i + 1], "(") => h.clone(), _ => continue };
            if helper.starts_with("extract_") || helper == "Ok" || helper == "Err" { continue; }
            let cp = match close_of(t, i + 1) { Some(x) => x, None => continue };
            let mut j = cp + 1;
            while j < be && (is_p(&t[j], "?") || is_p(&t[j], ";")) { j += 1; }
            if j != be { continue; }
            // the call's arguments: exactly the array (by reference or not)
            let call_args: Vec<Tk> = t[i + 2..cp].iter().filter(|x| !is_p(x, "&")).cloned().collect();
            if !(call_args.len() == 1 && is_id(&call_args[0], arr)) { continue; }
            let (hs, hlb, hrb) = match fn_span(t, &helper) { Some(x) => x, None => continue };
            let ps = param_names(t, hs + 2);
            if ps.len() != 1 { continue; }
            let mut body: Vec<Tk> = t[hlb + 1..hrb].to_vec();
            let n = body.len();
            rename_in(&mut body, 0, n, &ps[0], arr);
            notes.push(format!("{}: arm {:?} calls the private helper `{}`: its body is read in place", fn_name, arm_names(a), helper));
            // splice: replace the arm's body tokens by `{ body }` (an expression arm may lack braces)
            let mut repl: Vec<Tk> = vec![Tk::P("{".into())];
            repl.extend(body);
            repl.push(Tk::P("}".into()));
            let braced = bs > 0 && is_p(&t[bs - 1], "{");
            if braced { t.splice(bs..be, repl[1..repl.len() - 1].iter().cloned()); } else { t.splice(bs..be, repl); }
            done = false;
            break;
        }
        if done { break; }
        // spans moved
        match fn_span(t, fn_name) { Some((_, l, r)) => { lb = l; rb = r; } None => return }
    }
    let _ = fs;
    // (4) per arm: the loop index, the option word, the sub-command word
    let (_, lb, rb) = match fn_span(t, fn_name) { Some(x) => x, None => return };
    let mpos = match find_pat(t, lb, rb, "match cmd_name . as_str ( ) {", "") { Some((_, e, _)) => e - 1, None => return };
    let arms = parse_arms(t, mpos);
    for a in &arms {
        let (bs, be) = a.body;
        // loop index: `while X < ARR.len() {`
        let loops: Vec<String> = find_all(t, bs, be, "while $i < $A . len ( ) {", arr).into_iter().map(|(_, _, c)| c[0].clone()).collect();
        for v in loops.iter().collect::<BTreeSet<_>>() {
            if v.as_str() != "i" { notes.push(format!("{}: arm {:?}: loop index `{}` read as `i`", fn_name, arm_names(a), v)); rename_in(t, bs, be, v, "i"); }
        }
        let fors: Vec<String> = find_all(t, bs, be, "for $i in ( $n .. $A . len ( ) ) . step_by ( 2 ) {", arr).into_iter().map(|(_, _, c)| c[0].clone()).collect();
        for v in fors.iter().collect::<BTreeSet<_>>() {
            if v.as_str() != "i" { notes.push(format!("{}: arm {:?}: loop index `{}` read as `i`", fn_name, arm_names(a), v)); rename_in(t, bs, be, v, "i"); }
        }
        // `match X.as_str() {` inside a `while` = the option word; at the top of the arm = the sub-command word
        let whiles: Vec<(usize, usize)> = find_all(t, bs, be, "while i < $A . len ( ) {", arr).into_iter().filter_map(|(_, e, _)| close_of(t, e - 1).map(|c| (e - 1, c))).collect();
        let ms: Vec<(usize, String)> = find_all(t, bs, be, "match $i . as_str ( ) {", arr).into_iter().map(|(s, _, c)| (s, c[0].clone())).collect();
        for (pos, v) in ms {
            let in_loop = whiles.iter().any(|(a, b)| pos > *a && pos < *b);
            let canon = if in_loop { "opt" } else { "subcommand" };
            if v != canon && v != "cmd_name" {
                // only a word variable: defined by `let V = …to_uppercase();`
                if find_pat(t, bs, pos, &format!("let {} =", v), arr).is_some() {
                    notes.push(format!("{}: arm {:?}: word variable `{}` read as `{}`", fn_name, arm_names(a), v, canon));
                    rename_in(t, bs, be, &v, canon);
                }
            }
        }
    }
}

/// the numeric type of every named field of every struct-like `Command` variant (`Set { ex: Option<i64>, … }` →
/// ("Set", "ex") → "i64"), from command.rs: resolves a `.parse()` whose target type the arm does not spell out
pub type FieldTypes = BTreeMap<(String, String), String>;

pub fn field_types(command_rs: &str) -> FieldTypes {
    let t = lex(command_rs);
    let mut m = FieldTypes::new();
    let lb = match find_pat(&t, 0, t.len(), "enum Command {", "") { Some((_, e, _)) => e - 1, None => return m };
    let rb = close_of(&t, lb).unwrap_or(t.len());
    let mut i = lb + 1;
    while i < rb {
        if let (Tk::Id(v), true) = (&t[i], i + 1 < rb && is_p(&t[i + 1], "{")) {
            let c = close_of(&t, i + 1).unwrap_or(rb);
            let mut j = i + 2;
            while j < c {
                if let (Tk::Id(f), true) = (&t[j], j + 1 < c && is_p(&t[j + 1], ":")) {
                    // the type runs to the `,` at angle depth 0
                    let mut k = j + 2;
                    let mut d = 0i32;
                    let mut ty: Option<String> = None;
                    while k < c {
                        match &t[k] {
                            Tk::P(x) if x == "<" || x == "(" => d += 1,
                            Tk::P(x) if x == ">" || x == ")" => d -= 1,
                            Tk::P(x) if x == "," && d == 0 => break,
                            Tk::Id(x) if matches!(x.as_str(), "i64" | "isize" | "u64" | "usize" | "u32" | "f64") => ty = Some(x.clone()),
                            _ => {}
                        }
                        k += 1;
                    }
                    if let Some(ty) = ty { m.insert((v.clone(), f.clone()), ty); }
                    j = k + 1;
                } else { j += 1; }
            }
            i = c + 1;
        } else if is_p(&t[i], "(") || is_p(&t[i], "{") || is_p(&t[i], "[") {
            i = close_of(&t, i).unwrap_or(rb) + 1;
        } else { i += 1; }
    }
    m
}

pub struct Extracted {
    /// the extract helpers: name, parsed type, text of a parse failure, every literal
    pub helpers: Vec<Row>,
    /// what a command name without an arm answers (ZZZ substituted)
    pub default_arm: String,
    pub rows: Vec<Row>,
    /// family name -> (text of a missing sub-command, what an unknown sub-command ZZZ answers)
    pub families: Vec<Row>,
    pub problems: Vec<String>,
    /// renamed locals / inlined helpers the normalisation pass read through
    pub notes: Vec<String>,
}

/// the shape rows of one grammar, from its source text
pub fn extract(src: &str, fn_name: &str, style: Style, types: &FieldTypes) -> Extracted {
    let mut out = Extracted { helpers: vec![], default_arm: "?".into(), rows: vec![], families: vec![], problems: vec![], notes: vec![] };
    let mut toks = lex(src);
    // the zero-copy twin uses the same helpers under `_zc` names
    for t in toks.iter_mut() {
        if let Tk::Id(s) = t {
            if let Some(st) = s.strip_suffix("_zc") { *s = st.to_string(); }
        }
    }
    normalise(&mut toks, fn_name, style, &mut out.notes);
    let t = &toks[..];
    let fpos = match find_pat(t, 0, t.len(), &format!("fn {} (", fn_name), "") { Some((s, _, _)) => s, None => { out.problems.push(format!("fn {} not found", fn_name)); return out; } };
    let arr: &'static str = if style == Style::Resp { "elements" } else { "args" };
    let mpos = match find_pat(t, fpos, t.len(), "match cmd_name . as_str ( ) {", "") { Some((_, e, _)) => e - 1, None => { out.problems.push("match cmd_name.as_str() not found".into()); return out; } };
    let arms = parse_arms(t, mpos);
    // the extract helpers (RESP parsers)
    if style == Style::Resp {
        for h in ["extract_string", "extract_sds", "extract_integer", "extract_float", "extract_i64", "extract_u64"] {
            if let Some((hs, he, _)) = find_pat(t, 0, t.len(), &format!("fn {} (", h), "") {
                let lb = (he..t.len()).find(|i| is_p(&t[*i], "{"));
                if let Some(lb) = lb {
                    let rb = close_of(t, lb).unwrap_or(lb);
                    let _ = hs;
                    let ty = find_pat(t, lb, rb, "parse :: < $i > ( )", "").map(|(_, _, c)| match c[0].as_str() { "isize" | "i64" => "int64".to_string(), o => o.to_string() }).unwrap_or_else(|| "-".into());
                    let perr = if let Some((_, _, c)) = find_pat(t, lb, rb, "map_err ( | _ | $s", "") { hexs(&c[0]) }
                        else if find_pat(t, lb, rb, "map_err ( | e | e . to_string ( ) )", "").is_some() { "std".to_string() }
                        else { "-".to_string() };
                    let lits: BTreeSet<String> = (lb..rb).filter_map(|i| match &t[i] { Tk::Str(x) => Some(hexs(x)), _ => None }).collect();
                    let mut r: Row = BTreeMap::new();
                    r.insert("name".into(), h.to_string());
                    r.insert("ty".into(), ty);
                    r.insert("perr".into(), perr);
                    r.insert("lits".into(), lits.into_iter().collect::<Vec<_>>().join(";"));
                    out.helpers.push(r);
                }
            }
        }
    }
    for a in &arms {
        if arm_is_default(a) {
            let (bs, _) = a.body;
            out.default_arm = if m_at(t, bs, "Ok ( Command :: Unknown ( cmd_name ) )", arr).is_some() { format!("OK_Unknown_s{}", hexs("ZZZ")) }
                else if let Some((_, c)) = m_at(t, bs, "Err ( format ! ( $s , cmd_name ) )", arr) { format!("ERR_{}", hexs(&c[0].replace("{}", "ZZZ"))) }
                else { "?".to_string() };
            continue;
        }
        let names = arm_names(a);
        let (bs, be) = a.body;
        // a family: `match subcommand.as_str() {` at depth 0 of the arm
        let mut fam_match: Option<usize> = None;
        {
            let mut d = 0i32;
            let mut i = bs;
            while i < be {
                match &t[i] {
                    Tk::P(x) if x == "{" || x == "(" || x == "[" => d += 1,
                    Tk::P(x) if x == "}" || x == ")" || x == "]" => d -= 1,
                    _ => {}
                }
                if d == 0 {
                    if let Some((e2, _)) = m_at(t, i, "match subcommand . as_str ( ) {", arr) { fam_match = Some(e2 - 1); break; }
                }
                i += 1;
            }
        }
        if let Some(lb) = fam_match {
            let cx_top = Cx { types, t, arr, style, first: 1 };
            let (_, aerr, _) = cx_top.arity((bs, lb));
            let sub_arms = parse_arms(t, lb);
            let dflt = sub_arms.iter().find(|x| arm_is_default(x));
            let dflt_text = dflt.map(|d| tk_text(&t[d.body.0..d.body.1]));
            let cx = Cx { types, t, arr, style, first: 2 };
            for name in &names {
                let mut fr: Row = BTreeMap::new();
                fr.insert("name".into(), name.clone());
                fr.insert("aerr".into(), aerr.as_ref().map(|x| hexs(x)).unwrap_or_else(|| "x".into()));
                let probe = match dflt {
                    None => "?".to_string(),
                    Some(d) => {
                        let (ds, de) = d.body;
                        if let Some((_, c)) = cx.at(ds, "Err ( format ! ( $s , subcommand ) )") { format!("ERR_{}", hexs(&c[0].replace("{}", "ZZZ"))) }
                        else if let Some((_, c)) = cx.at(ds, "Err ( format ! ( $s , subcommand . to_lowercase ( ) ) )") { format!("ERR_{}", hexs(&c[0].replace("{}", "zzz"))) }
                        else if let Some((_, c)) = cx.at(ds, "Ok ( Command :: Unknown ( format ! ( $s , subcommand ) ) )") { format!("OK_Unknown_s{}", hexs(&c[0].replace("{}", "ZZZ"))) }
                        else if cx.pat(ds, de, "Command :: DebugSet ( subcommand , String :: new ( ) )").is_some() { format!("OK_DebugSet_s{}_sx", hexs("ZZZ")) }
                        else { "?".to_string() }
                    }
                };
                fr.insert("probe".into(), probe);
                // every sub-command word of the family, also those whose arm does what the default arm does
                let subwords: BTreeSet<String> = sub_arms.iter().filter(|x| !arm_is_default(x)).flat_map(|x| arm_names(x)).collect();
                fr.insert("subwords".into(), subwords.into_iter().collect::<Vec<_>>().join(","));
                out.families.push(fr);
                for sa in &sub_arms {
                    if arm_is_default(sa) { continue; }
                    // an arm that does what the default arm does adds no row
                    if Some(tk_text(&t[sa.body.0..sa.body.1])) == dflt_text { continue; }
                    for sn in arm_names(sa) {
                        out.rows.push(describe(&cx, &format!("{}.{}", name, sn), sa.body));
                    }
                }
            }
        } else {
            let cx = Cx { types, t, arr, style, first: if style == Style::Resp { 1 } else { 0 } };
            for name in &names {
                out.rows.push(describe(&cx, name, a.body));
            }
        }
    }
    out
}

pub fn parse_row(line: &str) -> Row {
    let mut r: Row = BTreeMap::new();
    for tok in line.split(' ') {
        if let Some((k, v)) = tok.split_once('=') { r.insert(k.to_string(), v.to_string()); }
    }
    r
}

const NUMERIC: &[&str] = &["int", "u64", "usz", "u32", "flt", "pos"];

/// field equality; a source-side `num` (a `.parse()` whose target type the syntax does not show) matches any
/// numeric kind of the model with the same error text
pub fn field_eq(field: &str, src: &str, model: &str) -> bool {
    if src == model { return true; }
    if !matches!(field, "slots" | "opt" | "opts" | "tail") { return false; }
    let split = |s: &str| -> Vec<String> {
        let mut v = Vec::new();
        let mut cur = String::new();
        for c in s.chars() {
            if c == ',' || c == '|' || c == ':' { v.push(cur.clone()); v.push(c.to_string()); cur.clear(); } else { cur.push(c); }
        }
        v.push(cur);
        v
    };
    let (a, b) = (split(src), split(model));
    if a.len() != b.len() { return false; }
    a.iter().zip(b.iter()).all(|(x, y)| {
        if x == y { return true; }
        if let Some(rest) = x.strip_prefix("num") {
            return NUMERIC.iter().any(|k| y.strip_prefix(k) == Some(rest));
        }
        false
    })
}

// ---------------------------------------------------------------------------------------------
// the regenerated tables as a Lean file (`Grammar.SRow` values + the theorems that tie them to the model)
// ---------------------------------------------------------------------------------------------

fn unhex_bytes(h: &str) -> Option<Vec<u8>> {
    let h = h.strip_prefix('x')?;
    if h.len() % 2 != 0 { return None; }
    (0..h.len()).step_by(2).map(|i| u8::from_str_radix(h.get(i..i + 2)?, 16).ok()).collect()
}

/// a byte string as a Lean term of type `Bytes`
fn lean_bytes_raw(b: &[u8]) -> String {
    // numerals, not a string literal: `String.toList` on a literal costs the kernel milliseconds per character
    format!("[{}]", b.iter().map(|c| c.to_string()).collect::<Vec<_>>().join(", "))
}
fn lean_hex(h: &str) -> Option<String> { unhex_bytes(h).map(|b| lean_bytes_raw(&b)) }
fn lean_word(w: &str) -> String { lean_bytes_raw(w.as_bytes()) }

fn lean_arity(a: &str) -> Option<String> {
    let n = |s: &str| s.parse::<u64>().ok();
    if a == "any" { return Some(".any".into()); }
    if let Some(r) = a.strip_prefix("even-ge") { return n(r).map(|k| format!(".evenAtLeast {}", k)); }
    if let Some(r) = a.strip_prefix("odd-ge") { return n(r).map(|k| format!(".oddAtLeast {}", k)); }
    if let Some(r) = a.strip_prefix("eq") { return n(r).map(|k| format!(".exact {}", k)); }
    if let Some(r) = a.strip_prefix("ge") { return n(r).map(|k| format!(".atLeast {}", k)); }
    if let Some(r) = a.strip_prefix("in") { let (lo, hi) = r.split_once('-')?; return Some(format!(".between {} {}", n(lo)?, n(hi)?)); }
    None
}

fn lean_arg(a: &str) -> Option<String> {
    let (k, err) = match a.split_once('!') { Some((k, e)) => (k, Some(e)), None => (a, None) };
    let kind = match k {
        "str" | "sds" | "int" | "u64" | "flt" | "usz" | "kw" | "u32" | "pos" => format!(".k .{}", k),
        "num" => ".num".to_string(),
        _ => return None,
    };
    let e = match err { Some(h) => format!("some {}", lean_hex(h)?), None => "none".to_string() };
    Some(format!("⟨{}, {}⟩", kind, e))
}

fn lean_args(s: &str) -> Option<String> {
    if s == "-" { return Some("[]".into()); }
    let v: Option<Vec<String>> = s.split(',').map(lean_arg).collect();
    Some(format!("[{}]", v?.join(", ")))
}

fn lean_tail(s: &str) -> Option<String> {
    match s {
        "none" => return Some(".none".into()),
        "ignore" => return Some(".ignore".into()),
        "raw" => return Some(".raw".into()),
        "scan" => return Some(".scan".into()),
        _ => {}
    }
    let p: Vec<&str> = s.split(':').collect();
    match p.as_slice() {
        ["many", a] => Some(format!(".many {}", lean_arg(a)?)),
        ["pairs", a, b] => Some(format!(".pairs {} {}", lean_arg(a)?, lean_arg(b)?)),
        ["flags", a, b, odd] => Some(format!(".flags {} {} {}", lean_arg(a)?, lean_arg(b)?, lean_hex(odd)?)),
        _ => None,
    }
}

fn lean_opts(s: &str) -> Option<String> {
    if s == "-" { return Some("[]".into()); }
    let mut out = Vec::new();
    for o in s.split('|') {
        let p: Vec<&str> = o.split(':').collect();
        if p.len() < 3 { return None; }
        let vals = lean_args(p[1])?;
        let m = match p[2].strip_prefix("m=")? {
            "-" => ".na".to_string(),
            "crash" => ".crash".to_string(),
            "ignore" => ".ignore".to_string(),
            h => format!(".text {}", lean_hex(h)?),
        };
        let r = match p.get(3) { Some(r) => format!("some {}", lean_hex(r.strip_prefix("r=")?)?), None => "none".to_string() };
        if p.len() > 4 { return None; }
        out.push(format!("⟨{}, {}, {}, {}⟩", lean_word(p[0]), vals, m, r));
    }
    Some(format!("[{}]", out.join(", ")))
}

fn lean_unk(s: &str) -> Option<String> {
    match s {
        "-" => Some(".na".into()),
        "break" => Some(".brk".into()),
        "skip" => Some(".skip".into()),
        _ => {
            if let Some(h) = s.strip_prefix("lit:") { Some(format!(".lit {}", lean_hex(h)?)) }
            else if let Some(h) = s.strip_prefix("fmt:") { Some(format!(".fmt {}", lean_hex(h)?)) }
            else { None }
        }
    }
}

fn lean_hexlist(s: &str, sep: char) -> Option<String> {
    if s == "-" || s.is_empty() { return Some("[]".into()); }
    let v: Option<Vec<String>> = s.split(sep).map(lean_hex).collect();
    Some(format!("[{}]", v?.join(", ")))
}

/// `KW` | `(A&&B)` | `(A||B)` | `count(A,B,…)>n`
fn lean_cond(s: &str) -> Option<String> {
    fn go(b: &[u8], i: &mut usize) -> Option<String> {
        if b.get(*i) == Some(&b'(') {
            *i += 1;
            let l = go(b, i)?;
            let op = b.get(*i..*i + 2)?;
            let c = if op == b"&&" { ".and" } else if op == b"||" { ".or" } else { return None };
            *i += 2;
            let r = go(b, i)?;
            if b.get(*i) != Some(&b')') { return None; }
            *i += 1;
            return Some(format!("({} {} {})", c, l, r));
        }
        if b[*i..].starts_with(b"count(") {
            *i += 6;
            let st = *i;
            while *i < b.len() && b[*i] != b')' { *i += 1; }
            let ws: Vec<String> = std::str::from_utf8(&b[st..*i]).ok()?.split(',').map(lean_word).collect();
            *i += 1;
            if b.get(*i) != Some(&b'>') { return None; }
            *i += 1;
            let ns = *i;
            while *i < b.len() && b[*i].is_ascii_digit() { *i += 1; }
            let n: u64 = std::str::from_utf8(&b[ns..*i]).ok()?.parse().ok()?;
            return Some(format!("(.countGt [{}] {})", ws.join(", "), n));
        }
        let st = *i;
        while *i < b.len() && (b[*i].is_ascii_alphanumeric() || b[*i] == b'-' || b[*i] == b'_') { *i += 1; }
        if *i == st { return None; }
        Some(format!("(.kw {})", lean_word(std::str::from_utf8(&b[st..*i]).ok()?)))
    }
    let b = s.as_bytes();
    let mut i = 0;
    let r = go(b, &mut i)?;
    if i == b.len() { Some(r) } else { None }
}

fn lean_checks(s: &str) -> Option<String> {
    if s == "-" { return Some("[]".into()); }
    // rules are separated by a single `|` at parenthesis depth 0
    let mut parts: Vec<String> = Vec::new();
    let mut cur = String::new();
    let mut d = 0i32;
    for c in s.chars() {
        match c {
            '(' => { d += 1; cur.push(c); }
            ')' => { d -= 1; cur.push(c); }
            '|' if d == 0 => { parts.push(std::mem::take(&mut cur)); }
            _ => cur.push(c),
        }
    }
    parts.push(cur);
    let mut out = Vec::new();
    for p in parts {
        let (c, t) = p.rsplit_once(':')?;
        out.push(format!("({}, {})", lean_cond(c)?, lean_hex(t)?));
    }
    Some(format!("[{}]", out.join(", ")))
}

/// one `SRow` term; `Err(field)` names the first field the translator could not read (`?`) or this printer does
/// not understand
pub fn lean_row(r: &Row) -> Result<String, String> {
    let g = |k: &str| r.get(k).cloned().unwrap_or_default();
    let f = |k: &str, v: Option<String>| v.ok_or_else(|| format!("{}={}", k, g(k)));
    let ctors = { let c = g("ctor"); if c.is_empty() { "[]".to_string() } else { format!("[{}]", c.split('|').map(lean_word).collect::<Vec<_>>().join(", ")) } };
    Ok(format!("⟨{}, {}, {}, {}, {}, {}, {}, {}, {}, {}, {}⟩",
        lean_word(&g("name")), f("arity", lean_arity(&g("arity")))?, f("aerr", lean_hex(&g("aerr")))?, ctors,
        f("slots", lean_args(&g("slots")))?, f("opt", lean_args(&g("opt")))?, f("tail", lean_tail(&g("tail")))?,
        f("opts", lean_opts(&g("opts")))?, f("unk", lean_unk(&g("unk")))?, f("flits", lean_hexlist(&g("flits"), ';'))?,
        f("checks", lean_checks(&g("checks")))?))
}

/// `OK_Ctor_sx…_sx…` / `ERR_x…` as a Lean term of type `Except Bytes (Bytes × List Bytes)`
fn lean_probe(p: &str) -> Option<String> {
    if let Some(h) = p.strip_prefix("ERR_") { return Some(format!("(.error {})", lean_hex(h)?)); }
    let rest = p.strip_prefix("OK_")?;
    let mut it = rest.split('_');
    let ctor = it.next()?;
    let toks: Option<Vec<String>> = it.map(|t| lean_hex(t.strip_prefix('s')?)).collect();
    Some(format!("(.ok ({}, [{}]))", lean_word(ctor), toks?.join(", ")))
}

/// the Lean file with the three regenerated tables and the theorems about them; also what could not be emitted
/// `order_*`: the names of the model's rows / families in the model's order — every source row is looked up BY
/// NAME and written at the model's position (the order of the match arms in the source does not matter); arms the
/// model has no row for follow at the end (and make the tables differ)
pub fn lean_file(repo: &str, sim: &Extracted, zc: &Extracted, lua: &Extracted, order_resp: &[String], order_lua: &[String], order_fam: &[String]) -> (String, Vec<String>) {
    let mut unread: Vec<String> = Vec::new();
    let pos = |order: &[String], n: &str| order.iter().position(|x| x == n).unwrap_or(usize::MAX);
    let mut rows = |tag: &str, ex: &Extracted, order: &[String]| -> (String, usize) {
        let mut v: Vec<&Row> = ex.rows.iter().collect();
        v.sort_by_key(|r| { let n = r.get("name").cloned().unwrap_or_default(); (pos(order, &n), n) });
        let mut out = Vec::new();
        for r in v {
            match lean_row(r) {
                Ok(s) => out.push(format!("  {}", s)),
                Err(e) => unread.push(format!("{}:{}:{}", tag, r.get("name").cloned().unwrap_or_default(), e)),
            }
        }
        (format!("[\n{}\n]", out.join(",\n")), out.len())
    };
    let (resp_rows, n_resp) = rows("from_resp", sim, order_resp);
    let (mut zc_rows, n_zc) = rows("from_resp_zero_copy", zc, order_resp);
    let (lua_rows, n_lua) = rows("parse_lua_command_bytes", lua, order_lua);
    // identical text = the same table: say so instead of repeating it (the equality theorem is then `rfl`)
    if zc_rows == resp_rows { zc_rows = "respRows".to_string(); }
    let mut fams = |tag: &str, ex: &Extracted| -> String {
        let mut v: Vec<&Row> = ex.families.iter().collect();
        v.sort_by_key(|r| { let n = r.get("name").cloned().unwrap_or_default(); (pos(order_fam, &n), n) });
        let mut out = Vec::new();
        for r in v {
            let g = |k: &str| r.get(k).cloned().unwrap_or_default();
            match (lean_hex(&g("aerr")), lean_probe(&g("probe"))) {
                (Some(a), Some(p)) => out.push(format!("  ⟨{}, {}, {}⟩", lean_word(&g("name")), a, p)),
                _ => unread.push(format!("{}:family:{}", tag, g("name"))),
            }
        }
        format!("[\n{}\n]", out.join(",\n"))
    };
    let resp_fams = fams("from_resp", sim);
    let mut zc_fams = fams("from_resp_zero_copy", zc);
    if zc_fams == resp_fams { zc_fams = "respFamilies".to_string(); }
    let mut dflt = |tag: &str, ex: &Extracted| -> String {
        match lean_probe(&ex.default_arm) { Some(p) => p, None => { unread.push(format!("{}:default-arm", tag)); "(.error [])".to_string() } }
    };
    let (d_resp, d_zc, d_lua) = (dflt("from_resp", sim), dflt("from_resp_zero_copy", zc), dflt("parse_lua_command_bytes", lua));
    let text = format!(r#"import RedisVerif.Props.C16Src

/-!
GENERATED on this run of `./check C16` by the source → shape-descriptor translator (harness/src/c16_shape.rs) from
  {repo}/src/redis/parser.rs (Command::from_resp), {repo}/src/redis/commands.rs (Command::from_resp_zero_copy),
  {repo}/src/redis/executor/script_ops.rs (parse_lua_command_bytes).
Do not edit.  The hand-written tables (`Grammar.table`, `Grammar.luaTable`) are the cross-check.
-/
set_option maxRecDepth 100000
namespace RedisVerif.C16.SrcGen
open RedisVerif.Grammar RedisVerif.C16

def respRows : List SRow := {resp_rows}

def zcRows : List SRow := {zc_rows}

def luaRows : List SRow := {lua_rows}

def respFamilies : List SFamily := {resp_fams}

def zcFamilies : List SFamily := {zc_fams}

def respDefault : Except Bytes (Bytes × List Bytes) := {d_resp}
def zcDefault : Except Bytes (Bytes × List Bytes) := {d_zc}
def luaDefault : Except Bytes (Bytes × List Bytes) := {d_lua}

/-! ### the regenerated tables against each other and against the normal form of the hand-written model
  (`Model/GrammarShapesNF.lean`, proved at build time to describe `table` / `luaTable`: `respRowsNF_describes` …) -/

theorem zc_rows_eq_resp_rows : zcRows = respRows := by decide +kernel
theorem zc_families_eq_resp_families : zcFamilies = respFamilies := by decide +kernel
theorem resp_rows_eq_model_nf : respRows = respRowsNF := by decide +kernel
theorem lua_rows_eq_model_nf : luaRows = luaRowsNF := by decide +kernel
theorem resp_families_eq_model_nf : respFamilies = familiesNF := by decide +kernel
theorem default_arms_eq_model_nf : respDefault = respDefaultNF ∧ zcDefault = respDefault ∧ luaDefault = luaDefaultNF := by
  decide +kernel

theorem resp_rows_describe_model : rowsDescribe respRows (shapeRows table) = true :=
  resp_rows_eq_model_nf ▸ respRowsNF_describes
theorem lua_rows_describe_model : rowsDescribe luaRows (shapeRows luaTable) = true :=
  lua_rows_eq_model_nf ▸ luaRowsNF_describes
theorem resp_families_describe_model : familiesDescribe respFamilies table = true :=
  resp_families_eq_model_nf ▸ familiesNF_describe
theorem default_arms_describe_model :
    respDefault = probeOf (parseCmd [s2b "ZZZ"]) ∧ zcDefault = respDefault ∧ luaDefault = probeOf (parseLua [s2b "ZZZ"]) :=
  ⟨default_arms_eq_model_nf.1.trans defaultsNF_describe.1, default_arms_eq_model_nf.2.1,
   default_arms_eq_model_nf.2.2.trans defaultsNF_describe.2⟩

/-! ### what the regenerated tables mean for every frame (`Props/C16Src.lean` instantiated on THIS run's tables) -/

theorem parsers_agree_regenerated :
    rowsDescribe zcRows (shapeRows table) = true ∧ ∀ f : List Bytes, parseCmdZc f = parseCmd f :=
  parsers_agree_src zc_rows_eq_resp_rows resp_rows_describe_model

theorem from_resp_governed_by_regenerated_rows (name : Bytes) (args : List Bytes) (s : Spec)
    (hf : findEntry table (kw name) = some (.cmd s)) :
    ∃ r ∈ respRows, Described r (s.row []) ∧ r.name = kw name ∧
      parseCmd (name :: args) =
        if r.arity.ok args.length then liftB (runGen s.body.gen args) else .error (.arity r.aerr) :=
  resp_governed resp_rows_describe_model name args s hf

theorem from_resp_sub_governed_by_regenerated_rows (name sub : Bytes) (args : List Bytes) (fam aerr : Bytes)
    (subs : List Spec) (dflt : Bytes → List Bytes → Res) (s : Spec)
    (hf : findEntry table (kw name) = some (.family fam aerr subs dflt)) (hs : findSpec subs (kw sub) = some s) :
    ∃ r ∈ respRows, Described r (s.row (fam ++ [46])) ∧ r.name = fam ++ 46 :: s.name ∧
      parseCmd (name :: sub :: args) =
        if r.arity.ok args.length then liftB (runGen s.body.gen args) else .error (.arity r.aerr) :=
  resp_governed_sub resp_rows_describe_model name sub args fam aerr subs dflt s hf hs

theorem translator_governed_by_regenerated_rows (name : Bytes) (args : List Bytes) (s : Spec)
    (hf : findEntry luaTable (kw name) = some (.cmd s)) :
    ∃ r ∈ luaRows, Described r (s.row []) ∧ r.name = kw name ∧
      parseLua (name :: args) =
        if r.arity.ok args.length then liftB (runGen s.body.gen args) else .error (.arity r.aerr) :=
  lua_governed lua_rows_describe_model name args s hf

theorem arity_exact_regenerated (name : Bytes) (args : List Bytes) (s : Spec)
    (hf : findEntry table (kw name) = some (.cmd s)) :
    ∃ r ∈ respRows, r.name = kw name ∧
      (errText (parseCmd (name :: args)) = some r.aerr ↔ r.arity.ok args.length = false) :=
  src_arity_exact resp_rows_describe_model name args s hf

theorem alphabet_regenerated (name : Bytes) (args : List Bytes) (s : Spec)
    (hf : findEntry table (kw name) = some (.cmd s)) :
    ∃ r ∈ respRows, r.name = kw name ∧ SrcAllows r (parseCmd (name :: args)) :=
  src_alphabet resp_rows_describe_model name args s hf

theorem alphabet_lua_regenerated (name : Bytes) (args : List Bytes) (s : Spec)
    (hf : findEntry luaTable (kw name) = some (.cmd s)) :
    ∃ r ∈ luaRows, r.name = kw name ∧ SrcAllows r (parseLua (name :: args)) :=
  src_alphabet_lua lua_rows_describe_model name args s hf

theorem lua_agrees_regenerated (name : Bytes) (args : List Bytes) (c : Cmd)
    (sl : Spec) (hfl : findEntry luaTable (kw name) = some (.cmd sl))
    (s : Spec) (hf : findEntry table (kw name) = some (.cmd s)) (hacc : parseLua (name :: args) = .ok c) :
    parseCmd (name :: args) = .ok c ∧ (∃ r ∈ luaRows, r.name = kw name) ∧ (∃ r ∈ respRows, r.name = kw name) :=
  lua_agrees_src resp_rows_describe_model lua_rows_describe_model name args c sl hfl s hf hacc

theorem regenerated_rows_definite : respRows.all SRow.definite = true := by decide +kernel

/-- table-driven commands: `parseCmd` = the arity test of the regenerated row, then the body GENERATED from it -/
theorem from_resp_dsl_is_generated (name : Bytes) (args : List Bytes) (s : Spec)
    (hf : findEntry table (kw name) = some (.cmd s)) (hb : s.body.plainDsl = true) :
    ∃ r ∈ respRows, r.name = kw name ∧ ∃ b, r.body? = some b ∧
      parseCmd (name :: args) =
        if r.arity.ok args.length then liftB (b.run args) else .error (.arity r.aerr) :=
  resp_dsl_is_generated resp_rows_describe_model regenerated_rows_definite name args s hf hb

theorem from_resp_sub_dsl_is_generated (name sub : Bytes) (args : List Bytes) (fam aerr : Bytes) (subs : List Spec)
    (dflt : Bytes → List Bytes → Res) (s : Spec)
    (hf : findEntry table (kw name) = some (.family fam aerr subs dflt)) (hs : findSpec subs (kw sub) = some s)
    (hb : s.body.plainDsl = true) :
    ∃ r ∈ respRows, r.name = fam ++ 46 :: s.name ∧ ∃ b, r.body? = some b ∧
      parseCmd (name :: sub :: args) =
        if r.arity.ok args.length then liftB (b.run args) else .error (.arity r.aerr) :=
  resp_dsl_sub_is_generated resp_rows_describe_model regenerated_rows_definite name sub args fam aerr subs dflt s hf hs hb

/-- non-vacuity: the regenerated tables are not empty and know SET in all three grammars -/
theorem regenerated_tables_nonempty :
    respRows.length = {n_resp} ∧ zcRows.length = {n_zc} ∧ luaRows.length = {n_lua} ∧
    (respRows.any (·.name == [83, 69, 84]) && luaRows.any (·.name == [83, 69, 84])) = true := by decide +kernel

end RedisVerif.C16.SrcGen
"#, repo = repo, resp_rows = resp_rows, zc_rows = zc_rows, lua_rows = lua_rows, resp_fams = resp_fams, zc_fams = zc_fams,
        d_resp = d_resp, d_zc = d_zc, d_lua = d_lua,
        n_resp = n_resp, n_zc = n_zc, n_lua = n_lua);
    (text, unread)
}

// ---------------------------------------------------------------------------------------------
// the MODULE TREE of an anchored file (session 4, harmless round 2)
// ---------------------------------------------------------------------------------------------

/// The source text of a module together with the child modules it declares out of line: `foo.rs` (or
/// `foo/mod.rs`) plus, for every `mod x;` at its top level (any visibility, `#[path = "…"]` honoured, a
/// `#[cfg(test)]` module left out), `foo/x.rs` or `foo/x/mod.rs` — recursively.  The scans read `text` (the
/// files one after the other): an item moved into a child module, an `impl` block split over several
/// files, a private item that became `pub(super)` are read as the same items.
pub struct ModTree {
    pub text: String,
    /// the files read, relative to the repository (the root file first)
    pub files: Vec<String>,
    /// `mod x;` declarations whose file was not found
    pub missing: Vec<String>,
    /// every `pub` / `pub(…)` fn of the tree: (file, visibility, name)
    pub pub_fns: Vec<(String, String, String)>,
}

pub fn module_tree(repo: &str, rel: &str) -> ModTree {
    let mut mt = ModTree { text: String::new(), files: vec![], missing: vec![], pub_fns: vec![] };
    fn dir_of(rel: &str) -> String {
        let p = std::path::Path::new(rel);
        let parent = p.parent().map(|x| x.to_string_lossy().to_string()).unwrap_or_default();
        let stem = p.file_stem().map(|x| x.to_string_lossy().to_string()).unwrap_or_default();
        if stem == "mod" || stem == "lib" || stem == "main" { parent } else if parent.is_empty() { stem } else { format!("{}/{}", parent, stem) }
    }
    fn walk(repo: &str, rel: &str, depth: usize, mt: &mut ModTree) {
        if depth > 8 || mt.files.iter().any(|f| f == rel) { return; }
        let src = match std::fs::read_to_string(format!("{}/{}", repo, rel)) { Ok(s) => s, Err(_) => { if depth == 0 { mt.missing.push(rel.to_string()); } return; } };
        mt.files.push(rel.to_string());
        mt.text.push_str(&src);
        mt.text.push('\n');
        let t = lex(&src);
        // `pub [ ( … ) ] [const|async|unsafe]* fn NAME`, at any depth (methods of impl blocks)
        let mut i = 0;
        while i < t.len() {
            if is_id(&t[i], "pub") {
                let mut j = i + 1;
                let mut vis = "pub".to_string();
                if j < t.len() && is_p(&t[j], "(") {
                    if let Some(c) = close_of(&t, j) { vis = format!("pub({})", tk_text(&t[j + 1..c]).replace(' ', "")); j = c + 1; }
                }
                while j < t.len() && (is_id(&t[j], "const") || is_id(&t[j], "async") || is_id(&t[j], "unsafe")) { j += 1; }
                if j + 1 < t.len() && is_id(&t[j], "fn") {
                    if let Tk::Id(n) = &t[j + 1] { mt.pub_fns.push((rel.to_string(), vis, n.clone())); }
                }
            }
            i += 1;
        }
        // `mod NAME ;` at brace depth 0
        let dir = dir_of(rel);
        let mut d = 0i32;
        let mut children: Vec<String> = Vec::new();
        for i in 0..t.len() {
            match &t[i] {
                Tk::P(x) if x == "{" => d += 1,
                Tk::P(x) if x == "}" => d -= 1,
                Tk::Id(m) if m == "mod" && d == 0 && i + 2 < t.len() && is_p(&t[i + 2], ";") => {
                    let name = match &t[i + 1] { Tk::Id(n) => n.clone(), _ => continue };
                    // the attributes in front of the item: `# [ … ]` groups (and the visibility) directly before `mod`
                    let mut k = i;
                    let mut cfg_test = false;
                    let mut path_attr: Option<String> = None;
                    loop {
                        // step back over `pub` / `pub ( … )`
                        if k >= 1 && is_id(&t[k - 1], "pub") { k -= 1; continue; }
                        if k >= 1 && is_p(&t[k - 1], ")") {
                            if let Some(o) = (0..k - 1).rev().find(|o| is_p(&t[*o], "(") && close_of(&t, *o) == Some(k - 1)) {
                                if o >= 1 && is_id(&t[o - 1], "pub") { k = o - 1; continue; }
                            }
                            break;
                        }
                        if k >= 1 && is_p(&t[k - 1], "]") {
                            if let Some(o) = (0..k - 1).rev().find(|o| is_p(&t[*o], "[") && close_of(&t, *o) == Some(k - 1)) {
                                if o >= 1 && is_p(&t[o - 1], "#") {
                                    let inner = tk_text(&t[o + 1..k - 1]);
                                    if inner.starts_with("cfg") && inner.contains("test") && !inner.contains("not") { cfg_test = true; }
                                    if inner.starts_with("path") { if let Some(Tk::Str(p)) = t[o + 1..k - 1].iter().find(|x| matches!(x, Tk::Str(_))) { path_attr = Some(p.clone()); } }
                                    k = o - 1;
                                    continue;
                                }
                            }
                            break;
                        }
                        break;
                    }
                    if cfg_test { continue; }
                    let parent = std::path::Path::new(rel).parent().map(|x| x.to_string_lossy().to_string()).unwrap_or_default();
                    let cands: Vec<String> = match path_attr {
                        Some(p) => vec![if parent.is_empty() { p } else { format!("{}/{}", parent, p) }],
                        None => vec![format!("{}/{}.rs", dir, name), format!("{}/{}/mod.rs", dir, name)],
                    };
                    match cands.iter().find(|c| std::path::Path::new(&format!("{}/{}", repo, c)).is_file()) {
                        Some(c) => children.push(c.clone()),
                        None => mt.missing.push(format!("{}: mod {};", rel, name)),
                    }
                }
                _ => {}
            }
        }
        for c in children { walk(repo, &c, depth + 1, mt); }
    }
    walk(repo, rel, 0, &mut mt);
    mt
}
