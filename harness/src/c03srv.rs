//! C03 / Server — the END-TO-END node: generated command FRAMES through the real production path
//! as far as it runs in-process — RESP bytes → `RespCodec::parse` → `Command::from_resp_zero_copy` →
//! `ShardedActorState::{execute, pooled_fast_get/set, fast_batch_get/set_pipeline}` → the connection
//! handler's private encoders (`encode_resp_into` / `encode_error_into`, hook H1c) — on 1 and N shards,
//! against the composed model `Server.handle` (lean/RedisVerif/Model/Server.lean; theorem
//! `Server.server_refines_m7`).  Driver lines: `M7NEW …` (routes), `SRV <now> <class> <n> <arg>*`,
//! `M7DUMP <now>`.  Compared: the reply BYTES of every frame and the routed-read dump.
//! Canonicalisation before the bytes are taken: replies whose order Redis leaves unspecified (KEYS,
//! SMEMBERS, HKEYS, HVALS, HGETALL) are sorted; the text of an EXECUTOR error reply is replaced by
//! the representative of its class (`Server.errText7`; exact texts are C16's / C01's subject).  Parse
//! errors are compared byte for byte.  The read loop (byte stream → frames) is C04's, stacked on top.
use crate::c03::{new_state_ctx, set_now, Ctx, Pending, State};
use crate::c03m7::{admissible, dump7, same_shard};
use crate::enc::hex;
use crate::out::Out;
use crate::redisx::{enc_cmd, err_class, reply_order, Order, BASE_MS, BOUNDS, KEYS};
use crate::rng::Rng;
use bytes::BytesMut;
use redis_sim::production::verif_hooks::{encode_error_reply, encode_reply};
use redis_sim::redis::{Command, RespCodec, RespValue};
use serde_json::json;

const TEMPLATES: &[&str] = &[
    "GET K", "GET K", "SET K V", "SET K V", "SET K V NX", "SET K V XX", "SET K V GET", "SET K V PX MS", "SET K V EX S",
    "SET K V KEEPTTL", "SET K V EXAT AS", "SET K V PXAT AM", "set K V px MS", "SETNX K V", "APPEND K V", "STRLEN K",
    "GETRANGE K IDX IDX", "SUBSTR K IDX IDX", "SETRANGE K N V", "GETEX K", "GETEX K PERSIST", "GETEX K PX MS", "GETDEL K",
    "INCR K", "DECR K", "INCRBY K I", "DECRBY K I", "MGET K K2 K", "MSET K V K2 V", "MSETNX K V", "SETEX K S V", "PSETEX K MS V",
    "DEL K K2", "DEL K", "UNLINK K", "EXISTS K K2 K", "TYPE K", "KEYS *", "DBSIZE", "RENAME K K2", "RENAMENX K K2",
    "EXPIRE K S", "EXPIRE K S NX", "EXPIRE K S GT", "PEXPIRE K MS", "PEXPIRE K MS XX", "pexpire K MS lt", "EXPIREAT K AS", "PEXPIREAT K AM",
    "TTL K", "PTTL K", "EXPIRETIME K", "PEXPIRETIME K", "PERSIST K",
    "LPUSH K V V", "RPUSH K V", "LPOP K", "RPOP K", "LLEN K", "LINDEX K IDX", "LRANGE K IDX IDX", "LSET K IDX V", "LTRIM K IDX IDX",
    "RPOPLPUSH K K2", "LMOVE K K2 LEFT RIGHT", "lmove K K2 right left", "SORT K", "SORT K STORE K2",
    "SADD K M M", "SREM K M", "SMEMBERS K", "SISMEMBER K M", "SCARD K",
    "HSET K F V", "HSET K F V F V", "HGET K F", "HDEL K F F", "HGETALL K", "HKEYS K", "HVALS K", "HLEN K", "HEXISTS K F", "HINCRBY K F I",
    "ZADD K SC M", "ZADD K NX SC M SC M", "ZADD K XX CH SC M", "ZADD K GT SC M", "zadd K lt ch SC M", "ZREM K M", "ZRANGE K IDX IDX",
    "ZRANGE K IDX IDX WITHSCORES", "ZREVRANGE K IDX IDX", "ZSCORE K M", "ZRANK K M", "ZCARD K", "ZCOUNT K B B", "ZRANGEBYSCORE K B B",
    "ZRANGEBYSCORE K B B WITHSCORES LIMIT N N", "zrangebyscore K B B limit N N",
    // rejected by the parser (arity, option syntax, argument kinds), unknown, and outside the composed model
    "GET", "SET K", "INCRBY K V", "EXPIRE K x", "ZADD K SC", "HSET K F", "LMOVE K K2 UP DOWN", "SET K V NX XX", "SET K V PX",
    "ZRANGEBYSCORE K B B LIMIT N", "SETRANGE K -1 V", "MSET K", "EXPIRE K S NX GT", "GETEX K EX", "SORT K DESC",
    "PING", "ECHO V", "NOSUCHCMD K", "SET K V PX MS EX S", "ZADD K 2.5 M", "SELECT 1", "SPOP K", "RANDOMKEY",
];

fn fill(rng: &mut Rng, t: &str, now: u64, ctx: &Ctx, n: usize) -> Vec<Vec<u8>> {
    let k1 = rng.pick(&KEYS).to_string();
    let same: Vec<&str> = KEYS.iter().filter(|k| ctx.gen(k.as_bytes(), n) == ctx.gen(k1.as_bytes(), n)).cloned().collect();
    let k2 = if t.starts_with("DEL") || t.starts_with("MGET") || t.starts_with("MSET ") || t.starts_with("EXISTS") { rng.pick(&KEYS).to_string() } else { rng.pick(&same).to_string() };
    t.split(' ')
        .map(|w| match w {
            "K" => k1.as_bytes().to_vec(),
            "K2" => k2.as_bytes().to_vec(),
            "V" => crate::redisx::payload(rng).as_bytes().to_vec(),
            "I" => rng.pick(&["1", "-1", "5", "10", "0", "9223372036854775807", "-9223372036854775808"]).as_bytes().to_vec(),
            "N" => rng.pick(&["0", "1", "2", "3", "10"]).as_bytes().to_vec(),
            "IDX" => rng.pick(&["0", "1", "-1", "-2", "2", "100", "-100"]).as_bytes().to_vec(),
            "M" | "F" => rng.pick(&["a", "b", "c", "10", "é", ""]).as_bytes().to_vec(),
            "SC" => rng.pick(&["1", "2", "-3", "0", "5", "1.0", "inf", "-inf", "+inf", "9007199254740991", "3e0"]).as_bytes().to_vec(),
            "B" => BOUNDS[rng.below(BOUNDS.len() as u64) as usize].0.as_bytes().to_vec(),
            "MS" => rng.pick(&["1", "2", "100", "999", "1000", "1500", "2500"]).as_bytes().to_vec(),
            "S" => rng.pick(&["1", "1", "2", "3", "100"]).as_bytes().to_vec(),
            "AS" => ((now / 1000) as i64 + *rng.pick(&[-1i64, 0, 1, 2, 5])).to_string().into_bytes(),
            "AM" => (now as i64 + *rng.pick(&[-1i64, 0, 1, 2, 500, 1500, 3000])).to_string().into_bytes(),
            other => other.as_bytes().to_vec(),
        })
        .collect()
}

fn resp_bytes(frame: &[Vec<u8>]) -> BytesMut {
    let mut b = BytesMut::new();
    b.extend_from_slice(format!("*{}\r\n", frame.len()).as_bytes());
    for a in frame {
        b.extend_from_slice(format!("${}\r\n", a.len()).as_bytes());
        b.extend_from_slice(a);
        b.extend_from_slice(b"\r\n");
    }
    b
}

fn parse(frame: &[Vec<u8>]) -> Result<Result<Command, String>, String> {
    let mut b = resp_bytes(frame);
    match RespCodec::parse(&mut b) {
        Ok(Some(v)) => Ok(Command::from_resp_zero_copy(&v)),
        Ok(None) => Err("incomplete".into()),
        Err(e) => Err(format!("resp:{}", e)),
    }
}

/// inside the composed model (`Server.toCmd7 ≠ none`) and a function of the state
fn inside(c: &Command) -> bool {
    enc_cmd(c, &RespValue::BulkString(None)).is_some() && !matches!(c, Command::SPop(..) | Command::RandomKey)
}

fn class_text(class: &str) -> Option<&'static str> {
    Some(match class {
        "wrongtype" => "WRONGTYPE Operation against a key holding the wrong kind of value",
        "notint" => "ERR value is not an integer or out of range",
        "overflow" => "ERR increment or decrement would overflow",
        "invalidexpire" => "ERR invalid expire time",
        "badflags" => "ERR options are not compatible",
        "nosuchkey" => "ERR no such key",
        "indexrange" => "ERR index out of range",
        "hashnotint" => "ERR hash value is not an integer",
        "toolong" => "ERR string exceeds maximum allowed size",
        "syntax" => "ERR syntax error",
        "notfloat" => "ERR min or max is not a float",
        "outofrange" => "ERR value is out of range, must be positive",
        "notdouble" => "ERR One or more scores can't be converted into double",
        _ => return None,
    })
}

fn bulk(r: &RespValue) -> Vec<u8> {
    match r {
        RespValue::BulkString(Some(b)) => b.clone(),
        _ => vec![],
    }
}

fn canon(cmd: &Command, r: RespValue) -> RespValue {
    let key = |a: &Vec<u8>| (a.len(), a.clone());
    match r {
        RespValue::Error(e) => match class_text(&err_class(&e)) {
            Some(t) => RespValue::Error(t.to_string().into()),
            None => RespValue::Error(e),
        },
        RespValue::Array(Some(mut v)) => {
            match reply_order(cmd) {
                Order::AsIs => {}
                Order::Sorted => v.sort_by_key(|x| key(&bulk(x))),
                Order::SortedPairs => {
                    let mut pairs: Vec<(RespValue, RespValue)> = v.chunks(2).filter(|c| c.len() == 2).map(|c| (c[0].clone(), c[1].clone())).collect();
                    pairs.sort_by_key(|p| key(&bulk(&p.0)));
                    v = pairs.into_iter().flat_map(|(a, b)| vec![a, b]).collect();
                }
            }
            RespValue::Array(Some(v))
        }
        other => other,
    }
}

#[derive(Clone)]
pub enum SStep {
    Frame(u64, &'static str, Vec<Vec<u8>>),
    Dump(u64),
}

fn line(s: &SStep) -> String {
    match s {
        SStep::Frame(now, cls, f) => {
            let mut l = format!("SRV {} {} {}", now, cls, f.len());
            for a in f {
                l.push(' ');
                l.push_str(&hex(a));
            }
            l
        }
        SStep::Dump(now) => format!("M7DUMP {}", now),
    }
}

async fn run_on(n: usize, steps: &[SStep], universe: &[String]) -> Vec<String> {
    let (st, sim): (State, _) = new_state_ctx(n);
    let mut out = Vec::new();
    for s in steps {
        match s {
            SStep::Dump(now) => {
                set_now(&sim, *now);
                out.push(dump7(&st, universe).await);
            }
            SStep::Frame(now, cls, f) => {
                set_now(&sim, *now);
                out.push(match parse(f) {
                    Err(e) => e,
                    Ok(Err(e)) => hex(&encode_error_reply(&e)),
                    Ok(Ok(cmd)) => {
                        if !inside(&cmd) {
                            "outside".to_string()
                        } else {
                            let kb = || bytes::Bytes::from(f[1].clone());
                            let vb = || bytes::Bytes::from(f[2].clone());
                            let r = match (*cls, &cmd) {
                                ("FG", Command::Get(_)) => st.pooled_fast_get(kb()).await,
                                ("FS", Command::Set { .. }) if f.len() == 3 => st.pooled_fast_set(kb(), vb()).await,
                                ("BG", Command::Get(_)) => st.fast_batch_get_pipeline(vec![kb()]).await.into_iter().next().unwrap_or(RespValue::Error("empty batch reply".to_string().into())),
                                ("BS", Command::Set { .. }) if f.len() == 3 => st.fast_batch_set_pipeline(vec![(kb(), vb())]).await.into_iter().next().unwrap_or(RespValue::Error("empty batch reply".to_string().into())),
                                _ => st.execute(&cmd).await,
                            };
                            hex(&encode_reply(&canon(&cmd, r)))
                        }
                    }
                });
            }
        }
    }
    out
}

pub fn random_steps(ctx: &Ctx, rng: &mut Rng, n: usize) -> Vec<SStep> {
    let mut now = BASE_MS + rng.below(1000);
    let mut steps = Vec::new();
    let len = rng.range(10, 40);
    let mut tries = 0;
    while (steps.len() as u64) < len && tries < 3000 {
        tries += 1;
        now += *rng.pick(&[0u64, 0, 0, 1, 1, 50, 99, 100, 101, 500, 999, 1000, 1001, 2500]);
        if rng.chance(1, 18) {
            steps.push(SStep::Dump(now));
            continue;
        }
        let t = *rng.pick(TEMPLATES);
        let f = fill(rng, t, now, ctx, n);
        if let Ok(Ok(cmd)) = parse(&f) {
            if inside(&cmd) && (!admissible(&cmd) || !same_shard(ctx, n, &cmd)) {
                continue;
            }
        }
        let plain_get = f.len() == 2 && f[0].eq_ignore_ascii_case(b"GET");
        let plain_set = f.len() == 3 && f[0].eq_ignore_ascii_case(b"SET");
        let cls: &'static str = if plain_get {
            *rng.pick(&["G", "FG", "BG"])
        } else if plain_set {
            *rng.pick(&["G", "FS", "BS"])
        } else {
            "G"
        };
        steps.push(SStep::Frame(now, cls, f));
    }
    steps.push(SStep::Dump(now));
    steps.push(SStep::Dump(now + 5_000));
    steps
}

/// every template once, in order, on a keyspace that holds one value of every type
pub fn corpus(ctx: &Ctx, n: usize) -> Vec<SStep> {
    let mut rng = Rng::new(0x5E4);
    let t = BASE_MS;
    let w = |s: &str| -> Vec<Vec<u8>> { s.split(' ').map(|x| x.as_bytes().to_vec()).collect() };
    let mut steps = vec![
        SStep::Frame(t, "G", w("SET a 10")),
        SStep::Frame(t, "G", w("RPUSH b 3 1 2")),
        SStep::Frame(t, "G", w("SADD c m n")),
        SStep::Frame(t, "G", w("HSET kk f 5")),
        SStep::Frame(t, "G", w("ZADD é 1 a 2 b")),
    ];
    let mut now = t;
    for tpl in TEMPLATES {
        now += 7;
        let f = fill(&mut rng, tpl, now, ctx, n);
        if let Ok(Ok(cmd)) = parse(&f) {
            if inside(&cmd) && (!admissible(&cmd) || !same_shard(ctx, n, &cmd)) {
                continue;
            }
        }
        steps.push(SStep::Frame(now, "G", f));
    }
    steps.push(SStep::Dump(now + 1));
    steps
}

pub async fn run_steps(out: &mut Out, pend: &mut Vec<Pending>, ctx: &Ctx, n: usize, label: &str, steps: &[SStep]) {
    let universe: Vec<String> = KEYS.iter().map(|k| k.to_string()).collect();
    let start = out.n_ops();
    let a1 = run_on(1, steps, &universe).await;
    let an = run_on(n, steps, &universe).await;
    for (shards, ans) in [(1usize, &a1), (n, &an)] {
        let mut l = format!("M7NEW {} {}", shards, universe.len());
        for k in &universe {
            l.push_str(&format!(" {} {}", hex(k.as_bytes()), ctx.gen(k.as_bytes(), shards)));
        }
        out.op(l, "ok".into());
        for (st, r) in steps.iter().zip(ans.iter()) {
            if let SStep::Frame(_, cls, f) = st {
                out.count(&format!("srv:class:{}", cls));
                out.count(&format!("srv:cmd:{}", String::from_utf8_lossy(&f.first().cloned().unwrap_or_default()).to_uppercase()));
                out.count(if r == "outside" { "srv:outcome:outside" } else if r.starts_with("x2d") { "srv:outcome:error-reply" } else { "srv:outcome:reply" });
            }
            out.op(line(st), r.clone());
        }
    }
    out.count("class:srv");
    if !label.is_empty() {
        out.count(&format!("srv:{}", label));
    }
    let lines: Vec<String> = steps.iter().map(line).collect();
    // KEYS replies are sorted before encoding, so 1 and N shards must agree byte for byte
    let diverged = (0..steps.len()).find(|&i| a1[i] != an[i]).map(|i| {
        (
            "SRV".to_string(),
            format!("{} shards answer `{}` with {} where one shard answers {}", n, lines[i], an[i], a1[i]),
            json!({"shards": n, "ops": lines, "first_difference_at": i, "one_shard": a1, "n_shards": an}),
        )
    });
    pend.push(Pending::new(start, out.n_ops(), "srv", None, diverged, n));
    out.case(&format!("srv|{}|{}", n, lines.join(";")), steps.len() > 8);
    out.sample(json!({"shards": n, "class": "srv", "ops": lines.iter().take(10).collect::<Vec<_>>()}));
}
