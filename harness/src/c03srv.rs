//! C03 / Server — the END-TO-END node: generated command FRAMES through the real production path
//! as far as it runs in-process — RESP bytes → `RespCodec::parse` → `Command::from_resp_zero_copy` →
//! `ShardedActorState::{execute, pooled_fast_get/set, fast_batch_get/set_pipeline}` → the connection
//! handler's private encoders (`encode_resp_into` / `encode_error_into`, hook H1c) — on 1 and N shards,
//! against the composed model `Server.handle` (lean/RedisVerif/Model/Server.lean; theorem
//! `Server.server_refines_m7`).  Driver lines: `M7NEW …` (routes), `SRV <now> <class> <n> <arg>*`,
//! `M7DUMP <now>`.  Compared: the reply BYTES of every frame and the routed-read dump.
//! Canonicalisation before the bytes are taken: replies whose order Redis leaves unspecified (KEYS,
//! SMEMBERS, HKEYS, HVALS, HGETALL) are sorted; the text of an EXECUTOR error reply is replaced by
//! the representative of its class (`Server.errText7`; exact texts are C16's / C01's subject).  Parse
//! errors are compared byte for byte.  The read loop (byte stream → frames) is C04's, stacked on top.
use crate::c03::{new_state_ctx, set_now, Ctx, Pending, State};
use crate::c03m7::{admissible, dump7, same_shard};
use crate::enc::hex;
use crate::out::Out;
use crate::redisx::{enc_cmd, err_class, reply_order, Order, BASE_MS, BOUNDS, KEYS};
use crate::rng::Rng;
use bytes::BytesMut;
use redis_sim::production::verif_hooks::{encode_error_reply, encode_reply};
use redis_sim::redis::{Command, RespCodec, RespValue};
use serde_json::json;

const TEMPLATES: &[&str] = &[
    "GET K", "GET K", "SET K V", "SET K V", "SET K V NX", "SET K V XX", "SET K V GET", "SET K V PX MS", "SET K V EX S",
    "SET K V KEEPTTL", "SET K V EXAT AS", "SET K V PXAT AM", "set K V px MS", "SETNX K V", "APPEND K V", "STRLEN K",
    "GETRANGE K IDX IDX", "SUBSTR K IDX IDX", "SETRANGE K N V", "GETEX K", "GETEX K PERSIST", "GETEX K PX MS", "GETDEL K",
    "INCR K", "DECR K", "INCRBY K I", "DECRBY K I", "MGET K K2 K", "MSET K V K2 V", "MSETNX K V", "SETEX K S V", "PSETEX K MS V",
    "DEL K K2", "DEL K", "UNLINK K", "EXISTS K K2 K", "TYPE K", "KEYS *", "DBSIZE", "RENAME K K2", "RENAMENX K K2",
    "EXPIRE K S", "EXPIRE K S NX", "EXPIRE K S GT", "PEXPIRE K MS", "PEXPIRE K MS XX", "pexpire K MS lt", "EXPIREAT K AS", "PEXPIREAT K AM",
    "TTL K", "PTTL K", "EXPIRETIME K", "PEXPIRETIME K", "PERSIST K",
    "LPUSH K V V", "RPUSH K V", "LPOP K", "RPOP K", "LLEN K", "LINDEX K IDX", "LRANGE K IDX IDX", "LSET K IDX V", "LTRIM K IDX IDX",
    "RPOPLPUSH K K2", "LMOVE K K2 LEFT RIGHT", "lmove K K2 right left", "SORT K", "SORT K STORE K2",
    "SADD K M M", "SREM K M", "SMEMBERS K", "SISMEMBER K M", "SCARD K",
    "HSET K F V", "HSET K F V F V", "HGET K F", "HDEL K F F", "HGETALL K", "HKEYS K", "HVALS K", "HLEN K", "HEXISTS K F", "HINCRBY K F I",
    "ZADD K SC M", "ZADD K NX SC M SC M", "ZADD K XX CH SC M", "ZADD K GT SC M", "zadd K lt ch SC M", "ZREM K M", "ZRANGE K IDX IDX",
    "ZRANGE K IDX IDX WITHSCORES", "ZREVRANGE K IDX IDX", "ZSCORE K M", "ZRANK K M", "ZCARD K", "ZCOUNT K B B", "ZRANGEBYSCORE K B B",
    "ZRANGEBYSCORE K B B WITHSCORES LIMIT N N", "zrangebyscore K B B limit N N",
    // rejected by the parser (arity, option syntax, argument kinds), unknown, and outside the composed model
    "GET", "SET K", "INCRBY K V", "EXPIRE K x", "ZADD K SC", "HSET K F", "LMOVE K K2 UP DOWN", "SET K V NX XX", "SET K V PX",
    "ZRANGEBYSCORE K B B LIMIT N", "SETRANGE K -1 V", "MSET K", "EXPIRE K S NX GT", "GETEX K EX", "SORT K DESC",
    "PING", "ECHO V", "NOSUCHCMD K", "SET K V PX MS EX S", "ZADD K 2.5 M", "SELECT 1", "SPOP K", "RANDOMKEY",
];

fn fill(rng: &mut Rng, t: &str, now: u64, ctx: &Ctx, n: usize) -> Vec<Vec<u8>> {
    let k1 = rng.pick(&KEYS).to_string();
    let same: Vec<&str> = KEYS.iter().filter(|k| ctx.gen(k.as_bytes(), n) == ctx.gen(k1.as_bytes(), n)).cloned().collect();
    let k2 = if t.starts_with("DEL") || t.starts_with("MGET") || t.starts_with("MSET ") || t.starts_with("EXISTS") { rng.pick(&KEYS).to_string() } else { rng.pick(&same).to_string() };
    t.split(' ')
        .map(|w| match w {
            "K" => k1.as_bytes().to_vec(),
            "K2" => k2.as_bytes().to_vec(),
            "V" => crate::redisx::payload(rng).as_bytes().to_vec(),
            "I" => rng.pick(&["1", "-1", "5", "10", "0", "9223372036854775807", "-9223372036854775808"]).as_bytes().to_vec(),
            "N" => rng.pick(&["0", "1", "2", "3", "10"]).as_bytes().to_vec(),
            "IDX" => rng.pick(&["0", "1", "-1", "-2", "2", "100", "-100"]).as_bytes().to_vec(),
            "M" | "F" => rng.pick(&["a", "b", "c", "10", "é", ""]).as_bytes().to_vec(),
            "SC" => rng.pick(&["1", "2", "-3", "0", "5", "1.0", "inf", "-inf", "+inf", "9007199254740991", "3e0"]).as_bytes().to_vec(),
            "B" => BOUNDS[rng.below(BOUNDS.len() as u64) as usize].0.as_bytes().to_vec(),
            "MS" => rng.pick(&["1", "2", "100", "999", "1000", "1500", "2500"]).as_bytes().to_vec(),
            "S" => rng.pick(&["1", "1", "2", "3", "100"]).as_bytes().to_vec(),
            "AS" => ((now / 1000) as i64 + *rng.pick(&[-1i64, 0, 1, 2, 5])).to_string().into_bytes(),
            "AM" => (now as i64 + *rng.pick(&[-1i64, 0, 1, 2, 500, 1500, 3000])).to_string().into_bytes(),
            other => other.as_bytes().to_vec(),
        })
        .collect()
}

fn resp_bytes(frame: &[Vec<u8>]) -> BytesMut {
    let mut b = BytesMut::new();
    b.extend_from_slice(format!("*{}\r\n", frame.len()).as_bytes());
    for a in frame {
        b.extend_from_slice(format!("${}\r\n", a.len()).as_bytes());
        b.extend_from_slice(a);
        b.extend_from_slice(b"\r\n");
    }
    b
}

fn parse(frame: &[Vec<u8>]) -> Result<Result<Command, String>, String> {
    let mut b = resp_bytes(frame);
    match RespCodec::parse(&mut b) {
        Ok(Some(v)) => Ok(Command::from_resp_zero_copy(&v)),
        Ok(None) => Err("incomplete".into()),
        Err(e) => Err(format!("resp:{}", e)),
    }
}

/// inside the composed model (`Server.toCmd7 ≠ none`) and a function of the state
fn inside(c: &Command) -> bool {
    enc_cmd(c, &RespValue::BulkString(None)).is_some() && !matches!(c, Command::SPop(..) | Command::RandomKey)
}

fn class_text(class: &str) -> Option<&'static str> {
    Some(match class {
        "wrongtype" => "WRONGTYPE Operation against a key holding the wrong kind of value",
        "notint" => "ERR value is not an integer or out of range",
        "overflow" => "ERR increment or decrement would overflow",
        "invalidexpire" => "ERR invalid expire time",
        "badflags" => "ERR options are not compatible",
        "nosuchkey" => "ERR no such key",
        "indexrange" => "ERR index out of range",
        "hashnotint" => "ERR hash value is not an integer",
        "toolong" => "ERR string exceeds maximum allowed size",
        "syntax" => "ERR syntax error",
        "notfloat" => "ERR min or max is not a float",
        "outofrange" => "ERR value is out of range, must be positive",
        "notdouble" => "ERR One or more scores can't be converted into double",
        _ => return None,
    })
}

fn bulk(r: &RespValue) -> Vec<u8> {
    match r {
        RespValue::BulkString(Some(b)) => b.clone(),
        _ => vec![],
    }
}

fn canon(cmd: &Command, r: RespValue) -> RespValue {
    let key = |a: &Vec<u8>| (a.len(), a.clone());
    match r {
        RespValue::Error(e) => match class_text(&err_class(&e)) {
            Some(t) => RespValue::Error(t.to_string().into()),
            None => RespValue::Error(e),
        },
        RespValue::Array(Some(mut v)) => {
            match reply_order(cmd) {
                Order::AsIs => {}
                Order::Sorted => v.sort_by_key(|x| key(&bulk(x))),
                Order::SortedPairs => {
                    let mut pairs: Vec<(RespValue, RespValue)> = v.chunks(2).filter(|c| c.len() == 2).map(|c| (c[0].clone(), c[1].clone())).collect();
                    pairs.sort_by_key(|p| key(&bulk(&p.0)));
                    v = pairs.into_iter().flat_map(|(a, b)| vec![a, b]).collect();
                }
            }
            RespValue::Array(Some(v))
        }
        other => other,
    }
}

#[derive(Clone)]
pub enum SStep {
    Frame(u64, &'static str, Vec<Vec<u8>>),
    Dump(u64),
}

fn line(s: &SStep) -> String {
    match s {
        SStep::Frame(now, cls, f) => {
            let mut l = format!("SRV {} {} {}", now, cls, f.len());
            for a in f {
                l.push(' ');
                l.push_str(&hex(a));
            }
            l
        }
        SStep::Dump(now) => format!("M7DUMP {}", now),
    }
}

async fn run_on(n: usize, steps: &[SStep], universe: &[String]) -> Vec<String> {
    let (st, sim): (State, _) = new_state_ctx(n);
    let mut out = Vec::new();
    for s in steps {
        match s {
            SStep::Dump(now) => {
                set_now(&sim, *now);
                out.push(dump7(&st, universe).await);
            }
            SStep::Frame(now, cls, f) => {
                set_now(&sim, *now);
                out.push(match parse(f) {
                    Err(e) => e,
                    Ok(Err(e)) => hex(&encode_error_reply(&e)),
                    Ok(Ok(cmd)) => {
                        if !inside(&cmd) {
                            "outside".to_string()
                        } else {
                            let kb = || bytes::Bytes::from(f[1].clone());
                            let vb = || bytes::Bytes::from(f[2].clone());
                            let r = match (*cls, &cmd) {
                                ("FG", Command::Get(_)) => st.pooled_fast_get(kb()).await,
                                ("FS", Command::Set { .. }) if f.len() == 3 => st.pooled_fast_set(kb(), vb()).await,
                                ("BG", Command::Get(_)) => st.fast_batch_get_pipeline(vec![kb()]).await.into_iter().next().unwrap_or(RespValue::Error("empty batch reply".to_string().into())),
                                ("BS", Command::Set { .. }) if f.len() == 3 => st.fast_batch_set_pipeline(vec![(kb(), vb())]).await.into_iter().next().unwrap_or(RespValue::Error("empty batch reply".to_string().into())),
                                _ => st.execute(&cmd).await,
                            };
                            hex(&encode_reply(&canon(&cmd, r)))
                        }
                    }
                });
            }
        }
    }
    out
}

pub fn random_steps(ctx: &Ctx, rng: &mut Rng, n: usize) -> Vec<SStep> {
    let mut now = BASE_MS + rng.below(1000);
    let mut steps = Vec::new();
    let len = rng.range(10, 40);
    let mut tries = 0;
    while (steps.len() as u64) < len && tries < 3000 {
        tries += 1;
        now += *rng.pick(&[0u64, 0, 0, 1, 1, 50, 99, 100, 101, 500, 999, 1000, 1001, 2500]);
        if rng.chance(1, 18) {
            steps.push(SStep::Dump(now));
            continue;
        }
        let t = *rng.pick(TEMPLATES);
        let f = fill(rng, t, now, ctx, n);
        if let Ok(Ok(cmd)) = parse(&f) {
            if inside(&cmd) && (!admissible(&cmd) || !same_shard(ctx, n, &cmd)) {
                continue;
            }
        }
        let plain_get = f.len() == 2 && f[0].eq_ignore_ascii_case(b"GET");
        let plain_set = f.len() == 3 && f[0].eq_ignore_ascii_case(b"SET");
        let cls: &'static str = if plain_get {
            *rng.pick(&["G", "FG", "BG"])
        } else if plain_set {
            *rng.pick(&["G", "FS", "BS"])
        } else {
            "G"
        };
        steps.push(SStep::Frame(now, cls, f));
    }
    steps.push(SStep::Dump(now));
    steps.push(SStep::Dump(now + 5_000));
    steps
}

/// every template once, in order, on a keyspace that holds one value of every type
pub fn corpus(ctx: &Ctx, n: usize) -> Vec<SStep> {
    let mut rng = Rng::new(0x5E4);
    let t = BASE_MS;
    let w = |s: &str| -> Vec<Vec<u8>> { s.split(' ').map(|x| x.as_bytes().to_vec()).collect() };
    let mut steps = vec![
        SStep::Frame(t, "G", w("SET a 10")),
        SStep::Frame(t, "G", w("RPUSH b 3 1 2")),
        SStep::Frame(t, "G", w("SADD c m n")),
        SStep::Frame(t, "G", w("HSET kk f 5")),
        SStep::Frame(t, "G", w("ZADD é 1 a 2 b")),
    ];
    let mut now = t;
    for tpl in TEMPLATES {
        now += 7;
        let f = fill(&mut rng, tpl, now, ctx, n);
        if let Ok(Ok(cmd)) = parse(&f) {
            if inside(&cmd) && (!admissible(&cmd) || !same_shard(ctx, n, &cmd)) {
                continue;
            }
        }
        steps.push(SStep::Frame(now, "G", f));
    }
    steps.push(SStep::Dump(now + 1));
    steps
}

// ───────────────────────── through the REAL connection handler (hook H1) ─────────────────────────
// The same frame lists as ONE pipeline on ONE connection: `verif_hooks::run_connection` runs the real
// `OptimizedConnectionHandler` on a scripted in-memory stream (generated read segmentation, generated
// partial-write sizes, generated batching configuration) over a real N-shard `ShardedActorState`.
// Model: `Props/ServerConn.lean` (`node_end_to_end`), driver op `SRVC`.  The server built by the hook
// reads the WALL clock, so these pipelines are time-free: no command that sets or reads a deadline
// (the timed frames stay with the `SRV` lines above); they contain only ANSWERED frames (commands of
// the composed model and frames the parser rejects).  The written stream is decoded into replies
// (exactly one per frame, no byte left over — else the raw bytes are reported), each canonicalised as
// for `SRV` (order inside unordered replies, executor error text by class) and re-encoded.

pub struct Pipe {
    segs: std::collections::VecDeque<Vec<u8>>,
    written: std::sync::Arc<std::sync::Mutex<Vec<u8>>>,
    /// how many bytes successive poll_write calls take (exhausted: everything)
    takes: std::collections::VecDeque<usize>,
}

impl tokio::io::AsyncRead for Pipe {
    fn poll_read(mut self: std::pin::Pin<&mut Self>, _cx: &mut std::task::Context<'_>, buf: &mut tokio::io::ReadBuf<'_>) -> std::task::Poll<std::io::Result<()>> {
        if let Some(mut seg) = self.segs.pop_front() {
            let n = seg.len().min(buf.remaining());
            buf.put_slice(&seg[..n]);
            if n < seg.len() {
                let rest = seg.split_off(n);
                self.segs.push_front(rest);
            }
        }
        std::task::Poll::Ready(Ok(())) // no segment left: EOF
    }
}

impl tokio::io::AsyncWrite for Pipe {
    fn poll_write(mut self: std::pin::Pin<&mut Self>, _cx: &mut std::task::Context<'_>, buf: &[u8]) -> std::task::Poll<std::io::Result<usize>> {
        let n = match self.takes.pop_front() {
            Some(k) => k.max(1).min(buf.len()),
            None => buf.len(),
        };
        self.written.lock().unwrap().extend_from_slice(&buf[..n]);
        std::task::Poll::Ready(Ok(n))
    }
    fn poll_flush(self: std::pin::Pin<&mut Self>, _cx: &mut std::task::Context<'_>) -> std::task::Poll<std::io::Result<()>> {
        std::task::Poll::Ready(Ok(()))
    }
    fn poll_shutdown(self: std::pin::Pin<&mut Self>, _cx: &mut std::task::Context<'_>) -> std::task::Poll<std::io::Result<()>> {
        std::task::Poll::Ready(Ok(()))
    }
}

fn time_free(c: &Command) -> bool {
    !matches!(
        c,
        Command::Set { ex: Some(_), .. } | Command::Set { px: Some(_), .. } | Command::Set { exat: Some(_), .. } | Command::Set { pxat: Some(_), .. }
            | Command::Expire { .. } | Command::PExpire { .. } | Command::ExpireAt(..) | Command::PExpireAt(..) | Command::GetEx { .. }
    )
}

/// a pipeline of answered, time-free frames
pub fn random_pipeline(ctx: &Ctx, rng: &mut Rng, n: usize) -> Vec<Vec<Vec<u8>>> {
    let mut fs = Vec::new();
    let len = rng.range(3, 40);
    let mut tries = 0;
    while (fs.len() as u64) < len && tries < 4000 {
        tries += 1;
        let t = *rng.pick(TEMPLATES);
        let f = fill(rng, t, BASE_MS, ctx, n);
        match parse(&f) {
            Ok(Ok(cmd)) => {
                if !inside(&cmd) || !admissible(&cmd) || !same_shard(ctx, n, &cmd) || !time_free(&cmd) {
                    continue;
                }
            }
            Ok(Err(_)) => {}
            Err(_) => continue,
        }
        // a command NAME that is empty / white space only panics the handler (C04 finding): never generated here
        fs.push(f);
    }
    fs
}

/// Pipelines made for the connection handler's GET/SET FAST PATH and BATCH COLLECTORS (live for
/// well-formed frames since fix de38a13): runs of plain `GET k` / `SET k v` frames (upper / lower /
/// mixed case names) whose lengths sit just below / at / just above `batch_threshold`, long runs (more
/// than 20, 32, 64 frames: one `fast_batch_*_pipeline` call with many items per shard), the SAME key
/// several times inside one run (distinct values: the last write must win, every GET in between must
/// see the write before it), runs interrupted by one generic command on the same key, and frames the
/// recognisers must leave to the generic parser (SET with an option, a key that is another type).
/// `shape` fixes the plan (corpus), else it is drawn.
pub fn fast_pipeline(rng: &mut Rng, threshold: usize, shape: Option<usize>) -> Vec<Vec<Vec<u8>>> {
    let w = |s: &str| -> Vec<Vec<u8>> { s.split(' ').map(|x| x.as_bytes().to_vec()).collect() };
    let mut fs: Vec<Vec<Vec<u8>>> = Vec::new();
    let mut serial = 0u64;
    let shape = shape.unwrap_or_else(|| rng.below(6) as usize);
    // a value of every type first (a GET through the fast path on a list must answer like the generic GET)
    if shape % 2 == 0 {
        fs.extend([w("SET a 10"), w("RPUSH b 3 1 2"), w("SADD c m n"), w("HSET kk f 5"), w("ZADD é 1 a 2 b")]);
    }
    let runs = match shape {
        0 | 1 => 1,
        _ => rng.range(2, 6),
    };
    for r in 0..runs {
        let len = match (shape, r) {
            // ONE long run at the head of the read: > 20 / > 32 / > 64 items in one batch
            (0, _) => *rng.pick(&[21usize, 24, 33, 48]),
            (1, _) => *rng.pick(&[22usize, 40, 65, 90]),
            _ => *rng.pick(&[threshold.saturating_sub(1).max(1), threshold, threshold + 1, 1, 2, 5, 23]),
        };
        let kind = if shape <= 1 { shape } else { rng.below(3) as usize }; // 0 = SETs, 1 = GETs after SETs, 2 = mixed
        let nk = rng.range(1, 5) as usize;
        let mut ks: Vec<&str> = KEYS.to_vec();
        rng.shuffle(&mut ks);
        ks.truncate(nk.max(if shape <= 1 { 3 } else { 1 }));
        for i in 0..len {
            let k = ks[rng.below(ks.len() as u64) as usize];
            let name_set = *rng.pick(&["SET", "SET", "SET", "set", "Set"]);
            let name_get = *rng.pick(&["GET", "GET", "GET", "get", "gEt"]);
            let set = match kind {
                0 => true,
                1 => i < len / 2 || i % 5 == 0,
                _ => rng.chance(1, 2),
            };
            if set {
                serial += 1;
                fs.push(vec![name_set.as_bytes().to_vec(), k.as_bytes().to_vec(), format!("w{}", serial).into_bytes()]);
            } else {
                fs.push(vec![name_get.as_bytes().to_vec(), k.as_bytes().to_vec()]);
            }
        }
        // between the runs: one frame only the generic path can carry, on a key of the run
        let k = ks[0];
        fs.push(match rng.below(6) {
            0 => w(&format!("APPEND {} +", k)),
            1 => w(&format!("STRLEN {}", k)),
            2 => w(&format!("SET {} nx{} NX", k, serial)),
            3 => w(&format!("GETDEL {}", k)),
            4 => w(&format!("SETNX {} snx{}", k, serial)),
            _ => w(&format!("EXISTS {}", k)),
        });
    }
    // the final values, read back frame by frame
    for k in KEYS {
        fs.push(w(&format!("GET {}", k)));
    }
    fs
}

/// every time-free template once, in order, as ONE pipeline
pub fn corpus_pipeline(ctx: &Ctx, n: usize) -> Vec<Vec<Vec<u8>>> {
    let mut rng = Rng::new(0x5EC);
    let w = |s: &str| -> Vec<Vec<u8>> { s.split(' ').map(|x| x.as_bytes().to_vec()).collect() };
    let mut fs = vec![w("SET a 10"), w("RPUSH b 3 1 2"), w("SADD c m n"), w("HSET kk f 5"), w("ZADD é 1 a 2 b")];
    for tpl in TEMPLATES {
        let f = fill(&mut rng, tpl, BASE_MS, ctx, n);
        match parse(&f) {
            Ok(Ok(cmd)) => {
                if !inside(&cmd) || !admissible(&cmd) || !same_shard(ctx, n, &cmd) || !time_free(&cmd) {
                    continue;
                }
            }
            Ok(Err(_)) => {}
            Err(_) => continue,
        }
        fs.push(f);
    }
    fs
}

fn canon_stream(written: &[u8], frames: &[Vec<Vec<u8>>]) -> String {
    let mut pos = 0;
    let mut out: Vec<u8> = Vec::new();
    for f in frames {
        if pos >= written.len() {
            return format!("short:{}", hex(written));
        }
        match redis_sim::redis::RespParser::parse(&written[pos..]) {
            Ok((v, used)) => {
                pos += used;
                let v = match parse(f) {
                    Ok(Ok(cmd)) => canon(&cmd, v),
                    _ => v,
                };
                out.extend_from_slice(&encode_reply(&v));
            }
            Err(e) => return format!("undecodable:{}:{}", e, hex(written)),
        }
    }
    if pos != written.len() {
        return format!("surplus:{}", hex(written));
    }
    hex(&out)
}

pub struct ConnCfg {
    pub min_pipeline: usize,
    pub batch_threshold: usize,
    pub read_size: usize,
}

async fn conn_on(n: usize, frames: &[Vec<Vec<u8>>], segs: &[Vec<u8>], takes: &[usize], cfg: &ConnCfg, universe: &[String]) -> (String, String) {
    use redis_sim::production::{PerformanceConfig, ShardedActorState};
    let mut pc = PerformanceConfig::default();
    pc.buffers.read_size = cfg.read_size;
    pc.batching.min_pipeline_buffer = cfg.min_pipeline;
    pc.batching.batch_threshold = cfg.batch_threshold;
    if let Err(e) = pc.validate() {
        return (format!("config-rejected:{}", e), String::new());
    }
    let ccfg = redis_sim::production::ConnectionConfig::from_perf_config(&pc.buffers, &pc.batching);
    let state = ShardedActorState::with_shards(n);
    let written = std::sync::Arc::new(std::sync::Mutex::new(Vec::new()));
    let pipe = Pipe { segs: segs.iter().cloned().collect(), written: written.clone(), takes: takes.iter().cloned().collect() };
    let r = tokio::time::timeout(std::time::Duration::from_secs(10), redis_sim::production::verif_hooks::run_connection(pipe, state.clone(), ccfg)).await;
    if r.is_err() {
        return ("hang".into(), String::new());
    }
    let w = written.lock().unwrap().clone();
    (canon_stream(&w, frames), dump7(&state, universe).await)
}

pub async fn run_conn(out: &mut Out, pend: &mut Vec<Pending>, ctx: &Ctx, rng: &mut Rng, n: usize, frames: &[Vec<Vec<u8>>]) {
    let cfg = ConnCfg { min_pipeline: *rng.pick(&[1usize, 16, 60, 200]), batch_threshold: *rng.pick(&[1usize, 2, 3, 8]), read_size: *rng.pick(&[16usize, 64, 8192]) };
    run_conn_with(out, pend, ctx, rng, n, frames, cfg, "srvc").await
}

/// a fast-path / batch pipeline (`fast_pipeline`) under a drawn batching configuration; two thirds of the
/// time the whole pipeline arrives in ONE read (read_size 8192), so that a long run IS one batch
pub async fn run_conn_fast(out: &mut Out, pend: &mut Vec<Pending>, ctx: &Ctx, rng: &mut Rng, n: usize, shape: Option<usize>) {
    let whole = rng.chance(2, 3);
    let cfg = ConnCfg {
        min_pipeline: *rng.pick(&[1usize, 16, 60, 60, 200]),
        batch_threshold: *rng.pick(&[1usize, 2, 2, 3, 8]),
        read_size: if whole { 8192 } else { *rng.pick(&[64usize, 256, 8192]) },
    };
    let frames = fast_pipeline(rng, cfg.batch_threshold, shape);
    run_conn_with(out, pend, ctx, rng, n, &frames, cfg, if whole { "srvc-fast-whole" } else { "srvc-fast" }).await
}

pub async fn run_conn_with(out: &mut Out, pend: &mut Vec<Pending>, ctx: &Ctx, rng: &mut Rng, n: usize, frames: &[Vec<Vec<u8>>], cfg: ConnCfg, mode: &str) {
    let universe: Vec<String> = KEYS.iter().map(|k| k.to_string()).collect();
    let stream: Vec<u8> = frames.iter().flat_map(|f| resp_bytes(f).to_vec()).collect();
    // read segmentation: cut points anywhere (inside frames, inside CR LF), 0..8 cuts, or byte by byte
    let segs: Vec<Vec<u8>> = if mode == "srvc-fast-whole" {
        // the batch collectors look at the HEAD of what one read delivered: every maximal run of plain GET /
        // plain SET frames arrives at the head of a read of its own (two thirds of the time), or everything
        // in one segment, or cut once somewhere (the second read starts inside a run)
        match rng.below(6) {
            0 => {
                let c = rng.below(stream.len() as u64 + 1) as usize;
                vec![stream[..c].to_vec(), stream[c..].to_vec()].into_iter().filter(|s| !s.is_empty()).collect()
            }
            1 => vec![stream.clone()],
            _ => {
                let plain = |f: &Vec<Vec<u8>>| -> u8 {
                    if f.len() == 2 && f[0].eq_ignore_ascii_case(b"GET") { 1 } else if f.len() == 3 && f[0].eq_ignore_ascii_case(b"SET") { 2 } else { 0 }
                };
                let mut v: Vec<Vec<u8>> = Vec::new();
                let mut cur: Vec<u8> = Vec::new();
                let mut prev = 0u8;
                for f in frames {
                    let p = plain(f);
                    // a run starts: what came before is a read of its own (a SET run right after a GET run stays
                    // in the same read: the SET collector runs after the GET collector)
                    if p != 0 && prev == 0 && !cur.is_empty() {
                        v.push(std::mem::take(&mut cur));
                    }
                    cur.extend_from_slice(&resp_bytes(f));
                    prev = p;
                }
                if !cur.is_empty() {
                    v.push(cur);
                }
                v
            }
        }
    } else if rng.chance(1, 10) && stream.len() < 400 {
        stream.iter().map(|b| vec![*b]).collect()
    } else {
        let mut cuts: Vec<usize> = (0..rng.below(9)).map(|_| rng.below(stream.len() as u64 + 1) as usize).collect();
        cuts.sort();
        cuts.dedup();
        let mut v = Vec::new();
        let mut last = 0;
        for c in cuts {
            if c > last {
                v.push(stream[last..c].to_vec());
                last = c;
            }
        }
        v.push(stream[last..].to_vec());
        v
    };
    let takes: Vec<usize> = (0..rng.below(12)).map(|_| *rng.pick(&[1usize, 1, 2, 3, 7, 64, 1000])).collect();
    let start = out.n_ops();
    let (w1, d1) = conn_on(1, frames, &segs, &takes, &cfg, &universe).await;
    let (wn, dn) = conn_on(n, frames, &segs, &takes, &cfg, &universe).await;
    let mut l = format!("SRVC {} {}", BASE_MS, frames.len());
    for f in frames {
        l.push_str(&format!(" {}", f.len()));
        for a in f {
            l.push(' ');
            l.push_str(&hex(a));
        }
    }
    for (shards, w, d) in [(1usize, &w1, &d1), (n, &wn, &dn)] {
        let mut m = format!("M7NEW {} {}", shards, universe.len());
        for k in &universe {
            m.push_str(&format!(" {} {}", hex(k.as_bytes()), ctx.gen(k.as_bytes(), shards)));
        }
        out.op(m, "ok".into());
        out.op(l.clone(), w.clone());
        out.op(format!("M7DUMP {}", BASE_MS), d.clone());
    }
    out.count("class:srvc");
    if mode != "srvc" {
        out.count(&format!("class:{}", mode));
    }
    // what the pipeline offers the recognisers: maximal runs of plain GET / plain SET frames
    {
        let plain = |f: &Vec<Vec<u8>>| -> u8 {
            if f.len() == 2 && f[0].eq_ignore_ascii_case(b"GET") { 1 } else if f.len() == 3 && f[0].eq_ignore_ascii_case(b"SET") { 2 } else { 0 }
        };
        let mut i = 0;
        while i < frames.len() {
            let p = plain(&frames[i]);
            let mut j = i;
            while j < frames.len() && plain(&frames[j]) == p {
                j += 1;
            }
            if p != 0 {
                let len = j - i;
                let name = if p == 1 { "GET" } else { "SET" };
                let rel = if len < cfg.batch_threshold { "below-threshold" } else if len == cfg.batch_threshold { "at-threshold" } else { "above-threshold" };
                out.count(&format!("srvc:plain-{}-run:{}", name, rel));
                if len > 20 {
                    out.count(&format!("srvc:plain-{}-run:longer-than-20", name));
                }
                let mut seen = std::collections::BTreeSet::new();
                if frames[i..j].iter().any(|f| !seen.insert(f[1].clone())) {
                    out.count(&format!("srvc:plain-{}-run:key-repeated", name));
                }
                let shards: std::collections::BTreeSet<usize> = frames[i..j].iter().map(|f| ctx.gen(&f[1], n)).collect();
                if shards.len() >= 2 {
                    out.count(&format!("srvc:plain-{}-run:spans-shards", name));
                }
            }
            i = j;
        }
        out.count(if stream.len() >= cfg.min_pipeline { "srvc:stream>=min_pipeline_buffer" } else { "srvc:stream<min_pipeline_buffer" });
    }
    out.count(&format!("srvc:segments:{}", if segs.len() > 20 { "byte-by-byte".to_string() } else { segs.len().to_string() }));
    out.count(&format!("srvc:partial-writes:{}", takes.len().min(3)));
    out.count(&format!("srvc:min_pipeline={}", cfg.min_pipeline));
    out.count(&format!("srvc:batch_threshold={}", cfg.batch_threshold));
    out.count(&format!("srvc:read_size={}", cfg.read_size));
    out.count_n("srvc:frames", frames.len() as u64);
    let diverged = if w1 != wn || d1 != dn {
        Some(("SRVC".to_string(), format!("{} shards write {} / end with {} where one shard writes {} / ends with {}", n, wn, dn, w1, d1), json!({"shards": n, "op": l, "segments": segs.iter().map(|s| hex(s)).collect::<Vec<_>>(), "takes": takes})))
    } else {
        None
    };
    pend.push(Pending::new(start, out.n_ops(), "srvc", None, diverged, n));
    out.case(&format!("srvc|{}|{}|{:?}|{:?}", n, l, segs.len(), takes), frames.len() >= 3 && (segs.len() >= 2 || mode != "srvc"));
    out.sample(json!({"shards": n, "class": "srvc", "frames": frames.len(), "segments": segs.len(), "partial_write_sizes": takes, "min_pipeline": cfg.min_pipeline, "batch_threshold": cfg.batch_threshold, "read_size": cfg.read_size}));
}

pub async fn run_steps(out: &mut Out, pend: &mut Vec<Pending>, ctx: &Ctx, n: usize, label: &str, steps: &[SStep]) {
    let universe: Vec<String> = KEYS.iter().map(|k| k.to_string()).collect();
    let start = out.n_ops();
    let a1 = run_on(1, steps, &universe).await;
    let an = run_on(n, steps, &universe).await;
    for (shards, ans) in [(1usize, &a1), (n, &an)] {
        let mut l = format!("M7NEW {} {}", shards, universe.len());
        for k in &universe {
            l.push_str(&format!(" {} {}", hex(k.as_bytes()), ctx.gen(k.as_bytes(), shards)));
        }
        out.op(l, "ok".into());
        for (st, r) in steps.iter().zip(ans.iter()) {
            if let SStep::Frame(_, cls, f) = st {
                out.count(&format!("srv:class:{}", cls));
                out.count(&format!("srv:cmd:{}", String::from_utf8_lossy(&f.first().cloned().unwrap_or_default()).to_uppercase()));
                out.count(if r == "outside" { "srv:outcome:outside" } else if r.starts_with("x2d") { "srv:outcome:error-reply" } else { "srv:outcome:reply" });
            }
            out.op(line(st), r.clone());
        }
    }
    out.count("class:srv");
    if !label.is_empty() {
        out.count(&format!("srv:{}", label));
    }
    let lines: Vec<String> = steps.iter().map(line).collect();
    // KEYS replies are sorted before encoding, so 1 and N shards must agree byte for byte
    let diverged = (0..steps.len()).find(|&i| a1[i] != an[i]).map(|i| {
        (
            "SRV".to_string(),
            format!("{} shards answer `{}` with {} where one shard answers {}", n, lines[i], an[i], a1[i]),
            json!({"shards": n, "ops": lines, "first_difference_at": i, "one_shard": a1, "n_shards": an}),
        )
    });
    pend.push(Pending::new(start, out.n_ops(), "srv", None, diverged, n));
    out.case(&format!("srv|{}|{}", n, lines.join(";")), steps.len() > 8);
    out.sample(json!({"shards": n, "class": "srv", "ops": lines.iter().take(10).collect::<Vec<_>>()}));
}
