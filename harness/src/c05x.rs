//! C05, second part — every OTHER place in the tree that a MULTI / EXEC / WATCH can reach, and the
//! source-derived coverage tables.
//!
//! * `shared_executor`: `SimulationHarness::execute(client_id, cmd)` — ONE `CommandExecutor` serves
//!   all simulated clients; model `Txn.xsharedRun` (ops `S <client> <input>`).
//! * `replicated_frontend`: `ReplicatedShardedState::execute` (the command loop of
//!   `bin/server_persistent.rs` hands every parsed command to it); model `Txn.rstep` (ops `R …`).
//! * `simulated_connection`: `SimulatedConnection` cannot carry a transaction (its encoder turns
//!   every command it does not know, MULTI included, into PING) — probed so that this stays true.
//! * `executor_variant_sweep`: every `Command` variant (C17's `all_variants`) queued and EXECed on
//!   a real executor vs executed outside MULTI on a twin, over five fixtures.
//! * `connection_level_sweep`: every connection-level arm / stub of the production handler inside
//!   MULTI vs outside, EVAL and other commands outside the model's store, on real connections.
//! * `source_scan`: the match arms of the handler's two transaction blocks, of
//!   `execute_connection_level`, of the executor's queueing prologue, the stub names, the functions
//!   of `transaction_ops.rs`, and the files of `src/` that touch transaction state or run a command
//!   loop — read from the source the binary was built against and compared with what this harness
//!   accounts for: a new arm / stub / file fails the check with a `C05:coverage:…` signature.
use crate::c05::{b, gen_cmd, show, to_command, Cmd, Rv, KEYS};
use crate::enc::hex;
use crate::out::Out;
use crate::redisx::{reply_order, reply_text, Sess, BASE_MS};
use crate::rng::Rng;
use redis_sim::redis::{Command, RespValue, SDS};
use serde_json::json;
use std::collections::BTreeMap;

fn hk(k: &str) -> String {
    hex(k.as_bytes())
}

// ---------------------------------------------------------------- shared executor

#[derive(Clone, Debug)]
enum XI {
    Multi,
    Exec,
    Discard,
    Unwatch,
    Watch(Vec<String>),
    Cmd(Cmd),
}

impl XI {
    fn args(&self) -> Vec<Vec<u8>> {
        match self {
            XI::Multi => vec![b("MULTI")],
            XI::Exec => vec![b("EXEC")],
            XI::Discard => vec![b("DISCARD")],
            XI::Unwatch => vec![b("UNWATCH")],
            XI::Watch(ks) => {
                let mut a = vec![b("WATCH")];
                a.extend(ks.iter().map(|k| b(k)));
                a
            }
            XI::Cmd(c) => c.args(),
        }
    }
    fn line(&self) -> String {
        match self {
            XI::Multi => "MULTI".into(),
            XI::Exec => "EXEC".into(),
            XI::Discard => "DISCARD".into(),
            XI::Unwatch => "UNWATCH".into(),
            XI::Watch(ks) => format!("WATCH {} {}", ks.len(), ks.iter().map(|k| hk(k)).collect::<Vec<_>>().join(" ")),
            XI::Cmd(c) => format!("CMD {}", c.line()),
        }
    }
    fn text(&self) -> String {
        self.args().iter().map(|a| String::from_utf8_lossy(a).to_string()).collect::<Vec<_>>().join(" ")
    }
}

/// commands of the model's store whose replies do not depend on a TTL observation
fn data_cmd(rng: &mut Rng) -> Cmd {
    loop {
        match gen_cmd(rng, false) {
            Cmd::Expire(_) | Cmd::Persist(_, _) => continue,
            c => return c,
        }
    }
}

fn gen_xi(rng: &mut Rng, open: bool) -> XI {
    let c = rng.below(100);
    let key = |rng: &mut Rng| rng.pick(&KEYS).to_string();
    if !open {
        match c {
            0..=24 => XI::Multi,
            25..=39 => XI::Watch((0..rng.range(1, 2)).map(|_| key(rng)).collect()),
            40..=43 => XI::Unwatch,
            44..=46 => XI::Exec,
            47..=48 => XI::Discard,
            _ => XI::Cmd(data_cmd(rng)),
        }
    } else {
        match c {
            0..=17 => XI::Exec,
            18..=22 => XI::Discard,
            23..=26 => XI::Multi,
            27..=30 => XI::Watch(vec![key(rng)]),
            31..=33 => XI::Unwatch,
            _ => XI::Cmd(data_cmd(rng)),
        }
    }
}

/// a front end that hands the commands of several clients to ONE executor
trait SharedBackend {
    fn exec(&mut self, client: usize, args: &[Vec<u8>]) -> Rv;
    fn name(&self) -> &'static str;
}

struct SimHarness(redis_sim::simulator::SimulationHarness);

impl SharedBackend for SimHarness {
    fn exec(&mut self, client: usize, args: &[Vec<u8>]) -> Rv {
        self.0.advance_time_ms(1);
        Rv::from_resp(&self.0.execute(client, to_command(args)))
    }
    fn name(&self) -> &'static str {
        "SimulationHarness"
    }
}

/// `RedisServer` on the event kernel (`Simulation`): clients on their own hosts send RESP frames
/// as network messages, the server parses them with `RespParser` + `Command::from_resp` and runs
/// them on its ONE executor
struct SimServer {
    sim: redis_sim::simulator::Simulation,
    server: redis_sim::redis::RedisServer,
    clients: Vec<redis_sim::redis::RedisClient>,
}

impl SimServer {
    fn new(seed: u64, n_clients: usize) -> SimServer {
        use redis_sim::redis::{RedisClient, RedisServer};
        use redis_sim::simulator::{Simulation, SimulationConfig, VirtualTime};
        let mut sim = Simulation::new(SimulationConfig { seed, max_time: VirtualTime::from_secs(100_000), simulation_start_epoch: 0 });
        let sh = sim.add_host("server".into());
        let server = RedisServer::new(sh);
        let clients = (0..n_clients).map(|i| {
            let h = sim.add_host(format!("client{}", i));
            RedisClient::new(h, sh)
        }).collect();
        SimServer { sim, server, clients }
    }
}

impl SharedBackend for SimServer {
    fn exec(&mut self, client: usize, args: &[Vec<u8>]) -> Rv {
        // client ids 1.. map to the clients, the dump's id 99 to the last one
        let idx = if client == 99 { self.clients.len() - 1 } else { (client - 1).min(self.clients.len() - 2) };
        let SimServer { sim, server, clients } = self;
        let id = clients[idx].send_command(sim, crate::c05::frame(args));
        sim.run(|sim, ev| {
            server.handle_event(sim, ev);
            for c in clients.iter_mut() {
                c.handle_event(ev);
            }
        });
        match clients[idx].get_response(id) {
            Some(r) => Rv::from_resp(r),
            None => Rv::Err("?no response from RedisServer".into()),
        }
    }
    fn name(&self) -> &'static str {
        "RedisServer"
    }
}

/// the store of a shared front end as seen through commands (only asked while no transaction
/// is open on the shared executor — otherwise the question itself would be queued)
fn sh_dump(h: &mut dyn SharedBackend) -> String {
    let mut keys: Vec<&str> = KEYS.to_vec();
    keys.sort_by(|a, b| crate::enc::key_cmp(a, b));
    let mut parts = Vec::new();
    for k in keys {
        let ty = h.exec(99, &[b("TYPE"), b(k)]);
        let arr = |r: Rv| -> Vec<Vec<u8>> {
            match r {
                Rv::Arr(Some(v)) => v.into_iter().filter_map(|x| if let Rv::Bulk(Some(b)) = x { Some(b) } else { None }).collect(),
                _ => vec![],
            }
        };
        let srt = |mut v: Vec<Vec<u8>>| {
            v.sort_by(|a, b| (a.len(), a.as_slice()).cmp(&(b.len(), b.as_slice())));
            v
        };
        match ty {
            Rv::Simple(t) if t == "string" => {
                if let Rv::Bulk(Some(v)) = h.exec(99, &[b("GET"), b(k)]) {
                    parts.push(format!("{} S {}", hk(k), hex(&v)));
                }
            }
            Rv::Simple(t) if t == "list" => {
                let l = arr(h.exec(99, &[b("LRANGE"), b(k), b("0"), b("-1")]));
                parts.push(format!("{} L {}{}", hk(k), l.len(), l.iter().map(|x| format!(" {}", hex(x))).collect::<String>()));
            }
            Rv::Simple(t) if t == "hash" => {
                let l = arr(h.exec(99, &[b("HGETALL"), b(k)]));
                let mut ps: Vec<(Vec<u8>, Vec<u8>)> = l.chunks(2).filter(|c| c.len() == 2).map(|c| (c[0].clone(), c[1].clone())).collect();
                ps.sort_by(|a, b| (a.0.len(), a.0.as_slice()).cmp(&(b.0.len(), b.0.as_slice())));
                parts.push(format!("{} H {}{}", hk(k), ps.len(), ps.iter().map(|(f, v)| format!(" {} {}", hex(f), hex(v))).collect::<String>()));
            }
            Rv::Simple(t) if t == "set" => {
                let l = srt(arr(h.exec(99, &[b("SMEMBERS"), b(k)])));
                parts.push(format!("{} T {}{}", hk(k), l.len(), l.iter().map(|x| format!(" {}", hex(x))).collect::<String>()));
            }
            Rv::Simple(t) if t == "zset" => {
                let l = arr(h.exec(99, &[b("ZRANGE"), b(k), b("0"), b("-1"), b("WITHSCORES")]));
                let mut ps: Vec<(Vec<u8>, String)> = l.chunks(2).filter(|c| c.len() == 2).map(|c| (c[0].clone(), String::from_utf8_lossy(&c[1]).to_string())).collect();
                ps.sort_by(|a, b| (a.0.len(), a.0.as_slice()).cmp(&(b.0.len(), b.0.as_slice())));
                parts.push(format!("{} Z {}{}", hk(k), ps.len(), ps.iter().map(|(m, sc)| format!(" {} {}", hex(m), sc)).collect::<String>()));
            }
            _ => {}
        }
    }
    let mut s = parts.len().to_string();
    for p in parts {
        s.push(' ');
        s.push_str(&p);
    }
    s
}

/// one session of 2..3 clients on ONE executor behind a shared front end
fn shared_session(out: &mut Out, rng: &mut Rng, script: Option<Vec<(usize, XI)>>, use_server: bool) {
    use redis_sim::simulator::SimulationHarness;
    let n_clients = rng.range(2, 3) as usize;
    let mut backend: Box<dyn SharedBackend> = if use_server {
        Box::new(SimServer::new(rng.next(), n_clients + 1))
    } else {
        let mut h = SimulationHarness::new(rng.next());
        h.advance_time_ms(1000);
        Box::new(SimHarness(h))
    };
    let h: &mut dyn SharedBackend = backend.as_mut();
    let front = h.name();
    out.count(&format!("shared:front-end:{}", front));
    out.op("SNEW".into(), "ok".into());
    // who opened the transaction that is open on the executor (None = none open)
    let mut owner: Option<usize> = None;
    // inputs answered QUEUED since the MULTI, with the client that sent them
    let mut queued: Vec<(usize, XI)> = Vec::new();
    let mut text: Vec<String> = Vec::new();
    let mut captured_total = 0u64;
    let steps: Vec<(usize, XI)> = match script {
        Some(s) => s,
        None => {
            let mut v = Vec::new();
            let mut open = false;
            let mut own = 1usize;
            for _ in 0..rng.range(6, 22) {
                // inside a transaction its owner speaks most of the time, the others sometimes
                let c = if open && rng.chance(2, 3) { own } else { 1 + rng.below(n_clients as u64) as usize };
                let xi = gen_xi(rng, open && c == own);
                match (&xi, open) {
                    (XI::Multi, false) => {
                        open = true;
                        own = c;
                    }
                    (XI::Exec, true) | (XI::Discard, true) => open = false,
                    _ => {}
                }
                v.push((c, xi));
            }
            if open {
                v.push((own, XI::Exec));
            }
            v
        }
    };
    let replay = |text: &Vec<String>| json!({"level": format!("shared executor ({})", front), "session": text});
    for (c, xi) in steps {
        let r = h.exec(c, &xi.args());
        let rs = show(&r, false);
        text.push(format!("client {}: {}", c, xi.text()));
        out.op(format!("S {} {}", c, xi.line()), rs.clone());
        out.count(&format!("shared:{}:{}", if owner.is_some() { if owner == Some(c) { "own-window" } else { "foreign-window" } } else { "no-window" }, xi.line().split(' ').next().unwrap()));
        match owner {
            None => {
                if matches!(xi, XI::Multi) && rs == "+OK" {
                    owner = Some(c);
                    queued.clear();
                }
            }
            Some(o) => {
                match &xi {
                    XI::Exec | XI::Discard => {
                        if let (XI::Exec, Rv::Arr(Some(results))) = (&xi, &r) {
                            let own = queued.iter().filter(|(qc, _)| *qc == c).count();
                            let foreign = queued.len() - own;
                            if results.len() != own {
                                // the cause of a count that is off: other clients' commands in the queue
                                if results.len() == own + foreign && foreign > 0 {
                                    out.violation(
                                        "C05:x:shared-executor:foreign-command-captured",
                                        &format!("client {}'s EXEC on the shared executor returned {} results for the {} commands it queued: {} command(s) of other clients were captured into its transaction", c, results.len(), own, foreign),
                                        replay(&text),
                                    );
                                } else {
                                    out.violation("C05:x:shared:exec-result-count", &format!("EXEC returned {} results; {} queued by its client, {} by others", results.len(), own, foreign), replay(&text));
                                }
                            }
                        }
                        if c != o {
                            out.count("shared:transaction-ended-by-another-client");
                        }
                        if !r.is_err_pub() {
                            owner = None;
                            queued.clear();
                        }
                    }
                    _ => {
                        if rs == "+QUEUED" {
                            if c != o {
                                captured_total += 1;
                                out.count("shared:foreign-command-answered-QUEUED");
                            }
                            queued.push((c, xi.clone()));
                        }
                    }
                }
            }
        }
        if owner.is_none() {
            let d = sh_dump(h);
            out.op("SDUMP".into(), d);
        }
    }
    // the session is left with no transaction open, so that the dump can be taken
    if owner.is_some() {
        let r = h.exec(1, &[b("DISCARD")]);
        out.op("S 1 DISCARD".into(), show(&r, false));
        out.op("SDUMP".into(), sh_dump(h));
    }
    out.case(&format!("shared:{}|{}", front, text.join(";")), captured_total > 0 || text.iter().any(|t| t.ends_with("EXEC")));
}

pub fn shared_executor(out: &mut Out, rng: &mut Rng, n: u64) {
    for use_server in [false, true] {
        // the witness of x_shared_captures_foreign_command_counterexample first
        shared_session(
            out,
            &mut Rng::new(0xC05),
            Some(vec![
                (1, XI::Multi),
                (2, XI::Cmd(Cmd::Set("k".into(), b("v")))),
                (2, XI::Cmd(Cmd::Get("k".into()))),
                (1, XI::Exec),
            ]),
            use_server,
        );
        // a single-speaker window (x_shared_single_speaker_partial)
        shared_session(
            out,
            &mut Rng::new(0xC05),
            Some(vec![
                (2, XI::Cmd(Cmd::Set("n".into(), b("0")))),
                (1, XI::Watch(vec!["n".into()])),
                (1, XI::Multi),
                (1, XI::Cmd(Cmd::Incr("n".into()))),
                (1, XI::Cmd(Cmd::Get("n".into()))),
                (1, XI::Exec),
            ]),
            use_server,
        );
    }
    for i in 0..n {
        let mut r = rng.fork();
        // every fourth session through RedisServer on the event kernel
        shared_session(out, &mut r, None, i % 4 == 3);
    }
}

/// the executor-level machine under a clock that moves WITHOUT eviction (`update_time_readonly`,
/// public, no caller in the tree): WATCH snapshots and EXEC compares the RAW entry
/// (`self.data.get(key)`), reads see the key as gone — recorded, not judged (see the assumptions)
pub fn executor_lazy_clock_probe(out: &mut Out) {
    let mut rows = BTreeMap::new();
    for (label, ttl, advance, evict) in [("deadline-not-yet-passed", 5i64, 4u64, true), ("deadline-exactly-now:evicting-clock", 5, 5, true), ("deadline-passed:evicting-clock", 5, 6, true), ("deadline-exactly-now:lazy-clock", 5, 5, false), ("deadline-passed:lazy-clock", 5, 6, false)] {
        let mut se = Sess::new(BASE_MS);
        let k = "w".to_string();
        let mut set = Command::set(k.clone(), SDS::new(b"v".to_vec()));
        if let Command::Set { px, .. } = &mut set {
            *px = Some(ttl);
        }
        se.exec(&set);
        let w = se.exec(&Command::Watch(vec![k.clone()])).map(|r| reply_text(&r, crate::redisx::Order::AsIs));
        se.set_now(BASE_MS + advance, evict);
        // the non-mutating read (a plain GET would delete the expired entry as a side effect)
        let get = Some(reply_text(&se.ex.execute_readonly(&Command::Get(k.clone())), crate::redisx::Order::AsIs));
        se.exec(&Command::Multi);
        se.exec(&Command::set("x".to_string(), SDS::new(b"1".to_vec())));
        let e = se.exec(&Command::Exec).map(|r| reply_text(&r, crate::redisx::Order::AsIs));
        out.count(&format!("executor-clock-probe:{}", label));
        rows.insert(label.to_string(), json!({"WATCH": w, "GET w at EXEC time": get, "EXEC": e}));
        // with the evicting clock (what every caller in the tree uses) the boundary is exact:
        // the key is gone from `expiration <= now` on, and EXEC aborts from then on
        let gone = get.as_deref() == Some("_");
        let aborted = e.as_deref() == Some("_");
        if evict && gone != aborted {
            out.violation("C05:x:watch:expiry-boundary", &format!("executor level, evicting clock, {}: GET answers {:?} but EXEC answered {:?}", label, get, e), json!({"level": "executor", "row": label}));
        }
        if evict && (advance >= ttl as u64) != gone {
            out.violation("C05:x:watch:expiry-boundary", &format!("executor level, evicting clock, {}: key visible = {}", label, !gone), json!({"level": "executor", "row": label}));
        }
    }
    out.extra.insert("executor_level_expiry_of_a_watched_key(deadline 5 ms after WATCH; clock moved with / without eviction)".into(), json!(rows));
}

// ---------------------------------------------------------------- replicated front end

async fn rep_dump(st: &redis_sim::production::ReplicatedShardedState) -> String {
    let mut keys: Vec<&str> = KEYS.to_vec();
    keys.sort_by(|a, b| crate::enc::key_cmp(a, b));
    let mut parts = Vec::new();
    for k in keys {
        match Rv::from_resp(&st.execute(to_command(&[b("GET"), b(k)])).await) {
            Rv::Bulk(Some(v)) => parts.push(format!("{} S {}", hk(k), hex(&v))),
            Rv::Err(_) => {
                if let Rv::Arr(Some(v)) = Rv::from_resp(&st.execute(to_command(&[b("LRANGE"), b(k), b("0"), b("-1")])).await) {
                    let l: Vec<Vec<u8>> = v.into_iter().filter_map(|x| if let Rv::Bulk(Some(b)) = x { Some(b) } else { None }).collect();
                    parts.push(format!("{} L {}{}", hk(k), l.len(), l.iter().map(|x| format!(" {}", hex(x))).collect::<String>()));
                }
            }
            _ => {}
        }
    }
    let mut s = parts.len().to_string();
    for p in parts {
        s.push(' ');
        s.push_str(&p);
    }
    s
}

fn rep_cmd(rng: &mut Rng) -> Cmd {
    let k = rng.pick(&KEYS).to_string();
    let v = |rng: &mut Rng| b(*rng.pick(&["0", "5", "abc", "", "-3"]));
    // single-key commands only: this front end routes MSET / MGET / EXISTS by their FIRST key
    // (get_primary_key) before execute_global's fan-out is ever reached — a routing defect of the
    // replicated state that is not this property's subject (reported to the C03/C06 owners)
    match rng.below(10) {
        0..=2 => Cmd::Set(k, v(rng)),
        3 => Cmd::Incr(k),
        4 => Cmd::Append(k, v(rng)),
        5 => Cmd::Del(k),
        6 => Cmd::Rpush(k, vec![b("a")]),
        7 => Cmd::Lrange(k),
        8 => Cmd::Llen(k),
        _ => Cmd::Get(k),
    }
}

async fn rep_session(out: &mut Out, rng: &mut Rng, script: Option<Vec<XI>>) {
    use redis_sim::production::ReplicatedShardedState;
    use redis_sim::replication::ReplicationConfig;
    let st = ReplicatedShardedState::new(ReplicationConfig { replica_id: 1, ..ReplicationConfig::default() });
    out.op("RNEW".into(), "ok".into());
    let steps: Vec<XI> = match script {
        Some(s) => s,
        None => (0..rng.range(5, 14))
            .map(|_| match rng.below(100) {
                0..=17 => XI::Multi,
                18..=31 => XI::Exec,
                32..=37 => XI::Discard,
                38..=47 => XI::Watch((0..rng.range(1, 3)).map(|_| rng.pick(&KEYS).to_string()).collect()),
                48..=51 => XI::Unwatch,
                _ => XI::Cmd(rep_cmd(rng)),
            })
            .collect(),
    };
    let mut text = Vec::new();
    // Some(store at MULTI) while the client believes it is inside MULTI … EXEC
    let mut window: Option<String> = None;
    let mut ran_inside = 0u64;
    for xi in steps {
        let r = Rv::from_resp(&st.execute(to_command(&xi.args())).await);
        let rs = show(&r, false);
        text.push(xi.text());
        out.op(format!("R {}", xi.line()), rs.clone());
        out.count(&format!("replicated:{}", xi.line().split(' ').next().unwrap()));
        let replay = json!({"level": "replicated front end (ReplicatedShardedState::execute, the command loop of server_persistent)", "session": text});
        match &xi {
            XI::Multi => {
                window = Some(rep_dump(&st).await);
                if rs != "-unknown-global" {
                    out.count("replicated:multi-not-refused");
                }
            }
            XI::Exec | XI::Discard => window = None,
            XI::Cmd(_) => {
                if let Some(before) = &window {
                    let now = rep_dump(&st).await;
                    // "no effect and no result until EXEC"
                    if rs != "+QUEUED" {
                        ran_inside += 1;
                        // the KNOWN cause, exactly: this front end has no transaction state — it
                        // refused the MULTI and ran the command at once, as the model (rstep) says
                        out.violation(
                            "C05:replicated-frontend:multi-refused-commands-run-immediately",
                            &format!("after MULTI a data command was answered {} at once (store {} -> {}): the replicated front end has no transaction state", rs, before, now),
                            replay,
                        );
                    } else if now != *before {
                        out.violation("C05:replicated-frontend:queued-command-changed-the-store", &format!("a command answered QUEUED changed the store {} -> {}", before, now), replay);
                    }
                }
            }
            _ => {}
        }
        out.op("RDUMP".into(), rep_dump(&st).await);
    }
    out.case(&format!("replicated|{}", text.join(";")), ran_inside > 0);
}

pub fn replicated_frontend(out: &mut Out, rng: &mut Rng, n: u64) {
    let rt = tokio::runtime::Builder::new_current_thread().enable_all().build().unwrap();
    rt.block_on(async {
        // the witness of r_queued_has_effect_counterexample first
        rep_session(
            out,
            &mut Rng::new(0xC05),
            Some(vec![
                XI::Watch(vec!["k".into()]),
                XI::Multi,
                XI::Cmd(Cmd::Set("k".into(), b("v"))),
                XI::Cmd(Cmd::Get("k".into())),
                XI::Exec,
                XI::Discard,
                XI::Unwatch,
            ]),
        )
        .await;
        for _ in 0..n {
            let mut r = rng.fork();
            rep_session(out, &mut r, None).await;
        }
    });
}

// ---------------------------------------------------------------- SimulatedConnection

pub fn simulated_connection(out: &mut Out) {
    use redis_sim::simulator::connection::SimulatedConnection;
    let mut rows = BTreeMap::new();
    for (name, cmd) in [
        ("MULTI", Command::Multi),
        ("EXEC", Command::Exec),
        ("DISCARD", Command::Discard),
        ("WATCH", Command::Watch(vec!["k".into()])),
        ("UNWATCH", Command::Unwatch),
    ] {
        let mut c = SimulatedConnection::new(1);
        c.send_command(cmd);
        let rs: Vec<String> = c.process().iter().map(|r| show(&Rv::from_resp(r), false)).collect();
        rows.insert(name.to_string(), json!(rs));
        out.count("simulated-connection:probe");
        if rs != vec!["+PONG".to_string()] {
            out.violation(
                &format!("C05:coverage:simulated-connection-carries-{}-now", name),
                &format!("SimulatedConnection answered {:?} to {}: its encoder used to turn every command it does not know (the transaction commands included) into PING, so it could not carry a transaction and is not driven by this harness — it must be now", rs, name),
                json!({"command": name, "replies": rs}),
            );
        }
    }
    out.extra.insert("simulated_connection_probe(every transaction command is encoded as PING)".into(), json!(rows));
}

// ---------------------------------------------------------------- executor level: every Command variant

fn sweep_fixture(i: usize) -> Vec<Command> {
    let k = |s: &str| s.to_string();
    let s = |x: &str| SDS::new(x.as_bytes().to_vec());
    match i {
        0 => vec![],
        1 => {
            let mut set_a = Command::set(k("a"), s("10"));
            if let Command::Set { px, .. } = &mut set_a {
                *px = Some(50_000);
            }
            vec![set_a, Command::set(k("b"), s("x"))]
        }
        2 => vec![Command::RPush(k("a"), vec![s("x"), s("y"), s("3")]), Command::RPush(k("b"), vec![s("q")])],
        3 => vec![Command::HSet(k("a"), vec![(s("f"), s("1")), (s("g"), s("v"))]), Command::SAdd(k("b"), vec![s("m"), s("3")])],
        _ => vec![
            Command::ZAdd { key: k("a"), pairs: vec![(1.0, s("m")), (2.0, s("n"))], nx: false, xx: false, gt: false, lt: false, ch: false },
            Command::set(k("b"), s("7")),
        ],
    }
}

/// `MULTI; c; EXEC` on a real executor vs `c` outside MULTI on a twin, for EVERY variant of
/// `Command` (C17's `all_variants`: a new variant breaks the harness build until it is listed),
/// over five fixtures (a missing / string with TTL / list / hash+set / sorted set)
pub fn executor_variant_sweep(out: &mut Out, rng: &mut Rng) {
    let variants = crate::c17::all_variants(rng, "a", "b", true);
    let mut table: BTreeMap<String, (u64, u64)> = BTreeMap::new();
    for fx in 0..5 {
        for cmd in &variants {
            let name = crate::routes_gen::variant_name(cmd);
            // the transaction commands themselves are the machine under test, not a body
            if matches!(cmd, Command::Multi | Command::Exec | Command::Discard | Command::Watch(_) | Command::Unwatch) {
                continue;
            }
            // answers that legitimately differ between two executors
            let nondet = matches!(name, "SPop" | "SRandMember" | "RandomKey" | "Time" | "Info" | "Scan" | "HScan" | "SScan" | "ZScan" | "AclGenPass" | "ConfigGet");
            let mut a = Sess::new(BASE_MS);
            let mut t = Sess::new(BASE_MS);
            for f in sweep_fixture(fx) {
                a.exec(&f);
                t.exec(&f);
            }
            let m = a.exec(&Command::Multi).map(|r| reply_text(&r, reply_order(&Command::Multi)));
            let q = a.exec(cmd);
            let e = a.exec(&Command::Exec);
            let plain = t.exec(cmd);
            let row = table.entry(name.to_string()).or_insert((0, 0));
            row.0 += 1;
            out.count("xsweep:cases");
            let replay = json!({"level": "executor", "fixture": fx, "command": format!("{:?}", cmd)});
            let (Some(q), Some(e), Some(plain)) = (q, e, plain) else {
                out.violation(&format!("C05:x:sweep:panic:{}", name), "the executor panicked on MULTI; <command>; EXEC or on the command outside MULTI", replay);
                continue;
            };
            if m.as_deref() != Some("+OK") || !matches!(&q, RespValue::SimpleString(s) if s.as_ref() == "QUEUED") {
                out.violation(&format!("C05:x:sweep:not-queued:{}", name), &format!("inside MULTI the executor answered {:?} instead of QUEUED", q), replay);
                continue;
            }
            let RespValue::Array(Some(results)) = &e else {
                out.violation(&format!("C05:x:sweep:exec-reply:{}", name), &format!("EXEC answered {:?}", e), replay);
                continue;
            };
            if results.len() != 1 {
                out.violation(&format!("C05:x:sweep:result-count:{}", name), &format!("{} results for one queued command", results.len()), replay);
                continue;
            }
            if nondet {
                continue;
            }
            row.1 += 1;
            let ord = reply_order(cmd);
            let (x, y) = (reply_text(&results[0], ord), reply_text(&plain, ord));
            if x != y {
                out.violation(&format!("C05:x:sweep:result-differs-from-outside:{}", name), &format!("EXEC returned {} for the queued command, the twin {} outside MULTI", x, y), replay.clone());
            }
            let (da, dt) = (a.dump(), t.dump());
            if da != dt {
                out.violation(&format!("C05:x:sweep:store-differs-from-outside:{}", name), &format!("store after MULTI/EXEC {} vs {} after the plain command", da, dt), replay);
            }
        }
    }
    let rows: BTreeMap<String, serde_json::Value> = table.into_iter().map(|(k, (n, c))| (k, json!({"cases": n, "compared": c}))).collect();
    out.extra.insert("executor_level_variant_sweep(MULTI; c; EXEC vs c outside, per Command variant)".into(), json!(rows));
}

// ---------------------------------------------------------------- connection level: arms and stubs

/// frames outside the model's store: every connection-level arm of the handler, every stub, EVAL,
/// and a handful of data commands of other families — `MULTI; frame; EXEC` on one real connection
/// vs the frame outside MULTI on a twin server
pub fn connection_level_sweep(out: &mut Out) {
    use crate::c05::Conn;
    use redis_sim::production::ShardedActorState;
    let f = |parts: &[&str]| -> Vec<Vec<u8>> { parts.iter().map(|p| b(p)).collect() };
    // (arm / stub it exercises, frame, reply shape only? (random content))
    let frames: Vec<(&str, Vec<Vec<u8>>, bool)> = vec![
        ("Auth", f(&["AUTH", "x"]), false),
        ("Auth(user)", f(&["AUTH", "default", "x"]), false),
        ("AclWhoami", f(&["ACL", "WHOAMI"]), false),
        ("AclList", f(&["ACL", "LIST"]), false),
        ("AclUsers", f(&["ACL", "USERS"]), false),
        ("AclGetUser", f(&["ACL", "GETUSER", "default"]), false),
        ("AclGetUser(missing)", f(&["ACL", "GETUSER", "nobody"]), false),
        ("AclSetUser", f(&["ACL", "SETUSER", "u1", "on", "nopass", "~*", "+@all"]), false),
        ("AclDelUser", f(&["ACL", "DELUSER", "u1"]), false),
        ("AclCat", f(&["ACL", "CAT"]), false),
        ("AclCat(category)", f(&["ACL", "CAT", "string"]), false),
        ("AclGenPass", f(&["ACL", "GENPASS"]), true),
        ("AclGenPass(bits)", f(&["ACL", "GENPASS", "32"]), true),
        ("AclDryrun", f(&["ACL", "DRYRUN", "default", "GET", "k"]), false),
        ("AclLog", f(&["ACL", "LOG"]), false),
        ("AclLog(count)", f(&["ACL", "LOG", "3"]), false),
        ("AclLogReset", f(&["ACL", "LOG", "RESET"]), false),
        ("stub:HELLO", f(&["HELLO"]), false),
        ("stub:HELLO 3", f(&["HELLO", "3"]), false),
        ("stub:RESET", f(&["RESET"]), false),
        ("stub:CLIENT LIST", f(&["CLIENT", "LIST"]), true),
        ("stub:CLIENT ID", f(&["CLIENT", "ID"]), false),
        ("stub:CLIENT GETNAME", f(&["CLIENT", "GETNAME"]), false),
        ("stub:CLIENT INFO", f(&["CLIENT", "INFO"]), true),
        ("stub:CLIENT NO-EVICT", f(&["CLIENT", "NO-EVICT", "on"]), false),
        ("stub:CONFIG GET", f(&["CONFIG", "GET", "maxmemory"]), false),
        ("stub:CONFIG SET", f(&["CONFIG", "SET", "maxmemory", "0"]), false),
        ("stub:CONFIG RESETSTAT", f(&["CONFIG", "RESETSTAT"]), false),
        ("stub:ACL HELP", f(&["ACL", "HELP"]), false),
        ("EVAL", f(&["EVAL", "return redis.call('INCR', KEYS[1])", "1", "n"]), false),
        ("EVAL(error)", f(&["EVAL", "return redis.call('INCR', KEYS[1])", "1", "l"]), false),
        ("EVAL(two writes)", f(&["EVAL", "redis.call('SET', KEYS[1], ARGV[1]); return redis.call('APPEND', KEYS[1], ARGV[1])", "1", "k", "ab"]), false),
        ("SCRIPT LOAD", f(&["SCRIPT", "LOAD", "return 7"]), false),
        ("EVALSHA(unknown)", f(&["EVALSHA", "0000000000000000000000000000000000000000", "0"]), false),
        ("SETEX", f(&["SETEX", "k", "100", "v"]), false),
        ("GETRANGE", f(&["GETRANGE", "k", "0", "1"]), false),
        ("LPUSH", f(&["LPUSH", "l", "a", "b"]), false),
        ("HSET(multi)", f(&["HSET", "ab", "f", "1", "g", "2"]), false),
        ("ZADD(multi)", f(&["ZADD", "x", "1", "a", "2", "b"]), false),
        ("ZRANGE", f(&["ZRANGE", "x", "0", "-1", "WITHSCORES"]), false),
        ("EXISTS(multi)", f(&["EXISTS", "k", "l", "nope"]), false),
        ("DBSIZE", f(&["DBSIZE"]), false),
        ("KEYS(sorted)", f(&["KEYS", "*"]), false),
        ("FLUSHALL", f(&["FLUSHALL"]), false),
        ("TYPE", f(&["TYPE", "l"]), false),
    ];
    // the channel stubs are refused at queue time inside MULTI (NOPERM + EXECABORT)
    let chan: Vec<Vec<Vec<u8>>> = vec![
        f(&["PUBLISH", "c", "m"]),
        f(&["SPUBLISH", "c", "m"]),
        f(&["SUBSCRIBE", "c"]),
        f(&["SSUBSCRIBE", "c"]),
        f(&["PSUBSCRIBE", "c*"]),
        f(&["UNSUBSCRIBE"]),
        f(&["SUNSUBSCRIBE"]),
        f(&["PUNSUBSCRIBE"]),
    ];
    let txt = |fr: &Vec<Vec<u8>>| fr.iter().map(|a| String::from_utf8_lossy(a).to_string()).collect::<Vec<_>>().join(" ");
    let shape = |s: &str| -> String { s.split(' ').next().unwrap_or("").chars().take(1).collect() };
    let rt = tokio::runtime::Builder::new_current_thread().enable_all().build().unwrap();
    let mut table = BTreeMap::new();
    rt.block_on(async {
        for shards in [1usize, 4] {
            for (arm, fr, shape_only) in &frames {
                let st = ShardedActorState::with_shards(shards);
                let tw = ShardedActorState::with_shards(1);
                let mut c = Conn::open(&st);
                let mut t = Conn::open(&tw);
                for prep in [f(&["SET", "k", "hello"]), f(&["SET", "n", "5"]), f(&["RPUSH", "l", "x"])] {
                    c.call(&prep).await;
                    t.call(&prep).await;
                }
                let m = show(&c.call(&f(&["MULTI"])).await, false);
                let q = show(&c.call(fr).await, false);
                let e = c.call(&f(&["EXEC"])).await;
                let plain = show(&t.call(fr).await, false);
                out.count("connsweep:cases");
                let replay = json!({"shards": shards, "session": ["SET k hello", "SET n 5", "RPUSH l x", "MULTI", txt(fr), "EXEC"]});
                let res = match &e {
                    Rv::Arr(Some(v)) if v.len() == 1 => show(&v[0], false),
                    other => {
                        out.violation(&format!("C05:exec:sweep:exec-reply:{}", arm), &format!("MULTI -> {}, `{}` -> {}, EXEC -> {}", m, txt(fr), q, show(other, false)), replay);
                        continue;
                    }
                };
                if m != "+OK" || q != "+QUEUED" {
                    out.violation(&format!("C05:exec:sweep:not-queued:{}", arm), &format!("MULTI -> {}, `{}` -> {} (expected QUEUED)", m, txt(fr), q), replay);
                    continue;
                }
                let sorted = |s: &str| -> String {
                    let mut v: Vec<&str> = s.split(' ').collect();
                    v.sort();
                    v.join(" ")
                };
                let same = if *shape_only {
                    shape(&res) == shape(&plain)
                } else if arm.ends_with("(sorted)") {
                    sorted(&res) == sorted(&plain)
                } else {
                    res == plain
                };
                table.insert(format!("{} shards | {}", shards, arm), json!({"frame": txt(fr), "in EXEC": res, "outside MULTI": plain, "compared": if *shape_only { "shape (content is random / per connection)" } else { "exactly" }}));
                if !same {
                    let sig = if arm.starts_with("Acl") || arm.starts_with("Auth") || arm.starts_with("stub:") { format!("C05:exec:connection-level-command-differs:{}", arm) } else { format!("C05:exec:result-differs-from-sequential:{}", arm) };
                    out.violation(&sig, &format!("queued `{}`: EXEC result {} but {} when sent outside MULTI (twin server)", txt(fr), res, plain), replay);
                }
                // what is left in the store (string keys of the fixture + the keys the frames write)
                for k in ["k", "k2", "n", "l", "ab", "x"] {
                    let a = show(&c.call(&f(&["TYPE", k])).await, false);
                    let bb = show(&t.call(&f(&["TYPE", k])).await, false);
                    let (ga, gb) = (show(&c.call(&f(&["GET", k])).await, false), show(&t.call(&f(&["GET", k])).await, false));
                    if a != bb || ga != gb {
                        out.violation(&format!("C05:exec:sweep:store-differs:{}", arm), &format!("after MULTI; {}; EXEC key {} is {} / {} but {} / {} after the plain command", txt(fr), k, a, ga, bb, gb), json!({"shards": shards, "frame": txt(fr)}));
                    }
                }
            }
            for fr in &chan {
                let st = ShardedActorState::with_shards(shards);
                let mut c = Conn::open(&st);
                c.call(&f(&["MULTI"])).await;
                let q = show(&c.call(fr).await, false);
                let e = show(&c.call(&f(&["EXEC"])).await, false);
                out.count("connsweep:channel-stub");
                table.insert(format!("{} shards | channel stub {}", shards, txt(fr)), json!({"inside MULTI": q, "EXEC": e}));
                if q != "-noperm" || e != "-execabort" {
                    out.violation("C05:exec:sweep:channel-stub", &format!("inside MULTI `{}` was answered {} and EXEC {} (the model: NOPERM, flagged, EXECABORT)", txt(fr), q, e), json!({"shards": shards, "frame": txt(fr)}));
                }
            }
        }
    });
    out.extra.insert("connection_level_sweep(MULTI; frame; EXEC vs frame outside MULTI)".into(), json!(table));
}

// ---------------------------------------------------------------- source scan

/// the source tree this binary was BUILT against (the `redis-sim` path dependency)
fn repo_dir() -> String {
    const MANIFEST: &str = include_str!("../Cargo.toml");
    for line in MANIFEST.lines() {
        if line.trim_start().starts_with("redis-sim") {
            if let Some(i) = line.find("path = \"") {
                let rest = &line[i + 8..];
                if let Some(j) = rest.find('"') {
                    return rest[..j].to_string();
                }
            }
        }
    }
    "/repo".to_string()
}

/// the arms of the `match` that starts on the first line containing `open` after the first line
/// containing `after`: lines indented exactly `indent` spaces that start a pattern
fn indent_of(l: &str) -> usize {
    l.len() - l.trim_start().len()
}

/// index of the first line for which `is_start` holds and that is followed, within three lines, by a
/// line containing `open` — the `match` that belongs to that block
fn find_block(lines: &[&str], is_start: &dyn Fn(&str) -> bool, open: &str) -> Option<usize> {
    (0..lines.len()).find(|&i| is_start(lines[i]) && lines[i..(i + 4).min(lines.len())].iter().any(|l| l.contains(open)))
}

/// the arm heads of the `match` opened on the first line at or after `from` that contains `open`.
/// Layout-agnostic apart from rustfmt's one-arm-head-per-line: the arms are the lines at the
/// indentation of the first code line after the `match`, the match ends at the first line that is
/// indented no deeper than the `match` line itself.  Re-indenting, moving the block into a helper,
/// re-ordering arms, comments and blank lines do not disturb it.
fn match_arms_at(lines: &[&str], from: usize, open: &str) -> Option<Vec<String>> {
    let o = from + lines[from..].iter().position(|l| l.contains(open))?;
    let mi = indent_of(lines[o]);
    let mut ai: Option<usize> = None;
    let mut arms = Vec::new();
    for l in &lines[o + 1..] {
        if l.trim().is_empty() {
            continue;
        }
        let ind = indent_of(l);
        if ind <= mi {
            return if l.trim_start().starts_with('}') { Some(arms) } else { None };
        }
        let t = l.trim_start();
        if t.starts_with("//") {
            continue;
        }
        let a = *ai.get_or_insert(ind);
        if ind != a || t.starts_with('}') || t.starts_with(')') || t.starts_with('|') {
            continue;
        }
        {
            // pattern head: up to the first of ` {`, `(`, ` =>`, ` if`
            let mut head: String = t.split("=>").next().unwrap_or(t).trim().to_string();
            if let Some(i) = head.find(" if ") {
                head = format!("{} if …", head[..i].trim());
            }
            let name: String = {
                let base = head.split(" if …").next().unwrap().trim();
                let cut = base.find(|c: char| c == '(' || c == '{' || c == ' ').unwrap_or(base.len());
                let mut n = base[..cut].to_string();
                if base.contains('|') {
                    n = base.split('|').map(|p| p.trim().split(|c: char| c == '(' || c == '{' || c == ' ').next().unwrap_or("").to_string()).collect::<Vec<_>>().join("|");
                }
                if head.ends_with(" if …") {
                    n.push_str(" if …");
                }
                n
            };
            if !name.is_empty() {
                arms.push(name);
            }
        }
    }
    None
}

/// string literals of a `matches!( … )` / `match` text between two markers
fn literals_between(src: &str, from: &str, to: &str) -> Option<Vec<String>> {
    let a = src.find(from)?;
    let b = a + src[a..].find(to)?;
    let mut v = Vec::new();
    let mut rest = &src[a..b];
    while let Some(i) = rest.find('"') {
        let r2 = &rest[i + 1..];
        let j = r2.find('"')?;
        v.push(r2[..j].to_string());
        rest = &r2[j + 1..];
    }
    Some(v)
}

fn walk(dir: &std::path::Path, out: &mut Vec<std::path::PathBuf>) {
    if let Ok(rd) = std::fs::read_dir(dir) {
        let mut es: Vec<_> = rd.filter_map(|e| e.ok()).collect();
        es.sort_by_key(|e| e.path());
        for e in es {
            let p = e.path();
            if p.is_dir() {
                walk(&p, out);
            } else if p.extension().map(|x| x == "rs").unwrap_or(false) {
                out.push(p);
            }
        }
    }
}

pub fn source_scan(out: &mut Out) {
    let repo = repo_dir();
    let mut report = serde_json::Map::new();
    let mut check = |out: &mut Out, what: &str, found: Option<Vec<String>>, expected: &[&str], how: &[(&str, &str)]| {
        let Some(found) = found else {
            out.violation(&format!("C05:coverage:scan-failed:{}", what), &format!("the source scan could not locate {} in the tree this binary was built against ({}) — the code was restructured; the coverage table must be re-derived", what, repo), json!({"what": what}));
            return;
        };
        let exp: Vec<String> = expected.iter().map(|s| s.to_string()).collect();
        for f in &found {
            if !exp.contains(f) {
                out.violation(&format!("C05:coverage:{}:not-driven:{}", what, f), &format!("{} has the arm / entry `{}` that this harness does not account for (neither driven nor listed)", what, f), json!({"what": what, "found": found, "accounted": exp}));
            }
        }
        for e in &exp {
            if !found.contains(e) {
                out.violation(&format!("C05:coverage:{}:gone:{}", what, e), &format!("{} no longer has `{}`, which the model's table and this harness account for", what, e), json!({"what": what, "found": found, "accounted": exp}));
            }
        }
        let rows: serde_json::Map<String, serde_json::Value> = found.iter().map(|f| (f.clone(), json!(how.iter().find(|(k, _)| k == f).map(|(_, v)| *v).unwrap_or("accounted")))).collect();
        report.insert(what.to_string(), serde_json::Value::Object(rows));
    };
    let conn = std::fs::read_to_string(format!("{}/src/production/connection_optimized.rs", repo)).unwrap_or_default();
    let conn_lines: Vec<&str> = conn.lines().collect();
    // the two transaction blocks of the handler, found by SHAPE (no field or variable name is used: the
    // state may live in plain fields, in a private struct, behind accessors): the matches on the parsed
    // command that have arms for EXEC, DISCARD and MULTI.  The block that runs inside MULTI has no arm
    // for UNWATCH (UNWATCH is queued by `_`), the block that runs outside has one.
    let cmd_matches: Vec<(usize, Vec<String>)> = (0..conn_lines.len())
        .filter(|&i| {
            let t = conn_lines[i].trim_start();
            (t.contains("match &cmd {") || t.contains("match cmd {") || t.contains("match *cmd {")) && !t.starts_with("//")
        })
        .filter_map(|i| match_arms_at(&conn_lines, i, "match ").map(|a| (i, a)))
        .filter(|(_, a)| ["Command::Exec", "Command::Discard", "Command::Multi"].iter().all(|x| a.iter().any(|y| y == x)))
        .collect();
    let txn_if = cmd_matches.iter().find(|(_, a)| !a.iter().any(|y| y == "Command::Unwatch")).map(|(i, _)| *i);
    let txn_else = cmd_matches.iter().find(|(_, a)| a.iter().any(|y| y == "Command::Unwatch")).map(|(i, _)| *i);
    let acl = ["Command::Auth", "Command::AclWhoami", "Command::AclList", "Command::AclUsers", "Command::AclGetUser", "Command::AclSetUser", "Command::AclDelUser", "Command::AclCat", "Command::AclGenPass", "Command::AclDryrun", "Command::AclLog", "Command::AclLogReset"];
    // 1. inside MULTI
    check(
        out,
        "connection-handler:in-transaction-arms",
        txn_if.and_then(|i| match_arms_at(&conn_lines, i, "match ")),
        &["Command::Exec", "Command::Discard", "Command::Multi", "Command::Watch", "Command::Unknown if …", "Command::Unknown", "_"],
        &[
            ("Command::Exec", "model Input.exec (3 branches: EXECABORT / nil / results): table cells EXEC × every state, random sessions, concurrent schedules"),
            ("Command::Discard", "model Input.discard: table cells, random sessions"),
            ("Command::Multi", "model Input.multi (nested): table cells"),
            ("Command::Watch", "model Input.watch (inside MULTI): table cells"),
            ("Command::Unknown if …", "stub commands: channel stubs = Input.chanStub (all 8 names: connection_level_sweep), other stubs = Input.connLocal (HELLO RESET CLIENT … CONFIG … ACL …: connection_level_sweep + LOCAL 2/3)"),
            ("Command::Unknown", "model Input.unknown: table cells UNK"),
            ("_", "model Input.cmd / Input.connLocal / Input.unwatch: every data command family, AUTH / ACL …, UNWATCH"),
        ],
    );
    // 2. outside MULTI
    let mut outside = vec!["Command::Multi", "Command::Exec", "Command::Discard", "Command::Watch", "Command::Unwatch"];
    outside.extend(acl.iter());
    outside.push("Command::Unknown if …");
    outside.push("_");
    let outside_found = txn_else.and_then(|j| match_arms_at(&conn_lines, j, "match "));
    check(
        out,
        "connection-handler:outside-arms",
        outside_found,
        &outside,
        &[("Command::Multi", "Input.multi"), ("Command::Exec", "Input.exec (error)"), ("Command::Discard", "Input.discard (error)"), ("Command::Watch", "Input.watch: one awaited GET per key; matrix of 87 modifications × value types"), ("Command::Unwatch", "Input.unwatch"), ("_", "Input.cmd / Input.unknown: executed by ShardedActorState::execute (ACL check: feature off in the harness build)")],
    );
    // 3. the EXEC loop's dispatcher must know exactly the connection-level arms
    let mut disp: Vec<&str> = acl.to_vec();
    disp.push("Command::Unknown if …");
    disp.push("_");
    check(out, "connection-handler:execute_connection_level-arms", find_block(&conn_lines, &|l: &str| l.trim_start().starts_with("fn ") && l.contains("-> Option<RespValue>"), "match ").and_then(|i| match_arms_at(&conn_lines, i, "match ")), &disp, &[("_", "everything else is replayed through ShardedActorState::execute")]);
    // 4. stub names
    let stub_fn = {
        // the predicate over command names: the `-> bool` function whose body names "PUBLISH"
        let starts: Vec<usize> = (0..conn_lines.len()).filter(|&i| conn_lines[i].trim_start().starts_with("fn ") && conn_lines[i].contains("-> bool")).collect();
        starts.into_iter().find_map(|i| {
            let ind = indent_of(conn_lines[i]);
            let end = (i + 1..conn_lines.len()).find(|&j| indent_of(conn_lines[j]) == ind && conn_lines[j].trim_start().starts_with('}'))?;
            let body = conn_lines[i..=end].join("\n");
            if body.contains("\"PUBLISH\"") { Some(body) } else { None }
        })
    };
    let mut stubs = stub_fn.as_deref().and_then(|b| literals_between(b, "fn ", "\n}").or_else(|| literals_between(b, "fn ", "}")));
    if let Some(s) = &mut stubs {
        s.retain(|x| !x.is_empty());
    }
    check(out, "connection-handler:stub-names", stubs, &["PUBLISH", "SPUBLISH", "SUBSCRIBE", "SSUBSCRIBE", "PSUBSCRIBE", "UNSUBSCRIBE", "SUNSUBSCRIBE", "PUNSUBSCRIBE", "HELLO", "RESET", "CLIENT ", "CONFIG ", "ACL "], &[]);
    let mut chans = match (txn_if, txn_else) {
        (Some(i), Some(j)) => {
            let (i, j) = if i < j { (i, j) } else { (i, conn_lines.len()) };
            let block = conn_lines[i..j].join("\n");
            block.find("matches!(").and_then(|a| literals_between(&block[a..], "matches!(", ") {"))
        }
        _ => None,
    };
    if let Some(s) = &mut chans {
        s.retain(|x| x.chars().all(|c| c.is_ascii_uppercase()) && !x.is_empty());
    }
    check(out, "connection-handler:channel-stubs-refused-in-MULTI", chans, &["PUBLISH", "SPUBLISH", "SUBSCRIBE", "SSUBSCRIBE", "PSUBSCRIBE", "UNSUBSCRIBE", "SUNSUBSCRIBE", "PUNSUBSCRIBE"], &[]);
    // 5. the executor's queueing prologue and transaction_ops.rs
    let exm = std::fs::read_to_string(format!("{}/src/redis/executor/mod.rs", repo)).unwrap_or_default();
    check(
        out,
        "executor:queueing-prologue-arms",
        {
            let exm_lines: Vec<&str> = exm.lines().collect();
            // the queueing prologue, by shape: the first match on the command that has an arm naming EXEC
            // and at most five arms (the big dispatch has one arm per command)
            (0..exm_lines.len())
                .filter(|&i| {
                    let t = exm_lines[i].trim_start();
                    (t.contains("match cmd {") || t.contains("match &cmd {") || t.contains("match *cmd {")) && !t.starts_with("//")
                })
                .filter_map(|i| match_arms_at(&exm_lines, i, "match "))
                .find(|a| a.len() <= 5 && a.iter().any(|y| y.contains("Command::Exec")))
        },
        &["Command::Exec|Command::Discard|Command::Multi", "Command::Watch", "_"],
        &[("_", "XInput.cmd / XInput.unwatch: everything else is queued — executor_variant_sweep queues EVERY Command variant"), ("Command::Watch", "XInput.watch inside MULTI"), ("Command::Exec|Command::Discard|Command::Multi", "fall through to execute_exec / execute_discard / execute_multi")],
    );
    let tops = std::fs::read_to_string(format!("{}/src/redis/executor/transaction_ops.rs", repo)).unwrap_or_default();
    // entry points of the executor-level machine: functions the dispatcher can call (pub / pub(super) /
    // pub(crate)) and that can CHANGE the transaction state (`&mut self`); private helpers and read-only
    // accessors cannot reach the property
    let fns: Vec<String> = tops.lines().filter(|l| l.contains("&mut self")).filter_map(|l| l.trim_start().strip_prefix("pub(super) fn ").or_else(|| l.trim_start().strip_prefix("pub fn ")).or_else(|| l.trim_start().strip_prefix("pub(crate) fn "))).map(|r| r.chars().take_while(|c| c.is_alphanumeric() || *c == '_').collect()).collect();
    check(out, "executor:transaction_ops-functions", if fns.is_empty() { None } else { Some(fns) }, &["execute_multi", "execute_exec", "execute_discard", "execute_watch", "execute_unwatch"], &[]);
    // 6. every file of src/ that touches transaction state or dispatches the transaction commands
    let mut files = Vec::new();
    walk(std::path::Path::new(&format!("{}/src", repo)), &mut files);
    let mut touching = Vec::new();
    let mut loops = Vec::new();
    for p in &files {
        let rel = p.strip_prefix(&repo).unwrap_or(p).to_string_lossy().to_string();
        let Ok(text) = std::fs::read_to_string(p) else { continue };
        // a site that can HOLD or DISPATCH a transaction: the state fields, or a match arm on the
        // transaction commands.  A file that merely names the commands (a parser's keyword, an ACL
        // category table, a list of command names, documentation) is not a transaction site.
        if ["in_transaction", "queued_commands", "transaction_queue", "Command::Multi =>", "Command::Exec =>", "Command::Multi |", "Command::Exec |", "| Command::Multi", "| Command::Exec"].iter().any(|pat| text.contains(pat)) {
            touching.push(rel.clone());
        }
        // a command loop: something that parses a frame into a Command and hands it to an executor / state
        if (text.contains("Command::from_resp") || text.contains("client_id: usize, cmd: Command")) && text.contains(".execute(") && !rel.ends_with("_dst.rs") && !rel.contains("/tests/") {
            loops.push(rel);
        }
    }
    let accounted_touching: Vec<(&str, &str)> = vec![
        ("/src/production/connection_optimized.rs", "THE connection-level machine: model Txn.step, driven through hook H1"),
        ("/src/redis/executor/mod.rs", "queueing prologue + dispatch of the executor-level machine: model Txn.xstep"),
        ("/src/redis/executor/transaction_ops.rs", "the executor-level machine: model Txn.xstep"),
        ("/src/redis/command.rs", "Command enum: key / name / read-only tables (C16, C03); get_primary_key = None for MULTI EXEC DISCARD UNWATCH is what makes the replicated front end answer `unknown command` (driven: replicated_frontend)"),
        ("/src/redis/commands.rs", "zero-copy parser: C16"),
        ("/src/redis/parser.rs", "RESP parser: C16"),
        ("/src/redis/transaction_dst.rs", "a test harness with its own shadow model of the executor-level machine (C20 models it)"),
        ("/src/redis/tests/transaction_tests.rs", "unit tests"),
        ("/src/redis/lua.rs", "script cache only (no transaction state)"),
        ("/src/simulator/connection.rs", "SimulatedConnection: its encoder maps every transaction command to PING (probed: simulated_connection)"),
        ("/src/security/acl/commands.rs", "ACL command category table"),
        ("/src/security/acl/mod.rs", "ACL command category table"),
        ("/src/security/acl/user.rs", "ACL command category table"),
    ];
    let mut site_rows = serde_json::Map::new();
    for f in &touching {
        match accounted_touching.iter().find(|(k, _)| f.ends_with(k.trim_start_matches('/')) || f == k) {
            Some((_, how)) => {
                site_rows.insert(f.clone(), json!(how));
            }
            None => {
                site_rows.insert(f.clone(), json!("UNACCOUNTED"));
                out.violation(&format!("C05:coverage:transaction-site-not-accounted:{}", f), &format!("{} mentions the transaction commands / transaction state but is not in this harness's table of sites", f), json!({"file": f}));
            }
        }
    }
    report.insert("files of src/ that mention transaction commands or state".into(), serde_json::Value::Object(site_rows));
    let accounted_loops: Vec<(&str, &str)> = vec![
        ("src/production/connection_optimized.rs", "production command loop: driven through hook H1"),
        ("src/bin/server_persistent.rs", "command loop of the persistent server: every command goes to ReplicatedShardedState::execute — driven: replicated_frontend (model Txn.rstep; finding C05:replicated-frontend:multi-refused-commands-run-immediately)"),
        ("src/redis/server.rs", "RedisServer::handle_event: ONE executor for all simulated clients — the same sharing as SimulationHarness, which is driven (shared_executor; finding C05:x:shared-executor:foreign-command-captured); the event kernel around it is C20's"),
        ("src/simulator/connection.rs", "SimulatedConnection::process: cannot carry a transaction (probed: simulated_connection)"),
        ("src/simulator/harness.rs", "SimulationHarness::execute(client_id, cmd): driven — shared_executor (model Txn.xsharedRun)"),
        ("src/bin/maelstrom_kv.rs", "Maelstrom adapter: builds GET/SET/CAS commands from JSON, never a transaction command"),
        ("src/bin/maelstrom_kv_replicated.rs", "Maelstrom adapter over ReplicatedShardedState: never a transaction command"),
        ("src/bin/shadow_proxy.rs", "proxy: forwards bytes to two servers, executes nothing"),
        ("src/main.rs", "demo client / simulator main"),
        ("src/redis/mod.rs", "re-exports"),
    ];
    let mut loop_rows = serde_json::Map::new();
    for f in &loops {
        match accounted_loops.iter().find(|(k, _)| f.ends_with(k)) {
            Some((_, how)) => {
                loop_rows.insert(f.clone(), json!(how));
            }
            None => {
                loop_rows.insert(f.clone(), json!("UNACCOUNTED"));
                out.violation(&format!("C05:coverage:command-loop-not-driven:{}", f), &format!("{} parses frames into Commands and executes them (a front end a MULTI can reach) but is not in this harness's table of front ends", f), json!({"file": f}));
            }
        }
    }
    for (k, _) in &accounted_loops[..5] {
        if !loops.iter().any(|f| f.ends_with(k)) {
            out.violation(&format!("C05:coverage:scan-failed:front-end:{}", k), &format!("the scan for command loops no longer finds {} — the pattern it looks for is stale", k), json!({"file": k}));
        }
    }
    report.insert("command loops (front ends a MULTI can reach)".into(), serde_json::Value::Object(loop_rows));
    out.extra.insert("source_scan(match arms, stubs, sites and front ends read from the tree this binary was built against)".into(), serde_json::Value::Object(report));
}
