//! C05 over the M7 reference executor (model `lean/RedisVerif/Model/Txn7.lean`, theorems
//! `Props/C05M7.lean`, driver ops `M …`): transactions whose bodies, watched keys and foreign
//! commands are drawn from the WHOLE command set of `Model/Redis.lean` (five value types, multi-key
//! and two-key commands, expiry commands), not from the twenty commands of the small store.
//!
//! Part A (connection level, what production runs): the REAL `OptimizedConnectionHandler` through
//! hook H1, two connections sharing one `ShardedActorState` (1 or 4 shards).  Frames are built from
//! templates, parsed by the REAL parser (`RespCodec::parse` + `Command::from_resp_zero_copy`) to get
//! the model's op text (`redisx::enc_cmd`), exactly as the handler parses them.  The production
//! state runs on the wall clock (virtual time = ms since the state was created), so the generator
//! stays TIME-ROBUST: deadlines are either far away (an hour and more) or already reached (≤ 0), no
//! reply depends on the exact millisecond (no TTL / PTTL / EXPIRETIME reads, GT / LT only between
//! absolute deadlines), and the dumps compare a deadline FLAG.  A deadline that is REACHED between
//! WATCH and EXEC is driven explicitly (`PEXPIRE k 1`, 6 ms pass, the model's clock ticks).
//! The other client's commands go before WATCH, between WATCH and MULTI, between MULTI and EXEC,
//! and DURING EXEC (pipeline in lock step with EXEC's store accesses, as in c05.rs).
//!
//! Part B (executor level): `CommandExecutor::execute` on a VIRTUAL clock — the full timed generator
//! of C01 (`redisx::gen_cmd`) inside MULTI / EXEC, deadlines passing between WATCH and EXEC and
//! between MULTI and EXEC, against `Txn.xstep` over `Txn7.xbackend7`.
//!
//! Oracle (independent of the model): EXEC's result count and results = the same commands executed
//! consecutively on a twin; store after EXEC = the twin's; DISCARD / EXECABORT / nil leave the store
//! alone; nil ⇔ the typed value of a watched key changed (connection level: minus the listed
//! non-string finding); a concurrent EXEC whose foreign commands name only keys the transaction
//! neither queues nor watches must equal the atomic EXEC followed by them
//! (`m7_exec_serializable_other_keys` on the real code).
use crate::c05::{frame, show, Conn, Rv};
use crate::enc::{hex, key_cmp};
use crate::out::Out;
use crate::redisx::{enc_cmd, gen_cmd, reply_order, reply_text, score_text, Sess, BOUNDS};
use crate::rng::Rng;
use bytes::BytesMut;
use redis_sim::production::ShardedActorState;
use redis_sim::redis::{Command, RespCodec, RespValue};
use serde_json::json;

pub const KEYS7: [&str; 6] = ["a", "b", "c", "kk", "é", "w"];
const FILLER_KEY: &str = "zz";

/// time-robust frames (see the header): K / K2 keys, V payload, FS / FMS far relative, FAS / FAM far
/// absolute, everything else literal
const TEMPLATES: &[&str] = &[
    "GET K", "GET K", "SET K V", "SET K V", "SET K V NX", "SET K V XX", "SET K V GET", "SET K V PX FMS", "SET K V EX FS",
    "SET K V KEEPTTL", "SET K V EXAT FAS", "SET K V PXAT FAM", "SET K V PX 0", "SET K V EX -1", "set K V px FMS",
    "SETNX K V", "APPEND K V", "STRLEN K", "GETRANGE K IDX IDX", "SETRANGE K N V", "GETEX K", "GETEX K PERSIST", "GETEX K PX FMS",
    "GETDEL K", "INCR K", "INCR K", "DECR K", "INCRBY K I", "DECRBY K I", "MGET K K2 K", "MSET K V K2 V", "MSETNX K V K2 V",
    "SETEX K FS V", "PSETEX K FMS V", "DEL K K2", "DEL K", "EXISTS K K2 K", "TYPE K", "KEYS *", "DBSIZE", "RENAME K K2", "RENAMENX K K2",
    "EXPIRE K FS", "EXPIRE K FS NX", "EXPIRE K FS XX", "EXPIRE K 0", "EXPIRE K -5", "PEXPIRE K FMS", "PEXPIRE K FMS XX", "PEXPIRE K 0",
    "EXPIREAT K FAS", "EXPIREAT K FAS GT", "EXPIREAT K FAS LT", "PEXPIREAT K FAM", "PEXPIREAT K FAM NX", "EXPIREAT K 0", "PERSIST K",
    "LPUSH K V V", "RPUSH K V", "RPUSH K V V V", "LPOP K", "RPOP K", "LLEN K", "LINDEX K IDX", "LRANGE K IDX IDX", "LSET K IDX V", "LTRIM K IDX IDX",
    "RPOPLPUSH K K2", "LMOVE K K2 LEFT RIGHT", "lmove K K2 right left", "SORT K", "SORT K STORE K2",
    "SADD K M M", "SADD K M", "SREM K M", "SMEMBERS K", "SISMEMBER K M", "SCARD K",
    "HSET K F V", "HSET K F V F V", "HGET K F", "HDEL K F F", "HGETALL K", "HKEYS K", "HVALS K", "HLEN K", "HEXISTS K F", "HINCRBY K F I",
    "ZADD K SC M", "ZADD K NX SC M SC M", "ZADD K XX CH SC M", "ZADD K GT SC M", "zadd K lt ch SC M", "ZREM K M", "ZRANGE K IDX IDX",
    "ZRANGE K IDX IDX WITHSCORES", "ZREVRANGE K IDX IDX", "ZSCORE K M", "ZRANK K M", "ZCARD K", "ZCOUNT K B B", "ZRANGEBYSCORE K B B",
    "ZRANGEBYSCORE K B B WITHSCORES LIMIT N N",
];

const PAYLOADS: [&str; 10] = ["0", "5", "41", "-3", "abc", "", "007", "9223372036854775807", "x y", "\u{e9}\r\n"];

/// Unix time in ms as the production shards see it (`simulation_start_epoch_ms` + virtual time)
fn wall_ms() -> u64 {
    std::time::SystemTime::now().duration_since(std::time::UNIX_EPOCH).map(|d| d.as_millis() as u64).unwrap_or(0)
}

/// (frame, run-independent text of it: absolute deadlines are shown symbolically)
fn fill(rng: &mut Rng, t: &str, pool: &[&str]) -> (Vec<Vec<u8>>, String) {
    let k1 = rng.pick(pool).to_string();
    let k2 = rng.pick(pool).to_string();
    let now = wall_ms();
    let mut text: Vec<String> = Vec::new();
    let f = t
        .split(' ')
        .map(|w| {
            let far = match w {
                "FAS" => Some(*rng.pick(&[10_000_000u64, 20_000_000])),
                "FAM" => Some(*rng.pick(&[10_000_000_005u64, 20_000_000_000])),
                _ => None,
            };
            if let Some(d) = far {
                text.push(format!("<now+{}>", d));
                return (if w == "FAS" { now / 1000 + d } else { now + d }).to_string().into_bytes();
            }
            let v = fill_word(rng, w, &k1, &k2);
            text.push(String::from_utf8_lossy(&v).to_string());
            v
        })
        .collect();
    (f, text.join(" "))
}

fn fill_word(rng: &mut Rng, w: &str, k1: &str, k2: &str) -> Vec<u8> {
    match w {
            "K" => k1.as_bytes().to_vec(),
            "K2" => k2.as_bytes().to_vec(),
            "V" => rng.pick(&PAYLOADS).as_bytes().to_vec(),
            "I" => rng.pick(&["1", "-1", "5", "10", "0", "9223372036854775807", "-9223372036854775808"]).as_bytes().to_vec(),
            "N" => rng.pick(&["0", "1", "2", "3", "10"]).as_bytes().to_vec(),
            "IDX" => rng.pick(&["0", "1", "-1", "-2", "2", "100", "-100"]).as_bytes().to_vec(),
            "M" | "F" => rng.pick(&["a", "b", "c", "10", "é"]).as_bytes().to_vec(),
            "SC" => rng.pick(&["1", "2", "-3", "0", "5", "1.0", "inf", "-inf", "9007199254740991", "3e0"]).as_bytes().to_vec(),
            "B" => BOUNDS[rng.below(BOUNDS.len() as u64) as usize].0.as_bytes().to_vec(),
            "FS" => rng.pick(&["3600000", "7200000"]).as_bytes().to_vec(),
            "FMS" => rng.pick(&["3600000000", "7200000000"]).as_bytes().to_vec(),
            other => other.as_bytes().to_vec(),
    }
}

pub(crate) fn parse_frame(f: &[Vec<u8>]) -> Option<Command> {
    let mut b = BytesMut::from(&frame(f)[..]);
    match RespCodec::parse(&mut b) {
        Ok(Some(v)) => Command::from_resp_zero_copy(&v).ok(),
        _ => None,
    }
}

fn two_key(c: &Command) -> bool {
    matches!(c, Command::Rename(..) | Command::RenameNx(..) | Command::RPopLPush(..) | Command::LMove { .. } | Command::MSetNx(_) | Command::Sort { store: Some(_), .. })
}

/// exactly one message to exactly one shard (what the lock-step placement counts as one access)
fn one_access(c: &Command) -> bool {
    c.get_keys().len() == 1
        && !matches!(c, Command::MGet(_) | Command::MSet(_) | Command::MSetNx(_) | Command::Del(_) | Command::Exists(_) | Command::Keys(_) | Command::DbSize | Command::FlushAll | Command::FlushDb)
        && !two_key(c)
}

#[derive(Clone)]
pub(crate) struct Data {
    frame: Vec<Vec<u8>>,
    /// run-independent text
    text: String,
    cmd: Command,
    /// the model's op text (C01 line syntax)
    line: String,
}

impl Data {
    fn text(&self) -> String {
        self.text.clone()
    }
    fn of(words: &str) -> Data {
        let frame: Vec<Vec<u8>> = words.split(' ').map(|x| x.as_bytes().to_vec()).collect();
        let cmd = parse_frame(&frame).expect("corpus frame");
        let line = enc_cmd(&cmd, &RespValue::BulkString(None)).expect("corpus op text");
        Data { frame, text: words.to_string(), cmd, line }
    }
    fn keys(&self) -> Vec<String> {
        self.cmd.get_keys()
    }
}

/// the value type a template works on: s string, l list, t set, h hash, z sorted set, - any
fn family(t: &str) -> char {
    let w = t.split(' ').next().unwrap_or("").to_ascii_uppercase();
    match w.as_str() {
        "GET" | "SET" | "SETNX" | "APPEND" | "STRLEN" | "GETRANGE" | "SETRANGE" | "GETEX" | "GETDEL" | "INCR" | "DECR" | "INCRBY" | "DECRBY" | "SETEX" | "PSETEX" | "MGET" | "MSET" | "MSETNX" => 's',
        "LPUSH" | "RPUSH" | "LPOP" | "RPOP" | "LLEN" | "LINDEX" | "LRANGE" | "LSET" | "LTRIM" | "RPOPLPUSH" | "LMOVE" | "SORT" => 'l',
        "SADD" | "SREM" | "SMEMBERS" | "SISMEMBER" | "SCARD" => 't',
        x if x.starts_with('H') => 'h',
        x if x.starts_with('Z') => 'z',
        _ => '-',
    }
}

/// every key of a session has a HOME type: two commands in three that name it are of that family, so
/// that most commands find a value of their own type (and the rest exercise WRONGTYPE / type changes)
fn home(k: &[u8], salt: u64) -> char {
    let h = k.iter().fold(salt, |a, b| a.wrapping_mul(131).wrapping_add(*b as u64));
    ['s', 'l', 't', 'h', 'z', 's'][(h % 6) as usize]
}

/// a data command inside the conformant, deterministic fragment (see c03m7::admissible)
fn gen_data_salted(rng: &mut Rng, pool: &[&str], shards: usize, single: bool, salt: Option<u64>) -> Data {
    loop {
        let t = *rng.pick(TEMPLATES);
        let (f, text) = fill(rng, t, pool);
        if let Some(salt) = salt {
            let fam = family(t);
            if fam != '-' && f.len() > 1 && home(&f[1], salt) != fam && !rng.chance(1, 3) {
                continue;
            }
        }
        let Some(cmd) = parse_frame(&f) else { continue };
        if !crate::c03m7::admissible(&cmd) || matches!(cmd, Command::SPop(..) | Command::RandomKey) {
            continue;
        }
        if shards > 1 && two_key(&cmd) {
            continue;
        }
        if single && !one_access(&cmd) {
            continue;
        }
        let Some(line) = enc_cmd(&cmd, &RespValue::BulkString(None)) else { continue };
        return Data { frame: f, text, cmd, line };
    }
}

pub(crate) fn to_resp(v: &Rv) -> RespValue {
    match v {
        Rv::Simple(s) => RespValue::SimpleString(s.clone().into()),
        Rv::Err(s) => RespValue::Error(s.clone().into()),
        Rv::Int(n) => RespValue::Integer(*n),
        Rv::Bulk(b) => RespValue::BulkString(b.clone()),
        Rv::Arr(a) => RespValue::Array(a.as_ref().map(|v| v.iter().map(to_resp).collect())),
    }
}

fn data_reply(c: &Command, r: &RespValue) -> String {
    reply_text(r, reply_order(c))
}

fn bcmp(a: &[u8], b: &[u8]) -> std::cmp::Ordering {
    (a.len(), a).cmp(&(b.len(), b))
}

fn bulks(r: &RespValue) -> Vec<Vec<u8>> {
    match r {
        RespValue::Array(Some(v)) => v.iter().filter_map(|x| if let RespValue::BulkString(Some(b)) = x { Some(b.clone()) } else { None }).collect(),
        _ => vec![],
    }
}

/// typed value of one key as a client reads it (TYPE, then the value by type), `None` = missing
async fn typed(st: &ShardedActorState, k: &str) -> Option<String> {
    let ty = match st.execute(&Command::TypeOf(k.to_string())).await {
        RespValue::SimpleString(s) => s.to_string(),
        other => format!("?{:?}", other),
    };
    Some(match ty.as_str() {
        "none" => return None,
        "string" => match st.execute(&Command::Get(k.to_string())).await {
            RespValue::BulkString(Some(b)) => format!("S {}", hex(&b)),
            other => format!("S?{:?}", other),
        },
        "list" => {
            let items = bulks(&st.execute(&Command::LRange(k.to_string(), 0, -1)).await);
            let mut s = format!("L {}", items.len());
            for i in items {
                s.push(' ');
                s.push_str(&hex(&i));
            }
            s
        }
        "set" => {
            let mut m = bulks(&st.execute(&Command::SMembers(k.to_string())).await);
            m.sort_by(|a, b| bcmp(a, b));
            let mut s = format!("T {}", m.len());
            for i in m {
                s.push(' ');
                s.push_str(&hex(&i));
            }
            s
        }
        "hash" => {
            let flat = bulks(&st.execute(&Command::HGetAll(k.to_string())).await);
            let mut m: Vec<(Vec<u8>, Vec<u8>)> = flat.chunks(2).filter(|c| c.len() == 2).map(|c| (c[0].clone(), c[1].clone())).collect();
            m.sort_by(|a, b| bcmp(&a.0, &b.0));
            let mut s = format!("H {}", m.len());
            for (f, v) in m {
                s.push_str(&format!(" {} {}", hex(&f), hex(&v)));
            }
            s
        }
        "zset" => {
            let flat = bulks(&st.execute(&Command::ZRange(k.to_string(), 0, -1, true)).await);
            let mut s = format!("Z {}", flat.len() / 2);
            for c in flat.chunks(2).filter(|c| c.len() == 2) {
                let sc = String::from_utf8_lossy(&c[1]).parse::<f64>().map(score_text).unwrap_or_else(|_| format!("?{}", hex(&c[1])));
                s.push_str(&format!(" {} {}", hex(&c[0]), sc));
            }
            s
        }
        other => format!("?{}", other),
    })
}

/// the keyspace as a client sees it: `<n> (<key> <+ | -1> <value>)*`, keys in (length, bytes) order
async fn dump_flags(st: &ShardedActorState) -> String {
    let mut keys: Vec<String> = KEYS7.iter().map(|k| k.to_string()).collect();
    keys.push(FILLER_KEY.into());
    keys.sort_by(|a, b| key_cmp(a, b));
    let mut parts = Vec::new();
    for k in &keys {
        let Some(v) = typed(st, k).await else { continue };
        let ttl = match st.execute(&Command::Pttl(k.clone())).await {
            RespValue::Integer(-1) => "-1",
            RespValue::Integer(i) if i >= 0 => "+",
            _ => "?",
        };
        parts.push(format!("{} {} {}", hex(k.as_bytes()), ttl, v));
    }
    let mut s = parts.len().to_string();
    for p in parts {
        s.push(' ');
        s.push_str(&p);
    }
    s
}

fn non_string(t: &Option<String>) -> bool {
    matches!(t, Some(s) if !s.starts_with("S "))
}

#[derive(Clone)]
enum Q {
    Data(Data),
    Ping,
}

struct W7 {
    shards: usize,
    st: ShardedActorState,
    c1: Conn,
    c2: Conn,
    twin: ShardedActorState,
    in_multi: bool,
    flagged: bool,
    queue: Vec<Q>,
    /// the oracle's own snapshots: typed value at WATCH time
    watched: Vec<(String, Option<String>)>,
    text: Vec<String>,
    nontrivial: bool,
    ticks: u64,
    /// Unix ms when the state under test was created (the model's clock starts there)
    t0: u64,
}

impl W7 {
    fn replay(&self) -> serde_json::Value {
        json!({"level": "connection (hook H1) over the M7 command set", "shards": self.shards, "script": self.text})
    }

    async fn foreign(&mut self, out: &mut Out, d: &Data) {
        let r = to_resp(&self.c2.call(&d.frame).await);
        self.twin.execute(&d.cmd).await;
        self.text.push(format!("(other client) {}", d.text()));
        out.op(format!("M F {}", d.line), data_reply(&d.cmd, &r));
        out.count("m7:foreign");
    }

    /// `PEXPIRE k 1` by the other client, 6 ms pass, the clock of the model ticks
    async fn expire_now(&mut self, out: &mut Out, k: &str) {
        let d = Data::of(&format!("PEXPIRE {} 1", k));
        let line = d.line.clone();
        let r = to_resp(&self.c2.call(&d.frame).await);
        self.twin.execute(&Command::Del(vec![k.to_string()])).await;
        out.op(format!("M F {}", line), data_reply(&d.cmd, &r));
        tokio::time::sleep(std::time::Duration::from_millis(6)).await;
        self.ticks += 1;
        out.op(format!("M T {}", self.t0 + 100_000 * self.ticks), "ok".into());
        self.text.push(format!("(other client) PEXPIRE {} 1; (6 ms pass)", k));
        out.count("m7:deadline-reached");
    }

    async fn check_store(&mut self, out: &mut Out, what: &str, sig: &str) {
        let a = dump_flags(&self.st).await;
        let b = dump_flags(&self.twin).await;
        out.op("M DUMP".into(), a.clone());
        if a != b {
            out.violation(sig, &format!("{}: store {} but the consecutive run on a twin gives {}", what, a, b), self.replay());
        }
    }

    /// the oracle's verdict on the watched keys: (some value changed, every change is non-string → non-string)
    async fn watch_changed(&self) -> (bool, bool) {
        let mut changed = false;
        let mut all_invisible = true;
        for (k, t0) in &self.watched {
            let now = typed(&self.st, k).await;
            if now != *t0 {
                changed = true;
                if !(non_string(t0) && non_string(&now)) {
                    all_invisible = false;
                }
            }
        }
        (changed, changed && all_invisible)
    }

    async fn exec(&mut self, out: &mut Out, sched: Vec<Vec<Data>>) {
        let concurrent = !sched.is_empty();
        let (changed, invisible) = self.watch_changed().await;
        let n_access = self.watched.len() + self.queue.iter().filter(|q| matches!(q, Q::Data(_))).count();
        let mut line = String::from("M C EXEC");
        line.push_str(&format!(" {}", sched.len()));
        for slot in &sched {
            line.push_str(&format!(" {}", slot.len()));
            for d in slot {
                line.push_str(&format!(" D {}", d.line));
            }
        }
        let r = if concurrent {
            // slot 0 is empty; slot i ≥ 1 = right after EXEC's i-th store access
            // the model's schedule has one slot per watched key and per QUEUED ELEMENT; an element that
            // is no store access (PING: answered without a message to a shard) gives the other
            // connection no turn: its slot stays empty and gets no filler
            let mut real: Vec<bool> = self.watched.iter().map(|_| true).collect();
            real.extend(self.queue.iter().map(|q| matches!(q, Q::Data(_))));
            let mut pipeline = Vec::new();
            let mut n_pipe = 0;
            for (i, slot) in sched.iter().enumerate().skip(1) {
                if !real[i - 1] {
                    assert!(slot.is_empty());
                    continue;
                }
                match slot.first() {
                    Some(d) => pipeline.extend(frame(&d.frame)),
                    None => pipeline.extend(frame(&[b"LLEN".to_vec(), FILLER_KEY.as_bytes().to_vec()])),
                }
                n_pipe += 1;
            }
            assert_eq!(n_pipe, n_access);
            self.c1.write(&frame(&[b"EXEC".to_vec()])).await;
            self.c2.write(&pipeline).await;
            let r = self.c1.recv().await;
            for _ in 0..n_pipe {
                self.c2.recv().await;
            }
            out.count("m7:exec:concurrent");
            r
        } else {
            self.c1.call(&[b"EXEC".to_vec()]).await
        };
        self.text.push(if concurrent {
            format!("EXEC with the other client's {:?} served right after EXEC's store accesses 1..", sched.iter().skip(1).map(|s| s.first().map(|d| d.text()).unwrap_or_else(|| "-".into())).collect::<Vec<_>>())
        } else {
            "EXEC".into()
        });
        let queue = std::mem::take(&mut self.queue);
        let watched = std::mem::take(&mut self.watched);
        let flagged = std::mem::replace(&mut self.flagged, false);
        self.in_multi = false;
        // canonical reply
        let shown = match &r {
            Rv::Arr(Some(items)) if items.len() == queue.len() => {
                let mut s = format!("*{}", items.len());
                for (q, it) in queue.iter().zip(items) {
                    s.push_str(" | ");
                    s.push_str(&match q {
                        Q::Data(d) => data_reply(&d.cmd, &to_resp(it)),
                        Q::Ping => show(it, false),
                    });
                }
                s
            }
            Rv::Arr(Some(items)) => format!("*{} (queue length {})", items.len(), queue.len()),
            other => show(other, false),
        };
        out.op(line, shown.clone());
        self.nontrivial |= !queue.is_empty() || !watched.is_empty();
        // ---- oracle
        let foreign: Vec<Data> = sched.iter().flatten().cloned().collect();
        let tx_keys: Vec<String> = queue.iter().flat_map(|q| if let Q::Data(d) = q { d.keys() } else { vec![] }).chain(watched.iter().map(|w| w.0.clone())).collect();
        // m7_exec_serializable: a foreign command that only READS (whatever keys), or that names keys the
        // transaction neither queues nor watches, cannot change the transaction's outcome
        let disjoint = foreign.iter().all(|f| f.cmd.is_read_only() || f.keys().iter().all(|k| !tx_keys.contains(k)));
        if flagged {
            if shown != "-execabort" {
                out.violation("C05:m7:execabort:missing", &format!("a queue-time error was answered inside MULTI, EXEC answered {}", shown), self.replay());
            }
            for f in &foreign {
                self.twin.execute(&f.cmd).await;
            }
            self.check_store(out, "EXECABORT", "C05:m7:execabort:store-changed").await;
            return;
        }
        if concurrent && !disjoint {
            // the foreign commands share keys with the transaction: only the correspondence (the model
            // is told the placement) — the outcome may be non-serializable (listed findings)
            out.count("m7:exec:concurrent:shared-keys");
            // re-synchronise the twin with what the server holds
            self.resync().await;
            out.op("M DUMP".into(), dump_flags(&self.st).await);
            return;
        }
        let nil = matches!(r, Rv::Arr(None));
        if changed && !invisible {
            if !nil {
                out.violation("C05:m7:watch:change-undetected", &format!("the typed value of a watched key changed between WATCH and EXEC (and is not a non-string at both moments) but EXEC answered {}", shown), self.replay());
            }
        } else if changed && invisible {
            if nil {
                out.count("m7:watch:nonstring-change-detected");
            } else {
                out.violation("C05:watch:non-string-key-change-undetected", &format!("watched non-string key changed, EXEC answered {}", shown), self.replay());
            }
        } else if nil {
            out.violation("C05:m7:watch:spurious-abort", "no watched key changed, EXEC answered nil", self.replay());
        }
        if nil {
            for f in &foreign {
                self.twin.execute(&f.cmd).await;
            }
            out.count("m7:exec:nil");
            self.check_store(out, "EXEC aborted by WATCH", "C05:m7:watchfail:store-changed").await;
            return;
        }
        // the consecutive run on the twin (then the disjoint foreign commands)
        let mut want = format!("*{}", queue.len());
        for q in &queue {
            want.push_str(" | ");
            match q {
                Q::Data(d) => want.push_str(&data_reply(&d.cmd, &self.twin.execute(&d.cmd).await)),
                Q::Ping => want.push_str("+PONG"),
            }
        }
        for f in &foreign {
            self.twin.execute(&f.cmd).await;
        }
        match &r {
            Rv::Arr(Some(items)) if items.len() != queue.len() => {
                out.violation("C05:m7:exec:result-count", &format!("EXEC returned {} results for {} queued commands", items.len(), queue.len()), self.replay());
            }
            _ => {}
        }
        if shown != want && !(changed && invisible) {
            let sig = if concurrent { "C05:m7:exec:not-serializable-on-disjoint-keys" } else { "C05:m7:exec:result-differs-from-sequential" };
            out.violation(sig, &format!("EXEC answered {} but the queued commands executed consecutively outside MULTI answer {}", shown, want), self.replay());
        }
        out.count(if concurrent { "m7:exec:concurrent:readers-or-disjoint-keys" } else { "m7:exec:sequential" });
        out.count(&format!("m7:exec:queue-len:{}", queue.len().min(8)));
        let sig = if concurrent { "C05:m7:exec:not-serializable-on-disjoint-keys" } else { "C05:m7:exec:store-differs-from-sequential" };
        self.check_store(out, "EXEC", sig).await;
    }

    /// rebuild the twin from what the server under test holds (after an outcome the oracle does not judge)
    async fn resync(&mut self) {
        self.twin = ShardedActorState::with_shards(1);
        let mut keys: Vec<String> = KEYS7.iter().map(|k| k.to_string()).collect();
        keys.push(FILLER_KEY.into());
        for k in keys {
            let Some(v) = typed(&self.st, &k).await else { continue };
            let parts: Vec<&str> = v.split(' ').collect();
            let unhex = |h: &str| -> Vec<u8> { (1..h.len()).step_by(2).filter_map(|i| u8::from_str_radix(&h[i..i + 2], 16).ok()).collect() };
            let sds = |h: &str| redis_sim::redis::SDS::new(unhex(h));
            let c = match parts[0] {
                "S" => Command::set(k.clone(), sds(parts[1])),
                "L" => Command::RPush(k.clone(), parts[2..].iter().map(|h| sds(h)).collect()),
                "T" => Command::SAdd(k.clone(), parts[2..].iter().map(|h| sds(h)).collect()),
                "H" => Command::HSet(k.clone(), parts[2..].chunks(2).map(|c| (sds(c[0]), sds(c[1]))).collect()),
                "Z" => Command::ZAdd {
                    key: k.clone(),
                    pairs: parts[2..].chunks(2).map(|c| (match c[1] { "inf" => f64::INFINITY, "-inf" => f64::NEG_INFINITY, x => x.parse::<f64>().unwrap_or(0.0) }, sds(c[0]))).collect(),
                    nx: false,
                    xx: false,
                    gt: false,
                    lt: false,
                    ch: false,
                },
                _ => continue,
            };
            self.twin.execute(&c).await;
            if let RespValue::Integer(i) = self.st.execute(&Command::Pttl(k.clone())).await {
                if i >= 0 {
                    self.twin.execute(&Command::Expire { key: k.clone(), seconds: 3_600_000, nx: false, xx: false, gt: false, lt: false }).await;
                }
            }
        }
    }
}

async fn conn_session(out: &mut Out, rng: &mut Rng, shards: usize) {
    let t0 = wall_ms();
    let st = ShardedActorState::with_shards(shards);
    let mut w = W7 {
        t0,
        shards,
        c1: Conn::open(&st),
        c2: Conn::open_cfg(&st, crate::c05::lockstep_cfg()),
        st,
        twin: ShardedActorState::with_shards(1),
        in_multi: false,
        flagged: false,
        queue: Vec::new(),
        watched: Vec::new(),
        text: Vec::new(),
        nontrivial: false,
        ticks: 0,
    };
    out.op(format!("M NEW {}", t0), "ok".into());
    out.count(&format!("m7:session:{}shard", shards));
    // a transaction works on two or three keys, the other clients on all of them or on the rest
    let all: Vec<&str> = KEYS7.to_vec();
    let mut mine: Vec<&str> = all.clone();
    rng.shuffle(&mut mine);
    let n_mine = rng.range(1, 3) as usize;
    let theirs: Vec<&str> = mine[n_mine..].to_vec();
    mine.truncate(n_mine);
    let polite = rng.chance(1, 3); // the other clients keep to their own keys
    let salt = Some(rng.next());
    // populate
    for _ in 0..rng.range(2, 7) {
        let d = gen_data_salted(rng, &all, shards, false, salt);
        w.foreign(out, &d).await;
    }
    let steps = rng.range(8, 26);
    // bodies of single-access commands may get a concurrent EXEC
    let mut body_single = true;
    for _ in 0..steps {
        if !w.in_multi {
            match rng.below(16) {
                0..=3 => {
                    let d = gen_data_salted(rng, &all, shards, false, salt);
                    let r = to_resp(&w.c1.call(&d.frame).await);
                    w.twin.execute(&d.cmd).await;
                    w.text.push(d.text());
                    out.op(format!("M C CMD {}", d.line), data_reply(&d.cmd, &r));
                }
                4..=6 => {
                    let d = gen_data_salted(rng, if polite { &theirs } else { &all }, shards, false, salt);
                    w.foreign(out, &d).await;
                }
                7..=9 => {
                    let n = rng.range(1, 2) as usize;
                    let ks: Vec<String> = (0..n).map(|_| rng.pick(&mine).to_string()).collect();
                    let mut f = vec![b"WATCH".to_vec()];
                    f.extend(ks.iter().map(|k| k.as_bytes().to_vec()));
                    let r = w.c1.call(&f).await;
                    for k in &ks {
                        let t = typed(&w.st, k).await;
                        w.watched.push((k.clone(), t));
                    }
                    w.text.push(format!("WATCH {}", ks.join(" ")));
                    out.op(format!("M C WATCH {} {}", ks.len(), ks.iter().map(|k| hex(k.as_bytes())).collect::<Vec<_>>().join(" ")), show(&r, false));
                    out.count("m7:watch");
                }
                10 => {
                    let r = w.c1.call(&[b"UNWATCH".to_vec()]).await;
                    w.watched.clear();
                    w.text.push("UNWATCH".into());
                    out.op("M C UNWATCH".into(), show(&r, false));
                }
                11 => {
                    // a write of the other client to a key the modelled client works on
                    let d = gen_data_salted(rng, &mine, shards, false, salt);
                    w.foreign(out, &d).await;
                }
                12 if !w.watched.is_empty() && rng.chance(1, 3) => {
                    let k = w.watched[rng.below(w.watched.len() as u64) as usize].0.clone();
                    w.expire_now(out, &k).await;
                }
                12 => {
                    let which = if rng.chance(1, 2) { "EXEC" } else { "DISCARD" };
                    let r = w.c1.call(&[which.as_bytes().to_vec()]).await;
                    w.text.push(format!("{} (outside MULTI)", which));
                    out.op(if which == "EXEC" { "M C EXEC 0".into() } else { "M C DISCARD".into() }, show(&r, false));
                }
                _ => {
                    let r = w.c1.call(&[b"MULTI".to_vec()]).await;
                    w.in_multi = true;
                    w.flagged = false;
                    w.queue.clear();
                    body_single = rng.chance(2, 3);
                    w.text.push("MULTI".into());
                    out.op("M C MULTI".into(), show(&r, false));
                }
            }
        } else {
            let mut choice = rng.below(20);
            if choice >= 15 && w.queue.len() < 2 && rng.chance(3, 4) {
                choice = 0; // short bodies are over-represented otherwise
            }
            match choice {
                0..=8 => {
                    let d = gen_data_salted(rng, &mine, shards, body_single, salt);
                    let r = w.c1.call(&d.frame).await;
                    w.text.push(d.text());
                    out.op(format!("M C CMD {}", d.line), show(&r, false));
                    if r == Rv::Simple("QUEUED".into()) {
                        w.queue.push(Q::Data(d));
                    }
                }
                9..=10 => {
                    let d = gen_data_salted(rng, if polite { &theirs } else { &all }, shards, false, salt);
                    w.foreign(out, &d).await;
                }
                11 => {
                    let r = w.c1.call(&[b"PING".to_vec()]).await;
                    w.text.push("PING".into());
                    out.op("M C PING".into(), show(&r, false));
                    if r == Rv::Simple("QUEUED".into()) {
                        w.queue.push(Q::Ping);
                    }
                }
                12 => {
                    let (f, l, t): (Vec<Vec<u8>>, &str, &str) = match rng.below(4) {
                        0 => (vec![b"MULTI".to_vec()], "M C MULTI", "MULTI (nested)"),
                        1 => (vec![b"WATCH".to_vec(), b"a".to_vec()], "M C WATCH 1 x61", "WATCH a (inside MULTI)"),
                        2 => {
                            w.flagged = true;
                            (vec![b"FOO".to_vec(), b"a".to_vec()], "M C UNK", "FOO a")
                        }
                        _ => {
                            w.flagged = true;
                            (vec![b"GET".to_vec()], "M C PERR", "GET (arity)")
                        }
                    };
                    let r = w.c1.call(&f).await;
                    w.text.push(t.into());
                    out.op(l.into(), show(&r, l == "M C PERR"));
                }
                13 => {
                    let r = w.c1.call(&[b"DISCARD".to_vec()]).await;
                    w.in_multi = false;
                    w.flagged = false;
                    w.queue.clear();
                    w.watched.clear();
                    w.text.push("DISCARD".into());
                    out.op("M C DISCARD".into(), show(&r, false));
                    w.check_store(out, "DISCARD", "C05:m7:discard:store-changed").await;
                }
                14 if !w.watched.is_empty() => {
                    let k = w.watched[rng.below(w.watched.len() as u64) as usize].0.clone();
                    w.expire_now(out, &k).await;
                }
                _ => {
                    let single = w.queue.iter().all(|q| match q {
                        Q::Data(d) => one_access(&d.cmd),
                        Q::Ping => true,
                    });
                    let (changed, _) = w.watch_changed().await;
                    let n_access = w.watched.len() + w.queue.iter().filter(|q| matches!(q, Q::Data(_))).count();
                    if single && !w.flagged && !changed && n_access > 0 && rng.chance(1, 2) {
                        let mut real: Vec<bool> = w.watched.iter().map(|_| true).collect();
                        real.extend(w.queue.iter().map(|q| matches!(q, Q::Data(_))));
                        let mut sched: Vec<Vec<Data>> = vec![vec![]];
                        for is_access in real {
                            let pool: &[&str] = if polite { &theirs } else if rng.chance(1, 3) { &mine } else { &all };
                            sched.push(if is_access && rng.chance(1, 2) { vec![gen_data_salted(rng, pool, shards, true, salt)] } else { vec![] });
                        }
                        w.exec(out, sched).await;
                    } else {
                        w.exec(out, vec![]).await;
                    }
                }
            }
        }
    }
    if w.in_multi {
        w.exec(out, vec![]).await;
    }
    let text = format!("m7-conn shards={} {}", shards, w.text.join("; "));
    out.case(&text, w.nontrivial);
    if rng.chance(1, 200) {
        out.sample(json!({"kind": "m7-connection-session", "shards": shards, "script": w.text}));
    }
}

// ------------------------------------------------------------------------------------------
// Part B: the executor-level machine on a virtual clock

fn xtyped(s: &mut Sess, k: &str) -> Option<String> {
    // the visible value (type and content) through the executor's own data, expiry respected
    let vis = matches!(s.ex.execute_readonly(&Command::Exists(vec![k.to_string()])), RespValue::Integer(1));
    if !vis {
        return None;
    }
    s.ex.get_data().get(k).map(crate::redisx::value_text)
}

fn xsession7(out: &mut Out, rng: &mut Rng) {
    let mut now: u64 = crate::redisx::BASE_MS + rng.below(1000);
    let mut s = Sess::new(now);
    let mut twin = Sess::new(now);
    out.op(format!("M X NEW {}", now), "ok".into());
    let mut in_multi = false;
    let mut queue: Vec<Command> = Vec::new();
    let mut watched: Vec<(String, Option<String>)> = Vec::new();
    let mut text: Vec<String> = Vec::new();
    let mut nontrivial = false;
    let mut deadlines: Vec<u64> = Vec::new();
    let keys = crate::redisx::KEYS;
    let steps = rng.range(8, 30);
    for i in 0..=steps {
        // the clock: stands still, ticks, jumps, or lands just before / at / just past a deadline
        let t = match rng.below(12) {
            0..=4 => now,
            5 => now + 1,
            6 => now + rng.range(2, 2500),
            7 => now + 100_000,
            _ => {
                if let Some(d) = deadlines.iter().filter(|d| **d > now).min() {
                    match rng.below(4) {
                        0 => (*d - 1).max(now),
                        1 | 2 => *d,
                        _ => *d + 1,
                    }
                } else {
                    now + rng.below(3)
                }
            }
        };
        if t != now {
            now = t;
            out.op(format!("M X T {}", now), "ok".into());
            text.push(format!("(clock {})", now));
        }
        // the shard actor's discipline: set_time (evicts) before every command
        s.set_now(now, true);
        twin.set_now(now, true);
        let last = i == steps;
        let mut choice = if last && in_multi { 99 } else if last { 98 } else { rng.below(20) };
        if in_multi && (14..20).contains(&choice) && queue.len() < 2 && rng.chance(3, 4) {
            choice = 0;
        }
        // after a WATCH the next commands tend to hit the watched keys
        let hot: Option<String> = if !watched.is_empty() && rng.chance(1, 3) { Some(watched[rng.below(watched.len() as u64) as usize].0.clone()) } else { None };
        if !in_multi {
            match choice {
                98 => {}
                0..=8 => {
                    let mut c = gen_cmd(rng, now);
                    if let Some(h) = &hot {
                        for _ in 0..12 {
                            if c.get_keys().contains(h) {
                                break;
                            }
                            c = gen_cmd(rng, now);
                        }
                    }
                    if !crate::c03m7::admissible(&c) || matches!(c, Command::SPop(..) | Command::RandomKey) {
                        continue;
                    }
                    let Some(line) = enc_cmd(&c, &RespValue::BulkString(None)) else { continue };
                    note_deadline(&c, now, &mut deadlines);
                    let r = s.ex.execute(&c);
                    twin.ex.execute(&c);
                    text.push(line.clone());
                    out.op(format!("M X CMD {}", line), data_reply(&c, &r));
                }
                9..=12 => {
                    let n = rng.range(1, 3) as usize;
                    let ks: Vec<String> = (0..n).map(|_| rng.pick(&keys).to_string()).collect();
                    let r = s.ex.execute(&Command::Watch(ks.clone()));
                    for k in &ks {
                        if !watched.iter().any(|(w, _)| w == k) {
                            let t = xtyped(&mut s, k);
                            watched.push((k.clone(), t));
                        }
                    }
                    text.push(format!("WATCH {}", ks.join(" ")));
                    out.op(format!("M X WATCH {} {}", ks.len(), ks.iter().map(|k| hex(k.as_bytes())).collect::<Vec<_>>().join(" ")), show(&Rv::from_resp(&r), false));
                    out.count("m7:x:watch");
                }
                13 => {
                    let r = s.ex.execute(&Command::Unwatch);
                    watched.clear();
                    text.push("UNWATCH".into());
                    out.op("M X UNWATCH".into(), show(&Rv::from_resp(&r), false));
                }
                14 => {
                    let (c, l) = if rng.chance(1, 2) { (Command::Exec, "M X EXEC") } else { (Command::Discard, "M X DISCARD") };
                    let r = s.ex.execute(&c);
                    text.push(format!("{} (outside MULTI)", l));
                    out.op(l.into(), show(&Rv::from_resp(&r), false));
                }
                15 => {
                    out.op("M X DUMP".into(), s.dump());
                }
                _ => {
                    let r = s.ex.execute(&Command::Multi);
                    in_multi = true;
                    queue.clear();
                    text.push("MULTI".into());
                    out.op("M X MULTI".into(), show(&Rv::from_resp(&r), false));
                }
            }
        } else {
            match choice {
                0..=11 => {
                    let c = gen_cmd(rng, now);
                    if !crate::c03m7::admissible(&c) || matches!(c, Command::SPop(..) | Command::RandomKey) {
                        continue;
                    }
                    let Some(line) = enc_cmd(&c, &RespValue::BulkString(None)) else { continue };
                    let r = s.ex.execute(&c);
                    text.push(line.clone());
                    out.op(format!("M X CMD {}", line), show(&Rv::from_resp(&r), false));
                    if matches!(&r, RespValue::SimpleString(x) if x == "QUEUED") {
                        queue.push(c);
                    }
                }
                12 => {
                    let (c, l) = if rng.chance(1, 2) { (Command::Multi, "M X MULTI".to_string()) } else { (Command::Watch(vec!["a".into()]), "M X WATCH 1 x61".to_string()) };
                    let r = s.ex.execute(&c);
                    text.push(format!("{} (inside MULTI)", l));
                    out.op(l, show(&Rv::from_resp(&r), false));
                }
                13 => {
                    let r = s.ex.execute(&Command::Discard);
                    in_multi = false;
                    queue.clear();
                    watched.clear();
                    text.push("DISCARD".into());
                    out.op("M X DISCARD".into(), show(&Rv::from_resp(&r), false));
                    let (a, b) = (s.dump(), twin.dump());
                    out.op("M X DUMP".into(), a.clone());
                    if a != b {
                        out.violation("C05:m7:x:discard:store-changed", &format!("store {} after DISCARD, twin {}", a, b), json!({"level": "executor over M7", "script": text}));
                    }
                }
                _ => {
                    // EXEC: the oracle's verdict first
                    let mut changed = false;
                    for (k, t0) in &watched {
                        if xtyped(&mut s, k) != *t0 {
                            changed = true;
                        }
                    }
                    let r = s.ex.execute(&Command::Exec);
                    in_multi = false;
                    let q = std::mem::take(&mut queue);
                    let wn = watched.len();
                    watched.clear();
                    text.push("EXEC".into());
                    nontrivial |= !q.is_empty() || wn > 0;
                    for c in &q {
                        note_deadline(c, now, &mut deadlines);
                    }
                    let shown = match &r {
                        RespValue::Array(Some(items)) if items.len() == q.len() => {
                            let mut t = format!("*{}", items.len());
                            for (c, it) in q.iter().zip(items) {
                                t.push_str(" | ");
                                t.push_str(&data_reply(c, it));
                            }
                            t
                        }
                        RespValue::Array(Some(items)) => format!("*{} (queue length {})", items.len(), q.len()),
                        other => show(&Rv::from_resp(other), false),
                    };
                    out.op("M X EXEC".into(), shown.clone());
                    let replay = json!({"level": "executor over M7 (CommandExecutor, virtual clock)", "script": text});
                    let nil = matches!(r, RespValue::BulkString(None));
                    if changed != nil {
                        out.violation(
                            if changed { "C05:m7:x:watch:change-undetected" } else { "C05:m7:x:watch:spurious-abort" },
                            &format!("value of a watched key changed: {}; EXEC answered {}", changed, shown),
                            replay.clone(),
                        );
                    }
                    if !nil {
                        let mut want = format!("*{}", q.len());
                        for c in &q {
                            want.push_str(" | ");
                            want.push_str(&data_reply(c, &twin.ex.execute(c)));
                        }
                        if let RespValue::Array(Some(items)) = &r {
                            if items.len() != q.len() {
                                out.violation("C05:m7:x:exec:result-count", &format!("{} results for {} queued commands", items.len(), q.len()), replay.clone());
                            }
                        }
                        if shown != want {
                            out.violation("C05:m7:x:exec:result-differs-from-sequential", &format!("EXEC answered {}, the consecutive run {}", shown, want), replay.clone());
                        }
                        out.count(&format!("m7:x:exec:queue-len:{}", q.len().min(8)));
                    } else {
                        out.count("m7:x:exec:nil");
                    }
                    let (a, b) = (s.dump(), twin.dump());
                    out.op("M X DUMP".into(), a.clone());
                    if a != b {
                        out.violation("C05:m7:x:exec:store-differs-from-sequential", &format!("store {} after EXEC, the consecutive run gives {}", a, b), replay);
                    }
                }
            }
        }
    }
    out.case(&format!("m7-x {}", text.join("; ")), nontrivial);
    if rng.chance(1, 300) {
        out.sample(json!({"kind": "m7-executor-session", "script": text}));
    }
}

fn note_deadline(c: &Command, now: u64, deadlines: &mut Vec<u64>) {
    match c {
        Command::Set { px: Some(p), .. } if *p > 0 && *p < 1_000_000 => deadlines.push(now + *p as u64),
        Command::Set { ex: Some(s), .. } if *s > 0 && *s < 1000 => deadlines.push(now + 1000 * *s as u64),
        Command::PExpire { milliseconds, .. } if *milliseconds > 0 && *milliseconds < 1_000_000 => deadlines.push(now + *milliseconds as u64),
        Command::Expire { seconds, .. } if *seconds > 0 && *seconds < 1000 => deadlines.push(now + 1000 * *seconds as u64),
        _ => {}
    }
}

/// fixed scripts that run first on every run: the witnesses of the M7 theorems on the real code
async fn conn_corpus(out: &mut Out) {
    // (shards, steps) — steps: 'F' foreign frame, 'C' client frame, 'W' watch, 'X' expire-now, 'E' exec
    let f = |s: &str| -> Vec<Vec<u8>> { s.split(' ').map(|x| x.as_bytes().to_vec()).collect() };
    for shards in [1usize, 4] {
        // a list with a deadline, watched; the deadline is reached before EXEC: nil (m7_watch_detects_deadline)
        let t0 = wall_ms();
        let st = ShardedActorState::with_shards(shards);
        let mut w = W7 { t0, shards, c1: Conn::open(&st), c2: Conn::open_cfg(&st, crate::c05::lockstep_cfg()), st, twin: ShardedActorState::with_shards(1), in_multi: false, flagged: false, queue: vec![], watched: vec![], text: vec![], nontrivial: true, ticks: 0 };
        out.op(format!("M NEW {}", t0), "ok".into());
        for (setup, key) in [("RPUSH w x y", "w"), ("SADD w m", "w"), ("HSET w f 1", "w"), ("ZADD w 1 m", "w"), ("SET w v", "w")] {
            w.foreign(out, &Data::of("DEL w")).await;
            w.foreign(out, &Data::of(setup)).await;
            let r = w.c1.call(&f("WATCH w")).await;
            let t = typed(&w.st, key).await;
            w.watched.push((key.into(), t));
            out.op("M C WATCH 1 x77".into(), show(&r, false));
            w.expire_now(out, key).await;
            let r = w.c1.call(&f("MULTI")).await;
            w.in_multi = true;
            out.op("M C MULTI".into(), show(&r, false));
            let q = Data::of("SET a 1");
            let r = w.c1.call(&q.frame).await;
            out.op(format!("M C CMD {}", q.line), show(&r, false));
            w.queue.push(Q::Data(q));
            w.text.push(format!("{}; WATCH w; PEXPIRE w 1; (6 ms); MULTI; SET a 1", setup));
            w.exec(out, vec![]).await;
            out.count("m7:corpus:deadline-of-a-watched-key-reached");
        }
        out.case(&format!("m7-conn-corpus shards={}", shards), true);
    }
}

pub fn run(out: &mut Out, rng: &mut Rng, n: u64) {
    let rt = tokio::runtime::Builder::new_current_thread().enable_all().build().unwrap();
    rt.block_on(conn_corpus(out));
    drop(rt);
    let mut done = 0;
    while done < n {
        let rt = tokio::runtime::Builder::new_current_thread().enable_all().build().unwrap();
        let chunk = (n - done).min(200);
        rt.block_on(async {
            for _ in 0..chunk {
                let mut r = rng.fork();
                let shards = if r.chance(1, 2) { 1 } else { 4 };
                conn_session(out, &mut r, shards).await;
            }
        });
        done += chunk;
    }
    for _ in 0..n {
        let mut r = rng.fork();
        xsession7(out, &mut r);
    }
}
