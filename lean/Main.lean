import RedisVerif.Driver.C07
import RedisVerif.Driver.C19
import RedisVerif.Driver.C18

open RedisVerif.Driver

partial def loop (h : IO.FS.Stream) (out : IO.FS.Stream) (f : String → String) : IO Unit := do
  let line ← h.getLine
  if line.isEmpty then return ()
  out.putStrLn (f line)
  loop h out f

partial def loopState {σ : Type} (h : IO.FS.Stream) (out : IO.FS.Stream) (st : σ)
    (f : σ → String → σ × String) : IO Unit := do
  let line ← h.getLine
  if line.isEmpty then return ()
  let (st', o) := f st line
  out.putStrLn o
  loopState h out st' f

def main (args : List String) : IO UInt32 := do
  let stdin ← IO.getStdin
  let stdout ← IO.getStdout
  match args with
  | ["C07"] => loop stdin stdout C07.step; return 0
  | ["C19"] => loopState stdin stdout C19.St.init C19.step; return 0
  | ["C18"] => loopState stdin stdout C18.St.init C18.step; return 0
  | _ => IO.eprintln "usage: rvdriver <property-id> < ops"; return 2
