import RedisVerif.Driver.C07
import RedisVerif.Driver.C15
import RedisVerif.Driver.C04

open RedisVerif.Driver

partial def loop (h : IO.FS.Stream) (out : IO.FS.Stream) (f : String → String) : IO Unit := do
  let line ← h.getLine
  if line.isEmpty then return ()
  out.putStrLn (f line)
  loop h out f

def main (args : List String) : IO UInt32 := do
  let stdin ← IO.getStdin
  let stdout ← IO.getStdout
  match args with
  | ["C07"] => loop stdin stdout C07.step; return 0
  | ["C15"] => loop stdin stdout C15.step; return 0
  | ["C04"] => loop stdin stdout C04.step; return 0
  | _ => IO.eprintln "usage: rvdriver <property-id> < ops"; return 2
