import RedisVerif.Driver.C07
import RedisVerif.Driver.C09
import RedisVerif.Driver.C10
import RedisVerif.Driver.C14

open RedisVerif.Driver

partial def loop (h : IO.FS.Stream) (out : IO.FS.Stream) (f : String → String) : IO Unit := do
  let line ← h.getLine
  if line.isEmpty then return ()
  out.putStrLn (f line)
  loop h out f

/-- stateful sub-drivers: the state is threaded through the lines -/
partial def loopState {σ : Type} (h : IO.FS.Stream) (out : IO.FS.Stream)
    (f : σ → String → σ × String) (s : σ) : IO Unit := do
  let line ← h.getLine
  if line.isEmpty then return ()
  let (s', o) := f s line
  out.putStrLn o
  loopState h out f s'

def main (args : List String) : IO UInt32 := do
  let stdin ← IO.getStdin
  let stdout ← IO.getStdout
  match args with
  | ["C07"] => loop stdin stdout C07.step; return 0
  | ["C09"] => loop stdin stdout C09.step; return 0
  | ["C10"] => loopState stdin stdout C10.step []; return 0
  | ["C14"] => loopState stdin stdout C14.step {}; return 0
  | _ => IO.eprintln "usage: rvdriver <property-id> < ops"; return 2
