import RedisVerif.Driver.C07
import RedisVerif.Driver.C08
import RedisVerif.Driver.C06
import RedisVerif.Driver.C01
import RedisVerif.Driver.C15
import RedisVerif.Driver.C04
import RedisVerif.Driver.C03
import RedisVerif.Driver.C02

open RedisVerif.Driver

partial def loop (h : IO.FS.Stream) (out : IO.FS.Stream) (f : String → String) : IO Unit := do
  let line ← h.getLine
  if line.isEmpty then return ()
  out.putStrLn (f line)
  loop h out f

partial def loopState {σ : Type} (h : IO.FS.Stream) (out : IO.FS.Stream) (f : σ → String → σ × String)
    (s : σ) : IO Unit := do
  let line ← h.getLine
  if line.isEmpty then return ()
  let (s', o) := f s line
  out.putStrLn o
  loopState h out f s'
def main (args : List String) : IO UInt32 := do
  let stdin ← IO.getStdin
  let stdout ← IO.getStdout
  match args with
  | ["C07"] => loop stdin stdout C07.step; return 0
  | ["C06"] => loopState stdin stdout C06.stepAll C06.DState.init; return 0
  | ["C08"] => loopState stdin stdout C08.step (RedisVerif.Shard.init 0 false); return 0
  | ["C01"] | ["C17"] => loopState stdin stdout C01.stepLine RedisVerif.Redis.init; return 0
  | ["C15"] => loop stdin stdout C15.step; return 0
  | ["C04"] => loop stdin stdout C04.step; return 0
  | ["C03"] => loopState stdin stdout C03.step C03.DState.init; return 0
  | ["C02"] => loopState stdin stdout C02.step ([] : C02.DState); return 0
  | _ => IO.eprintln "usage: rvdriver <property-id> < ops"; return 2
