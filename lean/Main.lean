import RedisVerif.Driver.C07
import RedisVerif.Driver.C08
import RedisVerif.Driver.C06
import RedisVerif.Driver.C06Msg
import RedisVerif.Driver.C06Sim
import RedisVerif.Driver.C01
import RedisVerif.Driver.C01Data
import RedisVerif.Driver.C15
import RedisVerif.Driver.C04
import RedisVerif.Driver.C03
import RedisVerif.Driver.C02
import RedisVerif.Driver.C11
import RedisVerif.Driver.C12
import RedisVerif.Driver.C09
import RedisVerif.Driver.C10
import RedisVerif.Driver.C14
import RedisVerif.Driver.C19
import RedisVerif.Driver.C18
import RedisVerif.Driver.C05
import RedisVerif.Driver.C16
import RedisVerif.Driver.C20

open RedisVerif.Driver

partial def loop (h : IO.FS.Stream) (out : IO.FS.Stream) (f : String → String) : IO Unit := do
  let line ← h.getLine
  if line.isEmpty then return ()
  out.putStrLn (f line)
  loop h out f

/-- stateful sub-drivers: the state is threaded through the lines -/
partial def loopState {σ : Type} (h : IO.FS.Stream) (out : IO.FS.Stream)
    (f : σ → String → σ × String) (s : σ) : IO Unit := do
  let line ← h.getLine
  if line.isEmpty then return ()
  let (s', o) := f s line
  out.putStrLn o
  loopState h out f s'

def main (args : List String) : IO UInt32 := do
  let stdin ← IO.getStdin
  let stdout ← IO.getStdout
  match args with
  | ["C07"] => loop stdin stdout C07.step; return 0
  | ["C05"] => loopState stdin stdout C05.step C05.St.init; return 0
  | ["C16"] => loop stdin stdout C16.step; return 0
  | ["C06"] => loopState stdin stdout C06Sim.stepAll C06Sim.SState.init; return 0
  | ["C08"] => loopState stdin stdout C08.stepAll C08.DState.init; return 0
  | ["C01"] | ["C17"] => loopState stdin stdout C01Data.stepLine C01Data.DState.init; return 0
  | ["C15"] => loop stdin stdout C15.step; return 0
  | ["C04"] => loop stdin stdout C04.step; return 0
  | ["C03"] => loopState stdin stdout C03.step C03.DState.init; return 0
  | ["C02"] => loopState stdin stdout C02.step ({} : C02.DState); return 0
  | ["C11"] => loopState stdin stdout C11.step C11.init; return 0
  | ["C12"] => loopState stdin stdout C12.step C12.init; return 0
  | ["C13"] => loopState stdin stdout C12.step C12.init; return 0
  | ["C09"] => loop stdin stdout C09.step; return 0
  | ["C10"] => loopState stdin stdout C10.step {}; return 0
  | ["C14"] => loopState stdin stdout C14.step {}; return 0
  | ["C19"] => loopState stdin stdout C19.step C19.St.init; return 0
  | ["C18"] => loopState stdin stdout C18.step C18.St.init; return 0
  | ["C20"] => loopState stdin stdout C20.step C20.St.init; return 0
  | _ => IO.eprintln "usage: rvdriver <property-id> < ops"; return 2
