import RedisVerif.Model.NMap
import RedisVerif.Model.Crdt
import RedisVerif.Lemmas.NMap
import RedisVerif.Lemmas.Crdt
import RedisVerif.Props.C07
