import RedisVerif.Model.NMap
import RedisVerif.Model.Crdt
import RedisVerif.Lemmas.NMap
import RedisVerif.Lemmas.Crdt
import RedisVerif.Props.C07
import RedisVerif.Model.Ring
import RedisVerif.Lemmas.Ring
import RedisVerif.Props.C19
