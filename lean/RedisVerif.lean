import RedisVerif.Model.NMap
import RedisVerif.Model.Crdt
import RedisVerif.Lemmas.NMap
import RedisVerif.Lemmas.Crdt
import RedisVerif.Props.C07
import RedisVerif.Model.Replica
import RedisVerif.Lemmas.Replica
import RedisVerif.Props.C08
