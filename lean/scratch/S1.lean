import RedisVerif.Model.Server
open RedisVerif RedisVerif.Server RedisVerif.Grammar
def fr (l : List String) : Frame := l.map s2b
def R2 : Shards.Routes := Shards.Routes.ofTable 2 [(keyCode (s2b "a"), (0,0)), (keyCode (s2b "b"), (1,1))]
#eval (run R2 (fun _ => .generic) (Shards.init _ 2) [(5, fr ["SET","a","1","PX","100"]), (6, fr ["incr","a"]), (7, fr ["ZADD","b","1.0","x","-inf","y"]), (8, fr ["zrangebyscore","b","(-inf","+inf","WITHSCORES"]), (9, fr ["GET"]), (10, fr ["MGET","a","b","c"]), (200, fr ["GET","a"]), (201,fr ["PING"]), (202, fr ["HSET","a","f","v"]), (203, fr ["HGETALL","a"]), (204, fr ["LPUSH","a","x"])]).2
#eval (specRun [] [(5, fr ["SET","a","1","PX","100"]), (6, fr ["incr","a"]), (7, fr ["ZADD","b","1.0","x","-inf","y"]), (8, fr ["zrangebyscore","b","(-inf","+inf","WITHSCORES"]), (9, fr ["GET"]), (10, fr ["MGET","a","b","c"]), (200, fr ["GET","a"]), (201,fr ["PING"]), (202, fr ["HSET","a","f","v"]), (203, fr ["HGETALL","a"]), (204, fr ["LPUSH","a","x"])]).2
