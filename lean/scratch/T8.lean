import RedisVerif.Props.C03M7
namespace RedisVerif
namespace C03
open Shards NMap Shards.M7
open Redis (Entry cmdKeys)

/-! ## time: sweeps are unobservable, N shards refine `Redis.step` -/

/-- from time `t` on, no reader can tell the `R.N` shards from the one store -/
structure Rel7 (R : Routes) (st : Shards Entry) (s1 : Redis.State) (t : Nat) : Prop where
  inv : Inv R st
  wf1 : WF s1
  view : ∀ t', t ≤ t' → ∀ k, lv t' (get (abs st) k) = lv t' (get s1 k)

theorem rel7_init (R : Routes) : Rel7 R (Shards.init Entry R.N) [] 0 :=
  ⟨inv_init R, wf_nil, fun _ _ _ => by rw [abs_init]⟩

theorem routable_inject (R : Routes) (now : Nat) (c : Redis.Cmd) (h : Routable7 R c = true) :
    Routable R true (inject now c) = true := by
  cases c <;> first | rfl | skip
  all_goals first
    | exact h
    | (rename_i st; cases st <;> first | rfl | exact h)

/-- replies: N-shard reply ~ (one executor on the union) ~ M7 reply -/
theorem replyEqv7_of_eqv {x y : Reply} {b : Redis.Reply} (h1 : replyEqv x y = true)
    (hy : ∀ o, y ≠ .rkey o) (h2 : replyEqv7 y b = true) : replyEqv7 x b = true := by
  cases y with
  | rkey o => exact absurd rfl (hy o)
  | keys l =>
    cases x <;> simp only [replyEqv, beq_iff_eq, reduceCtorEq, List.isPerm_iff] at h1
    rename_i l'
    cases b <;> simp only [replyEqv7, toM7, beq_iff_eq, Option.some.injEq, reduceCtorEq, List.isPerm_iff] at h2 ⊢
    exact (h1.map _).trans h2
  | one r =>
    cases x <;> simp only [replyEqv, beq_iff_eq, reduceCtorEq] at h1
    rw [h1]; exact h2
  | many l =>
    cases x <;> simp only [replyEqv, beq_iff_eq, reduceCtorEq] at h1
    rw [h1]; exact h2
  | scan c l =>
    cases x <;> simp only [replyEqv, beq_iff_eq, reduceCtorEq] at h1
    rw [h1]; exact h2


/-- `exec7_inject` plus: the reply is never a RANDOMKEY reply -/
theorem inject_not_rkey (s : Store sig7.Val) (now : Nat) (c : Redis.Cmd) (hr : ∀ ch, c ≠ .randomkey ch) :
    ∀ o, (exec7.exec s (inject now c)).2 ≠ .rkey o := by
  intro o
  cases c
  all_goals first
    | (show (exec7.exec1 s _ (now, _)).2 ≠ _; rw [exec1_pos (op := (now, _)) rfl]; intro h; cases h)
    | (show (exec7.exec2 s _ _ (now, _)).2 ≠ _; rw [exec2_pos (op := (now, _)) rfl]; intro h; cases h)
    | skip
  case randomkey ch => exact absurd rfl (hr ch)
  case sort k st =>
    cases st
    · show (exec7.exec1 s _ (now, _)).2 ≠ _; rw [exec1_pos (op := (now, _)) rfl]; intro h; cases h
    · show (exec7.exec2 s _ _ (now, _)).2 ≠ _; rw [exec2_pos (op := (now, _)) rfl]; intro h; cases h
  case msetnx kvs =>
    show (if kvs.any (fun kv => present s kv.1) then (s, Reply.one (.int 0))
      else (kvs.foldl (setStr exec7) s, Reply.one (.int 1))).2 ≠ _
    cases kvs.any (fun kv => present s kv.1) <;> (intro h; cases h)
  all_goals (intro h; cases h)

/-- **one timed command**: `R.N` shards of which (at least) the shards that get a message adopt the
    time, against `Redis.step` on one store -/
theorem step7_refines {R : Routes} (hv : R.Valid) (hN : 0 < R.N) {st : Shards Entry} {s1 : Redis.State}
    {t now : Nat} (h : Rel7 R st s1 t) (ht : t ≤ now) (c : Redis.Cmd) (hr : Routable7 R c = true)
    (W : Nat → Bool) (hW : ∀ i, recv R (inject now c) i = true → W i = true) :
    replyEqv7 (execNT7 R W now st c).2 (Redis.step s1 now c).2 = true ∧
    Rel7 R (execNT7 R W now st c).1 (Redis.step s1 now c).1 now := by
  have hnr : ∀ ch, c ≠ .randomkey ch := by
    intro ch e; rw [e] at hr; simp [Routable7] at hr
  -- the shards after adopting the time
  have hinv0 := inv_sweep h.inv W now
  have hwa := hinv0.wf_abs
  have hwp := Redis.wf_purge now h.wf1
  -- N shards = one executor on the union
  obtain ⟨hi, ha, hq⟩ := shards_refine_single_m7 R hv hN hinv0 (inject now c) (routable_inject R now c hr)
  -- … = the M7 command on the union
  obtain ⟨hs7, hr7⟩ := exec7_inject (abs (sweep W now st)) now c hwa hnr
  have hnk := inject_not_rkey (abs (sweep W now st)) now c hnr
  -- the union (partially swept) against the purged one store
  have hget : ∀ k, get (abs (sweep W now st)) k =
      if W (R.bytes k) then lv now (get (abs st) k) else get (abs st) k := get_abs_sweep h.inv W now
  have hrel0 : ∀ t', now ≤ t' → ∀ k, lv t' (get (abs (sweep W now st)) k) = lv t' (get (Redis.purge s1 now) k) := by
    intro t' ht' k
    rw [hget k, get_purge_lv h.wf1, lv_lv ht']
    split
    · rw [lv_lv ht']; exact h.view t' (Nat.le_trans ht ht') k
    · exact h.view t' (Nat.le_trans ht ht') k
  have hswept : ∀ k, W (R.bytes k) = true → get (abs (sweep W now st)) k = get (Redis.purge s1 now) k := by
    intro k hk
    rw [hget k, if_pos hk, get_purge_lv h.wf1]
    exact h.view now ht k
  obtain ⟨e1, e2⟩ := exec_agree now c (abs (sweep W now st)) (Redis.purge s1 now) hwa hwp
    (fun K hK k hk => hswept k (hW _ (recv_covers R now c hr K hK k hk)))
    (fun hG => NMap.ext hwa hwp (fun k => hswept k (hW _ (recv_all R now c hG _))))
    hrel0
  refine ⟨?_, hi, wf_exec hwp now c, ?_⟩
  · show replyEqv7 (execN exec7 R true (sweep W now st) (inject now c)).2 (Redis.exec (Redis.purge s1 now) now c).2 = true
    rw [← e1]
    exact replyEqv7_of_eqv hq hnk hr7
  · intro t' ht' k
    show lv t' (get (abs (execN exec7 R true (sweep W now st) (inject now c)).1) k) =
      lv t' (get (Redis.exec (Redis.purge s1 now) now c).1 k)
    rw [ha, hs7]
    exact e2 t' ht' k

/-- **every timed run** (the code's discipline: exactly the shards that get a message adopt the time) -/
theorem run7_refines {R : Routes} (hv : R.Valid) (hN : 0 < R.N) (cmds : List (Nat × Redis.Cmd))
    (hr : ∀ x ∈ cmds, Routable7 R x.2 = true) {st : Shards Entry} {s1 : Redis.State} {t : Nat}
    (h : Rel7 R st s1 t) (hm : Mono7 t cmds) :
    repliesEqv7 (run7 R st cmds).2 (Redis.run s1 cmds).2 = true ∧
    ∃ t', Rel7 R (run7 R st cmds).1 (Redis.run s1 cmds).1 t' := by
  induction cmds generalizing st s1 t with
  | nil => exact ⟨rfl, t, h⟩
  | cons x xs ih =>
    obtain ⟨now, c⟩ := x
    obtain ⟨q, hrel⟩ := step7_refines hv hN h hm.1 c (hr (now, c) (by simp)) (recv R (inject now c)) (fun _ hi => hi)
    obtain ⟨q', hrel'⟩ := ih (fun y hy => hr y (by simp [hy])) hrel hm.2
    refine ⟨?_, hrel'⟩
    show repliesEqv7 ((execNT7code R now st c).2 :: (run7 R (execNT7code R now st c).1 xs).2)
      ((Redis.step s1 now c).2 :: (Redis.run (Redis.step s1 now c).1 xs).2) = true
    simp only [repliesEqv7, Bool.and_eq_true]
    exact ⟨q, q'⟩

#print axioms run7_refines
end C03
end RedisVerif
