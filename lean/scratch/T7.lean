import RedisVerif.Lemmas.Shards7
namespace RedisVerif.Shards.M7
open NMap
open Redis (Entry LocalOn cmdKeys exec_localOn live purge)

theorem recv_all (R : Routes) (now : Nat) (c : Redis.Cmd) (h : cmdKeys c = none) (i : Nat) :
    recv R (inject now c) i = true := by
  cases c <;> simp only [cmdKeys, reduceCtorEq] at h <;> try rfl
  case sort k st => cases st <;> simp at h

theorem recv_covers (R : Routes) (now : Nat) (c : Redis.Cmd) (hr : Routable7 R c = true) (K : List Nat)
    (hK : cmdKeys c = some K) (k : Nat) (hk : k ∈ K) : recv R (inject now c) (R.bytes k) = true := by
  cases c <;> simp only [cmdKeys, Option.some.injEq, reduceCtorEq] at hK <;> try subst hK
  all_goals first
    | (simp only [List.mem_singleton] at hk; subst hk; simp [inject, cmdKeys, recv, cmdShard, Routes.gen]; done)
    | skip
  case mget ks => exact List.any_eq_true.mpr ⟨k, hk, by simp⟩
  case mset kvs =>
    obtain ⟨kv, hkv, e⟩ := List.mem_map.mp hk
    exact List.any_eq_true.mpr ⟨kv, hkv, by simp [e]⟩
  case «exists» ks => exact List.any_eq_true.mpr ⟨k, hk, by simp⟩
  case del ks =>
    show (if ks.length > 1 then ks.any (fun k' => R.bytes k' == R.bytes k)
      else cmdShard R true (Cmd.del (S := sig7) ks) == R.bytes k) = true
    split
    · exact List.any_eq_true.mpr ⟨k, hk, by simp⟩
    · cases ks with
      | nil => cases hk
      | cons a rest =>
        cases rest with
        | nil => simp only [List.mem_singleton] at hk; subst hk; simp [cmdShard, Routes.gen]
        | cons b rest => rename_i h; simp at h
  case msetnx kvs =>
    cases kvs with
    | nil => cases hk
    | cons kv rest =>
      show (R.bytes kv.1 == R.bytes k) = true
      simp only [List.map_cons, List.mem_cons] at hk
      rcases hk with rfl | hk
      · simp
      · obtain ⟨x, hx, e⟩ := List.mem_map.mp hk
        have := List.all_eq_true.mp hr x hx
        simp only [beq_iff_eq] at this ⊢
        rw [← e, this]
  case rename a b =>
    have hab : R.bytes a = R.bytes b := by simpa [Routable7] using hr
    simp only [List.mem_cons, List.not_mem_nil, or_false] at hk
    rcases hk with rfl | rfl <;> simp [inject, cmdKeys, recv, cmdShard, Routes.gen, hab]
  case renamenx a b =>
    have hab : R.bytes a = R.bytes b := by simpa [Routable7] using hr
    simp only [List.mem_cons, List.not_mem_nil, or_false] at hk
    rcases hk with rfl | rfl <;> simp [inject, cmdKeys, recv, cmdShard, Routes.gen, hab]
  case rpoplpush a b =>
    have hab : R.bytes a = R.bytes b := by simpa [Routable7] using hr
    simp only [List.mem_cons, List.not_mem_nil, or_false] at hk
    rcases hk with rfl | rfl <;> simp [inject, cmdKeys, recv, cmdShard, Routes.gen, hab]
  case lmove a b f t =>
    have hab : R.bytes a = R.bytes b := by simpa [Routable7] using hr
    simp only [List.mem_cons, List.not_mem_nil, or_false] at hk
    rcases hk with rfl | rfl <;> simp [inject, cmdKeys, recv, cmdShard, Routes.gen, hab]
  case sort a st =>
    cases st with
    | none =>
      simp only [Option.some.injEq] at hK; subst hK
      simp only [List.mem_singleton] at hk; subst hk
      simp [inject, cmdKeys, recv, cmdShard, Routes.gen]
    | some b =>
      simp only [Option.some.injEq] at hK; subst hK
      have hab : R.bytes a = R.bytes b := by simpa [Routable7] using hr
      simp only [List.mem_cons, List.not_mem_nil, or_false] at hk
      rcases hk with rfl | rfl <;> simp [inject, cmdKeys, recv, cmdShard, Routes.gen, hab]

end RedisVerif.Shards.M7
