import RedisVerif.Lemmas.Shards7
namespace RedisVerif.Shards.M7
open NMap
open Redis (Entry LocalOn cmdKeys exec_localOn live purge)

/-! ## what a reader at time `t` sees of a slot -/

/-- an entry as seen at time `t`: absent once its deadline has been reached -/
def lv (t : Nat) (o : Option Entry) : Option Entry := o.filter (live t)

theorem live_mono {a b : Nat} (h : a ≤ b) (e : Entry) (hl : live b e = true) : live a e = true := by
  unfold live at *
  cases hd : e.dl with
  | none => rfl
  | some d => rw [hd] at hl; simp only [decide_eq_true_eq] at hl ⊢; omega

theorem lv_lv {a b : Nat} (h : a ≤ b) (o : Option Entry) : lv b (lv a o) = lv b o := by
  cases o with
  | none => rfl
  | some e =>
    by_cases hb : live b e = true
    · have ha := live_mono h e hb
      simp [lv, Option.filter, ha, hb]
    · by_cases ha : live a e = true <;> simp [lv, Option.filter, ha, hb]

theorem get_purge_lv {s : Redis.State} (hs : WF s) (now k : Nat) : get (purge s now) k = lv now (get s k) :=
  Redis.get_purge hs now k

/-! ## sweeps -/

theorem length_sweepFrom (W : Nat → Bool) (now : Nat) (j : Nat) (st : Shards Entry) :
    (sweepFrom W now j st).length = st.length := by
  induction st generalizing j with
  | nil => rfl
  | cons s rest ih => simp [sweepFrom, ih]

theorem shard_sweepFrom (W : Nat → Bool) (now : Nat) (j : Nat) (st : Shards Entry) (i : Nat) :
    shard (sweepFrom W now j st) i = if W (j + i) then purge (shard st i) now else shard st i := by
  induction st generalizing j i with
  | nil => simp [sweepFrom, shard, purge]
  | cons s rest ih =>
    cases i with
    | zero => simp [sweepFrom, shard]
    | succ i =>
      have := ih (j + 1) i
      simp only [shard, sweepFrom, List.getD_cons_succ] at this ⊢
      rw [this]
      have e : j + 1 + i = j + (i + 1) := by omega
      rw [e]

theorem shard_sweep (W : Nat → Bool) (now : Nat) (st : Shards Entry) (i : Nat) :
    shard (sweep W now st) i = if W i then purge (shard st i) now else shard st i := by
  have := shard_sweepFrom W now 0 st i
  simpa [sweep] using this

theorem inv_sweep {R : Routes} {st : Shards Entry} (h : Inv R st) (W : Nat → Bool) (now : Nat) :
    Inv R (sweep W now st) := by
  refine ⟨by rw [sweep, length_sweepFrom]; exact h.len, ?_, ?_⟩
  · intro s hs
    obtain ⟨i, _, e⟩ := mem_shard _ s hs
    rw [← e, shard_sweep]
    split
    · exact Redis.wf_purge now (h.wf_shard i)
    · exact h.wf_shard i
  · intro i k hk
    rw [shard_sweep] at hk
    split at hk
    · rw [get_purge_lv (h.wf_shard i)] at hk
      apply h.home i k
      cases hg : get (shard st i) k with
      | none => rw [hg] at hk; cases hk
      | some _ => rfl
    · exact h.home i k hk

theorem get_abs_sweep {R : Routes} {st : Shards Entry} (h : Inv R st) (W : Nat → Bool) (now k : Nat) :
    get (abs (sweep W now st)) k = if W (R.bytes k) then lv now (get (abs st) k) else get (abs st) k := by
  rw [(inv_sweep h W now).get_abs k, shard_sweep, h.get_abs k]
  split
  · exact get_purge_lv (h.wf_shard _) now k
  · rfl

/-! ## one executor on two stores that a reader at `now` cannot tell apart -/

theorem wf_exec {s : Redis.State} (hs : WF s) (now : Nat) (c : Redis.Cmd) : WF (Redis.exec s now c).1 := by
  cases hk : cmdKeys c with
  | some K => exact (exec_localOn now c K hk).wf s hs
  | none =>
    cases c <;> simp only [cmdKeys, reduceCtorEq] at hk
    case keys => exact hs
    case dbsize => exact hs
    case flushdb => exact wf_nil
    case flushall => exact wf_nil
    case randomkey ch => show WF (Redis.execRandomKey s ch).1; rw [Redis.execRandomKey_ro]; exact hs
    case sort k st => cases st <;> simp at hk

theorem exec_agree (now : Nat) (c : Redis.Cmd) (a p : Redis.State) (ha : WF a) (hp : WF p)
    (hK : ∀ K, cmdKeys c = some K → ∀ k ∈ K, get a k = get p k)
    (hG : cmdKeys c = none → a = p)
    (hrel : ∀ t', now ≤ t' → ∀ k, lv t' (get a k) = lv t' (get p k)) :
    (Redis.exec a now c).2 = (Redis.exec p now c).2 ∧
    ∀ t', now ≤ t' → ∀ k, lv t' (get (Redis.exec a now c).1 k) = lv t' (get (Redis.exec p now c).1 k) := by
  cases hk : cmdKeys c with
  | none => rw [hG hk]; exact ⟨rfl, fun _ _ _ => rfl⟩
  | some K =>
    have L := exec_localOn now c K hk
    obtain ⟨e1, e2⟩ := L.loc a p ha hp (hK K hk)
    refine ⟨e1, ?_⟩
    intro t' ht k
    by_cases hm : k ∈ K
    · rw [e2 k hm]
    · rw [L.frame a k ha hm, L.frame p k hp hm]; exact hrel t' ht k

end RedisVerif.Shards.M7
