import RedisVerif.Lemmas.RedisStep
namespace RedisVerif.Redis
open RedisVerif NMap

def LocalOn (K : List Nat) (f : State → State × Reply) : Prop :=
  (∀ s k', WF s → k' ∉ K → get (f s).1 k' = get s k') ∧
  (∀ s s', WF s → WF s' → (∀ k ∈ K, get s k = get s' k) →
    (f s).2 = (f s').2 ∧ ∀ k ∈ K, get (f s).1 k = get (f s').1 k)

macro "fin_tac" hs:ident hs':ident : tactic =>
  `(tactic| (first
      | rfl
      | exact ⟨rfl, rfl⟩
      | (simp_all [get_insert, get_erase $hs, get_erase $hs']; done)
      | (repeat' split
         all_goals (first | rfl | exact ⟨rfl, rfl⟩ | (simp_all [get_insert, get_erase $hs, get_erase $hs']; done)))))

/-- proves `LocalOn [k] (fun s => execX s k …)` for a function that looks at the store only through
    `get s k` and changes it only by `insert k` / `erase k` -/
macro "local1" k:term:max "[" defs:Lean.Parser.Tactic.simpLemma,* "]" : tactic =>
  `(tactic| (
    constructor
    · intro s k' hs hk'
      simp only [List.mem_singleton] at hk'
      cases hg : NMap.get s $k with
      | none => simp only [$defs,*, hg]; fin_tac hs hs
      | some e =>
        obtain ⟨val, dl⟩ := e
        cases val <;> simp only [$defs,*, hg] <;> fin_tac hs hs
    · intro s s' hs hs' h
      have hk := h _ (List.mem_singleton.mpr rfl)
      simp only [List.mem_singleton, forall_eq]
      cases hg : NMap.get s' $k with
      | none => rw [hg] at hk; simp only [$defs,*, hk, hg]; fin_tac hs hs'
      | some e =>
        rw [hg] at hk
        obtain ⟨val, dl⟩ := e
        cases val <;> simp only [$defs,*, hk, hg] <;> fin_tac hs hs'))

theorem local_execGet (k : Nat) : LocalOn [k] (fun s => execGet s k) := by
  local1 k [execGet, lookupStr]
theorem local_execSet (now k : Nat) (v : BS) (c : SetCond) (e : SetExp) (g : Bool) : LocalOn [k] (fun s => execSet s now k v c e g) := by
  local1 k [execSet, setCore, wrongStr, oldStrReply, oldDl, lookupStr]
theorem local_execSetNx (k : Nat) (v : BS) : LocalOn [k] (fun s => execSetNx s k v) := by
  local1 k [execSetNx]
theorem local_execAppend (k : Nat) (v : BS) : LocalOn [k] (fun s => execAppend s k v) := by
  local1 k [execAppend, lookupStr]
theorem local_execGetSet (k : Nat) (v : BS) : LocalOn [k] (fun s => execGetSet s k v) := by
  local1 k [execGetSet, lookupStr]
theorem local_execStrLen (k : Nat) : LocalOn [k] (fun s => execStrLen s k) := by
  local1 k [execStrLen, lookupStr]
theorem local_execGetRange (k : Nat) (a b : Int) : LocalOn [k] (fun s => execGetRange s k a b) := by
  local1 k [execGetRange, lookupStr]
theorem local_execSetRange (k off : Nat) (v : BS) : LocalOn [k] (fun s => execSetRange s k off v) := by
  local1 k [execSetRange, lookupStr]
theorem local_execGetEx (now k : Nat) (o : GetExOpt) : LocalOn [k] (fun s => execGetEx s now k o) := by
  local1 k [execGetEx, lookupStr]
theorem local_execGetDel (k : Nat) : LocalOn [k] (fun s => execGetDel s k) := by
  local1 k [execGetDel, lookupStr]
theorem local_execIncrBy (k : Nat) (d : Int) : LocalOn [k] (fun s => execIncrBy s k d) := by
  local1 k [execIncrBy, lookupStr]
theorem local_execDecrBy (k : Nat) (d : Int) : LocalOn [k] (fun s => execDecrBy s k d) := by
  local1 k [execDecrBy, execIncrBy, lookupStr]
theorem local_execType (k : Nat) : LocalOn [k] (fun s => execType s k) := by
  local1 k [execType]
theorem local_execExpire (now k : Nat) (v : Int) (f : ExpFlags) : LocalOn [k] (fun s => execExpire s now k v f) := by
  local1 k [execExpire, expireAt]
theorem local_execPExpire (now k : Nat) (v : Int) (f : ExpFlags) : LocalOn [k] (fun s => execPExpire s now k v f) := by
  local1 k [execPExpire, expireAt]
theorem local_execExpireAt (now k : Nat) (v : Int) (f : ExpFlags) : LocalOn [k] (fun s => execExpireAt s now k v f) := by
  local1 k [execExpireAt, expireAt]
theorem local_execPExpireAt (now k : Nat) (v : Int) (f : ExpFlags) : LocalOn [k] (fun s => execPExpireAt s now k v f) := by
  local1 k [execPExpireAt, expireAt]
theorem local_execTtl (now k : Nat) : LocalOn [k] (fun s => execTtl s now k) := by
  local1 k [execTtl, ttlReply]
theorem local_execPTtl (now k : Nat) : LocalOn [k] (fun s => execPTtl s now k) := by
  local1 k [execPTtl, ttlReply]
theorem local_execExpireTime (k : Nat) : LocalOn [k] (fun s => execExpireTime s k) := by
  local1 k [execExpireTime, ttlReply]
theorem local_execPExpireTime (k : Nat) : LocalOn [k] (fun s => execPExpireTime s k) := by
  local1 k [execPExpireTime, ttlReply]
theorem local_execPersist (k : Nat) : LocalOn [k] (fun s => execPersist s k) := by
  local1 k [execPersist]
theorem local_execPush (sd : Side) (k : Nat) (vs : List BS) : LocalOn [k] (fun s => execPush sd s k vs) := by
  local1 k [execPush, lookupList, putList]
theorem local_execPop (sd : Side) (k : Nat) : LocalOn [k] (fun s => execPop sd s k) := by
  local1 k [execPop, lookupList, putList]
theorem local_execLLen (k : Nat) : LocalOn [k] (fun s => execLLen s k) := by
  local1 k [execLLen, lookupList]
theorem local_execLIndex (k : Nat) (i : Int) : LocalOn [k] (fun s => execLIndex s k i) := by
  local1 k [execLIndex, lookupList]
theorem local_execLRange (k : Nat) (a b : Int) : LocalOn [k] (fun s => execLRange s k a b) := by
  local1 k [execLRange, lookupList]
theorem local_execLSet (k : Nat) (i : Int) (v : BS) : LocalOn [k] (fun s => execLSet s k i v) := by
  local1 k [execLSet, lookupList, putList]
theorem local_execLTrim (k : Nat) (a b : Int) : LocalOn [k] (fun s => execLTrim s k a b) := by
  local1 k [execLTrim, lookupList, putList]
theorem local_execSAdd (k : Nat) (ms : List Nat) : LocalOn [k] (fun s => execSAdd s k ms) := by
  local1 k [execSAdd, lookupSet, putSet]
theorem local_execSRem (k : Nat) (ms : List Nat) : LocalOn [k] (fun s => execSRem s k ms) := by
  local1 k [execSRem, lookupSet, putSet]
theorem local_execSMembers (k : Nat) : LocalOn [k] (fun s => execSMembers s k) := by
  local1 k [execSMembers, lookupSet]
theorem local_execSIsMember (k m : Nat) : LocalOn [k] (fun s => execSIsMember s k m) := by
  local1 k [execSIsMember, lookupSet]
theorem local_execSCard (k : Nat) : LocalOn [k] (fun s => execSCard s k) := by
  local1 k [execSCard, lookupSet]
theorem local_execSPop1 (k : Nat) (ch : List Nat) : LocalOn [k] (fun s => execSPop1 s k ch) := by
  local1 k [execSPop1, lookupSet, putSet]
theorem local_execSPopN (k n : Nat) (ch : List Nat) : LocalOn [k] (fun s => execSPopN s k n ch) := by
  local1 k [execSPopN, lookupSet, putSet]
theorem local_execHSet (k : Nat) (fvs : List (Nat × BS)) : LocalOn [k] (fun s => execHSet s k fvs) := by
  local1 k [execHSet, lookupHash, putHash]
theorem local_execHGet (k f : Nat) : LocalOn [k] (fun s => execHGet s k f) := by
  local1 k [execHGet, lookupHash]
theorem local_execHDel (k : Nat) (fs : List Nat) : LocalOn [k] (fun s => execHDel s k fs) := by
  local1 k [execHDel, lookupHash, putHash]
theorem local_execHGetAll (k : Nat) : LocalOn [k] (fun s => execHGetAll s k) := by
  local1 k [execHGetAll, lookupHash]
theorem local_execHKeys (k : Nat) : LocalOn [k] (fun s => execHKeys s k) := by
  local1 k [execHKeys, lookupHash]
theorem local_execHVals (k : Nat) : LocalOn [k] (fun s => execHVals s k) := by
  local1 k [execHVals, lookupHash]
theorem local_execHLen (k : Nat) : LocalOn [k] (fun s => execHLen s k) := by
  local1 k [execHLen, lookupHash]
theorem local_execHExists (k f : Nat) : LocalOn [k] (fun s => execHExists s k f) := by
  local1 k [execHExists, lookupHash]
theorem local_execHIncrBy (k f : Nat) (d : Int) : LocalOn [k] (fun s => execHIncrBy s k f d) := by
  local1 k [execHIncrBy, lookupHash, putHash]
theorem local_execZAdd (k : Nat) (f : ZFlags) (ps : List (BS × Score)) : LocalOn [k] (fun s => execZAdd s k f ps) := by
  local1 k [execZAdd, lookupZ, putZ]
theorem local_execZRem (k : Nat) (ms : List BS) : LocalOn [k] (fun s => execZRem s k ms) := by
  local1 k [execZRem, lookupZ, putZ]
theorem local_execZRange (k : Nat) (a b : Int) (ws rev : Bool) : LocalOn [k] (fun s => execZRange s k a b ws rev) := by
  local1 k [execZRange, lookupZ]
theorem local_execZScore (k : Nat) (m : BS) : LocalOn [k] (fun s => execZScore s k m) := by
  local1 k [execZScore, lookupZ]
theorem local_execZRank (k : Nat) (m : BS) : LocalOn [k] (fun s => execZRank s k m) := by
  local1 k [execZRank, lookupZ]
theorem local_execZCard (k : Nat) : LocalOn [k] (fun s => execZCard s k) := by
  local1 k [execZCard, lookupZ]
theorem local_execZCount (k : Nat) (lo hi : Option Bound) : LocalOn [k] (fun s => execZCount s k lo hi) := by
  local1 k [execZCount, lookupZ]
theorem local_execZRangeByScore (k : Nat) (lo hi : Option Bound) (ws : Bool) (lim : Option (Int × Nat)) : LocalOn [k] (fun s => execZRangeByScore s k lo hi ws lim) := by
  local1 k [execZRangeByScore, lookupZ]
theorem local_execSortNoStore (k : Nat) : LocalOn [k] (fun s => execSort s k none) := by
  local1 k [execSort, sortSource]
end RedisVerif.Redis
