import RedisVerif.Model.Script7
import RedisVerif.Props.C03M7
import RedisVerif.Props.C02
namespace RedisVerif
namespace Redis
open NMap

theorem LocalOn.weaken {K K' : List Nat} {f : State → State × Reply} (h : LocalOn K f)
    (hsub : ∀ x ∈ K, x ∈ K') : LocalOn K' f := by
  refine ⟨h.wf, ?_, ?_⟩
  · intro s k' hs hk'
    exact h.frame s k' hs (fun hm => hk' (hsub k' hm))
  · intro s s' hs hs' hag
    obtain ⟨e1, e2⟩ := h.loc s s' hs hs' (fun k hk => hag k (hsub k hk))
    refine ⟨e1, ?_⟩
    intro k hk
    by_cases hm : k ∈ K
    · exact e2 k hm
    · rw [h.frame s k hs hm, h.frame s' k hs' hm]; exact hag k hk

theorem LocalOn.bind {K : List Nat} {f : State → State × Reply} {g : Reply → State → State × Reply}
    (hf : LocalOn K f) (hg : ∀ r, LocalOn K (g r)) : LocalOn K (fun s => g (f s).2 (f s).1) := by
  refine ⟨fun s hs => (hg _).wf _ (hf.wf s hs), ?_, ?_⟩
  · intro s k' hs hk'
    show get (g (f s).2 (f s).1).1 k' = _
    rw [(hg _).frame _ k' (hf.wf s hs) hk', hf.frame s k' hs hk']
  · intro s s' hs hs' hag
    obtain ⟨e1, e2⟩ := hf.loc s s' hs hs' hag
    show (g (f s).2 (f s).1).2 = (g (f s').2 (f s').1).2 ∧ _
    rw [e1]
    exact (hg _).loc _ _ (hf.wf s hs) (hf.wf s' hs') e2

/-- **a script is local on the keys its calls name** -/
theorem prog_localOn (now : Nat) {K : List Nat} {p : Prog} (h : ProgKeys K p) :
    LocalOn K (fun s => runProg s now p) := by
  induction h with
  | ret r => exact ⟨fun s hs => hs, fun _ _ _ _ => rfl, fun s s' _ _ hag => ⟨rfl, hag⟩⟩
  | call c k Kc hc hsub _ ih =>
    have hf : LocalOn K (fun s => exec s now c) := (exec_localOn now c Kc hc).weaken hsub
    exact LocalOn.bind (g := fun r s => runProg s now (k r)) hf ih

end Redis
end RedisVerif

namespace RedisVerif
namespace C02
open Actors Shards NMap Shards.M7 C03
open Redis (Entry cmdKeys Prog runProg ProgKeys LocalOn)

/-- the requests the C02 claim over M7 is about -/
def ReqOk (R : Routes) : Req7 → Prop
  | .cmd _ c => CmdOk R c = true
  | .script _ k p => ∃ K, k ∈ K ∧ ProgKeys K p ∧ ∀ x ∈ K, R.bytes x = R.bytes k

/-- a transformer that is local on `K`, run on two stores that a reader at `now` cannot tell apart and
    that agree on `K` -/
theorem localOn_agree {K : List Nat} {f : Redis.State → Redis.State × Redis.Reply} (L : LocalOn K f) (now : Nat)
    (a p : Redis.State) (ha : WF a) (hp : WF p) (hK : ∀ k ∈ K, get a k = get p k)
    (hrel : ∀ t', now ≤ t' → ∀ k, lv t' (get a k) = lv t' (get p k)) :
    (f a).2 = (f p).2 ∧ ∀ t', now ≤ t' → ∀ k, lv t' (get (f a).1 k) = lv t' (get (f p).1 k) := by
  obtain ⟨e1, e2⟩ := L.loc a p ha hp hK
  refine ⟨e1, ?_⟩
  intro t' ht k
  by_cases hm : k ∈ K
  · rw [e2 k hm]
  · rw [L.frame a k ha hm, L.frame p k hp hm]; exact hrel t' ht k

theorem rel_after_sweep {R : Routes} {st : Shards Entry} {s1 : Redis.State} {t now : Nat}
    (h : Rel7 R st s1 t) (ht : t ≤ now) (W : Nat → Bool) :
    (∀ t', now ≤ t' → ∀ k, lv t' (get (abs (sweep W now st)) k) = lv t' (get (Redis.purge s1 now) k)) ∧
    (∀ k, W (R.bytes k) = true → get (abs (sweep W now st)) k = get (Redis.purge s1 now) k) := by
  have hget : ∀ k, get (abs (sweep W now st)) k =
      if W (R.bytes k) then lv now (get (abs st) k) else get (abs st) k := get_abs_sweep h.inv W now
  constructor
  · intro t' ht' k
    rw [hget k, get_purge_lv h.wf1, lv_lv ht']
    split
    · rw [lv_lv ht']; exact h.view t' (Nat.le_trans ht ht') k
    · exact h.view t' (Nat.le_trans ht ht') k
  · intro k hk
    rw [hget k, if_pos hk, get_purge_lv h.wf1]
    exact h.view now ht k

/-- **a script whose keys live on the shard of `KEYS[1]`** is one atomic local step: the N-shard
    node answers like `runProg` on one store and stays indistinguishable from it -/
theorem script_refines {R : Routes} (hv : R.Valid) {st : Shards Entry} {s1 : Redis.State} {t now : Nat}
    (h : Rel7 R st s1 t) (ht : t ≤ now) (k : Nat) (p : Prog) (K : List Nat)
    (hpk : ProgKeys K p) (hK : ∀ x ∈ K, R.bytes x = R.bytes k) :
    (execScript7 R now st k p).2 = (spec7 s1 (.script now k p)).2 ∧
    Rel7 R (execScript7 R now st k p).1 (spec7 s1 (.script now k p)).1 now := by
  have L := Redis.prog_localOn now hpk
  have hinv0 := inv_sweep h.inv (fun j => j == R.bytes k) now
  have hwp := Redis.wf_purge now h.wf1
  obtain ⟨hrel0, hswept⟩ := rel_after_sweep h ht (fun j => j == R.bytes k)
  obtain ⟨hi, ha, hq⟩ := refine_onShard hinv0 (R.bytes k) (hv k).2 (fun x => runProg x now p) K hK
    (fun x hx => L.wf x hx) (fun x k' hx hk' => L.frame x k' hx hk')
    (fun x y hx hy hxy => L.loc x y hx hy hxy)
  obtain ⟨e1, e2⟩ := localOn_agree L now _ _ hinv0.wf_abs hwp
    (fun x hx => hswept x (by simp [hK x hx])) hrel0
  refine ⟨?_, hi, L.wf _ hwp, ?_⟩
  · show Reply.one (.ext _) = Reply.one (.ext _)
    rw [hq, e1]
  · intro t' ht' x
    show lv t' (get (abs ((sweep (fun j => j == R.bytes k) now st).set (R.bytes k) _)) x) = _
    rw [ha]
    exact e2 t' ht' x


theorem keyList_inject (now : Nat) (c : Redis.Cmd) (K : List Nat) (hK : cmdKeys c = some K) :
    keyList (inject now c) = K ∧ Keyed (inject now c) = true := by
  cases c <;> simp only [cmdKeys, Option.some.injEq, reduceCtorEq] at hK <;> try subst hK
  all_goals first
    | exact ⟨rfl, rfl⟩
    | (rename_i st; cases st <;> simp only [Option.some.injEq] at hK <;> subst hK <;> exact ⟨rfl, rfl⟩)

theorem cmdOk_keys {R : Routes} {c : Redis.Cmd} (h : CmdOk R c = true) :
    Routable7 R c = true ∧ ∃ K, cmdKeys c = some K := by
  unfold CmdOk at h
  simp only [Bool.and_eq_true] at h
  refine ⟨h.1, ?_⟩
  cases c
  all_goals first
    | exact ⟨_, rfl⟩
    | (rename_i st; cases st <;> exact ⟨_, rfl⟩)
    | (exfalso; revert h; simp [cmdKeys, Routable7])

theorem keyed_reply (s : Store sig7.Val) (sc : Cmd sig7) (hk : Keyed sc = true) :
    (∀ l, (exec7.exec s sc).2 ≠ .keys l) ∧ (∀ o, (exec7.exec s sc).2 ≠ .rkey o) := by
  cases sc <;> simp only [Keyed, reduceCtorEq] at hk
  case single k op =>
    show (∀ l, (exec7.exec1 s k op).2 ≠ _) ∧ (∀ o, (exec7.exec1 s k op).2 ≠ _)
    by_cases h : cmdKeys op.2 = some [k]
    · rw [exec1_pos h]; exact ⟨fun _ e => (by cases e), fun _ e => (by cases e)⟩
    · rw [exec1_neg h]; exact ⟨fun _ e => (by cases e), fun _ e => (by cases e)⟩
  case two a b op =>
    show (∀ l, (exec7.exec2 s a b op).2 ≠ _) ∧ (∀ o, (exec7.exec2 s a b op).2 ≠ _)
    by_cases h : cmdKeys op.2 = some [a, b]
    · rw [exec2_pos h]; exact ⟨fun _ e => (by cases e), fun _ e => (by cases e)⟩
    · rw [exec2_neg h]; exact ⟨fun _ e => (by cases e), fun _ e => (by cases e)⟩
  case msetnx kvs =>
    rw [exec_msetnx]
    split <;> exact ⟨fun _ e => (by cases e), fun _ e => (by cases e)⟩
  all_goals exact ⟨fun _ e => (by cases e), fun _ e => (by cases e)⟩

theorem eq_of_replyEqv {x y : Reply} (h : replyEqv x y = true) (h1 : ∀ l, y ≠ .keys l) (h2 : ∀ o, y ≠ .rkey o) :
    x = y := by
  cases y with
  | keys l => exact absurd rfl (h1 l)
  | rkey o => exact absurd rfl (h2 o)
  | one r => cases x <;> simp only [replyEqv, beq_iff_eq, reduceCtorEq] at h <;> exact h
  | many l => cases x <;> simp only [replyEqv, beq_iff_eq, reduceCtorEq] at h <;> exact h
  | scan c l => cases x <;> simp only [replyEqv, beq_iff_eq, reduceCtorEq] at h <;> exact h

/-- **a command that names its keys and travels as one message**: the N-shard node answers EXACTLY
    like one executor on one store and stays indistinguishable from it -/
theorem cmd_refines {R : Routes} (hv : R.Valid) (hN : 0 < R.N) {st : Shards Entry} {s1 : Redis.State}
    {t now : Nat} (h : Rel7 R st s1 t) (ht : t ≤ now) (c : Redis.Cmd) (hok : CmdOk R c = true) :
    (execNT7code R now st c).2 = (spec7 s1 (.cmd now c)).2 ∧
    Rel7 R (execNT7code R now st c).1 (spec7 s1 (.cmd now c)).1 now := by
  obtain ⟨hr, K, hK⟩ := cmdOk_keys hok
  obtain ⟨hkl, hkeyed⟩ := keyList_inject now c K hK
  have hinv0 := inv_sweep h.inv (recv R (inject now c)) now
  have hwa := hinv0.wf_abs
  have hwp := Redis.wf_purge now h.wf1
  obtain ⟨hrel0, hswept⟩ := rel_after_sweep h ht (recv R (inject now c))
  obtain ⟨hi, ha, hq⟩ := shards_refine_single_m7 R hv hN hinv0 (inject now c) (routable_inject R now c hr)
  have hagree : ∀ k ∈ keyList (inject now c), get (abs (sweep (recv R (inject now c)) now st)) k =
      get (Redis.purge s1 now) k := by
    intro k hk
    rw [hkl] at hk
    exact hswept k (recv_covers R now c hr K hK k hk)
  obtain ⟨e1, e2⟩ := exec_local exec7_local (inject now c) hkeyed _ _ hwa hwp hagree
  obtain ⟨n1, n2⟩ := keyed_reply (abs (sweep (recv R (inject now c)) now st)) (inject now c) hkeyed
  refine ⟨?_, hi, exec_wf exec7_local _ _ hwp, ?_⟩
  · show (execN exec7 R true (sweep (recv R (inject now c)) now st) (inject now c)).2 = _
    rw [eq_of_replyEqv hq n1 n2]
    exact e1
  · intro t' ht' k
    show lv t' (get (abs (execN exec7 R true (sweep (recv R (inject now c)) now st) (inject now c)).1) k) =
      lv t' (get (exec7.exec (Redis.purge s1 now) (inject now c)).1 k)
    rw [ha]
    by_cases hm : k ∈ keyList (inject now c)
    · rw [e2 k hm]
    · rw [exec_frame exec7_local _ hkeyed _ hwa k hm, exec_frame exec7_local _ hkeyed _ hwp k hm]
      exact hrel0 t' ht' k

/-- one request of either kind -/
theorem req7_refines {R : Routes} (hv : R.Valid) (hN : 0 < R.N) {st : Shards Entry} {s1 : Redis.State}
    {t : Nat} (h : Rel7 R st s1 t) (req : Req7) (ht : t ≤ req.time) (hok : ReqOk R req) :
    (stepN7 R st req).2 = (spec7 s1 req).2 ∧ Rel7 R (stepN7 R st req).1 (spec7 s1 req).1 req.time := by
  cases req with
  | cmd now c => exact cmd_refines hv hN h ht c hok
  | script now k p =>
    obtain ⟨K, _, hpk, hK⟩ := hok
    exact script_refines hv h ht k p K hpk hK


/-! ## from the N-shard node to ONE store, along a whole log -/

theorem replay_sim7 {R : Routes} (hv : R.Valid) (hN : 0 < R.N) (log : List (Ev Req7 Reply))
    (t : Nat) (tm : NMap Nat)
    (rA rA' : RState (Shards Entry) Req7 Reply) (rB : RState Redis.State Req7 Reply)
    (hrel : Rel7 R rA.s rB.s t) (hp : rA.pend = rB.pend) (hd : rA.done = rB.done) (hn : rA.next = rB.next)
    (hwf : WF rA.pend)
    (hok : ∀ id req, get rA.pend id = some req → ReqOk R req ∧ get tm id = some req.time)
    (hlog : ∀ id req, (.inv id req) ∈ log → ReqOk R req)
    (hmono : LinMono tm t log)
    (h : replay (stepN7 R) rA log = some rA') :
    ∃ rB', replay spec7 rB log = some rB' := by
  induction log generalizing rA rB t tm with
  | nil => exact ⟨rB, rfl⟩
  | cons e es ih =>
    simp only [replay] at h ⊢
    cases he : stepEv (stepN7 R) rA e with
    | none => rw [he] at h; cases h
    | some rA1 =>
      rw [he] at h
      cases e with
      | inv id req =>
        simp only [stepEv] at he ⊢
        by_cases hle : rA.next ≤ id
        · rw [if_pos hle] at he
          rw [if_pos (by rw [← hn]; exact hle)]
          injection he with he
          subst he
          apply ih (t := t) (tm := NMap.insert id req.time tm)
            (rA := { rA with pend := NMap.insert id req rA.pend, next := id + 1 })
            (rB := { rB with pend := NMap.insert id req rB.pend, next := id + 1 })
          · exact hrel
          · show NMap.insert id req rA.pend = NMap.insert id req rB.pend; rw [hp]
          · exact hd
          · rfl
          · exact wf_insert hwf
          · intro id' req' hg
            rw [get_insert] at hg ⊢
            by_cases e1 : id' = id
            · rw [if_pos e1] at hg ⊢
              injection hg with hg; rw [← hg]
              exact ⟨hlog id req (by simp), rfl⟩
            · rw [if_neg e1] at hg ⊢
              exact hok id' req' hg
          · intro id' req' hm; exact hlog id' req' (by simp [hm])
          · exact hmono
          · exact h
        · rw [if_neg hle] at he; cases he
      | lin id resp =>
        simp only [stepEv] at he ⊢
        rw [← hp]
        cases hg : get rA.pend id with
        | none => rw [hg] at he; cases he
        | some req =>
          rw [hg] at he
          simp only at he ⊢
          obtain ⟨hokr, htm⟩ := hok id req hg
          have hm2 : t ≤ req.time ∧ LinMono tm req.time es := by
            have := hmono
            simp only [LinMono, htm] at this
            exact this
          obtain ⟨s2, s1⟩ := req7_refines hv hN hrel req hm2.1 hokr
          by_cases hr : (stepN7 R rA.s req).2 = resp
          · rw [if_pos hr] at he
            rw [if_pos (by rw [← s2]; exact hr)]
            injection he with he
            subst he
            apply ih (t := req.time) (tm := tm)
              (rA := { rA with s := (stepN7 R rA.s req).1, pend := NMap.erase id rA.pend, done := NMap.insert id resp rA.done })
              (rB := { rB with s := (spec7 rB.s req).1, pend := NMap.erase id rA.pend, done := NMap.insert id resp rB.done })
            · exact s1
            · rfl
            · show NMap.insert id resp rA.done = NMap.insert id resp rB.done; rw [hd]
            · exact hn
            · exact wf_erase hwf
            · intro id' req' hg'
              rw [get_erase hwf] at hg'
              by_cases e1 : id' = id
              · rw [if_pos e1] at hg'; cases hg'
              · rw [if_neg e1] at hg'; exact hok id' req' hg'
            · intro id' req' hm; exact hlog id' req' (by simp [hm])
            · exact hm2.2
            · exact h
          · rw [if_neg hr] at he; cases he
      | res id resp =>
        simp only [stepEv] at he ⊢
        rw [← hd]
        by_cases hg : get rA.done id = some resp
        · rw [if_pos hg] at he
          rw [if_pos hg]
          injection he with he
          subst he
          exact ih (t := t) (tm := tm) { rA with done := NMap.erase id rA.done } { rB with done := NMap.erase id rA.done }
            hrel hp rfl hn hwf hok
            (fun id' req' hm => hlog id' req' (by simp [hm])) hmono h
        · rw [if_neg hg] at he; cases he

/-- **C02 over M7, with scripts and with time**: every execution of the actor system whose shard
    actors run the N-shard M7 node (`stepN7`: timed commands of every type AND Lua scripts, one
    message each) — every interleaving, any number of shards, clients, slots, abandoned requests —
    in which operations take effect at non-decreasing virtual times is linearizable w.r.t. ONE store
    on which every command and every WHOLE SCRIPT is one atomic step (`spec7`) -/
theorem linearizable_m7_single_store (R : Routes) (hv : R.Valid) (hN : 0 < R.N) {pool : Nat}
    {s : Sys (Shards Entry) Req7 Reply}
    (hr : Reach (stepN7 R) (route7 R) (Shards.init Entry R.N) pool s)
    (hok : ∀ id req, (.inv id req) ∈ s.log → ReqOk R req)
    (hmono : LinMono [] 0 s.log) :
    ValidLog spec7 Redis.init s.log ∧ Linearizable spec7 Redis.init (history s.log) := by
  obtain ⟨hvl, _⟩ := linearizable (stepN7 R) (route7 R) (Shards.init Entry R.N) hr
  have hv2 : ValidLog spec7 Redis.init s.log := by
    unfold ValidLog at hvl ⊢
    cases hrep : replay (stepN7 R) (initR (Shards.init Entry R.N)) s.log with
    | none => rw [hrep] at hvl; cases hvl
    | some rA =>
      obtain ⟨rB, hb⟩ := replay_sim7 hv hN s.log 0 [] (initR (Shards.init Entry R.N)) rA (initR Redis.init)
        (rel7_init R) rfl rfl rfl wf_nil (by intro id req hg; cases hg) hok hmono hrep
      rw [hb]; rfl
  exact ⟨hv2, s.log, rfl, hv2⟩

end C02
end RedisVerif
