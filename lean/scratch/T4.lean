import RedisVerif.Lemmas.RedisStep
namespace RedisVerif.Redis
open RedisVerif NMap

macro "wf_tac" hs:ident "[" defs:Lean.Parser.Tactic.simpLemma,* "]" : tactic =>
  `(tactic| (
      simp only [$defs,*]
      repeat' split
      all_goals (first
        | exact $hs
        | exact wf_insert $hs
        | exact wf_erase $hs
        | exact wf_insert (wf_erase $hs)
        | exact wf_insert (wf_insert $hs)
        | exact wf_erase (wf_erase $hs)
        | exact wf_erase (wf_insert $hs)
        | exact wf_nil)))

theorem wf_execSet (s : State) (hs : WF s) (now k : Nat) (v : BS) (c : SetCond) (e : SetExp) (g : Bool) :
  WF (execSet s now k v c e g).1 := by
  wf_tac hs [execSet, setCore]
theorem wf_execLMove (s : State) (hs : WF s) (a b : Nat) (f t : Side) : WF (execLMove s a b f t).1 := by
  wf_tac hs [execLMove, putList]
theorem wf_execZAdd (s : State) (hs : WF s) (k : Nat) (f : ZFlags) (ps : List (BS × Score)) : WF (execZAdd s k f ps).1 := by
  wf_tac hs [execZAdd, putZ]
