import RedisVerif.Lemmas.RedisStep
namespace RedisVerif.Redis
open RedisVerif NMap

def LocalOn (K : List Nat) (f : State → State × Reply) : Prop :=
  (∀ s k', WF s → k' ∉ K → get (f s).1 k' = get s k') ∧
  (∀ s s', WF s → WF s' → (∀ k ∈ K, get s k = get s' k) →
    (f s).2 = (f s').2 ∧ ∀ k ∈ K, get (f s).1 k = get (f s').1 k)

macro "fin_tac" hs:ident hs':ident : tactic =>
  `(tactic| (first
      | rfl
      | exact ⟨rfl, rfl⟩
      | (simp_all [get_insert, get_erase $hs, get_erase $hs', get_erase (wf_erase $hs), get_erase (wf_erase $hs'), get_erase (wf_insert $hs), get_erase (wf_insert $hs')]; done)
      | (repeat' split
         all_goals (first | rfl | exact ⟨rfl, rfl⟩ | (simp_all [get_insert, get_erase $hs, get_erase $hs', get_erase (wf_erase $hs), get_erase (wf_erase $hs'), get_erase (wf_insert $hs), get_erase (wf_insert $hs')]; done)))))

/-- proves `LocalOn [k] (fun s => execX s k …)` for a function that looks at the store only through
    `get s k` and changes it only by `insert k` / `erase k` -/
macro "local1" k:term:max "[" defs:Lean.Parser.Tactic.simpLemma,* "]" : tactic =>
  `(tactic| (
    constructor
    · intro s k' hs hk'
      simp only [List.mem_singleton] at hk'
      cases hg : NMap.get s $k with
      | none => simp only [$defs,*, hg]; fin_tac hs hs
      | some e =>
        obtain ⟨val, dl⟩ := e
        cases val <;> simp only [$defs,*, hg] <;> fin_tac hs hs
    · intro s s' hs hs' h
      have hk := h _ (List.mem_singleton.mpr rfl)
      simp only [List.mem_singleton, forall_eq]
      cases hg : NMap.get s' $k with
      | none => rw [hg] at hk; simp only [$defs,*, hk, hg]; fin_tac hs hs'
      | some e =>
        rw [hg] at hk
        obtain ⟨val, dl⟩ := e
        cases val <;> simp only [$defs,*, hk, hg] <;> fin_tac hs hs'))


macro "local2" a:term:max b:term:max "[" defs:Lean.Parser.Tactic.simpLemma,* "]" : tactic =>
  `(tactic| (
    constructor
    · intro s k' hs hk'
      simp only [List.mem_cons, List.not_mem_nil, or_false, not_or] at hk'
      obtain ⟨hka, hkb⟩ := hk'
      cases hga : NMap.get s $a with
      | none =>
        cases hgb : NMap.get s $b with
        | none => simp only [$defs,*, hga, hgb]; fin_tac hs hs
        | some e =>
          obtain ⟨val, dl⟩ := e
          cases val <;> simp only [$defs,*, hga, hgb] <;> fin_tac hs hs
      | some ea =>
        obtain ⟨vala, dla⟩ := ea
        cases hgb : NMap.get s $b with
        | none => cases vala <;> simp only [$defs,*, hga, hgb] <;> fin_tac hs hs
        | some e =>
          obtain ⟨val, dl⟩ := e
          cases vala <;> cases val <;> simp only [$defs,*, hga, hgb] <;> fin_tac hs hs
    · intro s s' hs hs' h
      have hka := h $a (by simp)
      have hkb := h $b (by simp)
      simp only [List.mem_cons, List.not_mem_nil, or_false, forall_eq_or_imp, forall_eq]
      cases hga : NMap.get s' $a with
      | none =>
        rw [hga] at hka
        cases hgb : NMap.get s' $b with
        | none => rw [hgb] at hkb; simp only [$defs,*, hka, hkb, hga, hgb]; fin_tac hs hs'
        | some e =>
          rw [hgb] at hkb
          obtain ⟨val, dl⟩ := e
          cases val <;> simp only [$defs,*, hka, hkb, hga, hgb] <;> fin_tac hs hs'
      | some ea =>
        rw [hga] at hka
        obtain ⟨vala, dla⟩ := ea
        cases hgb : NMap.get s' $b with
        | none => rw [hgb] at hkb; cases vala <;> simp only [$defs,*, hka, hkb, hga, hgb] <;> fin_tac hs hs'
        | some e =>
          rw [hgb] at hkb
          obtain ⟨val, dl⟩ := e
          cases vala <;> cases val <;> simp only [$defs,*, hka, hkb, hga, hgb] <;> fin_tac hs hs'))

theorem local_execRename (a b : Nat) : LocalOn [a, b] (fun s => execRename s a b) := by
  local2 a b [execRename]
theorem local_execRenameNx (a b : Nat) : LocalOn [a, b] (fun s => execRenameNx s a b) := by
  local2 a b [execRenameNx]
theorem local_execLMove (a b : Nat) (f t : Side) : LocalOn [a, b] (fun s => execLMove s a b f t) := by
  local2 a b [execLMove, lookupList, putList]
theorem local_execSortStore (a b : Nat) : LocalOn [a, b] (fun s => execSort s a (some b)) := by
  local2 a b [execSort, sortSource, putList]
end RedisVerif.Redis
