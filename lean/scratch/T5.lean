import RedisVerif.Lemmas.Shards7
namespace RedisVerif.Shards.M7
open NMap
open Redis (Entry LocalOn cmdKeys exec_localOn)

theorem single_ok (s : Store sig7.Val) (now k : Nat) (c : Redis.Cmd) (h : cmdKeys c = some [k]) :
    (exec7.exec s (.single k (now, c))).1 = (Redis.exec s now c).1 ∧
    replyEqv7 (exec7.exec s (.single k (now, c))).2 (Redis.exec s now c).2 = true := by
  show (exec7.exec1 s k (now, c)).1 = _ ∧ replyEqv7 (exec7.exec1 s k (now, c)).2 _ = true
  rw [exec1_pos (op := (now, c)) h]
  exact ⟨rfl, by simp [replyEqv7, toM7]⟩

theorem two_ok (s : Store sig7.Val) (now a b : Nat) (c : Redis.Cmd) (h : cmdKeys c = some [a, b]) :
    (exec7.exec s (.two a b (now, c))).1 = (Redis.exec s now c).1 ∧
    replyEqv7 (exec7.exec s (.two a b (now, c))).2 (Redis.exec s now c).2 = true := by
  show (exec7.exec2 s a b (now, c)).1 = _ ∧ replyEqv7 (exec7.exec2 s a b (now, c)).2 _ = true
  rw [exec2_pos (op := (now, c)) h]
  exact ⟨rfl, by simp [replyEqv7, toM7]⟩


theorem elemOf_mgetSlot (s : Store sig7.Val) (k : Nat) : elemOf (mgetSlot exec7 s k) = Redis.mgetElem s k := by
  unfold mgetSlot Redis.mgetElem Redis.lookupStr
  cases get s k with
  | none => rfl
  | some e =>
    obtain ⟨v, dl⟩ := e
    cases v <;> rfl

theorem foldl_setStr_eq (kvs : List (Nat × Bytes)) (s : Store sig7.Val) :
    kvs.foldl (setStr exec7) s = Redis.msetAll s kvs := by
  induction kvs generalizing s with
  | nil => rfl
  | cons kv kvs ih => obtain ⟨k, v⟩ := kv; exact ih _

theorem erase_of_get_none {ν : Type} {m : NMap ν} (h : WF m) {k : Nat} (hg : get m k = none) :
    erase k m = m := by
  apply NMap.ext (wf_erase h) h
  intro k'
  rw [get_erase h]
  split
  · rename_i e; rw [e, hg]
  · rfl

theorem delKeys_eq (ks : List Nat) (s : Store sig7.Val) (hs : WF s) :
    (Shards.delKeys s ks).1 = (Redis.delKeys s ks).1 ∧ (Shards.delKeys s ks).2 = (Redis.delKeys s ks).2 := by
  induction ks generalizing s with
  | nil => exact ⟨rfl, rfl⟩
  | cons k ks ih =>
    cases hg : get s k with
    | none =>
      have e0 : Redis.delKeys s (k :: ks) = Redis.delKeys s ks := by simp only [Redis.delKeys, hg]
      have e3 : Shards.delKeys s (k :: ks) = ((Shards.delKeys s ks).1, 0 + (Shards.delKeys s ks).2) := by
        simp only [Shards.delKeys, present, hg, erase_of_get_none hs hg]; rfl
      obtain ⟨e1, e2⟩ := ih s hs
      rw [e0, e3]
      exact ⟨e1, by simp [e2]⟩
    | some e =>
      have e0 : Redis.delKeys s (k :: ks) =
          ((Redis.delKeys (erase k s) ks).1, (Redis.delKeys (erase k s) ks).2 + 1) := by
        simp only [Redis.delKeys, hg]
      have e3 : Shards.delKeys s (k :: ks) =
          ((Shards.delKeys (erase k s) ks).1, 1 + (Shards.delKeys (erase k s) ks).2) := by
        simp only [Shards.delKeys, present, hg]; rfl
      obtain ⟨e1, e2⟩ := ih _ (wf_erase (k := k) hs)
      rw [e0, e3]
      exact ⟨e1, by simp only [e2]; omega⟩

/-- the sharding model's view of an M7 command on ONE executor is the M7 command -/
theorem exec7_inject (s : Store sig7.Val) (now : Nat) (c : Redis.Cmd) (hs : WF s) (hr : ∀ ch, c ≠ .randomkey ch) :
    (exec7.exec s (inject now c)).1 = (Redis.exec s now c).1 ∧
    replyEqv7 (exec7.exec s (inject now c)).2 (Redis.exec s now c).2 = true := by
  cases c
  all_goals first
    | exact single_ok s now _ _ rfl
    | exact two_ok s now _ _ _ rfl
    | skip
  case mget ks =>
    refine ⟨rfl, ?_⟩
    show replyEqv7 (.many (ks.map (mgetSlot exec7 s))) (.arr (ks.map (Redis.mgetElem s))) = true
    simp only [replyEqv7, toM7, List.map_map]
    have : ks.map (elemOf ∘ mgetSlot exec7 s) = ks.map (Redis.mgetElem s) :=
      List.map_congr_left (fun k _ => elemOf_mgetSlot s k)
    simp [this]
  case mset kvs =>
    refine ⟨foldl_setStr_eq kvs s, ?_⟩
    show replyEqv7 (.one .ok) Redis.Reply.ok = true
    simp [replyEqv7, toM7]
  case msetnx kvs =>
    show (if kvs.any (fun kv => present s kv.1) then (s, Reply.one (.int 0)) else (kvs.foldl (setStr exec7) s, .one (.int 1))).1
        = (if kvs.any (fun p => (get s p.1).isSome) then (s, Redis.Reply.int 0) else (Redis.msetAll s kvs, .int 1)).1 ∧
      replyEqv7 (if kvs.any (fun kv => present s kv.1) then (s, Reply.one (.int 0)) else (kvs.foldl (setStr exec7) s, .one (.int 1))).2
        (if kvs.any (fun p => (get s p.1).isSome) then (s, Redis.Reply.int 0) else (Redis.msetAll s kvs, .int 1)).2 = true
    cases hb : kvs.any (fun p : Nat × Redis.BS => (get s p.1).isSome)
    · simp [present, hb, replyEqv7, toM7]
      exact foldl_setStr_eq kvs s
    · simp [present, hb, replyEqv7, toM7]
  case del ks =>
    obtain ⟨e1, e2⟩ := delKeys_eq ks s hs
    refine ⟨e1, ?_⟩
    show replyEqv7 (.one (.int (Shards.delKeys s ks).2)) (.int (Redis.delKeys s ks).2) = true
    simp [replyEqv7, toM7, e2]
  case «exists» ks =>
    refine ⟨rfl, ?_⟩
    show replyEqv7 (.one (.int (existsCount s ks))) (.int (ks.filter (fun k => (get s k).isSome)).length) = true
    simp only [replyEqv7, toM7, existsCount]
    have : ks.filter (present s) = ks.filter (fun k => (get s k).isSome) := rfl
    simp [this]
  case keys =>
    refine ⟨rfl, ?_⟩
    show replyEqv7 (.keys ((NMap.keys s).filter (fun _ => true))) (.arr (s.map (fun p => Redis.Elem.key p.1))) = true
    have : (NMap.keys s).filter (fun _ => true) = NMap.keys s := List.filter_eq_self.mpr (fun _ _ => rfl)
    rw [this]
    simp only [replyEqv7, NMap.keys, List.isPerm_iff, List.map_map]
    exact List.Perm.refl _
  case dbsize => exact ⟨rfl, by show replyEqv7 (.one (.int s.length)) (.int s.length) = true; simp [replyEqv7, toM7]⟩
  case flushdb => exact ⟨rfl, by show replyEqv7 (.one .ok) Redis.Reply.ok = true; simp [replyEqv7, toM7]⟩
  case flushall => exact ⟨rfl, by show replyEqv7 (.one .ok) Redis.Reply.ok = true; simp [replyEqv7, toM7]⟩
  case randomkey ch => exact absurd rfl (hr ch)
  case sort k st =>
    cases st with
    | none => exact single_ok s now _ _ rfl
    | some d => exact two_ok s now _ _ _ rfl
end RedisVerif.Shards.M7
