import RedisVerif.Lemmas.RedisStep
namespace RedisVerif.Redis
open RedisVerif NMap

def LocalOn (K : List Nat) (f : State → State × Reply) : Prop :=
  (∀ s k', WF s → k' ∉ K → get (f s).1 k' = get s k') ∧
  (∀ s s', WF s → WF s' → (∀ k ∈ K, get s k = get s' k) →
    (f s).2 = (f s').2 ∧ ∀ k ∈ K, get (f s).1 k = get (f s').1 k)

macro "fin_tac" hs:ident hs':ident : tactic =>
  `(tactic| (first
      | rfl
      | exact ⟨rfl, rfl⟩
      | (simp_all [get_insert, get_erase $hs, get_erase $hs', get_erase (wf_erase $hs), get_erase (wf_erase $hs'), get_erase (wf_insert $hs), get_erase (wf_insert $hs')]; done)
      | (repeat' split
         all_goals (first | rfl | exact ⟨rfl, rfl⟩ | (simp_all [get_insert, get_erase $hs, get_erase $hs', get_erase (wf_erase $hs), get_erase (wf_erase $hs'), get_erase (wf_insert $hs), get_erase (wf_insert $hs')]; done)))))

/-- proves `LocalOn [k] (fun s => execX s k …)` for a function that looks at the store only through
    `get s k` and changes it only by `insert k` / `erase k` -/
macro "local1" k:term:max "[" defs:Lean.Parser.Tactic.simpLemma,* "]" : tactic =>
  `(tactic| (
    constructor
    · intro s k' hs hk'
      simp only [List.mem_singleton] at hk'
      cases hg : NMap.get s $k with
      | none => simp only [$defs,*, hg]; fin_tac hs hs
      | some e =>
        obtain ⟨val, dl⟩ := e
        cases val <;> simp only [$defs,*, hg] <;> fin_tac hs hs
    · intro s s' hs hs' h
      have hk := h _ (List.mem_singleton.mpr rfl)
      simp only [List.mem_singleton, forall_eq]
      cases hg : NMap.get s' $k with
      | none => rw [hg] at hk; simp only [$defs,*, hk, hg]; fin_tac hs hs'
      | some e =>
        rw [hg] at hk
        obtain ⟨val, dl⟩ := e
        cases val <;> simp only [$defs,*, hk, hg] <;> fin_tac hs hs'))

theorem local_execGet (k : Nat) : LocalOn [k] (fun s => execGet s k) := by
  local1 k [execGet, lookupStr]
theorem local_execSet (now k : Nat) (v : BS) (c : SetCond) (e : SetExp) (g : Bool) :
    LocalOn [k] (fun s => execSet s now k v c e g) := by
  local1 k [execSet, setCore, wrongStr, oldStrReply, oldDl, lookupStr]
theorem local_execAppend (k : Nat) (v : BS) : LocalOn [k] (fun s => execAppend s k v) := by
  local1 k [execAppend, lookupStr]
theorem local_execIncrBy (k : Nat) (d : Int) : LocalOn [k] (fun s => execIncrBy s k d) := by
  local1 k [execIncrBy, lookupStr]
theorem local_execPush (sd : Side) (k : Nat) (vs : List BS) : LocalOn [k] (fun s => execPush sd s k vs) := by
  local1 k [execPush, lookupList, putList]
