import RedisVerif.Model.Stream

/-
  M4b — the layer ABOVE the segment writer: everything between `DeltaSinkSender::send` and
  `StreamingPersistence::flush`.

  Anchors (all under /repo/src/streaming):
    persistence.rs   StreamingPersistence::{push (back-pressure), should_flush (size / count /
                     interval thresholds), flush (buffer_size / last_flush bookkeeping)},
                     estimate_delta_size
    integration.rs   PersistenceMessage, PersistenceActor::run (the five match arms),
                     PersistenceActorHandle::{push_delta, push_deltas, flush, tick, shutdown}
                     (all `try_send` on a bounded tokio mpsc: PERSISTENCE_CHANNEL_CAPACITY),
                     run_delta_sink_bridge (drain → push_deltas, periodic tick, final drain),
                     WorkerHandles::shutdown (bridge first, then the actor)
    delta_sink.rs    DeltaSinkSender::send / DeltaSinkReceiver::drain (unbounded std mpsc)
    write_buffer.rs  WriteBuffer::{push, should_flush, flush} — the older stand-alone buffer
                     (same thresholds; `flush` puts a segment under a counter name, no manifest)
    clock.rs         StreamingClock::has_elapsed

  Abstractions (recorded in the trusted base of C12):
    * a delta travels with `delta.key.len()` (the only thing `estimate_delta_size` reads);
    * the clock is read once per handled message (`now`); timers are explicit events
      (`advance`, `bridgeTick`): every real schedule of the three tasks is a sequence of these
      events, because a handler touches neither the mailbox nor the sink and the bridge touches
      neither the buffer nor the store — the handler of a received message is one atomic step
      placed at its `recv`;
    * `usize` overflow of `buffer_size` (`checked_add(..).expect(..)`) is not modelled (Nat);
    * the reply channels of `Flush` / `Shutdown` are not modelled (the caller's view).
-/
namespace RedisVerif
namespace StreamActor

open _root_.RedisVerif.Stream

/-! ## StreamingPersistence: thresholds -/

/-- `WriteBufferConfig` (`compression_enabled` only selects the segment encoding: C14) -/
structure WbCfg where
  /-- `flush_interval` in nanoseconds (a `Duration`; the clock counts milliseconds) -/
  intervalNs : Nat
  maxSize : Nat          -- `max_size_bytes`
  maxDeltas : Nat        -- `max_deltas`
  backpressure : Nat     -- `backpressure_threshold_bytes`
  deriving DecidableEq, Repr, Inhabited

/-- a delta as the sink carries it: the update and `delta.key.len()` -/
abbrev SDelta := Delta × Nat

/-- `estimate_delta_size`: `delta.key.len() + 64 + 8` (the same function in persistence.rs and
    write_buffer.rs) -/
def estimate (klen : Nat) : Nat := klen + 64 + 8

/-- `StreamingPersistence` as far as the thresholds see it -/
structure PX where
  p : Pers            -- replica id + `buffer`
  size : Nat          -- `buffer_size`
  last : Nat          -- `last_flush` (ms)
  deriving DecidableEq, Repr, Inhabited

def PX.init (rid now : Nat) : PX := { p := { rid := rid, buffer := [] }, size := 0, last := now }

/-- `StreamingPersistence::push`: `false` = `Err(BackpressureExceeded)`, nothing changed -/
def pushX (cfg : WbCfg) (x : PX) (d : SDelta) : PX × Bool :=
  if x.size ≥ cfg.backpressure then (x, false)
  else ({ x with p := push x.p d.1, size := x.size + estimate d.2 }, true)

/-- `StreamingClock::has_elapsed`: `Duration::from_millis(now.saturating_sub(since)) >= duration` -/
def hasElapsed (now since intervalNs : Nat) : Bool := decide ((now - since) * 1000000 ≥ intervalNs)

/-- `StreamingPersistence::should_flush` -/
def shouldFlush (cfg : WbCfg) (now : Nat) (x : PX) : Bool :=
  if x.p.buffer.isEmpty then false
  else decide (x.size ≥ cfg.maxSize) || decide (x.p.buffer.length ≥ cfg.maxDeltas) ||
       hasElapsed now x.last cfg.intervalNs

/-- `StreamingPersistence::flush` at clock reading `now`: an empty buffer returns at once
    (`last_flush` untouched); otherwise `buffer_size` is taken with the buffer, `last_flush = now`,
    and on every error path both are put back (`Stream.flushWith current.restoreBuffer`) -/
def flushX (F : Oracle) (sz now : Nat) (w : World) (x : PX) : World × PX × FlushOut :=
  match flushWith current.restoreBuffer F sz w x.p with
  | (w', p', .empty) => (w', { x with p := p' }, .empty)
  | (w', p', .flushed id n) => (w', { p := p', size := 0, last := now }, .flushed id n)
  | (w', p', .error) => (w', { p := p', size := x.size, last := now }, .error)

/-! ## the persistence actor, its mailbox, the bridge and the sink -/

/-- `PersistenceMessage` (reply channels omitted) -/
inductive Msg where
  | pushDelta (d : SDelta)
  | pushDeltas (ds : List SDelta)
  | flush
  | tick
  | shutdown
  deriving DecidableEq, Repr

/-- the updates a queued message carries -/
def deltasOf : Msg → List Delta
  | .pushDelta d => [d.1]
  | .pushDeltas ds => ds.map (·.1)
  | _ => []

def mboxDeltas : List Msg → List Delta
  | [] => []
  | m :: r => deltasOf m ++ mboxDeltas r

/-- result of the `PushDeltas` loop `for delta in deltas { if let Err(_) = push(delta) { break } }` -/
structure LoopOut where
  x : PX
  accepted : List SDelta
  rejected : List SDelta     -- the one whose `push` returned `Err` (logged), at most one
  skipped : List SDelta      -- the rest of the batch after the `break` (never attempted)
  deriving Repr

def pushLoop (cfg : WbCfg) : PX → List SDelta → LoopOut
  | x, [] => { x := x, accepted := [], rejected := [], skipped := [] }
  | x, d :: rest =>
    match pushX cfg x d with
    | (x', true) =>
      let r := pushLoop cfg x' rest
      { r with accepted := d :: r.accepted }
    | (_, false) => { x := x, accepted := [], rejected := [d], skipped := rest }

/-- the three tasks and what connects them, plus a ghost record of where every update went -/
structure A where
  w : World
  x : PX
  now : Nat                 -- the clock
  alive : Bool              -- the actor loop is running (its receiver exists)
  mailbox : List Msg        -- the bounded tokio mpsc (the message being handled is not in it)
  sink : List SDelta        -- the unbounded std mpsc: sent, not yet drained by the bridge
  bridge : Bool             -- the bridge task (and with it the sink's receiver) exists
  -- ghost
  sent : List Delta         -- every update handed to `DeltaSinkSender::send` / `push_delta`
  accepted : List Delta     -- `push` returned `Ok`
  acked : List Delta        -- updates of every flush that returned `Ok`
  rejected : List Delta     -- `push` returned `Err(BackpressureExceeded)`: logged by the actor
  skipped : List Delta      -- rest of a batch after the first rejected one: never attempted
  dropped : List Delta      -- `try_send` on a full / closed mailbox, `send` after the bridge is
                            -- gone, messages still queued when the actor exits: no trace at all
  deriving Repr, Inhabited

def A.init (st : Store) (rid now : Nat) : A :=
  { w := World.init st, x := PX.init rid now, now := now, alive := true, mailbox := [], sink := [],
    bridge := true, sent := [], accepted := [], acked := [], rejected := [], skipped := [], dropped := [] }

/-- `mpsc::Sender::try_send`: fails when the channel is full or closed -/
def trySend (cap : Nat) (a : A) (m : Msg) : A × Bool :=
  if a.alive && decide (a.mailbox.length < cap) then ({ a with mailbox := a.mailbox ++ [m] }, true)
  else (a, false)

/-- `PersistenceActorHandle::push_deltas`: nothing for an empty batch; `let _ = try_send(..)` -/
def sendBatch (cap : Nat) (a : A) (ds : List SDelta) : A :=
  if ds.isEmpty then a else
  match trySend cap a (.pushDeltas ds) with
  | (a', true) => a'
  | (a', false) => { a' with dropped := a'.dropped ++ ds.map (·.1) }

/-- `self.persistence.flush().await` inside a handler (the result is only logged) -/
def doFlush (F : Oracle) (sz : Nat) (a : A) : A :=
  match flushX F sz a.now a.w a.x with
  | (w', x', .flushed _ _) => { a with w := w', x := x', acked := a.acked ++ a.x.p.buffer }
  | (w', x', _) => { a with w := w', x := x' }

/-- `if self.persistence.should_flush() { flush }` -/
def maybeFlush (F : Oracle) (cfg : WbCfg) (sz : Nat) (a : A) : A :=
  if shouldFlush cfg a.now a.x then doFlush F sz a else a

/-- one arm of `PersistenceActor::run`; `sz` = serialised size of the segment a flush of this
    handler writes (if it writes one) -/
def handle (F : Oracle) (cfg : WbCfg) (sz : Nat) (a : A) : Msg → A
  | .pushDelta d =>
    match pushX cfg a.x d with
    | (x', true) => maybeFlush F cfg sz { a with x := x', accepted := a.accepted ++ [d.1] }
    | (_, false) => maybeFlush F cfg sz { a with rejected := a.rejected ++ [d.1] }
  | .pushDeltas ds =>
    let r := pushLoop cfg a.x ds
    maybeFlush F cfg sz
      { a with x := r.x
               accepted := a.accepted ++ r.accepted.map (·.1)
               rejected := a.rejected ++ r.rejected.map (·.1)
               skipped := a.skipped ++ r.skipped.map (·.1) }
  | .flush => doFlush F sz a
  | .tick => maybeFlush F cfg sz a
  | .shutdown =>
    -- final flush, then `break`: the receiver is dropped with whatever is still queued
    let a' := doFlush F sz a
    { a' with alive := false, mailbox := [], dropped := a'.dropped ++ mboxDeltas a'.mailbox }

inductive Ev where
  | send (d : SDelta)          -- `DeltaSinkSender::send` (ReplicatedShardedState::execute)
  | drain                      -- bridge loop: `receiver.drain()` + `push_deltas`
  | bridgeTick                 -- bridge loop: `actor_handle.tick()`
  | stopBridge                 -- shutdown flag seen: final drain + `push_deltas`, the task ends
  | reqPush (d : SDelta)       -- `PersistenceActorHandle::push_delta`
  | reqFlush                   -- `PersistenceActorHandle::flush`
  | reqShutdown                -- `PersistenceActorHandle::shutdown`
  | actor (sz : Nat)           -- the actor receives the next message and handles it
  | advance (ms : Nat)         -- time passes
  deriving DecidableEq, Repr

/-- `cap` = `PERSISTENCE_CHANNEL_CAPACITY` -/
def step (F : Oracle) (cfg : WbCfg) (cap : Nat) (a : A) : Ev → A
  | .send d =>
    if a.bridge then { a with sink := a.sink ++ [d], sent := a.sent ++ [d.1] }
    else { a with sent := a.sent ++ [d.1], dropped := a.dropped ++ [d.1] }   -- `Err(Disconnected)`, ignored
  | .drain => if a.bridge then sendBatch cap { a with sink := [] } a.sink else a
  | .bridgeTick => if a.bridge then (trySend cap a .tick).1 else a
  | .stopBridge =>
    if a.bridge then { sendBatch cap { a with sink := [] } a.sink with bridge := false } else a
  | .reqPush d =>
    match trySend cap { a with sent := a.sent ++ [d.1] } (.pushDelta d) with
    | (a', true) => a'
    | (a', false) => { a' with dropped := a'.dropped ++ [d.1] }
  | .reqFlush => (trySend cap a .flush).1
  | .reqShutdown => (trySend cap a .shutdown).1
  | .actor sz =>
    if a.alive then
      match a.mailbox with
      | [] => a
      | m :: rest => handle F cfg sz { a with mailbox := rest } m
    else a
  | .advance ms => { a with now := a.now + ms }

def run (F : Oracle) (cfg : WbCfg) (cap : Nat) (a : A) (evs : List Ev) : A := evs.foldl (step F cfg cap) a

/-- the tokio channel of `spawn_persistence_actor` -/
def channelCapacity : Nat := 10000

/-- everything still on its way to a segment -/
def inFlight (a : A) : List Delta := a.sink.map (·.1) ++ mboxDeltas a.mailbox ++ a.x.p.buffer

/-- the `Stream.Sys` underneath (what C12's theorems are about) -/
def core (a : A) : Sys := { w := a.w, p := a.x.p, acked := a.acked }

/-! ## WriteBuffer (write_buffer.rs): the older stand-alone buffer -/

/-- `WriteBufferInner` as far as the property sees it -/
structure WB where
  deltas : List Delta
  bytes : Nat
  counter : Nat          -- `segment_counter`
  deriving DecidableEq, Repr, Inhabited

def WB.init : WB := { deltas := [], bytes := 0, counter := 0 }

/-- `WriteBuffer::push` -/
def wbPush (cfg : WbCfg) (b : WB) (d : SDelta) : WB × Bool :=
  if b.bytes ≥ cfg.backpressure then (b, false)
  else ({ b with deltas := b.deltas ++ [d.1], bytes := b.bytes + estimate d.2 }, true)

/-- object name of `{prefix}/segment-{counter:08}.seg` (never listed by a manifest; the names of
    `Stream.segName` are `{prefix}/segments/segment-…`): odd codes above the checkpoint range are
    not needed — the WriteBuffer store is only compared with itself -/
def wbName (counter : Nat) : Nat := 2 * counter + 2

/-- `WriteBuffer::flush`.  `restore = false` is the pinned code: the deltas are taken (and the
    counter advanced) before the `put`, and `?` drops them when it fails; `restore = true` is the tree
    after the `fix:` commit ed7c4a2 (put them back in front, as `StreamingPersistence::flush` does since 97d2980). -/
def wbFlushWith (restore : Bool) (F : Oracle) (w : World) (b : WB) : World × WB × Option Bool :=
  match b.deltas with
  | [] => (w, b, none)                                  -- `Ok(None)`
  | d0 :: rest =>
    let taken : WB := { deltas := [], bytes := 0, counter := b.counter + 1 }
    match w.put F (wbName b.counter) (.segment (d0 :: rest)) with
    | (w', .ok _) => (w', taken, some true)             -- `Ok(Some(key))`
    | (w', .err _) =>
      (w', if restore then { taken with deltas := d0 :: rest, bytes := b.bytes } else taken, some false)

/-- does /repo's `WriteBuffer::flush` put the taken deltas back on error?  `true` since the `fix:`
    commit ed7c4a2 (was C12:write-buffer:failed-flush-drops-buffer); `false` = the pinned variant the
    counterexample is about -/
def wbRestores : Bool := true

def wbFlush (F : Oracle) (w : World) (b : WB) : World × WB × Option Bool := wbFlushWith wbRestores F w b

/-! ## LocalFsObjectStore::put at file level (object_store.rs)

`put` = `ensure_parent` + `tokio::fs::write(path, data)`: the file is opened with create + truncate
under its FINAL name and the bytes are written with `write_all` — no temporary file, no rename, no
fsync.  File-level steps: (1) create-or-truncate: the file exists and is empty; (2..) `write`
calls, each appending the next piece of `data` (`lens` = how many bytes each call took).  A crash
(or an I/O error) after `k` steps leaves: -/

/-- content of the file after `k` file-level steps; `none` = the file was not touched yet -/
def fsAfter (data : List Nat) (lens : List Nat) (k : Nat) : Option (List Nat) :=
  match k with
  | 0 => none
  | k + 1 => some (data.take ((lens.take k).foldl (· + ·) 0))

/-- what a reader sees under the final name: the old content until the first step, then the file
    being written -/
def fsVisible (old : Option (List Nat)) (data lens : List Nat) (k : Nat) : Option (List Nat) :=
  match fsAfter data lens k with
  | none => old
  | some c => some c

end StreamActor
end RedisVerif
