import RedisVerif.Model.GrammarTable

/-
  M7 / GrammarGen — the generic shape (`GenDesc`) of EVERY table entry: the four table-driven body
  forms are instances of it by construction, the hand-written ones carry theirs (with the proof that
  the function is `runGen` over it).  `shapeRows` is the table `./check C16` compares, field by field,
  with the shape descriptors extracted from the match arms of parser.rs / commands.rs /
  parse_lua_command_bytes.  Imports core + RedisVerif modules only (linked into the native driver).
-/
namespace RedisVerif.Grammar

def vecFin (c : Bytes) (ts : List Tok) : TailV → BRes
  | .toks n us => .ok ⟨c, ts ++ .len n :: us⟩
  | _ => .error .unreachable

def Body.gen : Body → GenDesc
  | .const c => { dom := .any, pre := [], tail := .ignore, ctors := [c], fin := fun _ _ => .ok ⟨c, []⟩ }
  | .fixed c slots => { dom := .exact slots.length, pre := slots, tail := .none, ctors := [c], fin := fun ts _ => .ok ⟨c, ts⟩ }
  | .many c pre each => { dom := .atLeast pre.length, pre := pre, tail := .many each, ctors := [c], fin := vecFin c }
  | .pairs c pre a b =>
    { dom := if pre.length % 2 == 0 then .evenAtLeast pre.length else .oddAtLeast pre.length,
      pre := pre, tail := .pairs a b, ctors := [c], fin := vecFin c }
  | .custom cb => cb.desc

/-- one row of the shape table: a command (or `FAMILY.SUB`), its arity rule and text, its shape -/
structure ShapeRow where
  name : Bytes
  arity : Arity
  arityErr : Bytes
  gen : GenDesc

def Spec.row (pre : Bytes) (s : Spec) : ShapeRow := ⟨pre ++ s.name, s.arity, s.arityErr, s.body.gen⟩

/-- the rows of a grammar table; a family contributes one row per sub-command (`CONFIG.GET`) -/
def shapeRows (tbl : List Entry) : List ShapeRow :=
  tbl.flatMap fun e => match e with
    | .cmd s => [s.row []]
    | .family n _ subs _ => subs.map (Spec.row (n ++ [46]))

/-- the families of a table: name and the error text of a missing sub-command -/
def familyRows (tbl : List Entry) : List (Bytes × Bytes) :=
  tbl.filterMap fun e => match e with
    | .cmd _ => none
    | .family n a _ _ => some (n, a)

end RedisVerif.Grammar
