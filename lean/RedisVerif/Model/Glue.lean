import RedisVerif.Model.Cluster
import RedisVerif.Model.Redis

/-
  C06 layer 2 — the command → delta glue of one replicated shard actor, and a cluster of them.

  Anchors: /repo/src/production/replicated_shard_actor.rs
    * `ReplicatedShardMessage::Execute` arm: `executor.execute(cmd)`, then the gate
      `command_applied(cmd, reply)`, then `record_mutation_post_execute(cmd)` which reads
      `executor.get_data()` AFTER the command;
    * `apply_remote_delta_impl`: `ShardReplicaState::apply_remote_delta`, then the MERGED value
      of the key is re-materialised into the executor;
    * `ApplyRecoveredState` arm.
  Modelled as the code is after the `fix:` commits recorded in known_findings.json
  (failed / rejected commands are not replicated; expiry is re-materialised with `SET … PX`;
  `DEL` of a hash tombstones its fields; the recorder replicates the deadline the executor holds
  after the command — SET with any expiry option, INCR/DECR/INCRBY/DECRBY/APPEND/GETSET; a remote
  hash that wins over a local non-hash value replaces it; `ReplicatedShardedState::execute`
  splits a multi-key DEL into one DEL per key).

  The executor is the reference model `Redis.step` (M7).  The replicated actor never advances
  the executor's clock: `CommandExecutor::new()` starts at virtual time 0 and `Execute` /
  `ApplyRemoteDelta` / `ApplyRecoveredState` never call `set_time`; only `EvictExpired` moves it
  (not modelled: it is a message of the expiry sweeper, outside the property's histories).
  Hence every executor step happens at instant `0`.

  Keys and hash fields are the same `Nat` codes on both sides (`Driver.keyCode`).  The recorder's
  `f.to_string()` on hash fields (lossy UTF-8) is the identity on valid UTF-8, which is all the
  correspondence generates (C01:hash-field-not-binary-safe is C01's business).
-/
namespace RedisVerif
namespace Glue

open Redis (Cmd Reply State SetCond SetExp)

/-- one `ReplicatedShardActor`: the command executor and the shard's replication state -/
structure Node where
  exec : State
  rs : Shard
  deriving DecidableEq, Repr

namespace Node

/-- `ReplicatedShardActor::spawn` -/
def init (rid : Nat) (causal : Bool) : Node := { exec := Redis.init, rs := Shard.init rid causal }

end Node

/-- the executor step of the replicated actor: constant virtual time 0 (see the header) -/
def execStep (s : State) (c : Cmd) : State × Reply := Redis.step s 0 c

/-- `command_applied(cmd, reply)`: error replies never; a conditional SET replies `+OK` when
    applied; with GET, NX is applied iff the old value is nil, XX iff there was an old value -/
def applied (c : Cmd) (r : Reply) : Bool :=
  if r.isError then false
  else
    match c with
    | .set _ _ cond _ g =>
      match cond, g with
      | .always, _ => true
      | _, false => (match r with | .simple _ => true | _ => false)
      | .nx, true => (match r with | .nil => true | _ => false)
      | .xx, true => (match r with | .bulk _ => true | _ => false)
    | _ => true

/-- `executor_ttl_ms(key)`: the remaining time to live the executor holds for the key
    (`expirations.get(key)` minus `current_time`, which is 0) -/
def ttlMs (s : State) (k : Nat) : Option Nat := Redis.oldDl s k

/-- `executor.get_data().get(key)` then `as_string()` -/
def strAt (s : State) (k : Nat) : Option Bytes :=
  match NMap.get s k with
  | some e => (match e.val with | .str b => some b | _ => none)
  | none => none

/-- `executor.get_data().get(key)`, `as_hash()`, `hash.get(field)` -/
def hashFieldAt (s : State) (k f : Nat) : Option Bytes :=
  match NMap.get s k with
  | some e => (match e.val with | .hash h => NMap.get h f | _ => none)
  | none => none

/-- the delta handed back to the caller: key and value of a `ReplicationDelta` -/
abbrev Delta := Nat × RV

def writeDelta (rs : Shard) (k : Nat) (v : Bytes) (e : Option Nat) : Shard × Option Delta :=
  ((rs.recordWrite k v e).1, some (k, (rs.recordWrite k v e).2))

/-- `for key in keys { result = record_delete(key) }`: every key is tombstoned in the
    replication state, but only the LAST key's result is returned to the caller -/
def delStep (acc : Shard × Option Delta) (k : Nat) : Shard × Option Delta :=
  ((acc.1.recordDelete k).1, (acc.1.recordDelete k).2.map (fun v => (k, v)))

/-- `record_mutation_post_execute(cmd)`; `post` is the executor's keyspace AFTER the command -/
def record (rs : Shard) (post : State) : Cmd → Shard × Option Delta
  | .set k v cond _ _ =>
    match cond with
    | .nx =>
      match strAt post k with
      | some _ => writeDelta rs k v (ttlMs post k)
      | none => (rs, none)
    | .xx => if (NMap.get post k).isNone then (rs, none) else writeDelta rs k v (ttlMs post k)
    | .always => writeDelta rs k v (ttlMs post k)
  | .del ks => ks.foldl delStep (rs, none)
  | .incr k | .decr k | .incrby k _ | .decrby k _ | .append k _ | .getset k _ =>
    match strAt post k with
    | some b => writeDelta rs k b (ttlMs post k)
    | none => (rs, none)
  | .hset k fvs => ((rs.recordHashWrite k fvs).1, some (k, (rs.recordHashWrite k fvs).2))
  | .hdel k fs => ((rs.recordHashDelete k fs).1, (rs.recordHashDelete k fs).2.map (fun v => (k, v)))
  | .hincrby k f _ =>
    match hashFieldAt post k f with
    | some v => ((rs.recordHashWrite k [(f, v)]).1, some (k, (rs.recordHashWrite k [(f, v)]).2))
    | none => (rs, none)
  | _ => (rs, none)

namespace Node

/-- `ReplicatedShardMessage::Execute`: execute, gate, record -/
def client (n : Node) (c : Cmd) : Node × Reply × Option Delta :=
  if applied c (execStep n.exec c).2 then
    ({ exec := (execStep n.exec c).1, rs := (record n.rs (execStep n.exec c).1 c).1 },
      (execStep n.exec c).2, (record n.rs (execStep n.exec c).1 c).2)
  else ({ exec := (execStep n.exec c).1, rs := n.rs }, (execStep n.exec c).2, none)

end Node

/-- live fields of a replicated hash: `hash.iter().filter_map(|(f, lww)| lww.get().map(..))`
    (map order; the fields are distinct, so the order of the pairs of the HSET is immaterial) -/
def liveFields (h : NMap Lww) : List (Nat × Bytes) :=
  h.filterMap (fun p => p.2.get.map (fun v => (p.1, v)))

/-- `hash.iter().filter(|(_, lww)| lww.tombstone)` -/
def tombFields (h : NMap Lww) : List Nat := (h.filter (fun p => p.2.tomb)).map (·.1)

/-- `Command::set(key, value)` -/
def setCmd (k : Nat) (v : Bytes) : Cmd := .set k v .always .none false

/-- `set_with_px(key, expiry_ms, value)` (`px: Some(expiry_ms as i64)`; a value ≥ 2^63 wraps to a
    negative `i64`, which the executor rejects — as the model rejects a deadline beyond `i64`) -/
def setPxCmd (k : Nat) (v : Bytes) (ms : Nat) : Cmd := .set k v .always (.px ms) false

/-- `executor.get_data().get(key).is_some_and(|v| v.as_hash().is_none())` -/
def nonHashAt (s : State) (k : Nat) : Bool :=
  match NMap.get s k with
  | some e => (match e.val with | .hash _ => false | _ => true)
  | none => false

/-- the hash branch: a value of another type is deleted first; then HSET of the live fields (if
    any), then HDEL of the tombstoned ones (if any) -/
def rematHash (exec : State) (k : Nat) (h : NMap Lww) : State :=
  let e0 := if nonHashAt exec k then (execStep exec (.del [k])).1 else exec
  let e1 := if (liveFields h).isEmpty then e0 else (execStep e0 (.hset k (liveFields h))).1
  if (tombFields h).isEmpty then e1 else (execStep e1 (.hdel k (tombFields h))).1

/-- the string branch shared by `apply_remote_delta_impl` and `ApplyRecoveredState` -/
def rematStr (exec : State) (k : Nat) (v : Bytes) (expiry : Option Nat) : State :=
  match expiry with
  | some ms => (execStep exec (setPxCmd k v ms)).1
  | none => (execStep exec (setCmd k v)).1

/-- the non-hash branches: live string → SET [PX]; tombstone → DEL; anything else (other CRDT
    kinds — for which `get()` is `None` and `is_tombstone()` is `false` — or an empty register)
    → nothing -/
def rematLww (exec : State) (k : Nat) (m : RV) : State :=
  match m.get with
  | some v => rematStr exec k v m.expiry
  | none => if m.isTombstone then (execStep exec (.del [k])).1 else exec

/-- re-materialisation of the MERGED value into the executor (`apply_remote_delta_impl`):
    hash → HSET live fields + HDEL tombstoned fields; otherwise `rematLww` -/
def rematerialise (exec : State) (k : Nat) (m : RV) : State :=
  match m.crdt with
  | .hash h => rematHash exec k h
  | _ => rematLww exec k m

/-- the executor side of `ApplyRecoveredState`: live hash fields by HSET (tombstoned fields are
    NOT deleted), a live string by SET [PX] (`recoverStr`); a tombstone deletes nothing -/
def recoverStr (exec : State) (k : Nat) (v : RV) : State :=
  match v.get with
  | some x => rematStr exec k x v.expiry
  | none => exec

def recoverExec (exec : State) (k : Nat) (v : RV) : State :=
  match v.crdt with
  | .hash h => if (liveFields h).isEmpty then exec else (execStep exec (.hset k (liveFields h))).1
  | _ => recoverStr exec k v

namespace Node

/-- `apply_remote_delta_impl(delta)` -/
def deliver (n : Node) (k : Nat) (d : RV) : Node :=
  match NMap.get (n.rs.applyRemote k d).keys k with
  | none => { exec := n.exec, rs := n.rs.applyRemote k d }
  | some m => { exec := rematerialise n.exec k m, rs := n.rs.applyRemote k d }

/-- `ReplicatedShardMessage::ApplyRecoveredState { key, value }`: plain insert, clock update, and
    the value (NOT a merge) goes into the executor — see `recoverExec` -/
def recovered (n : Node) (k : Nat) (v : RV) : Node :=
  { exec := recoverExec n.exec k v, rs := n.rs.applyRecovered k v }

end Node

/-- events of one node's history -/
inductive NEv where
  | client (c : Cmd)
  | deliver (k : Nat) (d : RV)
  deriving Repr

namespace Node

def step (n : Node) : NEv → Node
  | .client c => (n.client c).1
  | .deliver k d => n.deliver k d

def run (n : Node) (evs : List NEv) : Node := evs.foldl step n

end Node

/-! ## what the replication state says a client should see; the supported fragment -/

/-- "what its replication state says" for one key: a live LWW register is a string carrying the
    replicated expiry as its TTL; a hash is its live fields (absent when there is none; the
    re-materialisation never gives a hash a TTL); a tombstone, an empty register, any other CRDT
    kind and a missing entry are an absent key -/
def materialise : Option RV → Option Redis.VEntry
  | none => none
  | some rv =>
    match rv.crdt with
    | .lww r => r.get.map (fun v => { val := .str v, ttl := rv.expiry })
    | .hash h =>
      (match liveFields h with
       | [] => none
       | p :: l => some { val := .hash (p :: l), ttl := none })
    | _ => none

/-- what the node serves for one key (value and remaining TTL at the executor's instant 0) -/
def served (n : Node) (k : Nat) : Option Redis.VEntry := NMap.get (Redis.view n.exec 0) k

/-- a register that `apply_remote_delta_impl` can re-materialise: tombstone or a value -/
def Lww.proper (r : Lww) : Bool := r.tomb || r.value.isSome

/-- why a step is outside the supported fragment -/
inductive Reason where
  | nonReplicatedWriter   -- a command the recorder ignores changed the served keyspace
  | badDelta              -- delta not canonical; merged value an empty register / another CRDT kind
  | expiryRange           -- merged expiry_ms is 0 or beyond i64 (SET … PX rejects it)
  deriving DecidableEq, Repr

/-- does the recorder know the command? -/
def recorded : Cmd → Bool
  | .set _ _ _ _ _ | .del _ | .getset _ _ | .hset _ _ | .hdel _ _ | .hincrby _ _ _
  | .incr _ | .decr _ | .incrby _ _ | .decrby _ _ | .append _ _ => true
  | _ => false

/-- the reason (if any) why event `e` at node `n` is outside the supported fragment -/
def unsupported (n : Node) : NEv → Option Reason
  | .client c =>
    if recorded c then none
    else if Redis.view (execStep n.exec c).1 0 = Redis.view n.exec 0 then none
    else some .nonReplicatedWriter
  | .deliver k d =>
    if ¬ d.WF then some .badDelta
    else
      match NMap.get (n.rs.applyRemote k d).keys k with
      | none => none
      | some m =>
        match m.crdt with
        | .hash h => if ¬ h.all (fun p => Lww.proper p.2) then some .badDelta else none
        | .lww r =>
          if ¬ Lww.proper r then some .badDelta
          else
            (match r.get, m.expiry with
             | some _, some ms => if 1 ≤ ms ∧ (ms : Int) ≤ Redis.i64Max then none else some .expiryRange
             | _, _ => none)
        | _ => some .badDelta

/-- the supported fragment of one node's histories (decidable: it runs the model) -/
def Supported (n : Node) : List NEv → Prop
  | [] => True
  | e :: es => unsupported n e = none ∧ Supported (n.step e) es

instance : (n : Node) → (evs : List NEv) → Decidable (Supported n evs)
  | _, [] => isTrue trivial
  | n, e :: es =>
    have : Decidable (Supported (n.step e) es) := instDecidableSupported (n.step e) es
    by unfold Supported; infer_instance

/-! ## a cluster of nodes -/

/-- n actors, the history of the deltas handed back by `Execute`, and the absorption log
    (same shape as `Cluster`, whose nodes are the `rs` components) -/
structure GCluster where
  nodes : List Node
  sent : List Msg
  log : List Absorbed
  deriving Repr

inductive GEv where
  | client (i : Nat) (c : Cmd)
  | deliver (j : Nat) (idx : Nat)
  deriving Repr

/-- `ReplicatedShardedState::execute`: a multi-key DEL is executed key by key (one shard command,
    hence one delta, per key); since fix e29f660 ("the replicated front end executes MSET / MGET /
    multi-key EXISTS key by key") an MSET is one `SET` per pair — each pair goes to its own shard
    and ships its own delta (MGET / EXISTS are reads: one executor per node in this model, nothing
    to split); every other command goes to the shard actor as it is -/
def splitCmd : Cmd → List Cmd
  | .del ks => if ks.length > 1 then ks.map (fun k => .del [k]) else [.del ks]
  | .mset kvs => kvs.map (fun p => .set p.1 p.2 .always .none false)
  | c => [c]

/-- the front end BEFORE e29f660: an MSET went whole to the first key's shard actor, which does not
    record it (the object of `C06.mset_unsplit_counterexample`) -/
def splitCmdPre : Cmd → List Cmd
  | .del ks => if ks.length > 1 then ks.map (fun k => .del [k]) else [.del ks]
  | c => [c]

namespace GCluster

def init (n : Nat) (causal : Bool) : GCluster :=
  { nodes := (List.range n).map (fun i => Node.init (i + 1) causal), sent := [], log := [] }

/-- one command handed to the shard actor of node `i` (`ReplicatedShardHandle::execute`): the
    delta it hands back is what `ReplicatedShardedState::execute` queues for gossip -/
def clientOne (g : GCluster) (i : Nat) (c : Cmd) : GCluster :=
  match g.nodes[i]? with
  | none => g
  | some nd =>
    match (nd.client c).2.2 with
    | some d =>
      { nodes := g.nodes.set i (nd.client c).1
        sent := g.sent ++ [⟨i, d.1, d.2⟩]
        log := g.log ++ [⟨i, d.1, d.2⟩] }
    | none => { g with nodes := g.nodes.set i (nd.client c).1 }

def step (g : GCluster) : GEv → GCluster
  | .client i c => (splitCmd c).foldl (fun g c' => g.clientOne i c') g
  | .deliver j idx =>
    match g.nodes[j]?, g.sent[idx]? with
    | some nd, some m =>
      -- no origin check (`ApplyRemoteDelta` is applied whoever issued the delta)
      { g with
        nodes := g.nodes.set j (nd.deliver m.key m.val)
        log := g.log ++ [⟨j, m.key, m.val⟩] }
    | _, _ => g

def run (g : GCluster) (evs : List GEv) : GCluster := evs.foldl step g

/-- the actor of node `i` crashes and is spawned again (`ReplicatedShardActor::spawn` with the same
    replica id): empty executor, empty replication state, Lamport clock 0; what it gets back
    arrives as `deliver` events (its own old deltas included) -/
def restart (g : GCluster) (i : Nat) : GCluster :=
  match g.nodes[i]? with
  | none => g
  | some nd =>
    { g with
      nodes := g.nodes.set i (Node.init nd.rs.rid nd.rs.causal)
      log := g.log.filter (fun a => a.node ≠ i) }

/-- the step of the front end before e29f660 (`splitCmdPre`) -/
def stepPre (g : GCluster) : GEv → GCluster
  | .client i c => (splitCmdPre c).foldl (fun g c' => g.clientOne i c') g
  | e => g.step e

def runPre (g : GCluster) (evs : List GEv) : GCluster := evs.foldl stepPre g

/-- the replication-state layer of the cluster (the object of layer 1) -/
def proj (g : GCluster) : Cluster := { nodes := g.nodes.map (·.rs), sent := g.sent, log := g.log }

end GCluster

/-- cluster level: the node-level reasons (the sub-commands of a split DEL are recorded
    commands, hence always supported) -/
def gunsupported (g : GCluster) : GEv → Option Reason
  | .client i c =>
    match g.nodes[i]? with
    | none => none
    | some nd => unsupported nd (.client c)
  | .deliver j idx =>
    match g.nodes[j]?, g.sent[idx]? with
    | some nd, some m => unsupported nd (.deliver m.key m.val)
    | _, _ => none

def GSupported (g : GCluster) : List GEv → Prop
  | [] => True
  | e :: es => gunsupported g e = none ∧ GSupported (g.step e) es

instance : (g : GCluster) → (evs : List GEv) → Decidable (GSupported g evs)
  | _, [] => isTrue trivial
  | g, e :: es =>
    have : Decidable (GSupported (g.step e) es) := instDecidableGSupported (g.step e) es
    by unfold GSupported; infer_instance

end Glue
end RedisVerif
