/-
  The simulation kernel of /repo:

    * `Heap`        — std `BinaryHeap` (push = sift_up, pop = swap with last + sift_down_to_bottom +
                      sift_up), transcribed because `simulator::Event`'s `Ord` compares the time
                      ONLY: among events scheduled for the same instant the delivery order is
                      decided by the heap algorithm, not by the keys (Props/C20:
                      `event_order_not_determined_by_time_counterexample`);
    * `Sim`         — `simulator::executor::Simulation` (add_host / schedule_timer / send_message /
                      partition / run_until) over `DeterministicRng` and `simulator::network::Network`;
    * `TimerQ`      — the timer heap of `io::simulation::SimulationContext` (`TimerEntry` is ordered
                      by (wake_time, id), ids come from one counter): a sorted list;
    * `clockApply`  — `ClockOffset::apply`;
    * `shouldBuggify*` — the fault decision of `buggify::should_buggify(_with_prob)` as a function of
                      (suppressed, enabled, probability bits, rng).
-/
import RedisVerif.Model.SimRng

namespace RedisVerif.SimKernel
open RedisVerif.SimRng

/-! ## std::collections::BinaryHeap -/

section Heap
variable {α : Type} [Inhabited α]

/-- `sift_up(start = 0, pos)` with the hole element `elt` already taken out of `a[pos]` -/
def siftUp (le : α → α → Bool) (elt : α) : Nat → Array α → Nat → Array α
  | 0, a, pos => a.setIfInBounds pos elt
  | fuel + 1, a, pos =>
    if pos = 0 then a.setIfInBounds pos elt
    else
      let parent := (pos - 1) / 2
      if le elt (a.getD parent default) then a.setIfInBounds pos elt
      else siftUp le elt fuel (a.setIfInBounds pos (a.getD parent default)) parent

/-- `BinaryHeap::push` -/
def heapPush (le : α → α → Bool) (a : Array α) (x : α) : Array α :=
  let a := a.push x
  siftUp le x a.size a (a.size - 1)

/-- the `while child <= end.saturating_sub(2)` loop of `sift_down_to_bottom`; returns the array
    and the final hole position -/
def siftDownLoop (le : α → α → Bool) : Nat → Array α → Nat → Array α × Nat
  | 0, a, pos => (a, pos)
  | fuel + 1, a, pos =>
    let child := 2 * pos + 1
    let endd := a.size
    if child ≤ endd - 2 ∧ endd ≥ 2 then
      let child := if le (a.getD child default) (a.getD (child + 1) default) then child + 1 else child
      siftDownLoop le fuel (a.setIfInBounds pos (a.getD child default)) child
    else if child + 1 = endd then
      (a.setIfInBounds pos (a.getD child default), child)
    else (a, pos)

/-- `BinaryHeap::pop` -/
def heapPop (le : α → α → Bool) (a : Array α) : Option α × Array α :=
  match a.back? with
  | none => (none, a)
  | some item =>
    let a := a.pop
    if a.isEmpty then (some item, a)
    else
      let top := a.getD 0 default
      -- swap(&mut item, &mut data[0]); sift_down_to_bottom(0)
      let (a, pos) := siftDownLoop le a.size (a.setIfInBounds 0 item) 0
      (some top, siftUp le item a.size a pos)

end Heap

/-! ## simulator::executor::Simulation -/

inductive EvKind where
  | hostStart
  | timer (id : Nat)
  | msg (src dst len : Nat)
  deriving Repr, DecidableEq, Inhabited

structure Event where
  time : Nat
  host : Nat
  kind : EvKind
  deriving Repr, DecidableEq, Inhabited

/-- Rust `a <= b` for `impl Ord for Event { cmp = other.time.cmp(&self.time) }` -/
def Event.le (a b : Event) : Bool := b.time ≤ a.time

structure Sim where
  rng : Rng
  now : Nat := 0
  heap : Array Event := #[]
  nextTimer : Nat := 0
  nextHost : Nat := 0
  /-- `Network::drop_rate` after `clamp(0.0, 1.0)`, as bits -/
  dropRate : F64 := F64.ofBits 0
  /-- `partition_map`: only `insert / remove / get` — never iterated -/
  partitions : List (Nat × Nat) := []

def Sim.new (seed : UInt64) : Sim := { rng := Rng.new seed }

def u64 (n : Nat) : Nat := n % 2 ^ 64

def Sim.addHost (s : Sim) : Nat × Sim :=
  let id := s.nextHost
  (id, { s with nextHost := id + 1, heap := heapPush Event.le s.heap ⟨s.now, id, .hostStart⟩ })

def Sim.scheduleTimer (s : Sim) (host delay : Nat) : Nat × Sim :=
  let id := s.nextTimer
  (id, { s with nextTimer := id + 1,
                heap := heapPush Event.le s.heap ⟨u64 (s.now + delay), host, .timer id⟩ })

/-- `set_drop_rate(rate)`: `rate.clamp(0.0, 1.0)` (NaN stays NaN) -/
def clamp01 (p : F64) : F64 :=
  if p.isNaN then p
  else if p.neg then F64.ofBits 0
  else if p.isInf || p.exp ≥ 1023 then F64.ofBits 0x3FF0000000000000
  else p

/-- `Network::should_deliver`: partition check, `gen_bool(drop_rate)`, `gen_range(1, 10)` -/
def Sim.sendMessage (s : Sim) (src dst len : Nat) : Option Nat × Sim :=
  if s.partitions.contains (src, dst) then (none, s)
  else
    let (dropped, rng) := detGenBool s.dropRate s.rng
    if dropped then (none, { s with rng := rng })
    else
      let (lat, rng) := detGenRange 1 10 rng
      (some lat, { s with rng := rng,
                          heap := heapPush Event.le s.heap ⟨u64 (s.now + lat), dst, .msg src dst len⟩ })

def Sim.partition (s : Sim) (a b : Nat) : Sim :=
  let ins (l : List (Nat × Nat)) (p : Nat × Nat) := if l.contains p then l else p :: l
  { s with partitions := ins (ins s.partitions (a, b)) (b, a) }

def Sim.heal (s : Sim) (a b : Nat) : Sim :=
  { s with partitions := s.partitions.filter (fun p => p != (a, b) && p != (b, a)) }

/-- `run_until(max_time, handler)` with a handler that only records the event -/
def Sim.runLoop (maxT : Nat) : Nat → Sim → List Event → Sim × List Event
  | 0, s, acc => (s, acc.reverse)
  | fuel + 1, s, acc =>
    match heapPop Event.le s.heap with
    | (none, _) => (s, acc.reverse)
    | (some ev, h) =>
      if ev.time > maxT then ({ s with heap := heapPush Event.le h ev }, acc.reverse)
      else Sim.runLoop maxT fuel { s with heap := h, now := ev.time } (ev :: acc)

def Sim.runUntil (s : Sim) (maxT : Nat) : Sim × List Event := Sim.runLoop maxT (s.heap.size + 1) s []

/-! ## io::simulation::SimulationContext — timers, time -/

structure TimerQ where
  now : Nat := 0
  nextId : Nat := 0
  /-- (wake_time, id), kept sorted ascending by (wake, id): `TimerEntry::cmp` is the reversed
      lexicographic order, a min-heap -/
  timers : List (Nat × Nat) := []
  deriving Repr, DecidableEq

def keyLt (a b : Nat × Nat) : Bool := a.1 < b.1 || (a.1 == b.1 && a.2 < b.2)

def insertSorted (x : Nat × Nat) : List (Nat × Nat) → List (Nat × Nat)
  | [] => [x]
  | y :: ys => if keyLt x y then x :: y :: ys else y :: insertSorted x ys

def TimerQ.addTimer (q : TimerQ) (wake : Nat) : Nat × TimerQ :=
  (q.nextId, { q with nextId := q.nextId + 1, timers := insertSorted (wake, q.nextId) q.timers })

def TimerQ.advanceTo (q : TimerQ) (t : Nat) : TimerQ := if t > q.now then { q with now := t } else q

/-- `Timestamp + Duration` saturates -/
def TimerQ.advanceBy (q : TimerQ) (d : Nat) : TimerQ := { q with now := min (q.now + d) (2 ^ 64 - 1) }

/-- `process_timers`: pop while `wake_time <= now`; returns the ids woken, in order -/
def TimerQ.process (q : TimerQ) : List Nat × TimerQ :=
  let fired := q.timers.takeWhile (fun e => e.1 ≤ q.now)
  (fired.map (·.2), { q with timers := q.timers.dropWhile (fun e => e.1 ≤ q.now) })

def TimerQ.nextTime (q : TimerQ) : Option Nat := q.timers.head?.map (·.1)

/-- `ClockOffset::apply` (i64 arithmetic; the model is exact as long as no intermediate value
    leaves the i64 range — the generator stays inside, see tools/props/C20.json assumptions) -/
def clockApply (fixed ppm anchor global : Int) : Nat :=
  let elapsed := global - anchor
  let drift := (elapsed * ppm).tdiv 1000000
  (max (global + fixed + drift) 0).toNat

/-! ## buggify decision -/

/-- `a / b` in f64 for naturals exactly representable in f64, `a, b > 0`: the correctly rounded
    quotient as `(q, e)` with value `q * 2^e`, `2^52 ≤ q < 2^53` -/
def divRound (a b : Nat) : Nat × Int :=
  -- choose k with 2^52 ≤ a * 2^k / b < 2^53 (k may be negative)
  let k0 : Int := 53 + (b.log2 : Int) - (a.log2 : Int)
  let scaled (k : Int) : Nat × Nat := if k ≥ 0 then (a * 2 ^ k.toNat, b) else (a, b * 2 ^ (-k).toNat)
  let k : Int := let (n, d) := scaled k0; if n / d ≥ 2 ^ 53 then k0 - 1 else k0
  let (n, d) := scaled k
  let q := n / d
  let rem := n % d
  let q := if 2 * rem > d || (2 * rem == d && q % 2 == 1) then q + 1 else q
  if q == 2 ^ 53 then (2 ^ 52, 1 - k) else (q, -k)

/-- `q * 2^e < |p|` for a finite `p`, exact -/
def ltF64 (q : Nat) (e : Int) (p : F64) : Bool :=
  let f : Int := (p.e2 : Int) - 1075
  if e ≥ f then q * 2 ^ (e - f).toNat < p.mant else q < p.mant * 2 ^ (f - e).toNat

/-- `(r as f64 / 1_000_000.0) < prob` for `r < 10^6` -/
def buggifyTriggered (r : Nat) (prob : F64) : Bool :=
  if prob.isNaN then false
  else if prob.neg then false
  else if prob.isInf then true
  else if r == 0 then !prob.isZero
  else let (q, e) := divRound r 1000000; ltF64 q e prob

/-- `should_buggify(rng, fault_id)` given `prob = ctx.config.get(fault_id)` (the real
    `FaultConfig::get`, bits passed by the caller): nothing is drawn when suppressed or
    `prob <= 0.0`; otherwise exactly one `gen_range(0, 1_000_000)` -/
def shouldBuggify (suppressed : Bool) (prob : F64) (r : Rng) : Draw Bool × Rng :=
  if suppressed then (.ok false, r)
  else if !prob.isNaN && (prob.neg || prob.isZero) then (.ok false, r)
  else
    match simGenRange 0 1000000 r with
    | (.fuel, r) => (.fuel, r)
    | (.ok v, r) => (.ok (buggifyTriggered v prob), r)

/-- `should_buggify_with_prob(rng, fault_id, probability)` -/
def shouldBuggifyWithProb (suppressed enabled : Bool) (prob : F64) (r : Rng) : Draw Bool × Rng :=
  if suppressed || !enabled then (.ok false, r)
  else
    match simGenRange 0 1000000 r with
    | (.fuel, r) => (.fuel, r)
    | (.ok v, r) => (.ok (buggifyTriggered v (clamp01 prob)), r)

end RedisVerif.SimKernel
