/-
  SipHash-1-3 with the all-zero key — Rust's `std::collections::hash_map::DefaultHasher::new()`
  (`SipHasher13::new_with_keys(0, 0)`), the one hash function behind

  * `KeyDigest::new` (key hash, value hash), `MerkleNode::from_digests`, `MerkleNode::combine`
    (/repo/src/replication/anti_entropy.rs) and
  * `HashRing::hash_key`, `HashRing::hash_virtual_node` (/repo/src/replication/hash_ring.rs).

  A `std::hash::Hasher` is a function of the BYTE STREAM written to it (`write_u64(x)` =
  `write(&x.to_ne_bytes())`, `write_usize`, `write_u8`, `write_str(s)` = `write(s.as_bytes());
  write_u8(0xff)`, `write_length_prefix(n)` = `write_usize(n)`), so the model is `sip13 : bytes →
  u64`; what the code feeds is modelled next to each use (`Model/HashBytes.lean`).

  The correspondence harness compares `sip13` with the real `DefaultHasher` on every byte stream
  of every run (C18 / C19 op `SIP`), and every digest / ring position the model computes with it
  against the real one.

  Transcribed from `core::hash::sip` (`Hasher<Sip13Rounds>`: 1 compression round per 8-byte
  little-endian word, 3 finalisation rounds).  Must not import anything outside core.
-/
namespace RedisVerif
namespace Sip

structure St where
  v0 : UInt64
  v1 : UInt64
  v2 : UInt64
  v3 : UInt64

@[inline] def rotl (x : UInt64) (b : UInt64) : UInt64 := (x <<< b) ||| (x >>> (64 - b))

/-- `compress!` — one SipRound -/
@[inline] def round (s : St) : St :=
  let v0 := s.v0 + s.v1
  let v1 := rotl s.v1 13
  let v1 := v1 ^^^ v0
  let v0 := rotl v0 32
  let v2 := s.v2 + s.v3
  let v3 := rotl s.v3 16
  let v3 := v3 ^^^ v2
  let v0 := v0 + v3
  let v3 := rotl v3 21
  let v3 := v3 ^^^ v0
  let v2 := v2 + v1
  let v1 := rotl v1 17
  let v1 := v1 ^^^ v2
  let v2 := rotl v2 32
  ⟨v0, v1, v2, v3⟩

/-- `SipHasher13::new_with_keys(0, 0)` after `reset` -/
def init : St :=
  ⟨0x736f6d6570736575, 0x646f72616e646f6d, 0x6c7967656e657261, 0x7465646279746573⟩

/-- the little-endian value of up to 8 bytes -/
def leWord : List Nat → UInt64
  | [] => 0
  | b :: bs => UInt64.ofNat (b % 256) ||| (leWord bs <<< 8)

/-- absorb one 8-byte word: `v3 ^= m; c_rounds; v0 ^= m` -/
@[inline] def absorb (s : St) (m : UInt64) : St :=
  let s := round { s with v3 := s.v3 ^^^ m }
  { s with v0 := s.v0 ^^^ m }

/-- the message loop; `len` counts the bytes consumed so far.  Structural on the fuel (one unit
    per word; `bytes.length / 8 + 1` suffices) -/
def loop : Nat → St → Nat → List Nat → St × Nat × List Nat
  | 0, s, len, bs => (s, len, bs)
  | fuel + 1, s, len, bs =>
    match bs with
    | b0 :: b1 :: b2 :: b3 :: b4 :: b5 :: b6 :: b7 :: rest =>
      loop fuel (absorb s (leWord [b0, b1, b2, b3, b4, b5, b6, b7])) (len + 8) rest
    | _ => (s, len, bs)

/-- `finish`: the last word is `(length mod 256) << 56 | tail`; `v2 ^= 0xff`; 3 rounds -/
def finish (s : St) (len : Nat) (tail : List Nat) : UInt64 :=
  let b : UInt64 := (UInt64.ofNat ((len + tail.length) % 256) <<< 56) ||| leWord tail
  let s := absorb s b
  let s := { s with v2 := s.v2 ^^^ 0xff }
  let s := round (round (round s))
  s.v0 ^^^ s.v1 ^^^ s.v2 ^^^ s.v3

/-- `DefaultHasher::new(); write(bytes); finish()` -/
def sip13 (bytes : List Nat) : Nat :=
  let (s, len, tail) := loop (bytes.length / 8 + 1) init 0 bytes
  (finish s len tail).toNat

end Sip
end RedisVerif
