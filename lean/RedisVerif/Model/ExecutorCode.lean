import RedisVerif.Model.Redis

/-
  `Model.ExecutorCode` — TRANSCRIPTIONS of the executor functions whose behaviour is a recorded
  conformance finding of C01 (`known_findings.json`): the code as it is, next to the specification
  in `Model.Redis`.  They make the findings identifiable BY CAUSE: for an input of a finding's
  class the harness also asks this model; only where it predicts the implementation's very reply
  and keyspace is the disagreement with the specification attributed to the listed finding —
  anything else is a new violation (`…:outcome-differs-from-model`).
  `Props/C01Data.lean` proves where exactly code and specification differ.

    execute_getrange  src/redis/executor/string_ops.rs   (C01:getrange-negative-inverted)
    execute_getset    src/redis/executor/string_ops.rs   (C01:getset-keeps-deadline)
-/
namespace RedisVerif.ExecutorCode
open RedisVerif.Redis

/-- `execute_getrange`'s index arithmetic (isize): `none` = empty reply -/
def codeRangeNorm (len : Nat) (a b : Int) : Option (Nat × Nat) :=
  if len = 0 then none
  else
    let s := if a < 0 then max ((len : Int) + a) 0 else min a len
    let e := if b < 0 then max ((len : Int) + b) 0 else min b ((len : Int) - 1)
    if s > e ∨ s ≥ len then none
    else some ((max s 0).toNat, ((min e ((len : Int) - 1)) - max s 0 + 1).toNat)

def codeGetRange (s : State) (k : Nat) (a b : Int) : State × Reply :=
  match lookupStr s k with
  | .missing => (s, .bulk [])
  | .wrong => (s, .err .wrongType)
  | .found v _ => (s, .bulk (slice v (codeRangeNorm v.length a b)))

/-- `execute_getset`: the value is replaced, the entry in `expirations` is left alone -/
def codeGetSet (s : State) (k : Nat) (v : BS) : State × Reply :=
  match lookupStr s k with
  | .missing => (NMap.insert k ⟨.str v, none⟩ s, .nil)
  | .wrong => (s, .err .wrongType)
  | .found b dl => (NMap.insert k ⟨.str v, dl⟩ s, .bulk b)

inductive CodeCmd
  | getrange (k : Nat) (a b : Int)
  | getset (k : Nat) (v : BS)

/-- one command of the code's variant at instant `now` (lazy expiry = purge, as in `Redis.step`) -/
def stepCode (s : State) (now : Nat) : CodeCmd → State × Reply
  | .getrange k a b => codeGetRange (purge s now) k a b
  | .getset k v => codeGetSet (purge s now) k v

end RedisVerif.ExecutorCode
