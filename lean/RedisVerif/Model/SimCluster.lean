import RedisVerif.Model.Gossip
import RedisVerif.Model.AntiEntropy
import RedisVerif.Model.ClusterAE

/-
  `MultiNodeSimulation` (C06, session 4): the one place in /repo where deltas are lost
  (`packet_loss_rate`, partitions, the bounded outbox), delayed (`message_delay_range`, a FIFO
  `message_queue` whose head blocks everything behind it), and REPAIRED by anti-entropy
  (`heal_partition` → `run_anti_entropy_sync`, `run_full_anti_entropy`).

  Anchors: /repo/src/simulator/multi_node.rs —
  * `SimulatedNode::{new, execute, drain_deltas, apply_remote_deltas}`: `execute` runs the command
    on the node's executor and records `Set { key, value, ex, .. }` → `record_write(key, value,
    ex * 1000)`, `Del(keys)` → `record_delete` per key; `apply_remote_deltas`: per delta
    `apply_remote_delta`, then the MERGED value is written through to the executor (`SET` when it
    is live, `DEL` when it is a tombstone);
  * `MultiNodeSimulation::{new, new_partitioned, execute, partition, heal_partition,
    run_anti_entropy_sync, run_full_anti_entropy, can_communicate, gossip_round, send_deltas,
    deliver_messages, advance_time_ms}`.

  Not modelled: the operation `history` / linearizability checker (C20), `rng` (every draw of
  `send_deltas` — lost or not, delay — is an oracle pair on the event), the executor beyond plain
  string `SET` / `DEL` / `GET` (`kv`).
-/
namespace RedisVerif
namespace SimC

open Gossip

/-- the commands `SimulatedNode::execute` records -/
inductive SOp where
  | set (k : Nat) (v : Bytes) (ex : Option Nat)
  | del (ks : List Nat)
  deriving DecidableEq, Repr

/-- `ex.map(|s| s as u64 * 1000)` -/
def SOp.lops : SOp → List LOp
  | .set k v ex => [.write k v (ex.map (· * 1000))]
  | .del ks => ks.map .delete

/-- `SimulatedNode` -/
structure SNode where
  /-- `replica_state` (with `pending_deltas`) -/
  ps : PShard
  /-- `executor`: the string keys it serves -/
  kv : NMap Bytes
  deriving Repr

namespace SNode

def init (i : Nat) (causal : Bool) : SNode := { ps := PShard.init (i + 1) causal, kv := [] }

/-- the executor's side of `execute` -/
def kvExec (kv : NMap Bytes) : SOp → NMap Bytes
  | .set k v _ => NMap.insert k v kv
  | .del ks => ks.foldl (fun m k => NMap.erase k m) kv

/-- the `record_*` calls of `execute`, in order; returns the deltas pushed -/
def record (cap me : Nat) (ps : PShard) (ops : List LOp) : PShard × List Msg :=
  ops.foldl (fun acc op =>
    let r := acc.1.localOp cap me op
    (r.1, match r.2 with | some d => acc.2 ++ [⟨me, op.key, d⟩] | none => acc.2)) (ps, [])

/-- one delta of `apply_remote_deltas` -/
def applyOne (nd : SNode) (d : Msg) : SNode :=
  let sh' := nd.ps.sh.applyRemote d.key d.val
  { ps := { nd.ps with sh := sh' }
    kv := match NMap.get sh'.keys d.key with
      | some merged =>
        if !merged.isTombstone then
          (match merged.get with
           | some b => NMap.insert d.key b nd.kv
           | none => nd.kv)
        else NMap.erase d.key nd.kv
      | none => nd.kv }

def applyAll (nd : SNode) (ds : List Msg) : SNode := ds.foldl applyOne nd

end SNode

/-- `InFlightMessage` -/
structure Flight where
  src : Nat
  dst : Nat
  deltas : List Msg
  due : Nat
  deriving DecidableEq, Repr

/-- the anti-entropy configuration of the nodes (`AntiEntropyConfig`, the same on every node) and
    the outbox capacity -/
structure Cfg where
  depth : Nat
  limit : Nat
  pendingCap : Nat
  deriving DecidableEq, Repr

/-- `AntiEntropyConfig::default()`, `MAX_PENDING_DELTAS` -/
def Cfg.default : Cfg := { depth := 8, limit := 1000, pendingCap := maxPending }

structure Sim where
  nodes : List SNode
  now : Nat
  queue : List Flight
  /-- `partitions`, as normalised pairs -/
  parts : List (Nat × Nat)
  /-- `gossip_routers` (index = node; `none` = broadcast) -/
  routers : List (Option Router)
  autoAE : Bool
  /-- `anti_entropy_syncs` -/
  syncs : Nat
  /-- ghost: every delta ever recorded (`Cluster.sent`) -/
  issued : List Msg
  /-- ghost: every absorption (`Cluster.log`) -/
  log : List Absorbed
  /-- ghost: every state transfer built by an anti-entropy exchange -/
  snaps : List Snap
  deriving Repr

inductive SEv where
  /-- `execute(_, i, cmd)` -/
  | exec (i : Nat) (op : SOp)
  /-- `gossip_round()`; one `(lost, delay)` pair per `send_deltas` call that gets past the
      partition check (missing entries: not lost, delay 1) -/
  | gossip (oracle : List (Bool × Nat))
  | advance (ms : Nat)
  | partition (a b : Nat)
  | heal (a b : Nat)
  /-- `run_anti_entropy_sync(a, b)` -/
  | sync (a b : Nat)
  /-- `run_full_anti_entropy()` -/
  | fullSync
  deriving DecidableEq, Repr

namespace Sim

def init (n : Nat) (causal : Bool) (routers : List (Option Router)) (autoAE : Bool) : Sim :=
  { nodes := (List.range n).map (fun i => SNode.init i causal), now := 0, queue := [], parts := [],
    routers := routers, autoAE := autoAE, syncs := 0, issued := [], log := [], snaps := [] }

def norm (a b : Nat) : Nat × Nat := if a < b then (a, b) else (b, a)

/-- `can_communicate` -/
def canComm (parts : List (Nat × Nat)) (a b : Nat) : Bool := !parts.contains (norm a b)

/-- the `(target node, deltas)` list of one sender in `gossip_round`: the routing table in target
    order, or every other node -/
def sendsOf (routers : List (Option Router)) (n src : Nat) (ds : List Msg) : List (Nat × List Msg) :=
  if ds.isEmpty then []
  else
    match routers[src]? with
    | some (some r) =>
      if r.selective then (routeSelective r ds).map (fun p => (p.1 - 1, p.2))
      else ((List.range n).filter (· ≠ src)).map (fun t => (t, ds))
    | _ => ((List.range n).filter (· ≠ src)).map (fun t => (t, ds))

/-- `send_deltas` -/
def sendOne (parts : List (Nat × Nat)) (now : Nat) (acc : List Flight × List (Bool × Nat))
    (src : Nat) (p : Nat × List Msg) : List Flight × List (Bool × Nat) :=
  if !canComm parts src p.1 then acc
  else
    let o := acc.2.headD (false, 1)
    if o.1 then (acc.1, acc.2.tail)
    else (acc.1 ++ [⟨src, p.1, p.2, now + o.2⟩], acc.2.tail)

/-- `deliver_messages`, first half: the ready prefix of the queue -/
def popReady (parts : List (Nat × Nat)) (now : Nat) : List Flight → List Flight × List Flight
  | [] => ([], [])
  | m :: q =>
    if m.due ≤ now ∧ canComm parts m.src m.dst = true then
      let r := popReady parts now q
      (m :: r.1, r.2)
    else ([], m :: q)

/-- apply one delivered flight -/
def deliverFlight (c : Sim) (m : Flight) : Sim :=
  match c.nodes[m.dst]? with
  | none => c
  | some nd =>
    { c with
      nodes := c.nodes.set m.dst (nd.applyAll m.deltas)
      log := c.log ++ m.deltas.map (fun d => ⟨m.dst, d.key, d.val⟩) }

def keyLe (a b : Nat) : Bool := HB.bytesLe (HB.keyStr a) (HB.keyStr b)

/-- the two delta sets of `run_anti_entropy_sync` (`none` = digests equal or no divergent bucket) -/
def syncDeltas (H : AE.Hasher) (cfg : Cfg) (a b : NMap RV) : Option (List (Nat × RV) × List (Nat × RV)) :=
  let depth := AE.effectiveDepth AE.currentDepthBound cfg.depth
  let limit := AE.effectiveLimit AE.currentLimitAtLeastOne cfg.limit
  let da := AE.digest H depth (NMap.keys a) a
  let db := AE.digest H depth (NMap.keys b) b
  if AE.differsFrom da db then
    let div := AE.divergentBuckets da db
    if !div.isEmpty then
      some (AE.getKeysInBuckets (AE.arrangeOf AE.currentSimOrder keyLe) H AE.currentStream depth limit (NMap.keys a) a div,
            AE.getKeysInBuckets (AE.arrangeOf AE.currentSimOrder keyLe) H AE.currentStream depth limit (NMap.keys b) b div)
    else none
  else none

def toMsgs (src : Nat) (ds : List (Nat × RV)) : List Msg := ds.map (fun p => ⟨src, p.1, p.2⟩)

/-- ghost: the transfers of one delta set, built from the pre-state -/
def snapsOf (log : List Absorbed) (src : Nat) (ds : List (Nat × RV)) : List Snap :=
  ds.map (fun p => ⟨src, p.1, p.2, ACluster.carriedOf log src p.1⟩)

/-- ghost: what applying them at `dst` absorbs -/
def absorbedOf (dst : Nat) (sn : List Snap) : List Absorbed :=
  sn.flatMap (fun s => s.carried.map (fun v => ⟨dst, s.key, v⟩))

/-- `run_anti_entropy_sync(a, b)` -/
def syncStep (H : AE.Hasher) (cfg : Cfg) (c : Sim) (a b : Nat) : Sim :=
  match c.nodes[a]?, c.nodes[b]? with
  | some na, some nb =>
    match syncDeltas H cfg na.ps.sh.keys nb.ps.sh.keys with
    | none => c
    | some (da, db) =>
      let sa := snapsOf c.log a da
      let sb := snapsOf c.log b db
      { c with
        nodes := (c.nodes.set b (nb.applyAll (toMsgs a da))).set a (na.applyAll (toMsgs b db))
        syncs := c.syncs + 1
        snaps := c.snaps ++ sa ++ sb
        log := c.log ++ absorbedOf b sa ++ absorbedOf a sb }
  | _, _ => c

/-- the pairs of `run_full_anti_entropy`, in its order:
    `for i in 0..n { for j in (i + 1)..n { … } }` -/
def allPairs (n : Nat) : List (Nat × Nat) :=
  (List.range n).flatMap (fun i => (List.range' (i + 1) (n - (i + 1))).map (fun j => (i, j)))

def step (H : AE.Hasher) (cfg : Cfg) (c : Sim) : SEv → Sim
  | .exec i op =>
    match c.nodes[i]? with
    | none => c
    | some nd =>
      let r := SNode.record cfg.pendingCap i nd.ps op.lops
      { c with
        nodes := c.nodes.set i { ps := r.1, kv := SNode.kvExec nd.kv op }
        issued := c.issued ++ r.2
        log := c.log ++ r.2.map (fun m => ⟨i, m.key, m.val⟩) }
  | .gossip oracle =>
    -- drain every node
    let drained := c.nodes.map (fun nd => nd.ps.pending)
    let nodes1 := c.nodes.map (fun nd => { nd with ps := { nd.ps with pending := [] } })
    -- route and send
    let sends := (List.range c.nodes.length).flatMap (fun src =>
      (sendsOf c.routers c.nodes.length src (drained[src]?.getD [])).map (fun p => (src, p)))
    let q := (sends.foldl (fun acc sp => sendOne c.parts c.now acc sp.1 sp.2) (c.queue, oracle)).1
    -- deliver
    let r := popReady c.parts c.now q
    r.1.foldl deliverFlight { c with nodes := nodes1, queue := r.2 }
  | .advance ms => { c with now := c.now + ms }
  | .partition a b => { c with parts := if c.parts.contains (norm a b) then c.parts else c.parts ++ [norm a b] }
  | .heal a b =>
    let was := c.parts.contains (norm a b)
    let c1 := { c with parts := c.parts.filter (· ≠ norm a b) }
    if was && c.autoAE then syncStep H cfg c1 a b else c1
  | .sync a b => syncStep H cfg c a b
  | .fullSync =>
    (allPairs c.nodes.length).foldl (fun c p => if canComm c.parts p.1 p.2 then syncStep H cfg c p.1 p.2 else c) c

def run (H : AE.Hasher) (cfg : Cfg) (c : Sim) (evs : List SEv) : Sim := evs.foldl (step H cfg) c

/-- the layer-1 view (with transfers) -/
def abs (c : Sim) : ACluster :=
  { base := { nodes := c.nodes.map (fun nd => nd.ps.sh), sent := c.issued, log := c.log }, snaps := c.snaps }

end Sim
/-! ### conditional SET through `SimulatedNode::execute`

  `execute` runs ANY command on the executor and records every `Command::Set { .. }` with
  `record_write`, whatever the executor answered.  For `SET k v NX` / `XX` the executor applies the
  write only when its condition holds. -/

/-- does the executor apply `SET k v NX` (`nx`) / `SET k v XX` (`!nx`)? -/
def condApplies (kv : NMap Bytes) (k : Nat) (nx : Bool) : Bool :=
  if nx then (NMap.get kv k).isNone else (NMap.get kv k).isSome

/-- `true` = the current tree (since the `fix:` commit recorded in known_findings.json): only what the
    executor applied is recorded; `false` = the code before it: a refused SET was recorded (and
    gossiped) all the same -/
def currentGate : Bool := true

inductive XEv where
  | plain (e : SEv)
  | setCond (i k : Nat) (v : Bytes) (nx : Bool)
  deriving DecidableEq, Repr

namespace Sim

def stepX (gate : Bool) (H : AE.Hasher) (cfg : Cfg) (c : Sim) : XEv → Sim
  | .plain e => c.step H cfg e
  | .setCond i k v nx =>
    match c.nodes[i]? with
    | none => c
    | some nd =>
      if condApplies nd.kv k nx then c.step H cfg (.exec i (.set k v none))
      else if gate then c
      else
        -- refused by the executor, recorded all the same
        let r := SNode.record cfg.pendingCap i nd.ps [.write k v none]
        { c with
          nodes := c.nodes.set i { ps := r.1, kv := nd.kv }
          issued := c.issued ++ r.2
          log := c.log ++ r.2.map (fun m => ⟨i, m.key, m.val⟩) }

def runX (gate : Bool) (H : AE.Hasher) (cfg : Cfg) (c : Sim) (evs : List XEv) : Sim := evs.foldl (stepX gate H cfg) c

end Sim

end SimC
end RedisVerif
