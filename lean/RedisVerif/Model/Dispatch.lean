import RedisVerif.Model.Shards

/-
  M7/Dispatch — which entry point of `ShardedActorState` carries a client request.

  Anchors: /repo/src/production/sharded_actor.rs (the `pub fn`s of `ShardedActorState` whose body
  reaches `self.shards`, i.e. a shard mailbox) and /repo/src/production/connection_optimized.rs (the
  call sites `self.state.<fn>(…)` of the connection handler: the read loop's batch collectors,
  `try_fast_get` / `try_fast_set`, the generic `try_execute_command` and the EXEC replay).

  Both tables are DERIVED FROM THE SOURCE at build time (harness/build.rs) and compared with the
  tables below on every run (driver op `ENTRYPOINTS` / `DISPATCH`): an entry point or a call site that
  is not in the model's table is a disagreement (`C03:dispatch:*`).  "Whichever internal path carries a
  command" is then a statement over `EntryPoint.all` (`C03.entry_routes_home`, `C03.entry_refines`).

  Imports only models.
-/
namespace RedisVerif
namespace Shards

/-- the entry points through which a CLIENT REQUEST reaches a shard mailbox -/
inductive EntryPoint
  | execute | fastGet | fastSet | pooledFastGet | pooledFastSet | fastBatchGetPipeline | fastBatchSetPipeline
  deriving DecidableEq, Repr

def EntryPoint.all : List EntryPoint :=
  [.execute, .fastGet, .fastSet, .pooledFastGet, .pooledFastSet, .fastBatchGetPipeline, .fastBatchSetPipeline]

/-- the name of the `pub fn` of `ShardedActorState` -/
def EntryPoint.rustName : EntryPoint → String
  | .execute => "execute"
  | .fastGet => "fast_get"
  | .fastSet => "fast_set"
  | .pooledFastGet => "pooled_fast_get"
  | .pooledFastSet => "pooled_fast_set"
  | .fastBatchGetPipeline => "fast_batch_get_pipeline"
  | .fastBatchSetPipeline => "fast_batch_set_pipeline"

/-- mailbox-reaching `pub fn`s that are not client requests: the TTL manager's tick
    (`Clock.evictAll` / `M7.sweep`) -/
def nonClientEntries : List String := ["evict_expired_all_shards"]

/-- a call of the entry point for key `k` (value `v`, generic single-key operation `op`) as a command
    of the sharding model (a batched call: one item) -/
def EntryPoint.cmd {S : Sig} (e : EntryPoint) (k : Key) (v : Bytes) (op : S.Op) : Cmd S :=
  match e with
  | .execute => .single k op
  | .fastGet | .pooledFastGet => .fastGet k
  | .fastSet | .pooledFastSet => .fastSet k v
  | .fastBatchGetPipeline => .batchGet [k]
  | .fastBatchSetPipeline => .batchSet [(k, v)]

/-- the frame classes the connection handler distinguishes (recognisers: `Model/Conn.lean`, C04) -/
inductive FrameClass
  /-- ≥ `batch_threshold` recognised GET frames at the head of a buffer ≥ `min_pipeline_buffer` -/
  | getBatch
  /-- the same for SET frames -/
  | setBatch
  /-- a frame `try_fast_get` accepts -/
  | getFast
  /-- a frame `try_fast_set` accepts -/
  | setFast
  /-- every other data command (full parser, ACL check, `execute`) -/
  | generic
  /-- a command queued by MULTI, replayed by EXEC one `execute()` at a time -/
  | queuedInExec
  deriving DecidableEq, Repr

def FrameClass.all : List FrameClass := [.getBatch, .setBatch, .getFast, .setFast, .generic, .queuedInExec]

/-- the dispatch table of `connection_optimized.rs` -/
def dispatch : FrameClass → EntryPoint
  | .getBatch => .fastBatchGetPipeline
  | .setBatch => .fastBatchSetPipeline
  | .getFast => .pooledFastGet
  | .setFast => .pooledFastSet
  | .generic => .execute
  | .queuedInExec => .execute

def insertSorted (x : String) : List String → List String
  | [] => [x]
  | y :: ys => if x < y then x :: y :: ys else if x = y then y :: ys else y :: insertSorted x ys

def sortDedup (l : List String) : List String := l.foldr insertSorted []

/-- what the driver prints for `ENTRYPOINTS` / `DISPATCH` -/
def entryPointNames : List String := sortDedup (EntryPoint.all.map EntryPoint.rustName ++ nonClientEntries)
def dispatchTargets : List String := sortDedup (FrameClass.all.map (fun f => (dispatch f).rustName))

end Shards
end RedisVerif
