import RedisVerif.Model.Conn

/-
  M6 (connection, WRITE side) — what `OptimizedConnectionHandler::run`
  (/repo/src/production/connection_optimized.rs:174-321) puts on the wire, byte for byte.

  `Model/Conn.lean` says which frame is executed on which path (`Action`s).  This file adds

    * the reply ENCODING into `write_buffer`: every executed frame's reply through
      `encode_resp_into` (= `encode3`, Model/Resp.lean), the two connection-made errors through
      `encode_error_into` (`-ERR protocol error`, `-ERR buffer overflow`); a frame consumed by a
      collector and dropped encodes nothing;
    * the FLUSH POINTS: one `write_all(&write_buffer)` + `flush()` at the end of every read that
      left the write buffer non-empty, then `write_buffer.clear()`; on the overflow guard
      `let _ = write_all(..)` (result ignored, no flush) and `break`;
    * the PEER: tokio's `write_all` calls `poll_write` until the buffer is empty; every call may
      accept any number `1 ≤ n ≤ remaining` of bytes (a partial write), return `Ok(0)`
      (`write_all` fails with `WriteZero`) or fail; `poll_flush` may fail.  The peer's answers are
      a script `List WEv` consumed call by call (exhausted = accepts everything);
    * what ends the loop: EOF, a read error (`Err(e) => break`), a failed write / flush (`break`
      with the replies still in the write buffer), the overflow guard, a panic.

  The executor is a PARAMETER (`Exec σ`): any state type, any function from (state, frame, path)
  to (state, reply value).  There is no write-buffer limit and no back-pressure in the code other
  than `write_all` not returning: nothing to model there (a peer that never accepts is a script
  that is never consumed — the handler waits, by design of `write_all`).
-/
namespace RedisVerif.ConnW
open RedisVerif.Resp RedisVerif.Conn

/-- one answer of the peer's socket to a `poll_write` (how many bytes it takes) or `poll_flush` call -/
inductive WEv where
  /-- `poll_write` → `Ok(min k remaining)`; `k = 0` is `Ok(0)`: `write_all` returns `WriteZero`.
      `poll_flush` → `Ok(())` -/
  | accept (k : Nat)
  /-- `Err(..)`: the peer is gone -/
  | fail
  deriving Repr, DecidableEq

/-- tokio `write_all(buf)`: `while !buf.is_empty() { n = poll_write(buf)?; if n == 0 { WriteZero } buf = &buf[n..] }`.
    Returns the bytes the peer received, the rest of the script, and whether `write_all` returned `Ok`. -/
def writeAll : List WEv → Bytes → Bytes × List WEv × Bool
  | sc, [] => ([], sc, true)
  | [], b :: bs => (b :: bs, [], true)
  | .fail :: sc, _ :: _ => ([], sc, false)
  | .accept k :: sc, b :: bs =>
    if k = 0 then ([], sc, false)
    else
      let r := writeAll sc ((b :: bs).drop k)
      ((b :: bs).take k ++ r.1, r.2.1, r.2.2)

/-- the executor: state, frame, path ↦ state, reply value (`Command::from_resp_zero_copy` errors are
    replies too: `encode_error_into(e)` = `encode_resp_into(Error(errText e))`, `encodeErr_eq`) -/
abbrev Exec (σ : Type) := σ → Val → Path → σ × Val

/-- `protocol error` / `buffer overflow` -/
def msgProto : Bytes := [112, 114, 111, 116, 111, 99, 111, 108, 32, 101, 114, 114, 111, 114]
def msgOverflow : Bytes := [98, 117, 102, 102, 101, 114, 32, 111, 118, 101, 114, 102, 108, 111, 119]

def anyCrash : List Action → Bool
  | [] => false
  | .crash :: _ => true
  | _ :: rest => anyCrash rest

/-- what the actions of one read append to `write_buffer`, threading the executor -/
def encActs {σ : Type} (ex : Exec σ) : σ → List Action → σ × Bytes
  | s, [] => (s, [])
  | s, .exec f p :: rest =>
    let r := ex s f p
    let t := encActs ex r.1 rest
    (t.1, encode3 r.2 ++ t.2)
  | s, .dropped _ :: rest => encActs ex s rest
  | s, .protoErr :: rest => let t := encActs ex s rest; (t.1, encodeErr msgProto ++ t.2)
  | s, .overflow :: rest => let t := encActs ex s rest; (t.1, encodeErr msgOverflow ++ t.2)
  | s, .crash :: _ => (s, [])

structure WSt (σ : Type) where
  st : St
  ex : σ
  /-- `write_buffer`: encoded, not yet accepted by `write_all` + `flush` -/
  wbuf : Bytes
  /-- what the peer's socket will answer to the next calls -/
  script : List WEv
  /-- bytes the peer has received, in order -/
  out : Bytes
  /-- the read loop was left -/
  ended : Bool
  /-- number of `read()` calls that returned data and were processed -/
  reads : Nat

def WSt.init {σ : Type} (s0 : σ) (script : List WEv) : WSt σ :=
  { st := St.init, ex := s0, wbuf := [], script := script, out := [], ended := false, reads := 0 }

/-- one `read()` of `chunk`, the commands it completes, the flush at the end of the loop body -/
def ioStep {σ : Type} (cfg : Config) (ex : Exec σ) (s : WSt σ) (chunk : Bytes) : WSt σ :=
  if s.ended then s
  else
    let r := onRead cfg s.st chunk
    if anyCrash r.2 then
      -- panic: the task is gone, nothing of this read is written
      { s with st := r.1, ended := true, reads := s.reads + 1 }
    else
      let e := encActs ex s.ex r.2
      let w := s.wbuf ++ e.2
      if r.1.closed then
        -- overflow guard: `let _ = self.stream.write_all(&self.write_buffer).await; break;`
        let d := writeAll s.script w
        { st := r.1, ex := e.1, wbuf := w, script := d.2.1, out := s.out ++ d.1, ended := true, reads := s.reads + 1 }
      else if w = [] then { s with st := r.1, ex := e.1, reads := s.reads + 1 }
      else
        let d := writeAll s.script w
        if d.2.2 = false then
          -- `write_all` failed: `break`, the replies stay in the write buffer
          { st := r.1, ex := e.1, wbuf := w, script := d.2.1, out := s.out ++ d.1, ended := true, reads := s.reads + 1 }
        else
          match d.2.1 with
          | .fail :: sc =>
            { st := r.1, ex := e.1, wbuf := w, script := sc, out := s.out ++ d.1, ended := true, reads := s.reads + 1 }
          | _ :: sc =>
            { st := r.1, ex := e.1, wbuf := [], script := sc, out := s.out ++ d.1, ended := false, reads := s.reads + 1 }
          | [] =>
            { st := r.1, ex := e.1, wbuf := [], script := [], out := s.out ++ d.1, ended := false, reads := s.reads + 1 }

/-- the reads the handler makes of the network segments: every segment in pieces of `readSize` -/
def chunksOf (cfg : Config) (segs : List Bytes) : List Bytes :=
  segs.flatMap (fun s => splitReads cfg.readSize s.length s)

/-- a whole connection: the segments, then EOF — or a read error after `stopAfter` reads
    (`Err(e) => break`, which leaves the loop exactly as EOF does) -/
def runW {σ : Type} (cfg : Config) (ex : Exec σ) (s0 : σ) (script : List WEv) (segs : List Bytes)
    (stopAfter : Option Nat) : WSt σ :=
  let cs := chunksOf cfg segs
  (match stopAfter with
   | none => cs
   | some n => cs.take n).foldl (ioStep cfg ex) (WSt.init s0 script)

/-- the reply bytes of a list of frames executed one after the other on the generic path -/
def replyBytes {σ : Type} (ex : Exec σ) : σ → List Val → Bytes
  | _, [] => []
  | s, f :: rest => let r := ex s f .generic; encode3 r.2 ++ replyBytes ex r.1 rest

/-- the reply values of a list of frames executed one after the other on the generic path -/
def replyVals {σ : Type} (ex : Exec σ) : σ → List Val → List Val
  | _, [] => []
  | s, f :: rest => let r := ex s f .generic; r.2 :: replyVals ex r.1 rest

/-- the peer never refuses: every `poll_write` takes at least one byte, no call fails -/
def NoFail : List WEv → Bool
  | [] => true
  | .accept k :: rest => decide (k ≠ 0) && NoFail rest
  | .fail :: _ => false

/-! ## byte-level reference executor of the correspondence

`Conn.execFrame` with its replies as RESP values; the error TEXTS of the commands the W ops use are
those of the code (`ERR EXEC without MULTI`, …); everything else the generator avoids. -/

def txt (s : String) : Bytes := s.toUTF8.toList.map (·.toNat)

def refExec : Exec ExSt := fun s f _ =>
  let r := execFrame s f
  (r.1, match r.2 with
    | .val v => v
    | .err => .error (txt "ERR")
    | .protoErr => .error (txt "ERR protocol error")
    | .overflow => .error (txt "ERR buffer overflow"))

end RedisVerif.ConnW
