import RedisVerif.Model.Grammar
import RedisVerif.Model.LuaConv

/-
  M7 / LuaNum — the text a Lua FLOAT becomes when it is passed as a redis.call / redis.pcall argument:
  `parse_multivalue_to_bytes` (script_ops.rs) does `LuaValue::Number(n) => n.to_string()`, i.e. Rust's
  `impl Display for f64`: the SHORTEST decimal digit string that rounds (nearest-even) to the same double —
  the closest to the exact value if there are two of that length —, written positionally (never with an
  exponent), `inf` / `-inf` / `NaN`, `0` / `-0`.  (Redis itself formats with `%.17g`: `0.1` → `0.10000000000000001`,
  `1e20` → `1e+20`; the difference is an observation recorded in DESIGN.md, not a C16 finding: there is no client
  path to compare with.)  `LuaConv.luaArgBytes` covers integral floats below 2^53 (`LuaVal.num`); this file covers
  EVERY bit pattern.  Computable, core-only (linked into the native driver: `LF` op).
-/
namespace RedisVerif.LuaNum
open RedisVerif.Grammar RedisVerif.LuaConv

/-- every finite double times 10^1100 is an integer (2^1074 divides 10^1100) -/
def fmtScale : Nat := 1100

/-- `|v| × 10^fmtScale`, exactly, for the finite double with these bits (sign bit ignored) -/
def f64Exact (bits : Nat) : Nat :=
  let E := (bits / 2 ^ 52) % 2048
  let M := bits % 2 ^ 52
  let m := if E == 0 then M else 2 ^ 52 + M
  if E ≥ 1075 then m * 2 ^ (E - 1075) * 10 ^ fmtScale
  else if E == 0 then m * 10 ^ fmtScale / 2 ^ 1074
  else m * 10 ^ fmtScale / 2 ^ (1075 - E)

def natDigits (n : Nat) : Bytes := (Nat.toDigits 10 n).map Char.toNat

/-- the two `p`-digit decimals around the exact value `X` (which has `nd` digits): the one below (`X` with its last
    `nd - p` digits dropped) and the one above; a candidate is kept when it rounds to the double `a`; of two, the
    closer one, the UPPER one on a tie (Rust's Dragon / Grisu digit generation rounds the last digit half-up:
    999999999999999.75 prints as …999.8, 1000000000000000.25 as …000.3).  Result: (digits as a number, number of dropped digits) -/
def tryDigits (a X nd p : Nat) : Option (Nat × Nat) :=
  let k := nd - p
  let lo := X / 10 ^ k
  let rem := X % 10 ^ k
  let okLo := f64OfRat (lo * 10 ^ k) (10 ^ fmtScale) == a
  let okHi := rem != 0 && f64OfRat ((lo + 1) * 10 ^ k) (10 ^ fmtScale) == a
  if okLo && okHi then (if 2 * rem < 10 ^ k then some (lo, k) else some (lo + 1, k))
  else if okLo then some (lo, k)
  else if okHi then some (lo + 1, k)
  else none

/-- the first precision `p, p+1, …` (at most `fuel` steps) that has a candidate -/
def shortestFrom (a X nd : Nat) : Nat → Nat → Option (Nat × Nat)
  | 0, _ => none
  | fuel + 1, p =>
    match tryDigits a X nd p with
    | some r => some r
    | none => shortestFrom a X nd fuel (p + 1)

/-- shortest round-tripping digits of the positive finite double `a`: `(D, k)` with value `D × 10^(k - fmtScale)` -/
def shortest (a : Nat) : Option (Nat × Nat) :=
  let X := f64Exact a
  shortestFrom a X (natDigits X).length 17 1

/-- drop trailing zeros of `D` (at most `fuel`), counting them into the exponent -/
def stripZeros : Nat → Nat → Int → Nat × Int
  | 0, d, e => (d, e)
  | fuel + 1, d, e => if d != 0 && d % 10 == 0 then stripZeros fuel (d / 10) (e + 1) else (d, e)

/-- `D × 10^e` written positionally, as `Display for f64` does (no exponent notation, no trailing `.0`) -/
def renderDec (d : Nat) (e : Int) : Bytes :=
  let ds := natDigits d
  if e ≥ 0 then ds ++ List.replicate e.toNat 48
  else
    let pos : Int := (ds.length : Int) + e
    if pos > 0 then ds.take pos.toNat ++ 46 :: ds.drop pos.toNat
    else 48 :: 46 :: (List.replicate (-pos).toNat 48 ++ ds)

/-- `f64::to_string` of the double with this bit pattern -/
def fmtF64 (bits : Nat) : Bytes :=
  let neg := (bits / 2 ^ 63) % 2 == 1
  let a := bits % 2 ^ 63
  if f64IsNan bits then s2b "NaN"
  else if f64IsInf bits then (if neg then s2b "-inf" else s2b "inf")
  else if a == 0 then (if neg then s2b "-0" else s2b "0")
  else
    match shortest a with
    | none => s2b "?"
    | some (d, k) =>
      let (d', e') := stripZeros 20 d ((k : Int) - (fmtScale : Int))
      (if neg then [45] else []) ++ renderDec d' e'

/-- the bytes a Lua float becomes as a redis.call argument -/
def luaFloatArgBytes (bits : Nat) : Bytes := fmtF64 bits

end RedisVerif.LuaNum
