import RedisVerif.Model.GrammarGen

/-
  M7 / GrammarElem — command arrays whose elements are not all bulk strings.  A client may send
  `:5` (an integer), `$-1` (a nil bulk), `+OK`, an error or a nested array as an element of a command
  array; both RESP parsers read every element through their extract helpers, which tell three classes
  apart: a bulk string, an integer (accepted by `extract_integer / extract_i64 / extract_u64` only),
  anything else.  `parseE` is the grammar on such frames: the same tables, the same shape descriptors
  (`GenDesc`), the element-level extraction.  `Props/C16Elem.lean`: on all-bulk frames it IS `parseCmd`.
  Imports core + RedisVerif modules only (linked into the native driver).
-/
namespace RedisVerif.Grammar

/-- an element of a command array, as the extract helpers tell them apart -/
inductive Elem where
  | bulk (b : Bytes)
  | int (i : Int)          -- `:<i>`
  | other                  -- nil bulk, simple string, error, nested array
  deriving DecidableEq, Repr

def Elem.isBulk : Elem → Bool
  | .bulk _ => true
  | _ => false

def Elem.bytes : Elem → Bytes
  | .bulk b => b
  | _ => []

/-- one slot on an element: `extract_integer / extract_i64` take an integer element as it is,
    `extract_u64` casts it (`*n as u64`), every other helper wants a bulk string; `.map_err(..)` on the
    helper replaces the helper's own text, a `?` before a later `.parse()` does not -/
def Arg.extractE (a : Arg) : Elem → Except BErr Tok
  | .bulk b => a.extract b
  | .int i =>
    match a.kind with
    | .int => .ok (.i i)
    | .pos => if i < 1 then .error (.lit .syntax) else .ok (.i i)
    | .u64 => .ok (.n (asUsize i))
    | .flt => .error (.lit (a.onErr.getD .notFloat))
    | _ => .error (.lit .expectedBulk)
  | .other =>
    match a.kind with
    | .int => .error (.lit (a.onErr.getD .notInt))
    | .pos => .error (.lit (a.onErr.getD .notInt))
    | .u64 => .error (.lit (a.onErr.getD .expectedUnsigned))
    | .flt => .error (.lit (a.onErr.getD .notFloat))
    | _ => .error (.lit .expectedBulk)

def takeSlotsE : List Arg → List Elem → Except BErr (List Tok × List Elem)
  | [], vs => .ok ([], vs)
  | _ :: _, [] => .error .unreachable
  | a :: as, v :: vs => do
    let t ← a.extractE v
    let r ← takeSlotsE as vs
    pure (t :: r.1, r.2)

def takeOptE : List Arg → List Elem → Except BErr (List Tok × List Elem)
  | a :: as, v :: vs => do
    let t ← a.extractE v
    let r ← takeOptE as vs
    pure (t :: r.1, r.2)
  | _, vs => .ok ([], vs)

def extractAllE (a : Arg) : List Elem → Except BErr (List Tok)
  | [] => .ok []
  | v :: vs => do
    let t ← a.extractE v
    let ts ← extractAllE a vs
    pure (t :: ts)

def extractPairsE (a b : Arg) : List Elem → Except BErr (List Tok)
  | [] => .ok []
  | x :: y :: vs => do
    let t ← a.extractE x
    let u ← b.extractE y
    let ts ← extractPairsE a b vs
    pure (t :: u :: ts)
  | [_] => .error .unreachable

/-- the option scan on elements: a word in keyword position is read with `extract_string` -/
def scanOptsE (tbl : List OptSpec) (unk : Bytes → Option BErr) : List Elem → Except BErr Seen
  | [] => .ok []
  | .int _ :: _ => .error (.lit .expectedBulk)
  | .other :: _ => .error (.lit .expectedBulk)
  | .bulk a :: rest =>
    match findOpt tbl (kw a) 0 with
    | none =>
      match unk (kw a) with
      | some e => .error e
      | none => scanOptsE tbl unk rest
    | some (idx, o) =>
      match o.reject with
      | some f => .error (.fmt f (kw a))
      | none =>
        match o.vals with
        | [] => do
          let s ← scanOptsE tbl unk rest
          pure ((idx, []) :: s)
        | [k1] =>
          match rest with
          | v1 :: rest' => do
            let t1 ← k1.extractE v1
            let s ← scanOptsE tbl unk rest'
            pure ((idx, [t1]) :: s)
          | [] => o.missing.result
        | [k1, k2] =>
          match rest with
          | v1 :: v2 :: rest' => do
            let t1 ← k1.extractE v1
            let t2 ← k2.extractE v2
            let s ← scanOptsE tbl unk rest'
            pure ((idx, [t1, t2]) :: s)
          | _ => o.missing.result
        | _ => .error .unreachable

/-- leading flags on elements: every examined element (the first non-flag one included) is read with
    `extract_string` -/
def takeFlagsE (flags : List Bytes) : List Elem → Except BErr (List Bytes × List Elem)
  | [] => .ok ([], [])
  | .int _ :: _ => .error (.lit .expectedBulk)
  | .other :: _ => .error (.lit .expectedBulk)
  | .bulk a :: rest =>
    if flags.contains (kw a) then do
      let r ← takeFlagsE flags rest
      pure (kw a :: r.1, r.2)
    else .ok ([], .bulk a :: rest)

/-- the tails other than `raw` -/
def Tail.runE : Tail → List Elem → Except BErr TailV
  | .none, rest => if rest.isEmpty then .ok .none else .error .unreachable
  | .ignore, _ => .ok .none
  | .many a, rest => do
    let us ← extractAllE a rest
    pure (.toks rest.length us)
  | .pairs a b, rest => do
    let us ← extractPairsE a b rest
    pure (.toks (rest.length / 2) us)
  | .scan tbl unk, rest => do
    let s ← scanOptsE tbl unk.fn rest
    pure (.seen s)
  | .flagsPairs flags odd a b, rest => do
    let fr ← takeFlagsE flags rest
    if fr.2.length % 2 != 0 || fr.2.length == 0 then .error (.lit odd)
    else do
      let us ← extractPairsE a b fr.2
      pure (.flags fr.1 (fr.2.length / 2) us)
  | .raw, rest => .ok (.raw (rest.map Elem.bytes))

def Tail.isRaw : Tail → Bool
  | .raw => true
  | _ => false

/-- the generic body on elements.  A `raw` tail (EVAL / EVALSHA) is validated by the finishing function
    first (sign and size of numkeys), then every element of it must be a bulk string. -/
def runGenE (d : GenDesc) (args : List Elem) : BRes :=
  match d.dom.ok args.length with
  | false => .error .unreachable
  | true => do
    let p ← takeSlotsE d.pre args
    let o ← takeOptE d.opt p.2
    let tv ← d.tail.runE o.2
    let c ← d.fin (p.1 ++ o.1) tv
    if d.tail.isRaw && !(o.2.all Elem.isBulk) then .error (.lit .expectedBulk) else pure c

def Spec.runE (s : Spec) (args : List Elem) : Res :=
  if s.arity.ok args.length then
    match runGenE s.body.gen args with
    | .ok c => .ok c
    | .error e => .error (.body e)
  else .error (.arity s.arityErr)

/-- the fallback of the DEBUG family reads its first argument (`extract_string(&elements[2])?`) -/
def dfltReadsFirst (fam : Bytes) : Bool := fam == s2b "DEBUG"

/-- the dispatcher on element frames -/
def parseWithE (tbl : List Entry) : List Elem → Res
  | [] => .error (.body (.lit .invalidFormat))
  | .int _ :: _ => .error (.body (.lit .invalidFormat))
  | .other :: _ => .error (.body (.lit .invalidFormat))
  | .bulk name :: args =>
    match findEntry tbl (kw name) with
    | none => .ok ⟨s2b "Unknown", [.s (kw name)]⟩
    | some (.cmd s) => s.runE args
    | some (.family fam aerr subs dflt) =>
      match args with
      | [] => .error (.arity aerr)
      | .int _ :: _ => .error (.body (.lit .expectedBulk))
      | .other :: _ => .error (.body (.lit .expectedBulk))
      | .bulk sub :: rest =>
        match findSpec subs (kw sub) with
        | some s => s.runE rest
        | none =>
          match rest with
          | e :: _ =>
            if dfltReadsFirst fam && !e.isBulk then .error (.body (.lit .expectedBulk))
            else dflt (kw sub) (rest.map Elem.bytes)
          | [] => dflt (kw sub) []

/-- `Command::from_resp` / `from_resp_zero_copy` on an array of arbitrary elements -/
def parseE : List Elem → Res := parseWithE table

end RedisVerif.Grammar
