/-
  Whole-harness models: the model PREDICTS the trace of a real DST harness of /repo from
  (seed, configuration) alone — RNG stream (Model/SimRng) + the harness's op generator + the system
  under test.  Every container the real harness keeps in a `HashMap`/`HashSet` is a canonical sorted
  list here, so nothing in the prediction can depend on an iteration order; where the REAL code
  lets an iteration order reach its output the function takes that order as an explicit parameter
  (`fmtSet` below) and Props/C20 states what does and what does not depend on it.

  Harness family modelled here: `replication::crdt_dst` — GCounterDSTHarness, PNCounterDSTHarness,
  ORSetDSTHarness, VectorClockDSTHarness (`run`, `sync_all`, `check_convergence`, `CRDTDSTResult`).

  Trace format (identical text is produced by harness/src/c20.rs from the REAL harness):
    probe instance P:   after each `run(1)` + `check_convergence()`:
                           "<k> r<replica> <violation texts of this check joined by |>"
                        then `sync_all()` + `check_convergence()`:
                           "sync syncs=<n> drops=<n> <violation texts>"
    canonical instance Q (`run(ops); sync_all(); check_convergence()`):
                           "result ops=<n> per=<i:n,…> syncs=<n> drops=<n> conv=<b> viol=<texts>"
  The answer line is `lines=<n> h=<fnv64 after every 64 lines,…> final=<fnv64> | <result line>`.
-/
import RedisVerif.Model.NMap
import RedisVerif.Model.SimRng
import RedisVerif.Model.SimKernel

namespace RedisVerif.SimHarness
open RedisVerif RedisVerif.SimRng

/-! ## rolling hash of the trace text (FNV-1a, 64 bit) -/

def fnvInit : UInt64 := 0xcbf29ce484222325

def fnvStr (h : UInt64) (s : String) : UInt64 :=
  s.toUTF8.foldl (fun h b => (h ^^^ b.toUInt64) * 0x100000001b3) h

def hexDigit (n : Nat) : Char := if n < 10 then Char.ofNat (48 + n) else Char.ofNat (87 + n)

def hex64 (x : UInt64) : String :=
  String.ofList ((List.range 16).map fun i => hexDigit ((x.toNat / 16 ^ (15 - i)) % 16))

/-- fold the lines into chunk hashes (one every `chunk` lines) and the final hash -/
def traceDigest (lines : List String) (chunk : Nat := 64) : String :=
  let (h, _, hs) := lines.foldl (fun (acc : UInt64 × Nat × List String) l =>
    let (h, n, hs) := acc
    let h := fnvStr (fnvStr h l) "\n"
    let n := n + 1
    if n % chunk == 0 then (h, n, hex64 h :: hs) else (h, n, hs)) (fnvInit, 0, [])
  s!"lines={lines.length} h={",".intercalate hs.reverse} final={hex64 h}"

/-! ## the sampling monad: an RNG state and the `fuel` outcome -/

abbrev M := StateT Rng (Except String)

def range (lo hi : Nat) : M Nat := fun r =>
  match simGenRange lo hi r with
  | (.ok v, r) => .ok (v, r)
  | (.fuel, _) => .error "fuel"

def bool (bits : Nat) : M Bool := fun r =>
  match simGenBool (F64.ofBits bits) r with
  | (.val b, r) => .ok (b, r)
  | (.crash, _) => .error "crash"

def bits_0_5 : Nat := 0x3FE0000000000000
def bits_0_7 : Nat := 0x3FE6666666666666

/-! ## the four CRDTs as the harness uses them (canonical maps) -/

abbrev GCounter := NMap Nat

def GCounter.value (c : GCounter) : Nat := (c.map (·.2)).sum % 2 ^ 64
def GCounter.incBy (c : GCounter) (rid amt : Nat) : GCounter := NMap.insertWith (· + ·) rid amt c
def GCounter.merge (a b : GCounter) : GCounter := NMap.merge Nat.max a b

structure PNCounter where
  pos : GCounter := []
  neg : GCounter := []
  deriving DecidableEq, Repr

/-- `positive.value() as i64 - negative.value() as i64` -/
def PNCounter.value (c : PNCounter) : Int := (c.pos.value : Int) - (c.neg.value : Int)
def PNCounter.merge (a b : PNCounter) : PNCounter := ⟨a.pos.merge b.pos, a.neg.merge b.neg⟩

/-- tag = (replica, seq) coded as `replica * 2^64 + seq` -/
structure ORSet where
  elems : NMap NSet := []
  nextSeq : NMap Nat := []
  deriving DecidableEq, Repr

def ORSet.add (s : ORSet) (elem rid : Nat) : ORSet :=
  let seq := (s.nextSeq.get rid).getD 0
  { elems := NMap.insertWith NSet.union elem [rid * 2 ^ 64 + seq] s.elems,
    nextSeq := NMap.insert rid (seq + 1) s.nextSeq }

def ORSet.remove (s : ORSet) (elem : Nat) : ORSet := { s with elems := NMap.erase elem s.elems }

def ORSet.merge (a b : ORSet) : ORSet :=
  { elems := (NMap.merge NSet.union a.elems b.elems).filter (fun p => !p.2.isEmpty),
    nextSeq := NMap.merge Nat.max a.nextSeq b.nextSeq }

/-- `elements()`: keys with a non-empty tag set, as a set -/
def ORSet.elements (s : ORSet) : NSet := (s.elems.filter (fun p => !p.2.isEmpty)).map (·.1)

abbrev VClock := NMap Nat
def VClock.inc (c : VClock) (rid : Nat) : VClock := NMap.insertWith (· + ·) rid 1 c

/-! ## the generic harness skeleton -/

structure Kind (σ : Type) where
  init : σ
  /-- one random operation on replica `idx` (after the replica was drawn) -/
  op : Nat → σ → M σ
  merge : σ → σ → σ
  /-- the strings `check_convergence` pushes for this replica vector, in order -/
  viol : List σ → List String

structure Result where
  ops : Nat := 0
  per : NMap Nat := []
  syncs : Nat := 0
  drops : Nat := 0
  deriving Repr, DecidableEq

structure HState (σ : Type) where
  replicas : Array σ
  res : Result := {}

variable {σ : Type}

/-- `run(1)`: draw the replica, apply the op, count it; returns the replica index -/
def runOne (k : Kind σ) (n : Nat) (h : HState σ) : M (Nat × HState σ) := do
  let idx ← range 0 n
  let cur := h.replicas.getD idx k.init
  let nxt ← k.op idx cur
  pure (idx, { replicas := h.replicas.setIfInBounds idx nxt,
               res := { h.res with ops := h.res.ops + 1, per := NMap.insertWith (· + ·) idx 1 h.res.per } })

/-- the pairs `(i, j)`, `i < j < n`, in the order of the two nested loops -/
def pairs (n : Nat) : List (Nat × Nat) :=
  (List.range n).flatMap fun i => ((List.range n).filter (i < ·)).map fun j => (i, j)

/-- `sync_all`: 5 rounds over all pairs; per pair `gen_bool(drop)` then merge both ways -/
def syncAll (k : Kind σ) (n dropBits : Nat) (h : HState σ) : M (HState σ) :=
  ((List.range 5).flatMap fun _ => pairs n).foldlM (fun h (p : Nat × Nat) => do
    if (← bool dropBits) then
      pure { h with res := { h.res with drops := h.res.drops + 1 } }
    else
      let m := k.merge (h.replicas.getD p.1 k.init) (h.replicas.getD p.2 k.init)
      pure { replicas := (h.replicas.setIfInBounds p.1 m).setIfInBounds p.2 m,
             res := { h.res with syncs := h.res.syncs + 1 } }) h

def showPer (m : NMap Nat) : String := ",".intercalate (m.map fun p => s!"{p.1}:{p.2}")

def joinV (v : List String) : String := "|".intercalate v

/-- probe lines: one per op, then the sync line -/
def probeLoop (k : Kind σ) (n : Nat) : Nat → Nat → HState σ → List String → M (HState σ × List String)
  | 0, _, h, acc => pure (h, acc)
  | fuel + 1, step, h, acc => do
    let (idx, h) ← runOne k n h
    let line := s!"{step} r{idx} {joinV (k.viol h.replicas.toList)}"
    probeLoop k n fuel (step + 1) h (line :: acc)

def runHarness (k : Kind σ) (seed ops n dropBits : Nat) : Except String String := do
  let h0 : HState σ := { replicas := Array.replicate n k.init }
  -- probe instance
  let ((h, acc), _) ← (do
    let (h, acc) ← probeLoop k n ops 1 h0 []
    let h ← syncAll k n dropBits h
    pure (h, acc) : M _).run (Rng.new seed.toUInt64)
  let syncLine := s!"sync syncs={h.res.syncs} drops={h.res.drops} {joinV (if n == 0 then [] else k.viol h.replicas.toList)}"
  -- canonical instance
  let (q, _) ← (do
    let h ← (List.range ops).foldlM (fun h _ => do let (_, h) ← runOne k n h; pure h) h0
    syncAll k n dropBits h : M _).run (Rng.new seed.toUInt64)
  let v := if n == 0 then [] else k.viol q.replicas.toList
  let resLine := s!"result ops={q.res.ops} per={showPer q.res.per} syncs={q.res.syncs} drops={q.res.drops} conv={if v.isEmpty then "true" else "false"} viol={joinV v}"
  let lines := acc.reverse ++ [syncLine, resLine]
  pure s!"{traceDigest lines} | {resLine}"

/-! ## the four kinds -/

def enumFrom1 {α} (l : List α) : List (Nat × α) := (List.range l.length).zip l

def gcounterKind : Kind GCounter where
  init := []
  op idx c := do let amt ← range 1 10; pure (c.incBy idx amt)
  merge := GCounter.merge
  viol rs :=
    match rs with
    | [] => []
    | r0 :: _ => (enumFrom1 rs).filterMap fun (i, r) =>
        if r.value != r0.value then some s!"Replica {i} has value {r.value} but expected {r0.value}" else none

def pncounterKind : Kind PNCounter where
  init := {}
  op idx c := do
    let amt ← range 1 10
    if (← bool bits_0_5) then pure { c with pos := c.pos.incBy idx amt }
    else pure { c with neg := c.neg.incBy idx amt }
  merge := PNCounter.merge
  viol rs :=
    match rs with
    | [] => []
    | r0 :: _ => (enumFrom1 rs).filterMap fun (i, r) =>
        if r.value != r0.value then some s!"Replica {i} has value {r.value} but expected {r0.value}" else none

def showSet (s : NSet) : String := "[" ++ ",".intercalate (s.map toString) ++ "]"

/-- the ORSet violation text with the `{:?}` rendering of the two `HashSet`s a parameter -/
def orsetViol (fmtSet : NSet → String) (rs : List ORSet) : List String :=
  match rs with
  | [] => []
  | r0 :: _ => (enumFrom1 rs).filterMap fun (i, r) =>
      if r.elements != r0.elements then
        some s!"Replica {i} has different elements: {fmtSet r.elements} vs expected {fmtSet r0.elements}"
      else none

def orsetKind : Kind ORSet where
  init := {}
  op idx s := do
    let e ← range 0 20
    if (← bool bits_0_7) then pure (s.add e idx) else pure (s.remove e)
  merge := ORSet.merge
  viol := orsetViol showSet

def vclockKind : Kind VClock where
  init := []
  op idx c := pure (VClock.inc c idx)
  merge := GCounter.merge
  viol rs :=
    match rs with
    | [] => []
    | r0 :: _ => (enumFrom1 rs).filterMap fun (i, r) =>
        if r != r0 then some s!"Replica {i} has different clock than replica 0" else none

/-- `RUN <harness> <label> <seed> <ops> <num_replicas> <drop bits>`; the driver passes the config
    numbers the Rust side read from the REAL preset -/
def runCrdt (harness : String) (seed ops n dropBits : Nat) : Option String :=
  let out := match harness with
    | "crdt-gcounter" => some (runHarness gcounterKind seed ops n dropBits)
    | "crdt-pncounter" => some (runHarness pncounterKind seed ops n dropBits)
    | "crdt-orset" => some (runHarness orsetKind seed ops n dropBits)
    | "crdt-vclock" => some (runHarness vclockKind seed ops n dropBits)
    | _ => none
  out.map fun r => match r with | .ok s => s | .error e => e

/-! ## `simulator::dst::DSTSimulation` over `simulator::crash::CrashSimulator`

`CrashSimulator::node_states` is a `HashMap<HostId, NodeState>`; `DSTSimulation::step` iterates
`crashed_nodes()` — the map's iteration order — and draws from the RNG per element.  The order is
an explicit input `pi` here (the order of ALL node ids in the map; it is fixed for the lifetime of
one simulation because keys are only ever overwritten).  The sampler is abstract so that the
order-dependence can be stated without evaluating ChaCha (Props/C20). -/

structure Sampler (σ : Type) where
  range : Nat → Nat → σ → Except String (Nat × σ)
  bool : Nat → σ → Except String (Bool × σ)

/-- the real generator: `SimulatedRng` -/
def chacha : Sampler Rng := ⟨range, bool⟩

inductive NState where
  | running
  | crashed (t : Nat)
  | recovering (start exp : Nat)
  deriving DecidableEq, Repr, Inhabited

def NState.isCrashed : NState → Bool
  | .crashed _ => true
  | _ => false

structure DstCfg where
  n : Nat
  /-- `FaultConfig::get("process.crash")` of the configuration `with_config` installs, as bits -/
  crashProb : Nat
  enableCrash : Bool
  skew : Bool
  skewRange : Nat
  driftRange : Nat
  minRec : Nat
  maxRec : Nat
  maxTime : Nat
  /-- `true` = the current code (3012c3c): `crashed_nodes()` / `recovering_nodes()` are sorted by
      node id; `false` = the pinned code: map iteration order -/
  sortedNodes : Bool := true
  deriving Repr

structure Dst (σ : Type) where
  g : σ
  now : Nat := 0
  nodes : List NState
  crashes : Nat := 0
  recoveries : Nat := 0
  ops : Nat := 0

def bits_0_1 : Nat := 0x3FB999999999999A

/-- `nodes.sort_by_key(|id| id.0)` -/
def insNat (x : Nat) : List Nat → List Nat
  | [] => [x]
  | y :: ys => if x ≤ y then x :: y :: ys else y :: insNat x ys

def sortNat (l : List Nat) : List Nat := l.foldr insNat []

/-- `CrashSimulator::crashed_nodes()`: the crashed ones among the node ids in map order `order`,
    sorted by id in the current code -/
def crashedNodes (sorted : Bool) (order : List Nat) (nodes : List NState) : List Nat :=
  let l := order.filter fun i => (nodes.getD i .running).isCrashed
  if sorted then sortNat l else l

section
variable {σ : Type} (S : Sampler σ)

/-- `with_config`: per node, when clock skew is enabled, two draws (offset, drift) -/
def dstInit (c : DstCfg) (g : σ) : Except String (Dst σ) := do
  let g ← (List.range c.n).foldlM (fun g _ => do
    if c.skew then
      let (_, g) ← S.range 0 c.skewRange g
      let (_, g) ← S.range 0 c.driftRange g
      pure g
    else pure g) g
  pure { g := g, nodes := List.replicate c.n .running }

/-- `CrashSimulator::advance_time`: every recovering node whose completion time has come runs
    again (each node independently: the map order cannot matter) -/
def completeRecoveries (now : Nat) (nodes : List NState) : List NState × Nat :=
  nodes.foldr (fun s (acc : List NState × Nat) =>
    match s with
    | .recovering _ e => if now ≥ e then (.running :: acc.1, acc.2 + 1) else (s :: acc.1, acc.2)
    | _ => (s :: acc.1, acc.2)) ([], 0)

/-- `should_buggify(rng, "process.crash")` with the configured probability -/
def crashDecision (c : DstCfg) (g : σ) : Except String (Bool × σ) :=
  let p := F64.ofBits c.crashProb
  if !p.isNaN && (p.neg || p.isZero) then pure (false, g)
  else do
    let (v, g) ← S.range 0 1000000 g
    pure (SimKernel.buggifyTriggered v p, g)

/-- `for node in 0..node_count { if running { maybe_crash_node } }` -/
def crashLoop (c : DstCfg) (d : Dst σ) : Except String (Dst σ) :=
  (List.range c.n).foldlM (fun d i => do
    if d.nodes.getD i .running == .running && c.enableCrash then
      let (t, g) ← crashDecision S c d.g
      if t then pure { d with g := g, nodes := d.nodes.set i (.crashed d.now), crashes := d.crashes + 1 }
      else pure { d with g := g }
    else pure d) d

/-- `for node in crashed_nodes() { if gen_bool(0.1) { start_recovery(node) } }` — `order` is the
    iteration order of the map; the list of crashed nodes is taken once, before the loop -/
def recoverLoop (c : DstCfg) (order : List Nat) (d : Dst σ) : Except String (Dst σ) :=
  (crashedNodes c.sortedNodes order d.nodes).foldlM (fun d i => do
    let (b, g) ← S.bool bits_0_1 d.g
    if b then
      let (dur, g) ← S.range c.minRec c.maxRec g
      pure { d with g := g, nodes := d.nodes.set i (.recovering d.now (d.now + dur)) }
    else pure { d with g := g }) d

/-- `DSTSimulation::step` -/
def dstStep (c : DstCfg) (pi : List Nat) (d : Dst σ) : Except String (Dst σ) := do
  let (adv, g) ← S.range 1 100 d.g
  let now := d.now + adv
  let (nodes, rec) := completeRecoveries now d.nodes
  let d := { d with g := g, now := now, nodes := nodes, recoveries := d.recoveries + rec }
  let d ← crashLoop S c d
  let d ← recoverLoop S c pi d
  pure { d with ops := d.ops + 1 }

end

/-! ## the thread-local BUGGIFY context and the store-based harnesses (WAL / streaming / compaction)

`SimulatedWalStore` / `SimulatedObjectStore` decide every fault through
`should_buggify_with_prob`, which returns false WITHOUT drawing while the thread's context is
disabled.  In the pinned code the harnesses use whatever context an earlier run left behind; in
the current code (474577c) they install `FaultConfig::new()` (enabled) themselves. -/

structure BugCtx where
  enabled : Bool := true
  deriving DecidableEq, Repr

section
variable {σ : Type} (S : Sampler σ)

/-- `buggify!(rng, id, prob)` under a thread context -/
def storeDecision (ctx : BugCtx) (prob : Nat) (g : σ) : Except String (Bool × σ) :=
  if !ctx.enabled then pure (false, g)
  else do
    let (v, g) ← S.range 0 1000000 g
    pure (SimKernel.buggifyTriggered v (SimKernel.clamp01 (F64.ofBits prob)), g)

/-- the context a store-based harness runs under, given what an earlier run left on the thread -/
def harnessCtx (installsOwn : Bool) (prev : BugCtx) : BugCtx := if installsOwn then {} else prev

/-- a store-based harness run, abstractly: any computation `body` of the context it sees and the
    generator (its fault decisions are `storeDecision ctx …`) -/
def storeHarnessRun {α : Type} (installsOwn : Bool) (prev : BugCtx) (body : BugCtx → σ → α) (g : σ) : α :=
  body (harnessCtx installsOwn prev) g

/-- a concrete body: the outcomes of a fixed sequence of fault sites -/
def faultSites (probs : List Nat) (ctx : BugCtx) (g : σ) : Except String (List Bool × σ) :=
  probs.foldlM (fun (acc : List Bool × σ) p => do
    let (b, g) ← storeDecision S ctx p acc.2
    pure (acc.1 ++ [b], g)) ([], g)

end

def showNState : NState → String
  | .running => "R"
  | .crashed t => s!"C{t}"
  | .recovering a b => s!"V{a}-{b}"

def dstLoop (c : DstCfg) (pi : List Nat) : Nat → Nat → Dst Rng → List String → Except String (Dst Rng × List String)
  | 0, _, d, acc => pure (d, acc)
  | fuel + 1, k, d, acc => do
    let d ← dstStep chacha c pi d
    let line := s!"{k} now={d.now} {" ".intercalate (d.nodes.map showNState)}"
    if d.now ≥ c.maxTime then pure (d, line :: acc) else dstLoop c pi fuel (k + 1) d (line :: acc)

def runDst (seed ops : Nat) (c : DstCfg) (pi : List Nat) : String :=
  match (do
    let d ← dstInit chacha c (Rng.new seed.toUInt64)
    dstLoop c pi ops 1 d []) with
  | .error e => e
  | .ok (d, acc) =>
    let resLine := s!"result time={d.now} ops={d.ops} crashes={d.crashes} recoveries={d.recoveries} lin=true conv=true errors=0 history=0"
    -- a second instance through `run_operations(ops)` as one call: the same loop, the same limit test
    let whole := s!"whole time={d.now} ops={d.ops} crashes={d.crashes} recoveries={d.recoveries}"
    s!"{traceDigest (acc.reverse ++ [resLine, whole])} | {whole}"

/-! ## `streaming::wal_dst::WalDSTHarness` over `SimulatedWalStore` and `WalRotator`

Files are lists of ITEMS (header, complete entry, strict prefix of a header / an entry): every
store append adds one item, `sync` makes all items of the file durable, a crash keeps the durable
items, recovery yields the complete entries of every file that starts with a complete header, up
to the first prefix item (a strict prefix of an entry never decodes: C10 `entries_of_prefix`).
Byte LENGTHS matter (rotation threshold, `gen_range(1, len)` of a partial write): the encoded
length of an entry is a parameter supplied by the real serializer (`encLen`), as `ser` is
everywhere else. -/

inductive WItem where
  | header
  | entry (ts : Nat)
  | prefix
  deriving DecidableEq, Repr

structure WFile where
  items : List WItem := []
  bytes : Nat := 0
  /-- number of leading items that are durable -/
  synced : Nat := 0
  deriving Repr

structure WStats where
  writeAttempts : Nat := 0
  writeFailures : Nat := 0
  partialWrites : Nat := 0
  syncAttempts : Nat := 0
  syncFailures : Nat := 0
  diskFull : Nat := 0
  deriving Repr

structure WalCfg where
  numWrites : Nat
  maxFileSize : Nat
  writeFail : Nat
  partialWrite : Nat
  fsyncFail : Nat
  diskFull : Nat
  simulateCrash : Bool
  fsyncAfterWrite : Bool
  /-- encoded entry length for a 1-, 2-, 3-digit timestamp (value `val-<ts>`, key `key-NNNNNN`) -/
  len1 : Nat
  len2 : Nat
  len3 : Nat
  deriving Repr

def WalCfg.encLen (c : WalCfg) (ts : Nat) : Nat := if ts < 10 then c.len1 else if ts < 100 then c.len2 else c.len3

structure Wal where
  /-- the store's generator (`SimulatedRng::new(harness_rng.next_u64())`) -/
  g : Rng
  /-- files in sequence order; the current writer, if any, writes to the last one -/
  files : List WFile := []
  hasWriter : Bool := false
  dropped : Bool := false
  st : WStats := {}

abbrev WM := StateT Wal (Except String)

/-- `buggify!(rng, id, prob)` on the store's generator (context installed by the harness: enabled) -/
def wFault (prob : Nat) : WM Bool := fun w =>
  match storeDecision chacha {} prob w.g with
  | .ok (b, g) => .ok (b, { w with g := g })
  | .error e => .error e

def wRange (lo hi : Nat) : WM Nat := fun w =>
  match range lo hi w.g with
  | .ok (v, g) => .ok (v, { w with g := g })
  | .error e => .error e

def modifyLast (f : WFile → WFile) : List WFile → List WFile
  | [] => []
  | [x] => [f x]
  | x :: xs => x :: modifyLast f xs

def wPush (it : WItem) (n : Nat) : WM Unit :=
  modify fun w => { w with files := modifyLast (fun f => { f with items := f.items ++ [it], bytes := f.bytes + n }) w.files }

/-- `SimulatedWalWriter::append` of `n` bytes that form item `it`; `true` = Ok -/
def wStoreAppend (c : WalCfg) (it : WItem) (n : Nat) : WM Bool := do
  modify fun w => { w with st := { w.st with writeAttempts := w.st.writeAttempts + 1 } }
  if (← wFault c.diskFull) then
    modify fun w => { w with st := { w.st with diskFull := w.st.diskFull + 1 } }
    return false
  if (← wFault c.writeFail) then
    modify fun w => { w with st := { w.st with writeFailures := w.st.writeFailures + 1 } }
    return false
  if n > 1 then
    if (← wFault c.partialWrite) then
      modify fun w => { w with st := { w.st with partialWrites := w.st.partialWrites + 1 } }
      let p ← wRange 1 n
      wPush .prefix p
      return false
  wPush it n
  return true

/-- `SimulatedWalWriter::sync` on the current file; `true` = Ok -/
def wStoreSync (c : WalCfg) : WM Bool := do
  modify fun w => { w with st := { w.st with syncAttempts := w.st.syncAttempts + 1 } }
  if (← wFault c.fsyncFail) then
    modify fun w => { w with st := { w.st with syncFailures := w.st.syncFailures + 1 } }
    return false
  modify fun w => { w with files := modifyLast (fun f => { f with synced := f.items.length }) w.files }
  return true

/-- `WalRotator::rotate`; `true` = Ok -/
def wRotate (c : WalCfg) : WM Bool := do
  if (← get).hasWriter then
    modify fun w => { w with hasWriter := false }
    if !(← wStoreSync c) then
      modify fun w => { w with dropped := true }
  modify fun w => { w with files := w.files ++ [{}] }
  if (← wStoreAppend c .header 16) then
    modify fun w => { w with hasWriter := true }
    return true
  return false

/-- `WalRotator::append`; `true` = Ok -/
def wAppend (c : WalCfg) (ts : Nat) : WM Bool := do
  let w ← get
  let needsNew := !w.hasWriter || (match w.files.getLast? with | some f => f.bytes ≥ c.maxFileSize | none => true)
  if needsNew then
    if !(← wRotate c) then return false
  if (← wStoreAppend c (.entry ts) (c.encLen ts)) then return true
  modify fun w => { w with hasWriter := false, dropped := true }
  return false

/-- `WalRotator::sync`; `true` = Ok -/
def wSync (c : WalCfg) : WM Bool := do
  if (← get).dropped then
    modify fun w => { w with dropped := false }
    return false
  if (← get).hasWriter then
    return (← wStoreSync c)
  return true

/-- `InMemoryWalStore::simulate_crash` -/
def wCrash : WM Unit :=
  modify fun w => { w with files := w.files.map fun f => { f with items := f.items.take f.synced } }

/-- the entries `recover_all_entries` yields from one file -/
def recoverFile (f : WFile) : List Nat :=
  match f.items with
  | .header :: rest => (rest.takeWhile fun it => match it with | .entry _ => true | _ => false).filterMap
      fun it => match it with | .entry ts => some ts | _ => none
  | _ => []

structure WalOut where
  acked : List Nat := []
  failed : Nat := 0

/-- the write loop: `i` from 0, harness generator `h` threaded explicitly -/
def walLoop (c : WalCfg) (crashAt : Nat) : Nat → Nat → Rng → WalOut → WM (WalOut × Bool)
  | 0, _, _, o => pure (o, false)
  | fuel + 1, i, h, o => do
    if i ≥ c.numWrites then return (o, false)
    if i == crashAt then
      wCrash
      return (o, true)
    let ts := i + 1
    -- the key draw of the HARNESS generator (the key does not influence lengths or outcomes)
    let h ← match range 0 1000 h with
      | .ok (_, h) => pure h
      | .error e => throw e
    let o ← (do
      if (← wAppend c ts) then
        if c.fsyncAfterWrite then
          if (← wSync c) then pure { o with acked := o.acked ++ [ts] }
          else pure { o with failed := o.failed + 1 }
        else pure { o with acked := o.acked ++ [ts] }
      else pure { o with failed := o.failed + 1 } : WM WalOut)
    walLoop c crashAt fuel (i + 1) h o

def showNatList (l : List Nat) : String := "[" ++ ", ".intercalate (l.map toString) ++ "]"

/-- `WalDSTHarness::new(seed, cfg).run()` rendered as `{:?}` of the `WalDSTResult` -/
def runWal (seed : Nat) (c : WalCfg) : String :=
  let h0 := Rng.new seed.toUInt64
  let (s, h1) := h0.nextU64
  match (do
    let (crashAt, h2) ← (if c.simulateCrash then
        match range 1 (c.numWrites + 1) h1 with
        | .ok (v, h) => pure (v, h)
        | .error e => throw e
      else pure (2 ^ 64, h1) : Except String (Nat × Rng))
    let (((o : WalOut), (crashed : Bool)), (w : Wal)) ← (walLoop c crashAt (c.numWrites + 1) 0 h2 {}).run { g := Rng.new s }
    let w : Wal := if c.simulateCrash && !crashed then
      { w with files := w.files.map fun (f : WFile) => { f with items := f.items.take f.synced } } else w
    pure (o, w)) with
  | .error e => e
  | .ok (o, w) =>
    let recovered := w.files.flatMap recoverFile
    let missingTs := if c.fsyncAfterWrite then o.acked.filter (fun ts => !recovered.contains ts) else []
    let missing := missingTs.length
    let msg := if missing == 0 then "None" else
      s!"Some(\"INVARIANT VIOLATION: {missing} acknowledged writes missing after recovery. Acked: {o.acked.length}, Recovered: {recovered.length}. Missing timestamps (first 10): {showNatList (missingTs.take 10)}\")"
    let line := s!"WalDSTResult \{ seed: {seed}, total_writes: {c.numWrites}, acknowledged_writes: {o.acked.length}, failed_writes: {o.failed}, recovered_entries: {recovered.length}, missing_after_recovery: {missing}, store_stats: SimulatedWalStoreStats \{ write_attempts: {w.st.writeAttempts}, write_failures: {w.st.writeFailures}, partial_writes: {w.st.partialWrites}, sync_attempts: {w.st.syncAttempts}, sync_failures: {w.st.syncFailures}, read_attempts: 0, read_corruptions: 0, disk_full_errors: {w.st.diskFull} }, passed: {if missing == 0 then "true" else "false"}, error_message: {msg} }"
    s!"{traceDigest [line]} | {line}"

/-- dispatcher of the `RUN <harness> <label> <seed> <ops> <cfg…>` op -/
def run (harness : String) (seed ops : Nat) (cfg : List Nat) : Option String :=
  if harness == "wal" then
    match cfg with
    | [nw, mfs, wf, pw, ff, df, crash, fs, l1, l2, l3] =>
      some (runWal seed ⟨nw, mfs, wf, pw, ff, df, crash == 1, fs == 1, l1, l2, l3⟩)
    | _ => none
  else if harness == "dst" then
    match cfg with
    | n :: prob :: en :: skew :: sr :: dr :: minR :: maxR :: maxT :: sorted :: pi =>
      if pi.length == n then
        some (runDst seed ops ⟨n, prob, en == 1, skew == 1, sr, dr, minR, maxR, maxT, sorted == 1⟩ pi)
      else none
    | _ => none
  else
  match cfg with
  | [n, dropBits] => runCrdt harness seed ops n dropBits
  | _ => none

end RedisVerif.SimHarness
