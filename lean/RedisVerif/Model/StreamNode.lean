import RedisVerif.Model.StreamActor

/-
  M4c — a node over its whole life: the persistence pipeline of M4b (`StreamActor`), the
  compaction worker next to it, and the death and restart of the process.

  Anchors (all under /repo/src/streaming unless noted):
    integration.rs   StreamingIntegration::start_workers (persistence actor + bridge + compaction
                     worker on ONE store), StreamingIntegration::recover (restart: recovery, then
                     `apply_recovered_state` on the fresh node), WorkerHandles::shutdown
    compaction.rs    CompactionWorker::run: every `check_interval` one `compact_if_needed`
    src/bin/server_persistent.rs   the start-up sequence (recover, then start the workers)

  One *life* is one process: a fault oracle (which includes the instant of its death), the
  configuration it was started with (a restart may change it), its clock reading at start and the
  events that happen while it lives.  What survives a life is the object store — nothing else:
  buffer, mailbox, sink and the cached manifest die with the process.  `confirmed` is a ghost
  record of every update whose flush returned `Ok` in any life so far.

  Abstraction (recorded in the trusted base of C12): a compaction pass is ONE event, i.e. the
  store calls of a pass do not interleave with those of a flush.  The interleaved schedules are
  C13's flush-race findings (`C13.flush_interleaving_counterexample`, known findings
  C13:flush-race:*): the code has no mutual exclusion, so this is a hypothesis on the schedule,
  not a property of the code.
-/
namespace RedisVerif
namespace StreamNode

open _root_.RedisVerif.Stream _root_.RedisVerif.StreamActor

/-- what happens while a process lives -/
inductive NEv where
  | pipe (e : Ev)                                        -- an event of the persistence pipeline (M4b)
  | compactPass (cfg : CompactCfg) (maxSegs sz : Nat)    -- `CompactionWorker::run`: one `compact_if_needed`
  deriving DecidableEq, Repr

/-- this event performs no tombstone GC -/
def NEv.gcFree : NEv → Bool
  | .compactPass cfg _ _ => cfg.cutoff == 0
  | _ => true

/-- the update an event hands to the pipeline (`DeltaSinkSender::send`, `push_delta`) -/
def NEv.delta? : NEv → Option Delta
  | .pipe (.send d) => some d.1
  | .pipe (.reqPush d) => some d.1
  | _ => none

def step (F : Oracle) (wcfg : WbCfg) (cap : Nat) (a : A) : NEv → A
  | .pipe e => StreamActor.step F wcfg cap a e
  | .compactPass cfg maxSegs sz => { a with w := (compactIfNeeded F cfg maxSegs sz a.w).1 }

def run (F : Oracle) (wcfg : WbCfg) (cap : Nat) (a : A) (evs : List NEv) : A :=
  evs.foldl (step F wcfg cap) a

/-- one process from start to death (or to the end of the observation) -/
structure Life where
  F : Oracle           -- the environment of this process, the instant of its death included
  wcfg : WbCfg         -- `WriteBufferConfig` it was started with
  cap : Nat            -- mailbox capacity (`PERSISTENCE_CHANNEL_CAPACITY` of the binary)
  now : Nat            -- clock reading at start
  evs : List NEv

def Life.deltas (l : Life) : List Delta := l.evs.filterMap NEv.delta?

/-- the state of the process at the end of a life that started on the store `st` -/
def Life.final (rid : Nat) (st : Store) (l : Life) : A :=
  run l.F l.wcfg l.cap (A.init st rid l.now) l.evs

/-- what survives a process, plus the ghost record of everything ever confirmed -/
structure Hist where
  store : Store
  confirmed : List Delta
  deriving Repr, Inhabited

def runLife (rid : Nat) (h : Hist) (l : Life) : Hist :=
  { store := (l.final rid h.store).w.store, confirmed := h.confirmed ++ (l.final rid h.store).acked }

def runLives (rid : Nat) (h : Hist) (lives : List Life) : Hist := lives.foldl (runLife rid) h

end StreamNode
end RedisVerif
