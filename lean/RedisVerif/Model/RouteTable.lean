import RedisVerif.Model.Server

/-
  M7/RouteTable — WHICH SHARDS GET A MESSAGE for which `Command` variant: the routing table of
  `ShardedActorState::execute`, one row per variant of `enum Command`.

  Anchors: /repo/src/production/sharded_actor.rs `ShardedActorState::execute` (the arms of its
  `match cmd`), /repo/src/redis/command.rs `Command::get_primary_key` (what the default arm routes by).

      row = (variant, arm of `execute`, what `get_primary_key` returns)

  * `Arm`: `answered` — the arm never touches `self.shards` (PING, TIME);
           `allShards` — a message to every shard (FLUSHDB / FLUSHALL / KEYS / DBSIZE / SCAN / INFO);
           `inTurn`    — the shards are asked one after the other until one answers (RANDOMKEY);
           `eachKey`   — one message to the home of every key the command names (MGET, MSET, EXISTS);
           `eachKeyIfMany` — `Command::Del(keys) if keys.len() > 1`: as `eachKey`, else the default arm;
           `primary`   — the default arm `_ =>`: `hash_key(get_primary_key())`, no key → shard 0.
  * `KeySel`: which FIELD of the variant `get_primary_key` returns — `tok i`: field `i` (a `String`);
           `first i`: the first element of field `i` (a `Vec<String>` / the key of the first pair of a
           `Vec<(String, SDS)>`); `none`.  Read on the canonical rendering `Grammar.Cmd` (constructor
           name + flattened fields; a `Vec` field is `.len n` followed by its elements).

  The SAME table is derived on every run (i) from the SOURCE the harness was built against
  (harness/build.rs: the arms of the two `match`es, field positions from the `enum` declaration) and
  (ii) from the BINARY (harness/src/route_table.rs: `get_primary_key()` on a probe of every variant
  whose fields are pairwise distinct; which shards adopt the clock when the probe is executed) and
  compared row by row with `routeTable` (driver ops `ROUTETABLE`, `ROUTEARMS`, `ROUTEPROBE`; `C03:route-table:*`).
  `Props/RouteTable.lean` proves that the table IS the routing of the sharding model
  (`recvOf … = M7.recv R (inject now c)` for every command of the composed node) and that the default
  arm routes by a key the command names — its first.  A new variant, a variant moved to another arm
  or a `get_primary_key` that returns a non-key argument changes a row.

  Imports only models (linked into the native driver).
-/
namespace RedisVerif
namespace Shards
namespace RouteTable

open Grammar (Tok)

inductive Arm
  | answered | allShards | inTurn | eachKey | eachKeyIfMany | primary
  deriving DecidableEq, Repr

inductive KeySel
  | none
  | tok (i : Nat)
  | first (i : Nat)
  deriving DecidableEq, Repr

structure Row where
  ctor : String
  arm : Arm
  sel : KeySel
  deriving DecidableEq, Repr

/-- one row per variant of `enum Command`, in declaration order -/
def routeTable : List Row := [
  ⟨"Get", .primary, .tok 0⟩,
  ⟨"Set", .primary, .tok 0⟩,
  ⟨"Append", .primary, .tok 0⟩,
  ⟨"GetSet", .primary, .tok 0⟩,
  ⟨"StrLen", .primary, .tok 0⟩,
  ⟨"MGet", .eachKey, .first 0⟩,
  ⟨"MSet", .eachKey, .first 0⟩,
  ⟨"MSetNx", .primary, .first 0⟩,
  ⟨"BatchSet", .primary, .first 0⟩,
  ⟨"BatchGet", .primary, .first 0⟩,
  ⟨"GetRange", .primary, .tok 0⟩,
  ⟨"SetRange", .primary, .tok 0⟩,
  ⟨"SetBit", .primary, .tok 0⟩,
  ⟨"GetBit", .primary, .tok 0⟩,
  ⟨"GetEx", .primary, .tok 0⟩,
  ⟨"GetDel", .primary, .tok 0⟩,
  ⟨"Incr", .primary, .tok 0⟩,
  ⟨"Decr", .primary, .tok 0⟩,
  ⟨"IncrBy", .primary, .tok 0⟩,
  ⟨"DecrBy", .primary, .tok 0⟩,
  ⟨"IncrByFloat", .primary, .tok 0⟩,
  ⟨"Del", .eachKeyIfMany, .first 0⟩,
  ⟨"Exists", .eachKey, .first 0⟩,
  ⟨"TypeOf", .primary, .tok 0⟩,
  ⟨"Keys", .allShards, .none⟩,
  ⟨"FlushDb", .allShards, .none⟩,
  ⟨"FlushAll", .allShards, .none⟩,
  ⟨"Expire", .primary, .tok 0⟩,
  ⟨"ExpireAt", .primary, .tok 0⟩,
  ⟨"PExpire", .primary, .tok 0⟩,
  ⟨"PExpireAt", .primary, .tok 0⟩,
  ⟨"Ttl", .primary, .tok 0⟩,
  ⟨"Pttl", .primary, .tok 0⟩,
  ⟨"ExpireTime", .primary, .tok 0⟩,
  ⟨"PExpireTime", .primary, .tok 0⟩,
  ⟨"Persist", .primary, .tok 0⟩,
  ⟨"Wait", .primary, .none⟩,
  ⟨"Time", .answered, .none⟩,
  ⟨"Sort", .primary, .tok 0⟩,
  ⟨"LPush", .primary, .tok 0⟩,
  ⟨"RPush", .primary, .tok 0⟩,
  ⟨"LPop", .primary, .tok 0⟩,
  ⟨"RPop", .primary, .tok 0⟩,
  ⟨"LLen", .primary, .tok 0⟩,
  ⟨"LIndex", .primary, .tok 0⟩,
  ⟨"LRange", .primary, .tok 0⟩,
  ⟨"LSet", .primary, .tok 0⟩,
  ⟨"LTrim", .primary, .tok 0⟩,
  ⟨"RPopLPush", .primary, .tok 0⟩,
  ⟨"LMove", .primary, .tok 0⟩,
  ⟨"SAdd", .primary, .tok 0⟩,
  ⟨"SRem", .primary, .tok 0⟩,
  ⟨"SMembers", .primary, .tok 0⟩,
  ⟨"SIsMember", .primary, .tok 0⟩,
  ⟨"SCard", .primary, .tok 0⟩,
  ⟨"SPop", .primary, .tok 0⟩,
  ⟨"HSet", .primary, .tok 0⟩,
  ⟨"HGet", .primary, .tok 0⟩,
  ⟨"HDel", .primary, .tok 0⟩,
  ⟨"HGetAll", .primary, .tok 0⟩,
  ⟨"HKeys", .primary, .tok 0⟩,
  ⟨"HVals", .primary, .tok 0⟩,
  ⟨"HLen", .primary, .tok 0⟩,
  ⟨"HExists", .primary, .tok 0⟩,
  ⟨"HIncrBy", .primary, .tok 0⟩,
  ⟨"ZAdd", .primary, .tok 0⟩,
  ⟨"ZRem", .primary, .tok 0⟩,
  ⟨"ZRange", .primary, .tok 0⟩,
  ⟨"ZRevRange", .primary, .tok 0⟩,
  ⟨"ZScore", .primary, .tok 0⟩,
  ⟨"ZRank", .primary, .tok 0⟩,
  ⟨"ZCard", .primary, .tok 0⟩,
  ⟨"ZCount", .primary, .tok 0⟩,
  ⟨"ZRangeByScore", .primary, .tok 0⟩,
  ⟨"Scan", .allShards, .none⟩,
  ⟨"HScan", .primary, .tok 0⟩,
  ⟨"ZScan", .primary, .tok 0⟩,
  ⟨"Multi", .primary, .none⟩,
  ⟨"Exec", .primary, .none⟩,
  ⟨"Discard", .primary, .none⟩,
  ⟨"Watch", .primary, .first 0⟩,
  ⟨"Unwatch", .primary, .none⟩,
  ⟨"Eval", .primary, .first 1⟩,
  ⟨"EvalSha", .primary, .first 1⟩,
  ⟨"ScriptLoad", .primary, .none⟩,
  ⟨"ScriptExists", .primary, .none⟩,
  ⟨"ScriptFlush", .primary, .none⟩,
  ⟨"SetNx", .primary, .tok 0⟩,
  ⟨"Info", .allShards, .none⟩,
  ⟨"Ping", .answered, .none⟩,
  ⟨"DbSize", .allShards, .none⟩,
  ⟨"Auth", .primary, .none⟩,
  ⟨"AclWhoami", .primary, .none⟩,
  ⟨"AclList", .primary, .none⟩,
  ⟨"AclUsers", .primary, .none⟩,
  ⟨"AclGetUser", .primary, .none⟩,
  ⟨"AclSetUser", .primary, .none⟩,
  ⟨"AclDelUser", .primary, .none⟩,
  ⟨"AclCat", .primary, .none⟩,
  ⟨"AclGenPass", .primary, .none⟩,
  ⟨"AclDryrun", .primary, .none⟩,
  ⟨"AclLog", .primary, .none⟩,
  ⟨"AclLogReset", .primary, .none⟩,
  ⟨"ConfigGet", .primary, .none⟩,
  ⟨"ConfigSet", .primary, .none⟩,
  ⟨"ConfigResetStat", .primary, .none⟩,
  ⟨"Select", .primary, .none⟩,
  ⟨"Echo", .primary, .none⟩,
  ⟨"CommandCommand", .primary, .none⟩,
  ⟨"CommandCount", .primary, .none⟩,
  ⟨"FunctionFlush", .primary, .none⟩,
  ⟨"ClientSetName", .primary, .none⟩,
  ⟨"ClientGetName", .primary, .none⟩,
  ⟨"ClientId", .primary, .none⟩,
  ⟨"ClientInfo", .primary, .none⟩,
  ⟨"ObjectHelp", .primary, .none⟩,
  ⟨"ObjectEncoding", .primary, .tok 0⟩,
  ⟨"ObjectRefCount", .primary, .tok 0⟩,
  ⟨"ObjectIdleTime", .primary, .tok 0⟩,
  ⟨"ObjectFreq", .primary, .tok 0⟩,
  ⟨"DebugSleep", .primary, .none⟩,
  ⟨"DebugSet", .primary, .none⟩,
  ⟨"DebugObject", .primary, .tok 0⟩,
  ⟨"RandomKey", .inTurn, .none⟩,
  ⟨"Rename", .primary, .tok 0⟩,
  ⟨"RenameNx", .primary, .tok 0⟩,
  ⟨"Unknown", .primary, .none⟩]

def lookupIn (ctor : List Nat) : List Row → Option Row
  | [] => none
  | r :: rs => if Grammar.s2b r.ctor == ctor then some r else lookupIn ctor rs

/-- the row of a constructor name (as the canonical rendering spells it) -/
def lookup (ctor : List Nat) : Option Row := lookupIn ctor routeTable

/-- the key `get_primary_key` returns, read on the flattened fields -/
def selKey : KeySel → List Tok → Option Nat
  | .none, _ => none
  | .tok i, toks =>
    match toks.drop i with
    | .s b :: _ => some (Server.keyCode b)
    | _ => none
  | .first i, toks =>
    match toks.drop i with
    | .len _ :: .s b :: _ => some (Server.keyCode b)
    | _ => none

/-- every `String` among the flattened fields: for the fan-out arms (MGET / EXISTS / DEL: a
    `Vec<String>`; MSET: a `Vec<(String, SDS)>`) these are exactly the keys the command names -/
def strToks : List Tok → List Nat
  | [] => []
  | .s b :: ts => Server.keyCode b :: strToks ts
  | _ :: ts => strToks ts

/-- does shard `i` get a message when `execute` runs a command of this row with these fields? -/
def recvOf (R : Routes) (arm : Arm) (sel : KeySel) (toks : List Tok) (i : Nat) : Bool :=
  let prim : Bool := match selKey sel toks with
    | some k => R.bytes k == i
    | none => 0 == i
  match arm with
  | .answered => false
  | .allShards => true
  | .inTurn => true
  | .eachKey => (strToks toks).any (fun k => R.bytes k == i)
  | .eachKeyIfMany =>
    if (strToks toks).length > 1 then (strToks toks).any (fun k => R.bytes k == i) else prim
  | .primary => prim

def showArm : Arm → String
  | .answered => "answered"
  | .allShards => "all-shards"
  | .inTurn => "in-turn"
  | .eachKey => "each-key"
  | .eachKeyIfMany => "each-key-if-many"
  | .primary => "primary"

def showSel : KeySel → String
  | .none => "none"
  | .tok i => s!"field{i}"
  | .first i => s!"first-of-field{i}"

def insertSorted (x : String) : List String → List String
  | [] => [x]
  | y :: ys => if x < y then x :: y :: ys else y :: insertSorted x ys

def sortStrings (l : List String) : List String := l.foldr insertSorted []

/-- what the driver prints for `ROUTETABLE`: `Variant:key;…` sorted by variant (the key column: what
    `get_primary_key` returns) -/
def render : String := ";".intercalate (sortStrings (routeTable.map (fun r => s!"{r.ctor}:{showSel r.sel}")))

/-- what the driver prints for `ROUTEARMS`: the variants that have an arm of their own in `execute` -/
def renderArms : String :=
  ",".intercalate (sortStrings ((routeTable.filter (fun r => r.arm != .primary)).map (·.ctor)))

end RouteTable
end Shards
end RedisVerif
