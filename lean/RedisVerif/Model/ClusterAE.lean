import RedisVerif.Model.Cluster

/-
  Layer 1 of C06 with STATE TRANSFER (anti-entropy, session 4): besides whole issued deltas
  (`Ev.deliver`), a node may be handed the VALUE another node currently holds for a key — what
  `AntiEntropyManager::get_keys_in_buckets` / `handle_sync_request` / `SimulatedNode::get_all_deltas`
  build (`ReplicationDelta::new(key, value.clone(), replica_id)` from `replicated_keys`) and the
  receiver feeds to the same `apply_remote_delta`.  Such a value is not an issued delta: it is
  the merge of everything the sender had absorbed for the key.

  A transfer is a message like any other: it is built at one moment (`snapshot`), and applied at
  any later moment, any number of times, or never (`applySnap`) — a late or duplicated
  `SyncResponse`, the crosswise application of `run_anti_entropy_sync` (both delta sets are built
  from the pre-states) and a full-state push are all instances.

  Anchors: /repo/src/replication/anti_entropy.rs (`get_keys_in_buckets`, `handle_sync_request`),
  /repo/src/simulator/multi_node.rs (`run_anti_entropy_sync`, `apply_remote_deltas`,
  `get_all_deltas`), /repo/src/replication/state/shard_state.rs (`apply_remote_delta`).
-/
namespace RedisVerif

/-- a state transfer in flight -/
structure Snap where
  /-- the node that built it -/
  src : Nat
  key : Nat
  /-- the value `src` held for `key` at that moment -/
  val : RV
  /-- ghost: the issued deltas `src` had absorbed for `key` at that moment (their values) -/
  carried : List RV
  deriving DecidableEq, Repr

structure ACluster where
  base : Cluster
  snaps : List Snap
  deriving Repr

inductive AEv where
  | ev (e : Ev)
  /-- node `i` reads the value it holds for key `k` into a transfer (nothing when it has none) -/
  | snapshot (i k : Nat)
  /-- node `j` applies transfer `idx` (`apply_remote_delta`) -/
  | applySnap (j idx : Nat)
  deriving DecidableEq, Repr

namespace ACluster

def init (n : Nat) (causal : Bool) : ACluster := { base := Cluster.init n causal, snaps := [] }

/-- the values of the deltas node `i` has absorbed for key `k`, oldest first -/
def carriedOf (log : List Absorbed) (i k : Nat) : List RV :=
  (log.filter (fun a => a.node = i ∧ a.key = k)).map (fun a => a.val)

def step (c : ACluster) : AEv → ACluster
  | .ev e => { c with base := c.base.step e }
  | .snapshot i k =>
    match c.base.nodes[i]? with
    | none => c
    | some s =>
      match NMap.get s.keys k with
      | none => c
      | some v => { c with snaps := c.snaps ++ [⟨i, k, v, carriedOf c.base.log i k⟩] }
  | .applySnap j idx =>
    match c.base.nodes[j]?, c.snaps[idx]? with
    | some s, some sn =>
      { c with
        base := { c.base with
          nodes := c.base.nodes.set j (Shard.applyRemote s sn.key sn.val)
          log := c.base.log ++ sn.carried.map (fun v => ⟨j, sn.key, v⟩) } }
    | _, _ => c

def run (c : ACluster) (evs : List AEv) : ACluster := evs.foldl step c

end ACluster
end RedisVerif
