import RedisVerif.Model.NMap
import RedisVerif.Model.HashBytes

/-
  M8 (ring half) — model of consistent-hash placement and selective gossip routing.

  Anchors: /repo/src/replication/hash_ring.rs (`HashRing::{new, add_node, remove_node,
  get_replicas_with_rf, get_replicas, get_gossip_targets}`),
  /repo/src/replication/gossip_router.rs (`GossipRouter::{from_config, route_deltas,
  route_selective, route_broadcast}`), /repo/src/replication/gossip.rs
  (`GossipState::{queue_deltas, enforce_outbound_capacity}`).

  The SipHash positions are NOT re-implemented: `hashV node vidx` (position of a virtual
  node) is an abstract parameter, a key is represented by its ring position `keyPos`
  (= `HashRing::hash_key(key)`); the driver is fed the real values through hook H2.

  Not modelled: `HashRing::version` (a counter no modelled function reads).
  Replica ids, positions and indices are `Nat` (u64 / usize overflow is not the subject).
-/
namespace RedisVerif
namespace Ring

/-- one entry of `HashRing::ring`: `(position, VirtualNode { physical_node, virtual_index })` -/
structure Slot where
  pos : Nat
  node : Nat
  vidx : Nat
  deriving DecidableEq, Repr, Inhabited

/-- how `add_node`'s sort orders two slots with the SAME position -/
inductive TieBreak where
  | joinOrder  -- `ring.sort_by_key(|(pos, _)| *pos)`: a stable sort by position alone — slots with equal
               -- positions stay in push order, i.e. in the order in which their nodes JOINED (the code as it is)
  | total      -- `ring.sort_by_key(|(pos, v)| (*pos, v.physical_node.0, v.virtual_index))`: position, then
               -- node id, then virtual index — a total order on slots (suggested patch)
  deriving DecidableEq, Repr, Inhabited

/-- the sort key comparison `key(e) <= key(x)` -/
def slotLe (tb : TieBreak) (e x : Slot) : Bool :=
  match tb with
  | .joinOrder => decide (e.pos ≤ x.pos)
  | .total => decide (e.pos < x.pos) || (e.pos == x.pos && (decide (e.node < x.node) || (e.node == x.node && decide (e.vidx ≤ x.vidx))))

/-- insertion into a sorted list, *before* the first slot whose key is `≥` -/
def insertSorted (tb : TieBreak) (e : Slot) : List Slot → List Slot
  | [] => [e]
  | x :: xs => if slotLe tb e x then e :: x :: xs else x :: insertSorted tb e xs

/-- `ring.sort_by_key(..)`: a STABLE sort (slots with equal keys keep their relative order).  A
    stable sort is determined by its input, so insertion sort (structurally recursive:
    kernel-reducible) denotes the same function as Rust's merge sort. -/
def stableSort (tb : TieBreak) (l : List Slot) : List Slot := l.foldr (insertSorted tb) []

/-- the sort key of the current tree: (position, node id, virtual index) since the fix of
    C19:order:position-collision:join-order-decides -/
def currentTieBreak : TieBreak := .total

/-- `HashRing` (without `version`); `tb` is not a field of the Rust struct: it records which sort
    key `add_node` uses, so that the code as it is and the suggested patch are both expressible -/
structure HashRing where
  ring : List Slot
  vnodes : Nat
  rf : Nat
  phys : List Nat
  tb : TieBreak := currentTieBreak
  deriving DecidableEq, Repr, Inhabited

/-- the virtual nodes `add_node` pushes for one physical node, in push order -/
def vnodesOf (hashV : Nat → Nat → Nat) (node vnodes : Nat) : List Slot :=
  (List.range vnodes).map fun i => ⟨hashV node i, node, i⟩

/-- `HashRing::add_node` -/
def addNode (hashV : Nat → Nat → Nat) (r : HashRing) (node : Nat) : HashRing :=
  if r.phys.contains node then r
  else { r with
    phys := r.phys ++ [node]
    ring := stableSort r.tb (r.ring ++ vnodesOf hashV node r.vnodes) }

def emptyTB (tb : TieBreak) (vnodes rf : Nat) : HashRing := { ring := [], vnodes := vnodes, rf := rf, phys := [], tb := tb }

def empty (vnodes rf : Nat) : HashRing := emptyTB currentTieBreak vnodes rf

/-- `HashRing::new(nodes, virtual_nodes_per_physical, replication_factor)` with the given sort key -/
def newTB (tb : TieBreak) (hashV : Nat → Nat → Nat) (nodes : List Nat) (vnodes rf : Nat) : HashRing :=
  nodes.foldl (addNode hashV) (emptyTB tb vnodes rf)

/-- `HashRing::new(nodes, virtual_nodes_per_physical, replication_factor)` -/
def new (hashV : Nat → Nat → Nat) (nodes : List Nat) (vnodes rf : Nat) : HashRing :=
  newTB currentTieBreak hashV nodes vnodes rf

/-- `HashRing::remove_node` -/
def removeNode (r : HashRing) (node : Nat) : HashRing :=
  { r with
    phys := r.phys.filter (fun n => n != node)
    ring := r.ring.filter (fun s => s.node != node) }

/-- `match ring.binary_search_by_key(&key_pos, |(pos,_)| *pos) { Ok(i) => i, Err(i) => i % len }`
    on a ring sorted by position: `Err(i)` is the number of slots with `pos < key_pos`, i.e. the
    first index whose position is `≥ key_pos` (`len`, wrapped to 0, if there is none); `Ok(i)` is
    the index of *a* slot with `pos = key_pos` — the first index with `pos ≥ key_pos` when
    positions are pairwise distinct (`PosInjective`); with duplicate positions equal to the key
    position Rust's choice among them is unspecified and this model picks the first. -/
def startIdx (ring : List Slot) (keyPos : Nat) : Nat :=
  (ring.findIdx fun s => keyPos ≤ s.pos) % ring.length

/-- the clockwise walk of `get_replicas_with_rf`, loop conditions verbatim:
    ```
    while replicas.len() < n && seen.len() < self.physical_nodes.len() {
        let (_, vnode) = &self.ring[idx % ring_len];
        if !seen.contains(&vnode.physical_node) { seen.insert(..); replicas.push(..); }
        idx += 1;
        if idx - start_idx >= ring_len { break; }
    }
    ```
    `fuel` bounds the iterations (the `break` fires after `ring_len` iterations at the latest,
    so `fuel = ring_len` is never exhausted); `seen` is a `HashSet` → `NSet`; the index
    expression carries its bounds proof, so "no out-of-bounds panic" is part of the definition. -/
def walk (ring : List Slot) (hne : 0 < ring.length) (n nphys start : Nat) :
    Nat → Nat → List Nat → NSet → List Nat
  | 0, _, replicas, _ => replicas
  | fuel + 1, idx, replicas, seen =>
    if replicas.length < n ∧ seen.length < nphys then
      let s := ring[idx % ring.length]'(Nat.mod_lt _ hne)
      let fresh := !seen.mem s.node
      let seen' := if fresh then seen.insert s.node else seen
      let replicas' := if fresh then replicas ++ [s.node] else replicas
      if idx + 1 - start ≥ ring.length then replicas'
      else walk ring hne n nphys start fuel (idx + 1) replicas' seen'
    else replicas

/-- `HashRing::get_replicas_with_rf(key, rf)` for a key at ring position `keyPos` -/
def getReplicasWithRf (r : HashRing) (keyPos rf : Nat) : List Nat :=
  if hne : 0 < r.ring.length then
    let n := min rf r.phys.length
    let start := startIdx r.ring keyPos
    walk r.ring hne n r.phys.length start r.ring.length start [] []
  else []

/-- `HashRing::get_replicas` -/
def getReplicas (r : HashRing) (keyPos : Nat) : List Nat := getReplicasWithRf r keyPos r.rf

/-- `HashRing::get_gossip_targets(key, sender)` -/
def gossipTargets (r : HashRing) (keyPos sender : Nat) : List Nat :=
  (getReplicas r keyPos).filter fun n => n != sender

/-- `HashRing::is_responsible` -/
def isResponsible (r : HashRing) (keyPos node : Nat) : Bool := (getReplicas r keyPos).contains node

/-! ## the positions, as the code computes them

  `DefaultHasher` is one byte-stream hash `sip` (`Model/SipHash.lean`: SipHash-1-3, zero key, in
  the driver).  The theorems of `Props/C19.lean` hold for an arbitrary `hashV`; instantiated with
  `vnodePos sip` the run-time hypothesis `PosInjective` becomes a property of `sip` alone. -/

/-- `HashRing::hash_virtual_node(node, i)`: `node.0.hash(h); virtual_index.hash(h)` — the `u64`
    replica id and the `u32` index, little-endian -/
def vnodePos (sip : List Nat → Nat) (node i : Nat) : Nat := sip (HB.le64 node ++ HB.le32 i)

/-- `HashRing::hash_key(key)`: `key.hash(h)` — the key's bytes and `0xff` -/
def keyPosOf (sip : List Nat → Nat) (kb : Nat → List Nat) (k : Nat) : Nat := sip (HB.strBytes kb k)

/-! ## GossipRouter -/

/-- which peer-id arithmetic `GossipRouter::from_config` uses -/
inductive PeerIdArith where
  | pinned   -- `if i as u64 >= config.replica_id { i + 2 } else { i + 1 }` (the code as it is)
  | fixed    -- `if i as u64 + 1 >= config.replica_id { i + 2 } else { i + 1 }` (suggested patch)
  deriving DecidableEq, Repr

/-- id that `from_config` gives the peer at index `i` of `config.peers` -/
def peerId (a : PeerIdArith) (replicaId i : Nat) : Nat :=
  match a with
  | .pinned => if i ≥ replicaId then i + 2 else i + 1
  | .fixed => if i + 1 ≥ replicaId then i + 2 else i + 1

/-- `GossipRouter` — `peers` is `peer_addresses : HashMap<ReplicaId, String>`; an address is
    represented by the index of the string in `config.peers` -/
structure Router where
  self : Nat
  peers : NMap Nat
  selective : Bool
  deriving DecidableEq, Repr, Inhabited

/-- the loop of `from_config` over `config.peers.iter().enumerate()`; `HashMap::insert`
    replaces an existing entry -/
def fromConfigPeers (a : PeerIdArith) (replicaId npeers : Nat) : NMap Nat :=
  (List.range npeers).foldl (fun m i => NMap.insert (peerId a replicaId i) i m) []

/-- `GossipRouter::from_config` (`selective = config.uses_selective_gossip()`) -/
def fromConfigWith (a : PeerIdArith) (replicaId npeers : Nat) (selective : Bool) : Router :=
  { self := replicaId, peers := fromConfigPeers a replicaId npeers, selective := selective }

/-- the arithmetic of the current tree -/
def currentArith : PeerIdArith := .fixed

def fromConfig (replicaId npeers : Nat) (selective : Bool) : Router :=
  fromConfigWith currentArith replicaId npeers selective

/-- `routing_table.entry(target).or_default().push(delta)`; a delta is represented by the ring
    position of its key (the payload is not inspected by routing) -/
def pushDelta (tbl : NMap (List Nat)) (target d : Nat) : NMap (List Nat) :=
  NMap.insertWith (fun new old => old ++ new) target [d] tbl

/-- `GossipRouter::route_selective` -/
def routeSelective (ring : HashRing) (rt : Router) (deltas : List Nat) : NMap (List Nat) :=
  deltas.foldl (fun tbl d =>
    (gossipTargets ring d rt.self).foldl (fun t target =>
      if (rt.peers.get target).isSome then pushDelta t target d else t) tbl) []

/-- `GossipRouter::route_broadcast` -/
def routeBroadcast (rt : Router) (deltas : List Nat) : NMap (List Nat) :=
  rt.peers.foldl (fun tbl p => if p.1 != rt.self then NMap.insert p.1 deltas tbl else tbl) []

/-- `GossipRouter::route_deltas` -/
def routeDeltas (ring : HashRing) (rt : Router) (deltas : List Nat) : NMap (List Nat) :=
  if rt.selective then routeSelective ring rt deltas else routeBroadcast rt deltas

/-! ## GossipState::queue_deltas -/

/-- `RoutedMessage` (source replica / epoch fields omitted) -/
inductive Msg where
  | targeted (target : Nat) (deltas : List Nat)   -- `TargetedDelta`, `target = Some(..)`
  | broadcast (deltas : List Nat)                 -- `DeltaBatch`, `target = None`
  | heartbeat
  deriving DecidableEq, Repr

/-- `enforce_outbound_capacity`: drop the oldest messages beyond `cap` (= `MAX_OUTBOUND_QUEUE`) -/
def enforceCap (cap : Nat) (q : List Msg) : List Msg := q.drop (q.length - cap)

/-- `GossipState::queue_deltas`.  The messages of one call are pushed in the iteration order of
    the routing table (a `HashMap`); the model pushes them in ascending target order (the order
    within one batch is not observable below the capacity limit, and the batch is compared as a
    set by the correspondence). -/
def queueDeltas (cap : Nat) (ring : HashRing) (router : Option Router) (q : List Msg)
    (deltas : List Nat) : List Msg :=
  if deltas.isEmpty then q
  else match router with
    | some rt =>
      if rt.selective then
        let tbl := routeDeltas ring rt deltas
        enforceCap cap (q ++ (tbl.filter (fun p => !p.2.isEmpty)).map (fun p => Msg.targeted p.1 p.2))
      else enforceCap cap (q ++ [Msg.broadcast deltas])
    | none => enforceCap cap (q ++ [Msg.broadcast deltas])

/-! ## the remaining public surface of `HashRing` / `GossipRouter` / `GossipState`, and the
    gossip loops of `production/gossip_manager.rs` (session 3) -/

/-- `HashRing::get_primary` -/
def getPrimary (r : HashRing) (keyPos : Nat) : Option Nat := (getReplicas r keyPos).head?

/-- `HashRing::is_responsible_with_rf` -/
def isResponsibleWithRf (r : HashRing) (keyPos node rf : Nat) : Bool :=
  (getReplicasWithRf r keyPos rf).contains node

/-- `HashRing` with its `version` counter: `add_node` of a member returns early (no increment),
    `add_node` of a new node and EVERY `remove_node` (also of a non-member) increment it -/
structure VRing where
  ring : HashRing
  version : Nat
  deriving DecidableEq, Repr, Inhabited

def VRing.add (hashV : Nat → Nat → Nat) (v : VRing) (node : Nat) : VRing :=
  if v.ring.phys.contains node then v else ⟨addNode hashV v.ring node, v.version + 1⟩

def VRing.remove (v : VRing) (node : Nat) : VRing := ⟨removeNode v.ring node, v.version + 1⟩

def VRing.new (hashV : Nat → Nat → Nat) (nodes : List Nat) (vnodes rf : Nat) : VRing :=
  nodes.foldl (VRing.add hashV) ⟨empty vnodes rf, 0⟩

/-- `HashRing::get_distribution_stats(sample_keys)`: (total assignments, min per node, max per
    node) over the nodes that own at least one sample key (mean / std_dev are floats: not modelled) -/
def distStats (r : HashRing) (keys : List Nat) : Nat × Nat × Nat :=
  let counts : NMap Nat := keys.foldl (fun m k =>
    (getReplicas r k).foldl (fun m n => NMap.insertWith (fun new old => old + new) n 1 m) m) []
  let cs := counts.map (·.2)
  (cs.foldl (· + ·) 0, cs.foldl min (cs.headD 0), cs.foldl max 0)

/-- `GossipRouter::update_peer` / `remove_peer` -/
def Router.updatePeer (rt : Router) (id addr : Nat) : Router := { rt with peers := NMap.insert id addr rt.peers }
def Router.removePeer (rt : Router) (id : Nat) : Router := { rt with peers := NMap.erase id rt.peers }

/-- `GossipRouter::route_with_stats`: the table of `route_deltas` and (total_deltas,
    total_assignments, assignments_saved, unique_targets) -/
def routeWithStats (ring : HashRing) (rt : Router) (deltas : List Nat) : NMap (List Nat) × Nat × Nat × Nat × Nat :=
  let tbl := routeDeltas ring rt deltas
  let total := (tbl.map (·.2.length)).foldl (· + ·) 0
  (tbl, deltas.length, total, deltas.length * rt.peers.length - total, tbl.length)

/-- `GossipRouter::calculate_reduction_ratio`: (selective_msgs, broadcast_msgs) (the ratio is a float) -/
def reductionCounts (ring : HashRing) (rt : Router) (keys : List Nat) : Nat × Nat :=
  if rt.peers.length = 0 then (0, 0)
  else ((keys.map fun k => (gossipTargets ring k rt.self).length).foldl (· + ·) 0, keys.length * rt.peers.length)

/-- `AdaptiveReplicationManager::get_rf_for_key`: the override of a hot key, else `base_rf`
    (which keys are hot is decided by the float-based `HotKeyDetector`: not modelled, the set is input) -/
def rfForKey (overrides : NMap Nat) (base : Nat) (k : Nat) : Nat := (overrides.get k).getD base

/-- `ReplicationConfig::uses_selective_gossip` -/
def usesSelectiveGossip (selective partitioned enabled : Bool) : Bool := selective && partitioned && enabled

/-! ### `GossipState` as a state machine (the queue entries carry the epoch at queue time) -/

structure GState where
  self : Nat
  epoch : Nat
  queue : List (Msg × Nat)
  router : Option Router
  deriving DecidableEq, Repr

def GState.new (self : Nat) (router : Option Router) : GState := ⟨self, 0, [], router⟩

def capQ {α : Type} (cap : Nat) (q : List α) : List α := q.drop (q.length - cap)

/-- `advance_epoch` (`saturating_add`: the saturation at `u64::MAX` is not modelled) -/
def GState.advanceEpoch (g : GState) : GState := { g with epoch := g.epoch + 1 }

def GState.setRouter (g : GState) (rt : Router) : GState := { g with router := some rt }

def GState.isSelective (g : GState) : Bool :=
  match g.router with
  | some rt => rt.selective
  | none => false

def GState.queueHeartbeat (cap : Nat) (g : GState) : GState :=
  { g with queue := capQ cap (g.queue ++ [(Msg.heartbeat, g.epoch)]) }

/-- `queue_deltas_broadcast` -/
def GState.queueBroadcast (cap : Nat) (g : GState) (deltas : List Nat) : GState :=
  if deltas.isEmpty then g else { g with queue := capQ cap (g.queue ++ [(Msg.broadcast deltas, g.epoch)]) }

/-- `queue_deltas` -/
def GState.queueDeltas (cap : Nat) (ring : HashRing) (g : GState) (deltas : List Nat) : GState :=
  if deltas.isEmpty then g
  else match g.router with
    | some rt =>
      if rt.selective then
        let tbl := routeDeltas ring rt deltas
        { g with queue := capQ cap (g.queue ++ (tbl.filter (fun p => !p.2.isEmpty)).map (fun p => (Msg.targeted p.1 p.2, g.epoch))) }
      else { g with queue := capQ cap (g.queue ++ [(Msg.broadcast deltas, g.epoch)]) }
    | none => { g with queue := capQ cap (g.queue ++ [(Msg.broadcast deltas, g.epoch)]) }

def GState.drain (g : GState) : List (Msg × Nat) × GState := (g.queue, { g with queue := [] })

/-! ### the gossip loops (`GossipManager::start_gossip_loop`, `start_gossip_loop_with_actor`)

  Each loop builds its OWN address map `replica id ↦ index into config.peers` — a second copy of
  the arithmetic of `GossipRouter::from_config` — and per tick: `advance_epoch`, `queue_deltas`,
  `drain_outbound`, then sends a targeted message to `peer_map.get(target)` (silently nothing
  when the id is not in the map) and a broadcast message to every configured peer. -/

/-- the arithmetic of the loops' address map in the current tree: `ReplicationConfig::peer_replica_id`,
    the one function `from_config` uses too (fix 9dce37c; before it the loops kept the off-by-one
    `if i >= replica_id { i + 2 } else { i + 1 }` that fix faccb9f had removed from `from_config` only) -/
def loopArith : PeerIdArith := .fixed

/-- what `tokio::time::interval(config.gossip_interval())` does at the start of a loop for a
    configured `gossip_interval_ms` (a plain `u64`): a zero period panics ("`period` must be
    non-zero"), which kills the loop task before its first tick; `clamped` = the period is
    `max(gossip_interval_ms, 1)` ms -/
inductive LoopStart where
  | ticksEvery (ms : Nat)
  | panicZeroPeriod
  deriving DecidableEq, Repr

def loopStart (clamped : Bool) (intervalMs : Nat) : LoopStart :=
  if clamped then .ticksEvery (max intervalMs 1)
  else if intervalMs = 0 then .panicZeroPeriod else .ticksEvery intervalMs

/-- the current tree: `gossip_interval()` is `Duration::from_millis(gossip_interval_ms.max(1))` (fix 0da3af9) -/
def currentIntervalClamped : Bool := true

/-- to which peer INDEX (position in `config.peers`) each drained message is written -/
def dispatch (peerMap : NMap Nat) (npeers : Nat) (msgs : List (Msg × Nat)) : List (Nat × Msg × Nat) :=
  msgs.flatMap fun m =>
    match m.1 with
    | .targeted t _ =>
      match peerMap.get t with
      | some addr => [(addr, m)]
      | none => []
    | _ => (List.range npeers).map fun i => (i, m)

/-- one tick of a gossip loop for the batch `deltas` -/
def loopTick (a : PeerIdArith) (cap : Nat) (ring : HashRing) (replicaId npeers : Nat) (g : GState)
    (deltas : List Nat) : List (Nat × Msg × Nat) × GState :=
  let g1 := (g.advanceEpoch).queueDeltas cap ring deltas
  let (q, g2) := g1.drain
  (dispatch (fromConfigPeers a replicaId npeers) npeers q, g2)

/-- the member a configured peer index stands for ("peers are numbered sequentially, self
    excluded"): the correct arithmetic -/
def memberOfIndex (replicaId i : Nat) : Nat := peerId .fixed replicaId i

/-- the key positions peer index `i` is handed by the dispatched messages -/
def deliveredTo (out : List (Nat × Msg × Nat)) (i : Nat) : List Nat :=
  (out.filter fun e => e.1 == i).flatMap fun e =>
    match e.2.1 with
    | .targeted _ ds => ds
    | .broadcast ds => ds
    | .heartbeat => []

end Ring
end RedisVerif
