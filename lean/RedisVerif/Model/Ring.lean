import RedisVerif.Model.NMap
import RedisVerif.Model.HashBytes

/-
  M8 (ring half) — model of consistent-hash placement and selective gossip routing.

  Anchors: /repo/src/replication/hash_ring.rs (`HashRing::{new, add_node, remove_node,
  get_replicas_with_rf, get_replicas, get_gossip_targets}`),
  /repo/src/replication/gossip_router.rs (`GossipRouter::{from_config, route_deltas,
  route_selective, route_broadcast}`), /repo/src/replication/gossip.rs
  (`GossipState::{queue_deltas, enforce_outbound_capacity}`).

  The SipHash positions are NOT re-implemented: `hashV node vidx` (position of a virtual
  node) is an abstract parameter, a key is represented by its ring position `keyPos`
  (= `HashRing::hash_key(key)`); the driver is fed the real values through hook H2.

  Not modelled: `HashRing::version` (a counter no modelled function reads).
  Replica ids, positions and indices are `Nat` (u64 / usize overflow is not the subject).
-/
namespace RedisVerif
namespace Ring

/-- one entry of `HashRing::ring`: `(position, VirtualNode { physical_node, virtual_index })` -/
structure Slot where
  pos : Nat
  node : Nat
  vidx : Nat
  deriving DecidableEq, Repr, Inhabited

/-- insertion into a list sorted by `pos`, *before* the first slot whose position is `≥` -/
def insertSorted (e : Slot) : List Slot → List Slot
  | [] => [e]
  | x :: xs => if e.pos ≤ x.pos then e :: x :: xs else x :: insertSorted e xs

/-- `ring.sort_by_key(|(pos, _)| *pos)`: a STABLE sort by position (slots with equal positions
    keep their relative order).  A stable sort is determined by its input, so insertion sort
    (structurally recursive: kernel-reducible) denotes the same function as Rust's merge sort. -/
def stableSort (l : List Slot) : List Slot := l.foldr insertSorted []

/-- `HashRing` (without `version`) -/
structure HashRing where
  ring : List Slot
  vnodes : Nat
  rf : Nat
  phys : List Nat
  deriving DecidableEq, Repr, Inhabited

/-- the virtual nodes `add_node` pushes for one physical node, in push order -/
def vnodesOf (hashV : Nat → Nat → Nat) (node vnodes : Nat) : List Slot :=
  (List.range vnodes).map fun i => ⟨hashV node i, node, i⟩

/-- `HashRing::add_node` -/
def addNode (hashV : Nat → Nat → Nat) (r : HashRing) (node : Nat) : HashRing :=
  if r.phys.contains node then r
  else { r with
    phys := r.phys ++ [node]
    ring := stableSort (r.ring ++ vnodesOf hashV node r.vnodes) }

def empty (vnodes rf : Nat) : HashRing := { ring := [], vnodes := vnodes, rf := rf, phys := [] }

/-- `HashRing::new(nodes, virtual_nodes_per_physical, replication_factor)` -/
def new (hashV : Nat → Nat → Nat) (nodes : List Nat) (vnodes rf : Nat) : HashRing :=
  nodes.foldl (addNode hashV) (empty vnodes rf)

/-- `HashRing::remove_node` -/
def removeNode (r : HashRing) (node : Nat) : HashRing :=
  { r with
    phys := r.phys.filter (fun n => n != node)
    ring := r.ring.filter (fun s => s.node != node) }

/-- `match ring.binary_search_by_key(&key_pos, |(pos,_)| *pos) { Ok(i) => i, Err(i) => i % len }`
    on a ring sorted by position: `Err(i)` is the number of slots with `pos < key_pos`, i.e. the
    first index whose position is `≥ key_pos` (`len`, wrapped to 0, if there is none); `Ok(i)` is
    the index of *a* slot with `pos = key_pos` — the first index with `pos ≥ key_pos` when
    positions are pairwise distinct (`PosInjective`); with duplicate positions equal to the key
    position Rust's choice among them is unspecified and this model picks the first. -/
def startIdx (ring : List Slot) (keyPos : Nat) : Nat :=
  (ring.findIdx fun s => keyPos ≤ s.pos) % ring.length

/-- the clockwise walk of `get_replicas_with_rf`, loop conditions verbatim:
    ```
    while replicas.len() < n && seen.len() < self.physical_nodes.len() {
        let (_, vnode) = &self.ring[idx % ring_len];
        if !seen.contains(&vnode.physical_node) { seen.insert(..); replicas.push(..); }
        idx += 1;
        if idx - start_idx >= ring_len { break; }
    }
    ```
    `fuel` bounds the iterations (the `break` fires after `ring_len` iterations at the latest,
    so `fuel = ring_len` is never exhausted); `seen` is a `HashSet` → `NSet`; the index
    expression carries its bounds proof, so "no out-of-bounds panic" is part of the definition. -/
def walk (ring : List Slot) (hne : 0 < ring.length) (n nphys start : Nat) :
    Nat → Nat → List Nat → NSet → List Nat
  | 0, _, replicas, _ => replicas
  | fuel + 1, idx, replicas, seen =>
    if replicas.length < n ∧ seen.length < nphys then
      let s := ring[idx % ring.length]'(Nat.mod_lt _ hne)
      let fresh := !seen.mem s.node
      let seen' := if fresh then seen.insert s.node else seen
      let replicas' := if fresh then replicas ++ [s.node] else replicas
      if idx + 1 - start ≥ ring.length then replicas'
      else walk ring hne n nphys start fuel (idx + 1) replicas' seen'
    else replicas

/-- `HashRing::get_replicas_with_rf(key, rf)` for a key at ring position `keyPos` -/
def getReplicasWithRf (r : HashRing) (keyPos rf : Nat) : List Nat :=
  if hne : 0 < r.ring.length then
    let n := min rf r.phys.length
    let start := startIdx r.ring keyPos
    walk r.ring hne n r.phys.length start r.ring.length start [] []
  else []

/-- `HashRing::get_replicas` -/
def getReplicas (r : HashRing) (keyPos : Nat) : List Nat := getReplicasWithRf r keyPos r.rf

/-- `HashRing::get_gossip_targets(key, sender)` -/
def gossipTargets (r : HashRing) (keyPos sender : Nat) : List Nat :=
  (getReplicas r keyPos).filter fun n => n != sender

/-- `HashRing::is_responsible` -/
def isResponsible (r : HashRing) (keyPos node : Nat) : Bool := (getReplicas r keyPos).contains node

/-! ## the positions, as the code computes them

  `DefaultHasher` is one byte-stream hash `sip` (`Model/SipHash.lean`: SipHash-1-3, zero key, in
  the driver).  The theorems of `Props/C19.lean` hold for an arbitrary `hashV`; instantiated with
  `vnodePos sip` the run-time hypothesis `PosInjective` becomes a property of `sip` alone. -/

/-- `HashRing::hash_virtual_node(node, i)`: `node.0.hash(h); virtual_index.hash(h)` — the `u64`
    replica id and the `u32` index, little-endian -/
def vnodePos (sip : List Nat → Nat) (node i : Nat) : Nat := sip (HB.le64 node ++ HB.le32 i)

/-- `HashRing::hash_key(key)`: `key.hash(h)` — the key's bytes and `0xff` -/
def keyPosOf (sip : List Nat → Nat) (kb : Nat → List Nat) (k : Nat) : Nat := sip (HB.strBytes kb k)

/-! ## GossipRouter -/

/-- which peer-id arithmetic `GossipRouter::from_config` uses -/
inductive PeerIdArith where
  | pinned   -- `if i as u64 >= config.replica_id { i + 2 } else { i + 1 }` (the code as it is)
  | fixed    -- `if i as u64 + 1 >= config.replica_id { i + 2 } else { i + 1 }` (suggested patch)
  deriving DecidableEq, Repr

/-- id that `from_config` gives the peer at index `i` of `config.peers` -/
def peerId (a : PeerIdArith) (replicaId i : Nat) : Nat :=
  match a with
  | .pinned => if i ≥ replicaId then i + 2 else i + 1
  | .fixed => if i + 1 ≥ replicaId then i + 2 else i + 1

/-- `GossipRouter` — `peers` is `peer_addresses : HashMap<ReplicaId, String>`; an address is
    represented by the index of the string in `config.peers` -/
structure Router where
  self : Nat
  peers : NMap Nat
  selective : Bool
  deriving DecidableEq, Repr, Inhabited

/-- the loop of `from_config` over `config.peers.iter().enumerate()`; `HashMap::insert`
    replaces an existing entry -/
def fromConfigPeers (a : PeerIdArith) (replicaId npeers : Nat) : NMap Nat :=
  (List.range npeers).foldl (fun m i => NMap.insert (peerId a replicaId i) i m) []

/-- `GossipRouter::from_config` (`selective = config.uses_selective_gossip()`) -/
def fromConfigWith (a : PeerIdArith) (replicaId npeers : Nat) (selective : Bool) : Router :=
  { self := replicaId, peers := fromConfigPeers a replicaId npeers, selective := selective }

/-- the arithmetic of the current tree -/
def currentArith : PeerIdArith := .fixed

def fromConfig (replicaId npeers : Nat) (selective : Bool) : Router :=
  fromConfigWith currentArith replicaId npeers selective

/-- `routing_table.entry(target).or_default().push(delta)`; a delta is represented by the ring
    position of its key (the payload is not inspected by routing) -/
def pushDelta (tbl : NMap (List Nat)) (target d : Nat) : NMap (List Nat) :=
  NMap.insertWith (fun new old => old ++ new) target [d] tbl

/-- `GossipRouter::route_selective` -/
def routeSelective (ring : HashRing) (rt : Router) (deltas : List Nat) : NMap (List Nat) :=
  deltas.foldl (fun tbl d =>
    (gossipTargets ring d rt.self).foldl (fun t target =>
      if (rt.peers.get target).isSome then pushDelta t target d else t) tbl) []

/-- `GossipRouter::route_broadcast` -/
def routeBroadcast (rt : Router) (deltas : List Nat) : NMap (List Nat) :=
  rt.peers.foldl (fun tbl p => if p.1 != rt.self then NMap.insert p.1 deltas tbl else tbl) []

/-- `GossipRouter::route_deltas` -/
def routeDeltas (ring : HashRing) (rt : Router) (deltas : List Nat) : NMap (List Nat) :=
  if rt.selective then routeSelective ring rt deltas else routeBroadcast rt deltas

/-! ## GossipState::queue_deltas -/

/-- `RoutedMessage` (source replica / epoch fields omitted) -/
inductive Msg where
  | targeted (target : Nat) (deltas : List Nat)   -- `TargetedDelta`, `target = Some(..)`
  | broadcast (deltas : List Nat)                 -- `DeltaBatch`, `target = None`
  | heartbeat
  deriving DecidableEq, Repr

/-- `enforce_outbound_capacity`: drop the oldest messages beyond `cap` (= `MAX_OUTBOUND_QUEUE`) -/
def enforceCap (cap : Nat) (q : List Msg) : List Msg := q.drop (q.length - cap)

/-- `GossipState::queue_deltas`.  The messages of one call are pushed in the iteration order of
    the routing table (a `HashMap`); the model pushes them in ascending target order (the order
    within one batch is not observable below the capacity limit, and the batch is compared as a
    set by the correspondence). -/
def queueDeltas (cap : Nat) (ring : HashRing) (router : Option Router) (q : List Msg)
    (deltas : List Nat) : List Msg :=
  if deltas.isEmpty then q
  else match router with
    | some rt =>
      if rt.selective then
        let tbl := routeDeltas ring rt deltas
        enforceCap cap (q ++ (tbl.filter (fun p => !p.2.isEmpty)).map (fun p => Msg.targeted p.1 p.2))
      else enforceCap cap (q ++ [Msg.broadcast deltas])
    | none => enforceCap cap (q ++ [Msg.broadcast deltas])

end Ring
end RedisVerif
