import RedisVerif.Model.Replica

/-
  M1, the rest of the public API of the replicated value lattice: every `pub fn` of
  /repo/src/replication/lattice.rs, /repo/src/replication/state/crdt_value.rs and
  /repo/src/replication/state/replicated_value.rs that `Model/Crdt.lean` / `Model/Replica.lean`
  (merge of the outer value, the shard's four local operations) do not already transcribe:
  the stand-alone merges of each lattice, the comparisons of vector clocks, the `PartialEq`s, the
  mutators of counters and sets, and every accessor ("all it exposes").

  Same conventions: HashMap / HashSet = canonical sorted `NMap` / `NSet` over Nat codes
  (replica ids are themselves numbers; elements / fields are coded by `Driver.keyCode`; an ORSet
  tag `(replica, sequence)` is the code `replica * 2^64 + sequence`).
-/
namespace RedisVerif

/-! ## LamportClock (the rest: `new`, and the order as a three-way comparison) -/

namespace Stamp

/-- `LamportClock::new` -/
def new (rid : Nat) : Stamp := ⟨0, rid⟩

/-- `Ord::cmp`: 0 = Less, 1 = Equal, 2 = Greater -/
def cmp (a b : Stamp) : Nat := if a.lt b then 0 else if b.lt a then 2 else 1

end Stamp

/-! ## VectorClock -/

namespace VClock

/-- `VectorClock::get`: absent = 0 -/
def get (v : NMap Nat) (r : Nat) : Nat := (NMap.get v r).getD 0

/-- `VectorClock::increment` -/
def increment (v : NMap Nat) (r : Nat) : NMap Nat := NMap.insert r (get v r + 1) v

/-- `VectorClock::merge` -/
def merge (a b : NMap Nat) : NMap Nat := NMap.merge Max.max a b

/-- `VectorClock::happens_before`: no entry of `a` exceeds `b`'s, and either some entry of `a` is
    smaller or `b` has a positive entry for a replica `a` does not list -/
def happensBefore (a b : NMap Nat) : Bool :=
  a.all (fun p => p.2 ≤ get b p.1) &&
  (a.any (fun p => p.2 < get b p.1) || b.any (fun p => (NMap.get a p.1).isNone && p.2 > 0))

/-- `impl PartialEq for VectorClock`: equal `get` on every listed replica of either side -/
def eq (a b : NMap Nat) : Bool :=
  a.all (fun p => get b p.1 == p.2) && b.all (fun p => get a p.1 == p.2)

/-- `VectorClock::concurrent_with` -/
def concurrentWith (a b : NMap Nat) : Bool := !happensBefore a b && !happensBefore b a && !eq a b

end VClock

/-! ## GCounter / PNCounter -/

namespace GCounter

/-- `GCounter::get_replica_count` -/
def replicaCount (c : NMap Nat) (r : Nat) : Nat := (NMap.get c r).getD 0

/-- `GCounter::increment_by` (`increment` = by 1) -/
def incrementBy (c : NMap Nat) (r n : Nat) : NMap Nat := NMap.insert r (replicaCount c r + n) c

/-- `GCounter::value` -/
def value (c : NMap Nat) : Nat := (c.map (·.2)).foldl (· + ·) 0

/-- `GCounter::merge` -/
def merge (a b : NMap Nat) : NMap Nat := NMap.merge Max.max a b

/-- `GCounter::is_empty`: `counts.is_empty() || value() == 0` -/
def isEmpty (c : NMap Nat) : Bool := c.isEmpty || value c == 0

/-- `impl PartialEq for GCounter`: equal count for every replica listed on either side -/
def eq (a b : NMap Nat) : Bool :=
  (a.map (·.1) ++ b.map (·.1)).all (fun r => replicaCount a r == replicaCount b r)

end GCounter

namespace PNCounter

/-- `PNCounter::value`: `positive.value() as i64 - negative.value() as i64` (no wrap modelled) -/
def value (p n : NMap Nat) : Int := (GCounter.value p : Int) - (GCounter.value n : Int)

/-- `PNCounter::is_empty` -/
def isEmpty (p n : NMap Nat) : Bool := GCounter.isEmpty p && GCounter.isEmpty n

/-- `impl PartialEq for PNCounter` -/
def eq (p n p' n' : NMap Nat) : Bool := GCounter.eq p p' && GCounter.eq n n'

end PNCounter

/-! ## GSet / ORSet -/

namespace GSet

/-- `GSet::add` (returns whether the element is new) -/
def add (s : NSet) (e : Nat) : NSet × Bool := (NSet.insert e s, !s.contains e)

def contains (s : NSet) (e : Nat) : Bool := s.contains e

def merge (a b : NSet) : NSet := NSet.union a b

end GSet

namespace ORSet

/-- the code of `UniqueTag { replica_id, sequence }` -/
def tag (replica seq : Nat) : Nat := replica * 18446744073709551616 + seq

/-- `ORSet::add`: the tag is `(replica, next_sequence[replica])`, the counter advances -/
def add (elems : NMap NSet) (next : NMap Nat) (e replica : Nat) : NMap NSet × NMap Nat × Nat :=
  let seq := (NMap.get next replica).getD 0
  let t := tag replica seq
  (NMap.insert e (NSet.insert t ((NMap.get elems e).getD [])) elems, NMap.insert replica (seq + 1) next, t)

/-- `ORSet::remove`: the element's entry is dropped, its tags are returned -/
def remove (elems : NMap NSet) (e : Nat) : NMap NSet × NSet := (NMap.erase e elems, (NMap.get elems e).getD [])

/-- `ORSet::contains`: present with a non-empty tag set -/
def contains (elems : NMap NSet) (e : Nat) : Bool :=
  match NMap.get elems e with
  | some tags => !tags.isEmpty
  | none => false

/-- `ORSet::elements` (those with a non-empty tag set) -/
def elements (elems : NMap NSet) : List Nat := (elems.filter (fun p => !p.2.isEmpty)).map (·.1)

def len (elems : NMap NSet) : Nat := (elements elems).length

/-- `ORSet::get_tags` -/
def getTags (elems : NMap NSet) (e : Nat) : Option NSet := NMap.get elems e

/-- `ORSet::apply_remove`: the given tags leave the element's set; an emptied entry is dropped -/
def applyRemove (elems : NMap NSet) (e : Nat) (removed : NSet) : NMap NSet :=
  match NMap.get elems e with
  | some tags =>
    let rest := tags.filter (fun t => !removed.contains t)
    if rest.isEmpty then NMap.erase e elems else NMap.insert e rest elems
  | none => elems

/-- `impl PartialEq for ORSet`: same element entries with the same tag sets (`next_sequence` is
    NOT compared) -/
def eq (a b : NMap NSet) : Bool :=
  a.length == b.length && a.all (fun p => NMap.get b p.1 == some p.2)

end ORSet

/-! ## CrdtValue -/

namespace Crdt

def newLww (rid : Nat) : Crdt := .lww (Lww.new rid)
def newGCounter : Crdt := .gcounter []
def newPNCounter : Crdt := .pncounter [] []
def newGSet : Crdt := .gset []
def newORSet : Crdt := .orset [] []
def newHash : Crdt := .hash []

/-- the deprecated `CrdtValue::merge`: on a type mismatch it keeps `self` ("this is wrong") -/
def mergeDeprecated (a b : Crdt) : Crdt :=
  match tryMerge a b with
  | some m => m
  | none => a

/-- `type_name` -/
def typeName : Crdt → String
  | lww _ => "lww" | gcounter _ => "gcounter" | pncounter _ _ => "pncounter"
  | gset _ => "gset" | orset _ _ => "orset" | hash _ => "hash"

def isLww : Crdt → Bool
  | lww _ => true
  | _ => false

def asLww : Crdt → Option Lww
  | lww r => some r
  | _ => none

def asGCounter : Crdt → Option (NMap Nat)
  | gcounter c => some c
  | _ => none

def asPNCounter : Crdt → Option (NMap Nat × NMap Nat)
  | pncounter p n => some (p, n)
  | _ => none

def asGSet : Crdt → Option NSet
  | gset s => some s
  | _ => none

def asORSet : Crdt → Option (NMap NSet × NMap Nat)
  | orset e s => some (e, s)
  | _ => none

def asHash : Crdt → Option (NMap Lww)
  | hash h => some h
  | _ => none

end Crdt

/-! ## ReplicatedValue (accessors and the value-level mutators) -/

namespace RV

/-- `with_replication_factor` -/
def withRf (a : RV) (rf : Nat) : RV := { a with rf := some rf }

/-- `get_replication_factor(default)` -/
def getRf (a : RV) (dflt : Nat) : Nat := a.rf.getD dflt

/-- `with_crdt(crdt, replica_id)` -/
def withCrdt (c : Crdt) (rid : Nat) : RV := { crdt := c, vc := none, expiry := none, ts := ⟨0, rid⟩, rf := none }

/-- `crdt_type` -/
def crdtType (a : RV) : String := a.crdt.typeName

/-- `lww()` -/
def lww (a : RV) : Option Lww := a.crdt.asLww

/-- `get_hash()` -/
def getHash (a : RV) : Option (NMap Lww) := a.crdt.asHash

/-- `hash_get(field)` -/
def hashGet (a : RV) (f : Nat) : Option Bytes :=
  match a.crdt with
  | .hash h => (NMap.get h f).bind Lww.get
  | _ => none

/-- `ReplicatedValue::set(value, clock, vc)`: returns the value and the ticked clock (and the
    incremented vector clock when one is passed) -/
def set (a : RV) (v : Bytes) (clock : Stamp) (vc : Option (NMap Nat)) : RV × Stamp × Option (NMap Nat) :=
  let c' := clock.tick
  let vc' := vc.map (fun m => VClock.increment m clock.rid)
  ({ a with crdt := .lww (Lww.set v c'), ts := c', vc := match vc' with | some m => some m | none => a.vc },
   c', vc')

/-- `ReplicatedValue::delete(clock)` -/
def delete (a : RV) (clock : Stamp) : RV × Stamp :=
  match a.crdt with
  | .lww _ => ({ a with crdt := .lww (Lww.delete clock.tick), ts := clock.tick }, clock.tick)
  | .hash h => ({ a with crdt := .hash (NMap.mapVal (fun _ => Lww.delete clock.tick) h), ts := clock.tick }, clock.tick)
  | _ => (a, clock)

/-- `ReplicatedValue::hash_set(field, value, clock)` -/
def hashSet (a : RV) (f : Nat) (v : Bytes) (clock : Stamp) : RV × Stamp :=
  let c' := clock.tick
  ({ a with crdt := .hash (NMap.insert f (Lww.set v c') a.crdt.hashOf), ts := c' }, c')

/-- `ReplicatedValue::hash_delete(field, clock)`: ticks only when the field is stored; the outer
    stamp becomes the clock in every case -/
def hashDelete (a : RV) (f : Nat) (clock : Stamp) : RV × Stamp :=
  match a.crdt with
  | .hash h =>
    match NMap.get h f with
    | some _ => ({ a with crdt := .hash (NMap.insert f (Lww.delete clock.tick) h), ts := clock.tick }, clock.tick)
    | none => ({ a with ts := clock }, clock)
  | _ => ({ a with ts := clock }, clock)

end RV

end RedisVerif
