import RedisVerif.Model.Shards7
import RedisVerif.Model.Actors

/-
  M7/Script7 — Lua scripts over the M7 reference executor, and the requests one shard actor
  message can carry.

  Anchors: /repo/src/redis/executor/script_ops.rs (`execute_lua_script`: the script runs to completion
  INSIDE one `CommandExecutor::execute` call — every `redis.call` / `redis.pcall` is a nested
  `self.execute(cmd)` on the SAME executor, at the SAME `current_time`), /repo/src/production/
  sharded_actor.rs (`EVAL` / `EVALSHA` are routed by `get_primary_key()` = `KEYS[1]` like any
  single-key command; the whole script is ONE `ShardMessage::Command`, hence one `ShardActor::run`
  iteration: `set_time(virtual_time)` once, then `execute`).

  * `Prog`: a deterministic script as the tree of its `redis.call`s — the next call (or the return
    value) is a FUNCTION of the replies received so far.  This covers arbitrary control flow of a Lua
    script whose only effects are its redis calls (the Lua → RESP conversions are C16's).
  * `runProg s now p`: the script on one store at time `now`; no other command runs in between and
    the clock stands still (no sweep between the calls: `exec`, not `step`).
  * `ProgKeys K p`: every call the script can make names only keys in `K` (what declaring KEYS is for).
  * `Req7`: what a client can ask of the node in the C02 model over M7 — one timed command, or one
    timed script with its first key.  `stepN7` is the N-shard node (the message goes to ONE shard,
    which adopts the time and runs the request to completion), `spec7` the one-store specification
    (the script is ONE atomic step `runProg`).  MULTI/EXEC is NOT a request kind: `EXEC` replays the
    queued commands one `execute()` at a time (C05), i.e. as separate `Req7.cmd` requests between which
    other clients' requests may take effect.

  Imports only models.
-/
namespace RedisVerif
namespace Redis

inductive Prog
  | ret (r : Reply)
  | call (c : Cmd) (k : Reply → Prog)

/-- the script runs to completion on one store; the clock stands still -/
def runProg (s : State) (now : Nat) : Prog → State × Reply
  | .ret r => (s, r)
  | .call c k => runProg (exec s now c).1 now (k (exec s now c).2)

/-- every call the script can make names only keys of `K` -/
inductive ProgKeys (K : List Nat) : Prog → Prop
  | ret (r : Reply) : ProgKeys K (.ret r)
  | call (c : Cmd) (k : Reply → Prog) (Kc : List Nat) (hc : cmdKeys c = some Kc)
      (hsub : ∀ x ∈ Kc, x ∈ K) (hk : ∀ r, ProgKeys K (k r)) : ProgKeys K (.call c k)

/-- the scripts of the C03 / C02 correspondence (the harness sends the Lua text, the driver runs
    the program): id, KEYS, ARGV ↦ program.  A `redis.call` that answers an error aborts the script
    with that error; what earlier calls did stays done.
    1. `local v = redis.call('GET', KEYS[1]); redis.call('SET', KEYS[1], ARGV[1]); return v`
    2. `local v = redis.call('RPOP', KEYS[1]); if v then redis.call('LPUSH', KEYS[2], v) end; return v`
    3. `redis.call('INCR', KEYS[1]); return redis.call('INCR', KEYS[1])`
    4. `local o = redis.call('HGET', KEYS[1], ARGV[1]); redis.call('HSET', KEYS[1], ARGV[1], ARGV[2]); return o`
       (ARGV[1] is a field: the driver passes its key code) -/
def scriptCatalog (id : Nat) (keys : List Nat) (args : List BS) (fields : List Nat) : Option Prog :=
  match id, keys, args, fields with
  | 1, [k], [v], _ =>
    some (.call (.get k) (fun r => match r with
      | .err e => .ret (.err e)
      | r => .call (.set k v .always .none false) (fun _ => .ret r)))
  | 2, [a, b], _, _ =>
    some (.call (.rpop a) (fun r => match r with
      | .bulk x => .call (.lpush b [x]) (fun r2 => match r2 with
        | .err e => .ret (.err e)
        | _ => .ret (.bulk x))
      | r => .ret r))
  | 3, [k], _, _ =>
    some (.call (.incr k) (fun r => match r with
      | .err e => .ret (.err e)
      | _ => .call (.incr k) (fun r2 => .ret r2)))
  | 4, [k], [v], [f] =>
    some (.call (.hget k f) (fun r => match r with
      | .err e => .ret (.err e)
      | r => .call (.hset k [(f, v)]) (fun r2 => match r2 with
        | .err e => .ret (.err e)
        | _ => .ret r)))
  | _, _, _, _ => none

end Redis

namespace Shards
namespace M7

open Redis (Entry Prog runProg)

inductive Req7
  /-- one command at the virtual time of its invocation -/
  | cmd (now : Nat) (c : Redis.Cmd)
  /-- EVAL / EVALSHA with `KEYS[1] = k` at the virtual time of its invocation -/
  | script (now : Nat) (k : Nat) (p : Prog)

def Req7.time : Req7 → Nat
  | .cmd now _ => now
  | .script now _ _ => now

/-- the shard whose mailbox gets the request when it travels as one message -/
def route7 (R : Routes) : Req7 → Nat
  | .cmd now c => cmdShard R true (inject now c)
  | .script _ k _ => R.bytes k

/-- a script on `R.N` shards: ONE message to the shard of `KEYS[1]`; that shard adopts the time and
    runs the whole script on ITS store — whatever keys the calls name -/
def execScript7 (R : Routes) (now : Nat) (st : Shards Entry) (k : Nat) (p : Prog) : Shards Entry × Reply :=
  let st0 := sweep (fun j => j == R.bytes k) now st
  let r := runProg (shard st0 (R.bytes k)) now p
  (st0.set (R.bytes k) r.1, .one (.ext r.2))

/-- the N-shard node -/
def stepN7 (R : Routes) (st : Shards Entry) : Req7 → Shards Entry × Reply
  | .cmd now c => execNT7code R now st c
  | .script now k p => execScript7 R now st k p

/-- the ONE-store specification: the command, or the whole script, is one atomic step at its time -/
def spec7 (s : Redis.State) : Req7 → Redis.State × Reply
  | .cmd now c => exec7.exec (Redis.purge s now) (inject now c)
  | .script now _ p =>
    let r := runProg (Redis.purge s now) now p
    (r.1, .one (.ext r.2))

/-- requests with a per-key meaning (C02): commands that name their keys and travel as ONE message
    (single-key commands of every type; two-key commands and MSETNX with their keys on one shard;
    MGET / MSET / DEL / EXISTS of one key = what a shard gets from a fan-out) -/
def CmdOk (R : Routes) (c : Redis.Cmd) : Bool :=
  Routable7 R c &&
  match c with
  | .mget ks | .del ks | .exists ks => ks.length == 1
  | .mset kvs => kvs.length == 1
  | .msetnx kvs => !kvs.isEmpty
  | c => (Redis.cmdKeys c).isSome

/-- the times at which operations take effect never go backwards along the log.  `pend` = the
    invocation time of every request seen so far -/
def LinMono (pend : NMap Nat) (t : Nat) : List (Actors.Ev Req7 Reply) → Prop
  | [] => True
  | .inv id req :: es => LinMono (NMap.insert id req.time pend) t es
  | .lin id _ :: es =>
    match NMap.get pend id with
    | some tr => t ≤ tr ∧ LinMono pend tr es
    | none => LinMono pend t es
  | .res _ _ :: es => LinMono pend t es

end M7
end Shards
end RedisVerif
