import RedisVerif.Model.Crdt

/-
  M4 — model of the streaming (object-store) persistence.

  Anchors (all under /repo/src/streaming):
    object_store.rs   ObjectStore trait (put / get / rename / delete / list), InMemoryObjectStore
    manifest.rs       Manifest (add_segment, compact_segments, allocate_segment_id),
                      ManifestManager (load, load_or_create, save = put tmp + rename)
    persistence.rs    StreamingPersistence (push, flush)
    compaction.rs     Compactor (selection, keep-latest-per-key, tombstone GC, manifest swap)
    recovery.rs       RecoveryManager (recover, recover_with_wal incl. the high-water-mark filter)
    checkpoint.rs     only what recovery reads (state map, last_segment_id)
    segment.rs        only what recovery reads (the list of deltas of a segment)
    wal.rs            only `recover_all_entries` as a list of (entry timestamp, delta)

  Abstractions (recorded in the trusted base of C11–C13):
    * an object is abstract: a complete segment (its deltas), a complete manifest, a complete
      checkpoint, or `torn` (a torn object: present, but every parser rejects it);
    * a delta is `(key code, value)`; `source_replica` is never inspected by the modelled code;
    * `SegmentInfo.key` is always the name derived from the id (`segName`), as `flush` and
      `compact` produce it;
    * `size_bytes` of a written segment is an input of the operation (the serialised size is
      outside the model; it only influences which segments a later compaction selects);
    * iteration order of the compactor's `HashMap` is fixed to key order (each key occurs once in
      the compacted segment, so the per-key fold of a recovery cannot depend on it).

  Repairs under discussion are *flags* of the model functions so that the theorem about the
  repaired code and the counterexample about the pinned code are statements about the same
  function (as `RV.mergeWith` / `Shard.applyRecoveredWith`).
-/
namespace RedisVerif
namespace Stream

abbrev Delta := Nat × RV

/-! ## manifest -/

/-- `SegmentInfo` (the key is `segName id`) -/
structure SegInfo where
  id : Nat
  count : Nat
  size : Nat
  minTs : Nat
  maxTs : Nat
  deriving DecidableEq, Repr, Inhabited

/-- `CheckpointInfo`: `name` identifies the object (`chk-<timestamp_ms>`), `last` = `last_segment_id` -/
structure ChkInfo where
  name : Nat
  last : Nat
  deriving DecidableEq, Repr, Inhabited

/-- `Manifest` -/
structure Manifest where
  version : Nat
  rid : Nat
  segments : List SegInfo
  checkpoint : Option ChkInfo
  next : Nat
  deriving DecidableEq, Repr, Inhabited

namespace Manifest

/-- `Manifest::new` -/
def new (rid : Nat) : Manifest :=
  { version := 0, rid := rid, segments := [], checkpoint := none, next := 0 }

/-- `segments.insert(partition_point(|s| s.id < info.id), info)` on a list sorted by id -/
def insertSeg (info : SegInfo) : List SegInfo → List SegInfo
  | [] => [info]
  | s :: ss => if s.id < info.id then s :: insertSeg info ss else info :: s :: ss

/-- `Manifest::add_segment` -/
def addSegment (m : Manifest) (info : SegInfo) : Manifest :=
  { m with
    next := if info.id ≥ m.next then info.id + 1 else m.next
    segments := insertSeg info m.segments
    version := m.version + 1 }

/-- `Manifest::compact_segments`.  `bump = false` is the pinned commit; `bump = true` is the tree after
    the `fix:` commit: `next_segment_id = max(next_segment_id, last_segment_id + 1)`. -/
def compactSegmentsWith (bump : Bool) (m : Manifest) (c : ChkInfo) : Manifest :=
  { m with
    segments := m.segments.filter (fun s => s.id > c.last)
    checkpoint := some c
    version := m.version + 1
    next := if bump then Max.max m.next (c.last + 1) else m.next }

/-- the current tree (since the `fix:` commit recorded in known_findings.json: `bump = true`) -/
def compactSegments (m : Manifest) (c : ChkInfo) : Manifest := compactSegmentsWith true m c

/-- `Manifest::allocate_segment_id` -/
def allocate (m : Manifest) : Nat × Manifest := (m.next, { m with next := m.next + 1 })

end Manifest

/-! ## objects and the store -/

inductive Obj where
  | segment (deltas : List Delta)
  | manifest (m : Manifest)
  | checkpoint (state : NMap RV) (last : Nat)
  | torn
  deriving DecidableEq, Repr, Inhabited

/-- object names as Nat codes -/
def manifestName : Nat := 0
def tmpName : Nat := 1
def segName (id : Nat) : Nat := 2 * id + 2
def chkName (ts : Nat) : Nat := 2 * ts + 3

abbrev Store := NMap Obj

/-- outcome of one store call as decided by the environment -/
inductive Fault where
  | ok
  | fail          -- the call returns an error, nothing changed
  | failPartial   -- a `put` leaves a torn object under the target key and returns an error
                  -- (any other call: as `fail`)
  | crash         -- the process dies before the call takes effect
  | crashPartial  -- the process dies inside a `put`: a torn object is left under the target key
                  -- (any other call: as `crash`)
  | readCorrupt   -- a `get` returns a mangled body (truncated / bytes flipped / empty) that every
                  -- parser rejects, ONCE, while the object at rest is intact (any other call: as `ok`)
  deriving DecidableEq, Repr, Inhabited

/-- the environment: which fault hits the n-th store call (counted from 0 over the whole run) -/
abbrev Oracle := Nat → Fault

/-- the store plus the call counter and the liveness of the process -/
structure World where
  store : Store
  calls : Nat
  dead : Bool
  deriving DecidableEq, Repr, Inhabited

/-- result of a store call: `err true` = `ErrorKind::NotFound`, `err false` = any other error -/
inductive Res (α : Type) where
  | ok (a : α)
  | err (notFound : Bool)

namespace World

def init (st : Store) : World := { store := st, calls := 0, dead := false }

def tick (w : World) : World := { w with calls := w.calls + 1 }

/-- `ObjectStore::put` -/
def put (F : Oracle) (w : World) (n : Nat) (o : Obj) : World × Res Unit :=
  if w.dead then (w, .err false) else
  match F w.calls with
  | .ok | .readCorrupt => ({ w.tick with store := NMap.insert n o w.store }, .ok ())
  | .fail => (w.tick, .err false)
  | .failPartial => ({ w.tick with store := NMap.insert n .torn w.store }, .err false)
  | .crash => ({ w.tick with dead := true }, .err false)
  | .crashPartial => ({ w.tick with store := NMap.insert n .torn w.store, dead := true }, .err false)

/-- `ObjectStore::get` -/
def get (F : Oracle) (w : World) (n : Nat) : World × Res Obj :=
  if w.dead then (w, .err false) else
  match F w.calls with
  | .ok =>
    match NMap.get w.store n with
    | some o => (w.tick, .ok o)
    | none => (w.tick, .err true)
  | .readCorrupt =>
    match NMap.get w.store n with
    | some _ => (w.tick, .ok .torn)
    | none => (w.tick, .err true)
  | .fail | .failPartial => (w.tick, .err false)
  | .crash | .crashPartial => ({ w.tick with dead := true }, .err false)

/-- `ObjectStore::rename` (atomic) -/
def rename (F : Oracle) (w : World) (src dst : Nat) : World × Res Unit :=
  if w.dead then (w, .err false) else
  match F w.calls with
  | .ok | .readCorrupt =>
    match NMap.get w.store src with
    | some o => ({ w.tick with store := NMap.insert dst o (NMap.erase src w.store) }, .ok ())
    | none => (w.tick, .err true)
  | .fail | .failPartial => (w.tick, .err false)
  | .crash | .crashPartial => ({ w.tick with dead := true }, .err false)

/-- `ObjectStore::delete` (deleting a missing key is `Ok`) -/
def delete (F : Oracle) (w : World) (n : Nat) : World × Res Unit :=
  if w.dead then (w, .err false) else
  match F w.calls with
  | .ok | .readCorrupt => ({ w.tick with store := NMap.erase n w.store }, .ok ())
  | .fail | .failPartial => (w.tick, .err false)
  | .crash | .crashPartial => ({ w.tick with dead := true }, .err false)

/-- `ObjectStore::exists` (named `probe`: `exists` is a keyword): a read-only, faultable call that changes nothing (none of the
    modelled operations of the current tree issues it; the harness store does not count read-only
    probes the model does not know — see harness/src/c12.rs — so adding one is not a difference) -/
def probe (F : Oracle) (w : World) (n : Nat) : World × Res Bool :=
  if w.dead then (w, .err false) else
  match F w.calls with
  | .ok | .readCorrupt => (w.tick, .ok (NMap.get w.store n).isSome)
  | .fail | .failPartial => (w.tick, .err false)
  | .crash | .crashPartial => ({ w.tick with dead := true }, .err false)

/-- `ObjectStore::head`: as `probe`, `NotFound` for a missing object -/
def head (F : Oracle) (w : World) (n : Nat) : World × Res Unit :=
  if w.dead then (w, .err false) else
  match F w.calls with
  | .ok | .readCorrupt => (w.tick, if (NMap.get w.store n).isSome then .ok () else .err true)
  | .fail | .failPartial => (w.tick, .err false)
  | .crash | .crashPartial => ({ w.tick with dead := true }, .err false)

/-- `ObjectStore::list` (all names; none of the modelled operations lists) -/
def list (F : Oracle) (w : World) : World × Res (List Nat) :=
  if w.dead then (w, .err false) else
  match F w.calls with
  | .ok | .readCorrupt => (w.tick, .ok w.store.keys)
  | .fail | .failPartial => (w.tick, .err false)
  | .crash | .crashPartial => ({ w.tick with dead := true }, .err false)

end World

/-! ## ManifestManager -/

/-- `ManifestManager::load_or_create`: `none` = `Err` (I/O error other than NotFound, or an
    object that does not parse as a manifest) -/
def loadOrCreate (F : Oracle) (w : World) (rid : Nat) : World × Option Manifest :=
  match w.get F manifestName with
  | (w1, .ok (.manifest m)) => (w1, some m)
  | (w1, .ok _) => (w1, none)
  | (w1, .err true) => (w1, some (Manifest.new rid))
  | (w1, .err false) => (w1, none)

/-- `ManifestManager::save`: put the temp object, then rename it over the manifest -/
def saveManifest (F : Oracle) (w : World) (m : Manifest) : World × Bool :=
  match w.put F tmpName (.manifest m) with
  | (w1, .err _) => (w1, false)
  | (w1, .ok _) =>
    match w1.rename F tmpName manifestName with
    | (w2, .ok _) => (w2, true)
    | (w2, .err _) => (w2, false)

/-! ## StreamingPersistence -/

structure Pers where
  rid : Nat
  buffer : List Delta
  deriving DecidableEq, Repr, Inhabited

inductive FlushOut where
  | empty                       -- `Ok`, nothing to flush
  | flushed (id count : Nat)    -- `Ok(FlushResult { segment: Some(..) })`
  | error                       -- `Err(_)`
  deriving DecidableEq, Repr

def minTime (ds : List Delta) : Nat :=
  match ds with
  | [] => 0
  | d :: r => r.foldl (fun a x => Min.min a x.2.ts.time) d.2.ts.time

def maxTime (ds : List Delta) : Nat := ds.foldl (fun a x => Max.max a x.2.ts.time) 0

/-- `StreamingPersistence::push` (the backpressure threshold is not reached) -/
def push (p : Pers) (d : Delta) : Pers := { p with buffer := p.buffer ++ [d] }

/-- `StreamingPersistence::flush`.  `restore = false` is the pinned commit (the buffer is taken
    before the first fallible step and dropped by `?`); `restore = true` is the tree after the
    `fix:` commit (the taken deltas are put back on every error path).  `sz` = serialised size of the segment. -/
def flushWith (restore : Bool) (F : Oracle) (sz : Nat) (w : World) (p : Pers) :
    World × Pers × FlushOut :=
  match p.buffer with
  | [] => (w, p, .empty)
  | d0 :: rest =>
    let deltas := d0 :: rest
    let pFail : Pers := if restore then p else { p with buffer := [] }
    let pOk : Pers := { p with buffer := [] }
    match loadOrCreate F w p.rid with
    | (w1, none) => (w1, pFail, .error)
    | (w1, some m) =>
      let (id, m1) := m.allocate
      match w1.put F (segName id) (.segment deltas) with
      | (w2, .err _) => (w2, pFail, .error)
      | (w2, .ok _) =>
        let info : SegInfo :=
          { id := id, count := deltas.length, size := sz, minTs := minTime deltas, maxTs := maxTime deltas }
        match saveManifest F w2 (m1.addSegment info) with
        | (w3, false) => (w3, pFail, .error)
        | (w3, true) => (w3, pOk, .flushed id deltas.length)

/-! ## the state a node ends up with -/

/-- `apply_remote_delta`: merge into the existing value of the key, or insert -/
def applyDelta (m : NMap RV) (d : Delta) : NMap RV :=
  NMap.insertWith (fun new old => RV.merge old new) d.1 d.2 m

def applyAll (m : NMap RV) (l : List Delta) : NMap RV := l.foldl applyDelta m

/-- per-key fold of `RV.merge` over a list of updates -/
def foldState (l : List Delta) : NMap RV := applyAll [] l

/-! ## Compactor -/

structure CompactCfg where
  target : Nat      -- `target_segment_size`
  minSegs : Nat     -- `min_segments_to_compact`
  maxPer : Nat      -- `max_segments_per_compaction`
  now : Nat         -- `time_source.now_millis()` (u64)
  ttlMs : Nat       -- `tombstone_ttl.as_millis()` (u128)
  deriving DecidableEq, Repr, Inhabited

/-- does `tombstone_ttl.as_millis() as u64` saturate (`true`: the suggested repair
    `u64::try_from(..).unwrap_or(u64::MAX)`) or truncate modulo 2^64 (`false`: the code that
    exists — a TTL of 2^64 ms or more wraps around) -/
def ttlSaturates : Bool := true

/-- `self.config.tombstone_ttl.as_millis() as u64` -/
def ttlToU64With (saturate : Bool) (ttlMs : Nat) : Nat :=
  if saturate then Min.min ttlMs (2 ^ 64 - 1) else ttlMs % 2 ^ 64

def ttlToU64 (ttlMs : Nat) : Nat := ttlToU64With ttlSaturates ttlMs

/-- `current_time.saturating_sub(ttl)` in u64 — the code's real arithmetic -/
def cutoffWith (saturate : Bool) (now ttlMs : Nat) : Nat := now - ttlToU64With saturate ttlMs

/-- the tombstone cutoff of a pass: Lamport times strictly below it count as "older than the TTL" -/
def CompactCfg.cutoff (c : CompactCfg) : Nat := cutoffWith ttlSaturates c.now c.ttlMs

/-- the two repairs (both landed as `fix:` commits; `pinnedFlags` is the pinned commit) -/
structure CompactFlags where
  mergeInsteadOfLatest : Bool   -- merge the deltas of a key instead of keeping the latest by time
  missingOnlyNotFound : Bool    -- only `ErrorKind::NotFound` marks a segment as missing
  deriving DecidableEq, Repr, Inhabited

def pinnedFlags : CompactFlags := { mergeInsteadOfLatest := false, missingOnlyNotFound := false }

/-- stable insertion sort by a Nat key (`sort_by_key` is stable) -/
def insertBy {α : Type} (key : α → Nat) (x : α) : List α → List α
  | [] => [x]
  | y :: ys => if key y < key x then y :: insertBy key x ys else x :: y :: ys

def sortBy {α : Type} (key : α → Nat) (l : List α) : List α := l.foldr (insertBy key) []

/-- `select_segments_to_compact` -/
def selectSegments (cfg : CompactCfg) (m : Manifest) : List SegInfo :=
  (sortBy (·.id) (m.segments.filter (fun s => s.size < cfg.target))).take cfg.maxPer

/-- one delta into `key_to_delta` -/
def keepStep (mergeFlag : Bool) (acc : NMap RV) (d : Delta) : NMap RV :=
  if mergeFlag then applyDelta acc d     -- current: `existing.value = existing.value.merge(&delta.value)`
  else
    match NMap.get acc d.1 with
    | none => NMap.insert d.1 d.2 acc
    | some e => if d.2.ts.time > e.ts.time then NMap.insert d.1 d.2 acc else acc

inductive CompactOut where
  | nothing                                       -- `Err(NothingToCompact)`
  | error                                         -- any other `Err`
  | cleaned (removed : List Nat)                  -- only missing segments: manifest cleaned
  | emptied (removed : List Nat) (tombs : Nat)    -- nothing remained: segments removed
  | compacted (removed : List Nat) (created : Nat) (count tombs : Nat)
  deriving DecidableEq, Repr

/-- accumulator of the segment-loading loop -/
structure LoadAcc where
  ktd : NMap RV
  before : Nat
  actually : List SegInfo
  missing : Nat
  failed : Bool        -- (repaired code only) a non-NotFound error aborts the compaction
  deriving Repr

def LoadAcc.init : LoadAcc := { ktd := [], before := 0, actually := [], missing := 0, failed := false }

/-- `key_to_delta.retain(..)`: drop tombstones older than the cutoff -/
def keptOf (cfg : CompactCfg) (ktd : NMap RV) : NMap RV :=
  ktd.filter (fun p => !(p.2.isTombstone && p.2.ts.time < cfg.cutoff))

/-- the loop over the selected segments (`store.get` each) -/
def loadLoop (fl : CompactFlags) (F : Oracle) : World → LoadAcc → List SegInfo → World × LoadAcc
  | w, acc, [] => (w, acc)
  | w, acc, s :: rest =>
    if acc.failed then (w, acc) else
    match w.get F (segName s.id) with
    | (w1, .ok (.segment ds)) =>
      loadLoop fl F w1
        { acc with ktd := ds.foldl (keepStep fl.mergeInsteadOfLatest) acc.ktd
                   before := acc.before + ds.length
                   actually := acc.actually ++ [s] } rest
    | (w1, .ok _) => loadLoop fl F w1 acc rest      -- does not parse: skipped, stays in the manifest
    | (w1, .err nf) =>
      if fl.missingOnlyNotFound && !nf then (w1, { acc with failed := true })
      else loadLoop fl F w1 { acc with actually := acc.actually ++ [s], missing := acc.missing + 1 } rest

/-- best-effort deletion of the removed segments (results ignored) -/
def deleteAll (F : Oracle) : World → List SegInfo → World
  | w, [] => w
  | w, s :: rest => deleteAll F (w.delete F (segName s.id)).1 rest

def removeIds (m : Manifest) (ids : List Nat) : List SegInfo :=
  m.segments.filter (fun s => !ids.contains s.id)

/-- `Compactor::compact`; `sz` = serialised size of the segment it creates (if it creates one) -/
def compactWith (fl : CompactFlags) (F : Oracle) (cfg : CompactCfg) (sz : Nat) (w : World) :
    World × CompactOut :=
  match loadOrCreate F w 0 with
  | (w1, none) => (w1, .error)
  | (w1, some m) =>
    let sel := selectSegments cfg m
    if sel.length < cfg.minSegs then (w1, .nothing) else
    let (w2, acc) := loadLoop fl F w1 LoadAcc.init sel
    if acc.failed then (w2, .error) else
    let ids := acc.actually.map (·.id)
    if acc.missing > 0 && acc.ktd.isEmpty && acc.before == 0 then
      let m' : Manifest := { m with segments := removeIds m ids, version := m.version + 1 }
      match saveManifest F w2 m' with
      | (w3, false) => (w3, .error)
      | (w3, true) => (w3, .cleaned ids)
    else if acc.actually.length < cfg.minSegs then (w2, .nothing) else
    let kept := keptOf cfg acc.ktd
    let tombs := acc.ktd.length - kept.length
    if kept.isEmpty then
      let m' : Manifest := { m with segments := removeIds m ids, version := m.version + 1 }
      match saveManifest F w2 m' with
      | (w3, false) => (w3, .error)
      | (w3, true) => (deleteAll F w3 acc.actually, .emptied ids tombs)
    else
      let deltas := sortBy (fun d : Delta => d.2.ts.time) kept
      let id := m.next
      match w2.put F (segName id) (.segment deltas) with
      | (w3, .err _) => (w3, .error)
      | (w3, .ok _) =>
        let info : SegInfo :=
          { id := id, count := deltas.length, size := sz, minTs := minTime deltas, maxTs := maxTime deltas }
        let m' : Manifest :=
          { ({ m with segments := removeIds m ids } : Manifest).addSegment info with next := id + 1 }
        match saveManifest F w3 m' with
        | (w4, false) => (w4, .error)
        | (w4, true) => (deleteAll F w4 acc.actually, .compacted ids id deltas.length tombs)


/-! ### compaction in two phases (for the flush / compaction interleaving of C13)

`compactLoad` is everything up to and including the reads of the selected segments (it holds the
manifest snapshot taken at the start); `compactFinish` is everything after (tombstone GC, the
`put` of the new segment, the manifest swap written FROM THE SNAPSHOT, the deletes).
`compactWith = compactFinish ∘ compactLoad` (`compactWith_eq_phases`). -/

def compactLoad (fl : CompactFlags) (F : Oracle) (cfg : CompactCfg) (w : World) :
    Sum (World × CompactOut) (World × Manifest × LoadAcc) :=
  match loadOrCreate F w 0 with
  | (w1, none) => .inl (w1, .error)
  | (w1, some m) =>
    let sel := selectSegments cfg m
    if sel.length < cfg.minSegs then .inl (w1, .nothing) else
    let (w2, acc) := loadLoop fl F w1 LoadAcc.init sel
    .inr (w2, m, acc)

def compactFinish (F : Oracle) (cfg : CompactCfg) (sz : Nat) (w2 : World) (m : Manifest) (acc : LoadAcc) :
    World × CompactOut :=
    if acc.failed then (w2, .error) else
    let ids := acc.actually.map (·.id)
    if acc.missing > 0 && acc.ktd.isEmpty && acc.before == 0 then
      let m' : Manifest := { m with segments := removeIds m ids, version := m.version + 1 }
      match saveManifest F w2 m' with
      | (w3, false) => (w3, .error)
      | (w3, true) => (w3, .cleaned ids)
    else if acc.actually.length < cfg.minSegs then (w2, .nothing) else
    let kept := keptOf cfg acc.ktd
    let tombs := acc.ktd.length - kept.length
    if kept.isEmpty then
      let m' : Manifest := { m with segments := removeIds m ids, version := m.version + 1 }
      match saveManifest F w2 m' with
      | (w3, false) => (w3, .error)
      | (w3, true) => (deleteAll F w3 acc.actually, .emptied ids tombs)
    else
      let deltas := sortBy (fun d : Delta => d.2.ts.time) kept
      let id := m.next
      match w2.put F (segName id) (.segment deltas) with
      | (w3, .err _) => (w3, .error)
      | (w3, .ok _) =>
        let info : SegInfo :=
          { id := id, count := deltas.length, size := sz, minTs := minTime deltas, maxTs := maxTime deltas }
        let m' : Manifest :=
          { ({ m with segments := removeIds m ids } : Manifest).addSegment info with next := id + 1 }
        match saveManifest F w3 m' with
        | (w4, false) => (w4, .error)
        | (w4, true) => (deleteAll F w4 acc.actually, .compacted ids id deltas.length tombs)

/-- a compaction with (optionally) one whole `flush` of another task — the persistence actor —
    running between the compactor's reads and its writes -/
def compactInterleaved (restore : Bool) (cfl : CompactFlags) (F : Oracle) (cfg : CompactCfg) (sz : Nat)
    (w : World) (mid : Option (Pers × Nat)) : World × CompactOut × FlushOut :=
  match compactLoad cfl F cfg w with
  | .inl (w1, out) =>
    match mid with
    | none => (w1, out, .empty)
    | some (p, szf) => let r := flushWith restore F szf w1 p; (r.1, out, r.2.2)
  | .inr (w2, m, acc) =>
    match mid with
    | none => let r := compactFinish F cfg sz w2 m acc; (r.1, r.2, .empty)
    | some (p, szf) =>
      let rf := flushWith restore F szf w2 p
      let r := compactFinish F cfg sz rf.1 m acc
      (r.1, r.2, rf.2.2)

/-! ## RecoveryManager -/

inductive RecErr where
  | manifest     -- manifest object present but unparsable (`RecoveryError::Manifest`)
  | io           -- a referenced object is missing: `get` fails (`RecoveryError::Io`)
  | checkpoint   -- referenced checkpoint unparsable (`RecoveryError::Checkpoint`)
  | segment      -- referenced segment unparsable (`RecoveryError::Segment`)
  deriving DecidableEq, Repr

structure Recovered where
  manifest : Manifest
  chk : Option (NMap RV)
  deltas : List Delta
  deriving DecidableEq, Repr

/-- load the listed segments in order (`load_segment`), first failure aborts -/
def loadSegments (st : Store) : List SegInfo → Except RecErr (List Delta)
  | [] => .ok []
  | s :: rest =>
    match NMap.get st (segName s.id) with
    | some (.segment ds) =>
      match loadSegments st rest with
      | .ok r => .ok (ds ++ r)
      | .error e => .error e
    | none => .error .io
    | some _ => .error .segment

/-- the segments recovery reads, in the order it reads them -/
def segmentsToLoad (m : Manifest) : List SegInfo :=
  sortBy (·.minTs)
    (match m.checkpoint with
     | some c => m.segments.filter (fun s => s.id > c.last)
     | none => m.segments)

/-- `RecoveryManager::recover` on a store image (a fresh process, no faults) -/
def recover (st : Store) (rid : Nat) : Except RecErr Recovered :=
  match (match NMap.get st manifestName with
         | none => some (Manifest.new rid)
         | some (.manifest m) => some m
         | some _ => none) with
  | none => .error .manifest
  | some m =>
    match (match m.checkpoint with
           | none => Except.ok none
           | some c =>
             match NMap.get st (chkName c.name) with
             | some (.checkpoint state _) => Except.ok (some state)
             | none => Except.error RecErr.io
             | some _ => Except.error RecErr.checkpoint) with
    | .error e => .error e
    | .ok chk =>
      match loadSegments st (segmentsToLoad m) with
      | .error e => .error e
      | .ok ds => .ok { manifest := m, chk := chk, deltas := ds }

/-- `recover_with_wal`; `wal` = `recover_all_entries()` as (entry timestamp, delta).
    `hwmFilter = true` is the pinned commit (`recover_entries_after(high_water)`);
    `hwmFilter = false` is the tree after the `fix:` commit (replay every WAL entry). -/
def recoverWithWalWith (hwmFilter : Bool) (st : Store) (rid : Nat) (wal : List (Nat × Delta)) :
    Except RecErr Recovered :=
  match recover st rid with
  | .error e => .error e
  | .ok r =>
    let hwm := r.manifest.segments.foldl (fun a s => Max.max a s.maxTs) 0
    let es := if hwmFilter then wal.filter (fun e => e.1 ≥ hwm) else wal
    .ok { r with deltas := r.deltas ++ es.map (·.2) }

/-- the current tree (since the `fix:` commit recorded in known_findings.json: no filter) -/
def recoverWithWal (st : Store) (rid : Nat) (wal : List (Nat × Delta)) : Except RecErr Recovered :=
  recoverWithWalWith false st rid wal

/-- everything recovery hands to the node, in application order: checkpoint entries first
    (plain inserts, one per key), then the deltas -/
def Recovered.updates (r : Recovered) : List Delta := (r.chk.getD []) ++ r.deltas

/-! ## workloads (C12 / C13) -/

inductive Op where
  | push (d : Delta)
  | flush (sz : Nat)
  | compact (cfg : CompactCfg) (sz : Nat)
  deriving DecidableEq, Repr

def Op.isCompact : Op → Bool
  | .compact _ _ => true
  | _ => false

/-- this operation performs no tombstone GC (`cutoff = 0`: no Lamport time is below it) -/
def Op.gcFree : Op → Bool
  | .compact cfg _ => cfg.cutoff == 0
  | _ => true

def Op.pushed? : Op → Option Delta
  | .push d => some d
  | _ => none

/-- every update the workload pushes -/
def pushes (ops : List Op) : List Delta := ops.filterMap Op.pushed?

/-- flags of a whole run -/
structure Flags where
  restoreBuffer : Bool
  compact : CompactFlags
  deriving DecidableEq, Repr, Inhabited

def pinned : Flags := { restoreBuffer := false, compact := pinnedFlags }

/-- the flags that describe the CURRENT tree of /repo (flip a field here when the corresponding
    `fix:` commit lands; the driver and the "current tree" theorems follow) -/
def current : Flags :=
  { restoreBuffer := true, compact := { mergeInsteadOfLatest := true, missingOnlyNotFound := true } }

/-- `StreamingPersistence::flush` of the current tree -/
def flush (F : Oracle) (sz : Nat) (w : World) (p : Pers) : World × Pers × FlushOut :=
  flushWith current.restoreBuffer F sz w p

/-- `Compactor::compact` of the current tree -/
def compact (F : Oracle) (cfg : CompactCfg) (sz : Nat) (w : World) : World × CompactOut :=
  compactWith current.compact F cfg sz w

/-! ### CheckpointManager::should_checkpoint, ManifestManager::{add_segment, update} -/

/-- `CheckpointManager::should_checkpoint` on a loaded manifest: at least `min_segments` listed,
    and the last checkpoint (named by its `timestamp_ms`) at least `interval` old;
    `interval.as_millis() as u64` truncates modulo 2^64 (the code that exists) -/
def shouldCheckpoint (m : Manifest) (minSegs intervalMs now : Nat) : Bool :=
  if m.segments.length < minSegs then false
  else match m.checkpoint with
    | some c => !(decide (now - c.name < intervalMs % 2 ^ 64))
    | none => true

/-- `ManifestManager::add_segment` / `ManifestManager::update(|m| m.add_segment(info))` without a
    concurrent writer: load (NOT load_or_create: a missing manifest is an error), add, save -/
def managerAddSegment (F : Oracle) (w : World) (info : SegInfo) : World × Option Manifest :=
  match w.get F manifestName with
  | (w1, .ok (.manifest m)) =>
    let m' := m.addSegment info
    match saveManifest F w1 m' with
    | (w2, true) => (w2, some m')
    | (w2, false) => (w2, none)
  | (w1, _) => (w1, none)

/-! ### `needs_compaction` / `compact_if_needed` (what `CompactionWorker::run` calls every interval) -/

/-- `Compactor::needs_compaction`: one manifest load; `manifest.segments.len() >= max_segments`;
    `none` = `Err(_)` -/
def needsCompaction (F : Oracle) (maxSegs : Nat) (w : World) : World × Option Bool :=
  match loadOrCreate F w 0 with
  | (w1, none) => (w1, none)
  | (w1, some m) => (w1, some (decide (m.segments.length ≥ maxSegs)))

/-- `Compactor::compact_if_needed`: `Ok(None)` (not needed, or `NothingToCompact`) is `.nothing` -/
def compactIfNeededWith (fl : CompactFlags) (F : Oracle) (cfg : CompactCfg) (maxSegs sz : Nat) (w : World) :
    World × CompactOut :=
  match needsCompaction F maxSegs w with
  | (w1, none) => (w1, .error)
  | (w1, some false) => (w1, .nothing)
  | (w1, some true) => compactWith fl F cfg sz w1

/-- `compact_if_needed` of the current tree -/
def compactIfNeeded (F : Oracle) (cfg : CompactCfg) (maxSegs sz : Nat) (w : World) : World × CompactOut :=
  compactIfNeededWith current.compact F cfg maxSegs sz w

/-- the manifest references only complete objects (and is itself complete) -/
def refsComplete (st : Store) : Bool :=
  match NMap.get st manifestName with
  | none => true
  | some (.manifest m) =>
    m.segments.all (fun s => match NMap.get st (segName s.id) with
      | some (.segment _) => true
      | _ => false) &&
    (match m.checkpoint with
     | none => true
     | some c => match NMap.get st (chkName c.name) with
       | some (.checkpoint _ _) => true
       | _ => false)
  | some _ => false

/-- process + store + ghost record of what was confirmed -/
structure Sys where
  w : World
  p : Pers
  acked : List Delta         -- ghost: updates of every flush that returned `Ok`
  deriving Repr, Inhabited

def Sys.init (st : Store) (rid : Nat) : Sys :=
  { w := World.init st, p := { rid := rid, buffer := [] }, acked := [] }

def stepWith (fl : Flags) (F : Oracle) (s : Sys) : Op → Sys
  | .push d => { s with p := push s.p d }
  | .flush sz =>
    match flushWith fl.restoreBuffer F sz s.w s.p with
    | (w', p', .flushed _ _) => { w := w', p := p', acked := s.acked ++ s.p.buffer }
    | (w', p', _) => { s with w := w', p := p' }
  | .compact cfg sz => { s with w := (compactWith fl.compact F cfg sz s.w).1 }

def runWith (fl : Flags) (F : Oracle) (s : Sys) (ops : List Op) : Sys := ops.foldl (stepWith fl F) s

/-- a run of the current tree -/
def run (F : Oracle) (s : Sys) (ops : List Op) : Sys := runWith current F s ops

end Stream
end RedisVerif
