import RedisVerif.Model.Shards
import RedisVerif.Model.Redis
import RedisVerif.Model.RedisX

/-
  A SMALL concrete per-shard executor (strings + lists) that instantiates `Shards.Exec`:
  what the C03/C02 drivers run, and what the `…_counterexample` theorems are stated about.
  Transcribes, for the commands listed, /repo/src/redis/executor/{string_ops,list_ops,key_ops,mod}.rs
  without expiry.  Its correspondence with the real `CommandExecutor` on these commands is
  checked by the C03 harness on every run (the 1-shard instance IS one `CommandExecutor`).
-/
namespace RedisVerif
namespace Shards
namespace Str

inductive SVal
  | str (b : Bytes)
  | list (l : List Bytes)
  deriving DecidableEq, Repr

inductive Op1
  | get
  | set (v : Bytes)
  | setnx (v : Bytes)
  | append (v : Bytes)
  | strlen
  | incr
  | getdel
  | getset (v : Bytes)
  | typ
  | rpush (vs : List Bytes)
  | lpush (vs : List Bytes)
  | lpop
  | rpop
  | llen
  /-- `LRANGE k 0 -1` -/
  | lrange
  deriving DecidableEq, Repr

inductive Op2
  | rename
  | renamenx
  | rpoplpush
  /-- `LMOVE src dst LEFT|RIGHT LEFT|RIGHT` (`fromLeft`, `toLeft`); RPOPLPUSH = `lmove false true` -/
  | lmove (fromLeft toLeft : Bool)
  /-- `SORT src STORE dst` (ascending numeric order, ties by bytes; lists only here) -/
  | sortStore
  /-- `EVAL "if redis.call('EXISTS', KEYS[1]) == 1 then redis.call('SET', KEYS[2], ARGV[1]) return 1
      else return 0 end" 2 src dst v` — a two-key script, routed by `KEYS[1]` -/
  | evalSetIfExists (v : Bytes)
  deriving DecidableEq, Repr

def sig : Sig := { Val := SVal, Op := Op1, Op2 := Op2, Pat := Bytes }

abbrev St := Store SVal

def errNotInt : Nat := 2
def errOverflow : Nat := 3
def errNoSuchKey : Nat := 4
/-- ERR One or more scores can't be converted into double -/
def errNotDouble : Nat := 6

/-! decimal i64 parsing / printing (`str::parse::<i64>` restricted to the canonical rendering, `i64::to_string`):
    the reference model's functions (`Redis.parseCanon`, `Redis.showInt`: what C01 compares with the real INCR on
    every run) — no second transcription to drift -/

def i64Min : Int := Redis.i64Min
def i64Max : Int := Redis.i64Max

def showInt (i : Int) : Bytes := Redis.showInt i

/-- since the `fix:` commit for C01:incr-noncanonical only the canonical rendering is accepted
    (`007`, `+5`, `-0` are rejected) -/
def parseI64 (b : Bytes) : Option Int := Redis.parseCanon b

def wrongType : Reply := .one (.err errWrongType)

/-- the slot-level meaning of a single-key command: old slot ↦ (new slot, reply) -/
def slot1 (op : Op1) (old : Option SVal) : Option SVal × Reply :=
  match op with
  | .get =>
    match old with
    | none => (old, .one .nil)
    | some (.str b) => (old, .one (.bulk b))
    | some _ => (old, wrongType)
  | .set v => (some (.str v), .one .ok)
  | .setnx v =>
    match old with
    | none => (some (.str v), .one (.int 1))
    | some _ => (old, .one (.int 0))
  | .append v =>
    match old with
    | none => (some (.str v), .one (.int v.length))
    | some (.str b) => (some (.str (b ++ v)), .one (.int (b ++ v).length))
    | some _ => (old, wrongType)
  | .strlen =>
    match old with
    | none => (old, .one (.int 0))
    | some (.str b) => (old, .one (.int b.length))
    | some _ => (old, wrongType)
  | .incr =>
    match old with
    | none => (some (.str (showInt 1)), .one (.int 1))
    | some (.str b) =>
      match parseI64 b with
      | none => (old, .one (.err errNotInt))
      | some i =>
        if i + 1 ≤ i64Max then (some (.str (showInt (i + 1))), .one (.int (i + 1)))
        else (old, .one (.err errOverflow))
    | some _ => (old, wrongType)
  | .getdel =>
    match old with
    | none => (old, .one .nil)
    | some (.str b) => (none, .one (.bulk b))
    | some _ => (old, wrongType)
  | .getset v =>
    match old with
    | none => (some (.str v), .one .nil)
    | some (.str b) => (some (.str v), .one (.bulk b))
    | some _ => (old, wrongType)
  | .typ =>
    match old with
    | none => (old, .one (.bulk [110, 111, 110, 101]))                -- "none"
    | some (.str _) => (old, .one (.bulk [115, 116, 114, 105, 110, 103]))  -- "string"
    | some (.list _) => (old, .one (.bulk [108, 105, 115, 116]))      -- "list"
  | .rpush vs =>
    match old with
    | none => (some (.list vs), .one (.int vs.length))
    | some (.list l) => (some (.list (l ++ vs)), .one (.int (l ++ vs).length))
    | some _ => (old, wrongType)
  | .lpush vs =>
    match old with
    | none => (some (.list vs.reverse), .one (.int vs.length))
    | some (.list l) => (some (.list (vs.reverse ++ l)), .one (.int (vs.reverse ++ l).length))
    | some _ => (old, wrongType)
  | .lpop =>
    match old with
    | none => (old, .one .nil)
    | some (.list []) => (none, .one .nil)
    | some (.list [x]) => (none, .one (.bulk x))
    | some (.list (x :: l)) => (some (.list l), .one (.bulk x))
    | some _ => (old, wrongType)
  | .rpop =>
    match old with
    | none => (old, .one .nil)
    | some (.list l) =>
      match l.getLast? with
      | none => (none, .one .nil)
      | some x => (if l.dropLast.isEmpty then none else some (.list l.dropLast), .one (.bulk x))
    | some _ => (old, wrongType)
  | .llen =>
    match old with
    | none => (old, .one (.int 0))
    | some (.list l) => (old, .one (.int l.length))
    | some _ => (old, wrongType)

  | .lrange =>
    match old with
    | none => (old, .many [])
    | some (.list l) => (old, .many (l.map R1.bulk))
    | some _ => (old, wrongType)

/-- write a slot back -/
def put (s : St) (k : Key) : Option SVal → St
  | none => NMap.erase k s
  | some v => NMap.insert k v s

def exec1 (s : St) (k : Key) (op : Op1) : St × Reply :=
  let r := slot1 op (NMap.get s k)
  (put s k r.1, r.2)

/-- bytewise lexicographic `≤` (`<[u8]>::cmp`) -/
def lexLe : List Nat → List Nat → Bool
  | [], _ => true
  | _ :: _, [] => false
  | a :: as, b :: bs => if a < b then true else if b < a then false else lexLe as bs

def insertSorted (x : Bytes) : List Bytes → List Bytes
  | [] => [x]
  | y :: ys => if lexLe x y then x :: y :: ys else y :: insertSorted x ys

def sortBytes (l : List Bytes) : List Bytes := l.foldr insertSorted []

/-- pop / push ends of LMOVE -/
def popEnd (fromLeft : Bool) (l : List Bytes) : Option (Bytes × List Bytes) :=
  if fromLeft then (match l with | [] => none | x :: r => some (x, r))
  else (match l.getLast? with | none => none | some x => some (x, l.dropLast))

def pushEnd (toLeft : Bool) (x : Bytes) (d : List Bytes) : List Bytes := if toLeft then x :: d else d ++ [x]

/-- RPOPLPUSH / LMOVE: the destination type is checked BEFORE the pop when the source is a list
    (since the `fix:` commit for C17:error-mutates) -/
def moveSlot (fromLeft toLeft same : Bool) (oa ob : Option SVal) : Option SVal × Option SVal × Reply :=
  match oa with
  | none => (oa, ob, .one .nil)
  | some (.str _) => (oa, ob, wrongType)
  | some (.list l) =>
    match ob with
    | some (.str _) => (oa, ob, wrongType)
    | _ =>
      match popEnd fromLeft l with
      | none => (oa, ob, .one .nil)
      | some (x, rest) =>
        let na := if rest.isEmpty then none else some (SVal.list rest)
        let ob' := if same then na else ob
        match ob' with
        | none => (na, some (.list [x]), .one (.bulk x))
        | some (.list d) => (na, some (.list (pushEnd toLeft x d)), .one (.bulk x))
        | some (.str _) => (na, ob', wrongType)

/-- the slot-level meaning of a two-key command as the real executor runs it on ONE store:
    (same key?, old source slot, old destination slot) ↦ (new source slot, new destination slot,
    reply).  The destination is written last. -/
def slot2 (op : Op2) (same : Bool) (oa ob : Option SVal) : Option SVal × Option SVal × Reply :=
  match op with
  | .rename =>
    match oa with
    | none => (oa, ob, .one (.err errNoSuchKey))
    | some v => (none, some v, .one .ok)
  | .renamenx =>
    match oa with
    | none => (oa, ob, .one (.err errNoSuchKey))
    | some v => if ob.isSome then (oa, ob, .one (.int 0)) else (none, some v, .one (.int 1))
  | .rpoplpush => moveSlot false true same oa ob
  | .lmove fl tl => moveSlot fl tl same oa ob
  | .sortStore =>
    match oa with
    | some (.str _) => (oa, ob, wrongType)
    | none => (oa, none, .one (.int 0))
    | some (.list l) =>
      -- numeric since the `fix:` commit for C01:sort-stub-not-numeric: one element that is not a
      -- number fails the command before the destination is touched (`Redis.sortNum` = strtod on
      -- the integer syntax, which is all the C03 generators produce)
      if l.any (fun e => (Redis.sortNum e).isNone) then (oa, ob, .one (.err errNotDouble))
      else if (Redis.sortAll l).isEmpty then (oa, none, .one (.int 0))
      else (oa, some (.list (Redis.sortAll l)), .one (.int (Redis.sortAll l).length))
  | .evalSetIfExists v =>
    if oa.isSome then (oa, some (.str v), .one (.int 1)) else (oa, ob, .one (.int 0))

def exec2 (s : St) (k1 k2 : Key) (op : Op2) : St × Reply :=
  let r := slot2 op (k1 == k2) (NMap.get s k1) (NMap.get s k2)
  (put (put s k1 r.1) k2 r.2.1, r.2.2)

/-! key codes ↔ bytes (the inverse of `Driver.keyCode`), for glob matching -/

def keyBytesAux : Nat → Nat → List Nat → List Nat
  | 0, _, acc => acc
  | f + 1, n, acc => if n ≤ 1 then acc else keyBytesAux f (n / 256) ((n % 256) :: acc)

/-- fuel: a code `n` has fewer than `n` base-256 digits -/
def keyBytes (k : Key) : Bytes := keyBytesAux k k []

/-- one pass over a class body: `RedisX.classScan` with the recursive call bound ONCE.  (`RedisX.classScan`
    mentions its recursive call twice per step — `(…).1` and `(…).2` — which the compiled driver evaluates
    twice: exponential in the number of class-body bytes that differ from the byte looked for; a 300-byte
    pattern with an unclosed `[` made the C03 driver hang.)  Equal to it: `Lemmas/ShardsStr.lean`
    `classScanF_eq`. -/
def classScanF (c : Nat) (p : List Nat) : Bool × List Nat := RedisX.classScan c p

/-- `RedisX.globFuel` (since session 4 `RedisX.classScan` / `globFuel` themselves bind every
    recursive call once, so the separate copies that lived here are gone: one matcher) -/
def globFuelF (n : Nat) (p s : List Nat) : Bool := RedisX.globFuel n p s

/-- `CommandExecutor::glob_match` (src/redis/executor/mod.rs) since the fixes 2ad439d / 0e17d33:
    the matcher scans a class once as Redis' `stringmatchlen` does (`\\x` literal inside and outside a
    class, ranges in either order, `^` negation, an unclosed class runs to the end of the pattern,
    a trailing lone backslash is a literal).  It is the SAME FUNCTION as the reference model's
    `RedisX.globMatch` (C01 compares that one with the real KEYS / SCAN MATCH on every run) —
    `Lemmas/ShardsStr.lean` `globB_eq` — evaluated without the repeated recursive calls. -/
def globB (p k : List Nat) : Bool := globFuelF (2 * (p.length + k.length) + 2) p k

-- `k[0-9]` matches `k5`; an unclosed class runs to the end of the pattern (`k[0-` matches `k0`
-- and `k-`, not itself); `[^]` is an EMPTY negated class: any one byte; an empty class matches
-- nothing; `[z-a]` is the range a..z; `\*` is a literal star
example : globB [107, 91, 48, 45, 57, 93] [107, 53] = true := by decide
example : globB [107, 91, 48, 45] [107, 91, 48, 45] = false := by decide
example : globB [107, 91, 48, 45] [107, 48] = true := by decide
example : globB [91, 94, 93] [113] = true := by decide
example : globB [91, 93] [113] = false := by decide
example : globB [91, 122, 45, 97, 93] [109] = true := by decide
example : globB [92, 42] [42] = true := by decide
example : globB [92, 42] [113] = false := by decide

def exec : Exec sig :=
  { exec1 := exec1
    exec2 := exec2
    str := fun b => SVal.str b
    view := fun v => match v with | .str b => some b | .list _ => none
    glob := fun p k => globB p (keyBytes k) }

end Str
end Shards
end RedisVerif
