import RedisVerif.Model.Wal

/-
  M3 (second half) — the WAL actor in `Always` (group commit) mode on top of the rotator.

  Anchors: /repo/src/streaming/wal_actor.rs (`run_always_mode`, `handle_message_always`,
  `flush_group_commit`, `WalActorHandle::write_durable`).

  The actor is a function of the sequence of mailbox events.  WHEN it flushes is decided by
  timing in the real code (`group_commit_max_wait`, `try_recv` emptiness,
  `group_commit_max_entries`); the model makes that an arbitrary choice: an event list is any
  interleaving of `write` and `flush` events (a `flush` with nothing appended since the last one
  is a no-op, exactly like `flush_group_commit`).  `runGroups` is the specific schedule the real
  loop follows when the mailbox receives the messages in bursts ("groups").
  Every public message of `WalActorHandle` is an event: `write_durable` (`write`),
  `write_fire_and_forget` (`forget`), `sync_tick` (`tick`), `truncate` (`truncate`), `shutdown`
  (= a final `flush`).
-/
namespace RedisVerif
namespace Wal

/-- result delivered to a `write_durable` caller -/
inductive Ack where
  | ok
  | err (e : Err)
  deriving DecidableEq, Repr, Inhabited

/-- one `WalMessage::Write` (payload already serialised) -/
structure Write where
  id : Nat
  data : Bytes
  ts : Nat
  deriving DecidableEq, Repr, Inhabited

/-- the payload/stamp fit the on-disk field widths, and (v2, where `decode` rejects an empty
    entry) the payload is not empty — `bincode::serialize` of a delta never is -/
def Write.Ok (fmt : Format) (crc : Bytes → Nat) (w : Write) : Prop :=
  (Entry.mk' fmt crc w.data w.ts).Fits ∧ (fmt = .v2 → w.data.length ≠ 0)

instance (fmt : Format) (crc : Bytes → Nat) : DecidablePred (Write.Ok fmt crc) := fun w => by
  unfold Write.Ok; infer_instance

/-- an ack that was sent: to whom, for which entry, with what result, and how many I/O calls had
    been issued at that moment (the crash instants `t ≥ io` are those after the ack) -/
structure AckRec where
  id : Nat
  entry : Entry
  res : Ack
  io : Nat
  deriving DecidableEq, Repr, Inhabited

structure Actor where
  rot : Rot
  pending : List (Nat × Entry)   -- `pending_acks` (id, entry appended for it)
  esync : Nat                    -- `entries_since_sync`
  acks : List AckRec             -- newest first
  /-- ghost: 1 + the largest `TruncateUpTo` threshold handled so far (0 = none): entries stamped
      below it may legitimately have been deleted from the WAL -/
  tbound : Nat
  deriving Repr

def Actor.init (maxSize : Nat) : Actor :=
  { rot := Rot.init maxSize, pending := [], esync := 0, acks := [], tbound := 0 }

/-- `handle_message_always` for `WalMessage::Write` -/
def Actor.handleWrite (fix : Bool) (φ : Nat → Outcome) (fmt : Format) (crc : Bytes → Nat) (a : Actor) (w : Write) :
    Actor :=
  let e := Entry.mk' fmt crc w.data w.ts
  match Rot.append fix fmt φ a.rot e with
  | (r, none) => { a with rot := r, esync := a.esync + 1, pending := a.pending ++ [(w.id, e)] }
  | (r, some x) => { a with rot := r, acks := ⟨w.id, e, .err x, r.w.io⟩ :: a.acks }

/-- `handle_message_always` for a `Write` without ack channel (`write_fire_and_forget`): appended
    and counted, nobody waits for it -/
def Actor.handleForget (fix : Bool) (φ : Nat → Outcome) (fmt : Format) (crc : Bytes → Nat) (a : Actor)
    (w : Write) : Actor :=
  match Rot.append fix fmt φ a.rot (Entry.mk' fmt crc w.data w.ts) with
  | (r, none) => { a with rot := r, esync := a.esync + 1 }
  | (r, some _) => { a with rot := r }

/-- `handle_message_always` for `SyncTick`.  CURRENT code (`tickSyncs = false`): a no-op in
    Always mode.  `tickSyncs = true` is the variant in which the tick calls `rotator.sync()` and
    only logs the result — which consumes the one-shot "a writer was dropped without a successful
    fsync" error before the group-commit flush can see it. -/
def Actor.handleTick (fix tickSyncs : Bool) (φ : Nat → Outcome) (a : Actor) : Actor :=
  if tickSyncs && decide (a.esync ≠ 0) then { a with rot := (Rot.sync fix φ a.rot).1 } else a

/-- `handle_message_always` for `TruncateUpTo` -/
def Actor.handleTruncate (φ : Nat → Outcome) (fmt : Format) (crc : Bytes → Nat) (a : Actor) (T : Nat) :
    Actor :=
  { a with rot := Rot.truncate fmt crc φ T a.rot, tbound := Nat.max a.tbound (T + 1) }

/-- `flush_group_commit` -/
def Actor.flush (fix : Bool) (φ : Nat → Outcome) (a : Actor) : Actor :=
  if a.esync = 0 then a
  else
    match Rot.sync fix φ a.rot with
    | (r, ok) =>
      let res := if ok then Ack.ok else Ack.err .fsync
      { rot := r, pending := [], esync := 0,
        acks := (a.pending.map (fun p => (⟨p.1, p.2, res, r.w.io⟩ : AckRec))).reverse ++ a.acks,
        tbound := a.tbound }

/-- incarnation boundary, see `Ev.reopen` -/
def Actor.reopen (fix : Bool) (φ : Nat → Outcome) (crash reuse : Bool) (a : Actor) : Actor :=
  if crash then
    let w' := a.rot.w.push (crashStore a.rot.w.store) .crash
    { a with rot := Rot.reopen reuse { a.rot with w := w' }, pending := [], esync := 0,
             acks := (a.pending.map (fun p => (⟨p.1, p.2, .err .io, w'.io⟩ : AckRec))).reverse ++ a.acks }
  else
    let a1 := Actor.flush fix φ a
    { a1 with rot := Rot.reopen reuse a1.rot }

inductive Ev where
  | write (w : Write)        -- `write_durable`
  | forget (w : Write)       -- `write_fire_and_forget`
  | tick                     -- `sync_tick`
  | truncate (T : Nat)       -- `truncate`
  | flush                    -- group-commit flush (timeout / batch full / `shutdown`)
  /-- end of this actor incarnation and start of the next one over the same store.
      `crash = false`: clean shutdown (final flush), the process restarts, nothing on disk is lost;
      `crash = true`: the machine crashes (every file keeps what a successful fsync covered, writers
      still waiting get no ack), then restarts.  `reuse` selects the variant of `WalRotator::new` /
      `rotate` (see `Rot.reopen`); the current code is `reuse = false`. -/
  | reopen (crash : Bool) (reuse : Bool)
  deriving DecidableEq, Repr, Inhabited

def Actor.step (fix tickSyncs : Bool) (φ : Nat → Outcome) (fmt : Format) (crc : Bytes → Nat)
    (a : Actor) : Ev → Actor
  | .write w => Actor.handleWrite fix φ fmt crc a w
  | .forget w => Actor.handleForget fix φ fmt crc a w
  | .tick => Actor.handleTick fix tickSyncs φ a
  | .truncate T => Actor.handleTruncate φ fmt crc a T
  | .flush => Actor.flush fix φ a
  | .reopen crash reuse => Actor.reopen fix φ crash reuse a

def Actor.run (fix tickSyncs : Bool) (φ : Nat → Outcome) (fmt : Format) (crc : Bytes → Nat)
    (maxSize : Nat) (evs : List Ev) : Actor :=
  evs.foldl (Actor.step fix tickSyncs φ fmt crc) (Actor.init maxSize)

/-- the schedule of `run_always_mode` when the messages arrive in bursts: messages of a burst
    are handled one after the other; as soon as `entries_since_sync` reaches
    `group_commit_max_entries` the batch is flushed; when the mailbox runs empty (and the wait
    times out) whatever is pending is flushed -/
def Actor.runGroup (fix tickSyncs : Bool) (φ : Nat → Outcome) (fmt : Format) (crc : Bytes → Nat)
    (maxEntries : Nat) (a : Actor) (msgs : List Ev) : Actor :=
  Actor.flush fix φ
    (msgs.foldl (fun a m =>
      let a1 := Actor.step fix tickSyncs φ fmt crc a m
      if maxEntries ≤ a1.esync then Actor.flush fix φ a1 else a1) a)

def Actor.runGroups (fix tickSyncs : Bool) (φ : Nat → Outcome) (fmt : Format) (crc : Bytes → Nat)
    (maxSize maxEntries : Nat) (gs : List (List Ev)) : Actor :=
  gs.foldl (Actor.runGroup fix tickSyncs φ fmt crc maxEntries) (Actor.init maxSize)

/-- the store as it was after `t` I/O calls (`t = 0`: before the first one) -/
def World.storeAt (w : World) (t : Nat) : Option Store := w.hist.reverse[t]?

/-- entries WAL recovery returns after a crash that leaves `st` -/
def durable (fmt : Format) (crc : Bytes → Nat) (st : Store) : List Entry := recoverAll fmt crc (crashImage st)

/-! ## the other fsync policies (`run_everysec_mode`, `run_no_mode`)

  `FsyncPolicy::EverySecond`: a `Write` is appended and answered AT ONCE with the result of the
  append (`entries_since_sync` counts the successful ones); a `SyncTick` calls `rotator.sync()` when
  anything was appended since the last tick, only LOGS a failure, and resets the counter either
  way; `Shutdown` does the same once more and stops.  `FsyncPolicy::No`: append and answer, never
  an explicit fsync; `SyncTick` is a no-op.  Both run on the current rotator (which fsyncs a file
  when it rotates away from it).  There is no group-commit flush in these modes: `Ev.flush` is not
  an event of theirs (a no-op here). -/

inductive Policy where
  | always
  | everySecond
  | no
  deriving DecidableEq, Repr, Inhabited

/-- `Write` in EverySecond / No mode: append, answer (if anybody listens) with the append's result -/
def Actor.handleWriteNow (count acked : Bool) (φ : Nat → Outcome) (fmt : Format) (crc : Bytes → Nat)
    (a : Actor) (w : Write) : Actor :=
  let e := Entry.mk' fmt crc w.data w.ts
  match Rot.append true fmt φ a.rot e with
  | (r, none) =>
    { a with rot := r, esync := if count then a.esync + 1 else a.esync,
             acks := if acked then ⟨w.id, e, .ok, r.w.io⟩ :: a.acks else a.acks }
  | (r, some x) =>
    { a with rot := r, acks := if acked then ⟨w.id, e, .err x, r.w.io⟩ :: a.acks else a.acks }

/-- `SyncTick` in EverySecond mode (also the final sync of `Shutdown`): the result of
    `rotator.sync()` is only logged -/
def Actor.tickEverySec (φ : Nat → Outcome) (a : Actor) : Actor :=
  if a.esync = 0 then a else { a with rot := (Rot.sync true φ a.rot).1, esync := 0 }

/-- incarnation boundary in EverySecond / No mode (nobody is ever left waiting for an ack) -/
def Actor.reopenNow (finalSync : Bool) (φ : Nat → Outcome) (crash reuse : Bool) (a : Actor) : Actor :=
  if crash then
    let w' := a.rot.w.push (crashStore a.rot.w.store) .crash
    { a with rot := Rot.reopen reuse { a.rot with w := w' }, pending := [], esync := 0 }
  else
    let a1 := if finalSync then Actor.tickEverySec φ a else a
    { a1 with rot := Rot.reopen reuse a1.rot, esync := 0 }

def Actor.stepP (p : Policy) (φ : Nat → Outcome) (fmt : Format) (crc : Bytes → Nat) (a : Actor) (ev : Ev) : Actor :=
  match p with
  | .always => Actor.step true false φ fmt crc a ev
  | .everySecond =>
    match ev with
    | .write w => Actor.handleWriteNow true true φ fmt crc a w
    | .forget w => Actor.handleWriteNow true false φ fmt crc a w
    | .tick => Actor.tickEverySec φ a
    | .truncate T => Actor.handleTruncate φ fmt crc a T
    | .flush => a
    | .reopen crash reuse => Actor.reopenNow true φ crash reuse a
  | .no =>
    match ev with
    | .write w => Actor.handleWriteNow false true φ fmt crc a w
    | .forget w => Actor.handleWriteNow false false φ fmt crc a w
    | .tick => a
    | .truncate T => Actor.handleTruncate φ fmt crc a T
    | .flush => a
    | .reopen crash reuse => Actor.reopenNow false φ crash reuse a

def Actor.runP (p : Policy) (φ : Nat → Outcome) (fmt : Format) (crc : Bytes → Nat) (maxSize : Nat)
    (evs : List Ev) : Actor :=
  evs.foldl (Actor.stepP p φ fmt crc) (Actor.init maxSize)

/-- `WalConfig` (wal_config.rs): what the constructors produce (durations in µs / ms) -/
structure Config where
  enabled : Bool
  policy : Policy
  maxFileSize : Nat
  maxEntries : Nat
  maxWaitUs : Nat
  truncIntervalMs : Nat
  deriving DecidableEq, Repr

/-- `WalConfig::default()` -/
def Config.default : Config :=
  { enabled := false, policy := .everySecond, maxFileSize := 64 * 1024 * 1024, maxEntries := 64,
    maxWaitUs := 200, truncIntervalMs := 30000 }

/-- `WalConfig::test()` -/
def Config.test : Config :=
  { enabled := true, policy := .always, maxFileSize := 64 * 1024, maxEntries := 8, maxWaitUs := 50,
    truncIntervalMs := 100 }

/-- `WalConfig::always_fsync(dir)` -/
def Config.alwaysFsync : Config := { Config.default with enabled := true, policy := .always }

/-- `WalConfig::every_second(dir)` -/
def Config.everySecondCfg : Config := { Config.default with enabled := true, policy := .everySecond }

/-- the serde names of `FsyncPolicy` (the configuration file / JSON spelling) -/
def Policy.ofName : String → Option Policy
  | "Always" => some .always
  | "EverySecond" => some .everySecond
  | "No" => some .no
  | _ => none

/-- the Always-mode history that drives the rotator exactly like an EverySecond history does: a
    tick that syncs is a group-commit flush (whose acks nobody hears) -/
def Ev.asAlways : Ev → Ev
  | .tick => .flush
  | .flush => .tick      -- no such event in EverySecond mode: a no-op there, and a tick is a no-op in Always mode
  | .write w => .write w
  | .forget w => .forget w
  | .truncate T => .truncate T
  | .reopen c r => .reopen c r

/-! ## the schedule of `run_always_mode`, `Shutdown` messages included

  Where the loop is when it takes a message decides what a `Shutdown` does: at the TOP of the loop
  (`recv().await`) or in the DRAIN loop (`try_recv`) it ends the actor (after a final flush); inside the
  group-commit wait (`timeout(.., async { while .. recv().await .. })`, phase BLOCK) the `return` only
  leaves the async block — the actor flushes, answers the shutdown request, and goes on.  After the
  first message the loop enters the wait iff `0 < entries_since_sync < max_entries`, otherwise the
  drain loop (iff `entries_since_sync < max_entries`); reaching `max_entries` flushes and goes back to
  the top.  Once the actor has stopped nobody handles the remaining messages: a `write_durable` caller
  gets an I/O error ("actor unavailable" / "dropped ack channel"). -/

/-- a mailbox message: an event of the model, a message that changes nothing (a truncation whose
    `store.list()` fails: logged), or `Shutdown` -/
inductive Msg where
  | ev (e : Ev)
  | noop
  | shutdown
  deriving Repr

inductive Phase where
  | top | block | drain
  deriving DecidableEq, Repr

structure Sched where
  a : Actor
  phase : Phase := .top
  alive : Bool := true
  /-- `write_durable` callers whose message was never handled -/
  dropped : List Nat := []

def Msg.ids : Msg → List Nat
  | .ev (.write w) => [w.id]
  | _ => []

def Sched.step (maxEntries : Nat) (φ : Nat → Outcome) (fmt : Format) (crc : Bytes → Nat) (s : Sched) (m : Msg) : Sched :=
  if !s.alive then { s with dropped := s.dropped ++ m.ids } else
  match m with
  | .shutdown =>
    let a1 := Actor.flush true φ s.a
    (match s.phase with
    | .block => { s with a := a1, phase := .drain }
    | _ => { s with a := a1, alive := false })
  | m =>
    let a1 := match m with
      | .ev e => Actor.step true false φ fmt crc s.a e
      | _ => s.a
    if maxEntries ≤ a1.esync then { s with a := Actor.flush true φ a1, phase := .top }
    else
      (match s.phase with
      | .top => { s with a := a1, phase := if a1.esync = 0 then .drain else .block }
      | ph => { s with a := a1, phase := ph })

/-- the mailbox ran empty: the wait times out / the drain loop breaks, what is pending is flushed -/
def Sched.endBurst (φ : Nat → Outcome) (s : Sched) : Sched :=
  if s.alive then { s with a := Actor.flush true φ s.a, phase := .top } else s

def Sched.runBursts (maxEntries : Nat) (φ : Nat → Outcome) (fmt : Format) (crc : Bytes → Nat) (s : Sched)
    (bursts : List (List Msg)) : Sched :=
  bursts.foldl (fun s g => Sched.endBurst φ (g.foldl (Sched.step maxEntries φ fmt crc) s)) s

/-! ## the caller's side of `write_durable`: the 5 s ack timeout, on a virtual clock

  `write_durable` sends the message and then awaits `tokio::time::timeout(5 s, ack_rx)`:
  `Ok(Ok(result)) => result`, `Ok(Err(_))` (the sender was dropped) => I/O error "dropped ack channel",
  `Err(_)` (deadline) => `FsyncFailed("WAL write timed out")`.  `Timeout::poll` polls the inner future
  FIRST (a value that is there wins even when the deadline has passed) and the deadline second.  The
  actor never learns what the caller did: `let _ = tx.send(..)`.  Time is a `Nat` of microseconds
  carried by the events; nothing here reads a wall clock. -/

/-- `Duration::from_secs(5)` of `write_durable`, in microseconds -/
def ackTimeoutUs : Nat := 5000000

/-- what `write_durable` returns -/
inductive Seen where
  | ack (a : Ack)     -- the actor's answer, as sent
  | unavailable       -- the send failed: the actor is gone ("WAL actor unavailable")
  | dropped           -- the ack sender was dropped unanswered ("WAL actor dropped ack channel")
  | timedOut          -- the deadline passed first ("WAL write timed out")
  deriving DecidableEq, Repr, Inhabited

/-- the oneshot channel as the waiting caller finds it -/
inductive Slot where
  | empty
  | value (a : Ack)
  | closed
  deriving DecidableEq, Repr, Inhabited

/-- what happens around one waiting caller, in the order the runtime processes it, each with the
    virtual time at which it happens -/
inductive CEv where
  | deliver (now : Nat) (a : Ack)   -- the actor executes `tx.send(a)`
  | close (now : Nat)               -- the actor drops the sender without sending
  | poll (now : Nat)                -- the runtime polls the caller's `timeout(5 s, ack_rx)`
  deriving DecidableEq, Repr, Inhabited

structure Caller where
  deadline : Nat
  slot : Slot := .empty
  result : Option Seen := none
  deriving DecidableEq, Repr

/-- one event at the caller.  `ackWinsOnlyBeforeDeadline = false` is the CODE (`Timeout::poll`: inner
    future first); `timeoutMeansOk = true` is the variant in which the `Err(_)` arm of `write_durable`
    answers `Ok(())` — kept to state what goes wrong with it -/
def Caller.step (timeoutMeansOk : Bool) (c : Caller) : CEv → Caller
  | .deliver _ a =>
    (match c.result, c.slot with
    | none, .empty => { c with slot := .value a }
    | _, _ => c)     -- the receiver is gone or the channel is used up: `let _ = tx.send(..)`
  | .close _ =>
    (match c.result, c.slot with
    | none, .empty => { c with slot := .closed }
    | _, _ => c)
  | .poll now =>
    (match c.result with
    | some _ => c
    | none =>
      match c.slot with
      | .value a => { c with result := some (.ack a) }
      | .closed => { c with result := some .dropped }
      | .empty =>
        if c.deadline ≤ now then { c with result := some (if timeoutMeansOk then .ack .ok else .timedOut) } else c)

/-- a caller whose message was accepted at virtual time `sentAt` -/
def Caller.start (sentAt : Nat) : Caller := { deadline := sentAt + ackTimeoutUs }

def Caller.run (timeoutMeansOk : Bool) (sentAt : Nat) (evs : List CEv) : Caller :=
  evs.foldl (Caller.step timeoutMeansOk) (Caller.start sentAt)

/-- the events at a caller whose message went out at time 0 and whose ack the actor sends `delay`
    later (`delay ≠ 5 s`; at exactly 5 s the two wake-ups race): polled when it starts to wait, then
    at whichever comes first, the ack or the deadline -/
def callerEvents (delay : Nat) (a : Ack) : List CEv :=
  if delay < ackTimeoutUs then [.poll 0, .deliver delay a, .poll delay]
  else [.poll 0, .poll ackTimeoutUs, .deliver delay a, .poll delay]

/-- what such a caller is told -/
def seenAfter (delay : Nat) (a : Ack) : Option Seen := (Caller.run false 0 (callerEvents delay a)).result

/-- the `write_durable` callers whose ack is only sent when the group-commit WAIT runs out —
    `group_commit_max_wait` after their burst: everybody still pending at the end of a burst that the
    loop sits out in its wait phase (a flush forced by `max_entries` or by a `Shutdown` happens at once) -/
def Sched.lateIds (s : Sched) : List Nat :=
  if s.alive && s.phase == .block then s.a.pending.map (·.1) else []

/-- `Sched.runBursts`, also collecting the late callers of every burst -/
def Sched.runBurstsLate (maxEntries : Nat) (φ : Nat → Outcome) (fmt : Format) (crc : Bytes → Nat) (s : Sched)
    (bursts : List (List Msg)) : Sched × List Nat :=
  bursts.foldl (fun (p : Sched × List Nat) g =>
    let s1 := g.foldl (Sched.step maxEntries φ fmt crc) p.1
    (Sched.endBurst φ s1, p.2 ++ s1.lateIds)) (s, [])

end Wal
end RedisVerif
