import RedisVerif.Model.NMap
import RedisVerif.Model.Redis

/-
  M7/Shards — model of the sharding layer `ShardedActorState`.

  Anchors: /repo/src/production/sharded_actor.rs
    * `hash_key(&str)` / `hash_key_bytes(&[u8])`            → `Routes.str` / `Routes.bytes`
    * `ShardedActorState::execute`                           → `execN`
        PING                      answered without a shard (not modelled: no state, no key)
        FLUSHDB/FLUSHALL          every shard executes FLUSHDB
        KEYS p                    every shard executes KEYS p, replies concatenated in shard order
        MGET                      keys grouped by `hash_key`, one `BatchGet` per non-empty group,
                                  results written back by original index
        MSET                      pairs grouped by `hash_key`, one `BatchSet` per group
        DBSIZE                    every shard, integer replies summed
        SCAN c p n                every shard executes `SCAN 0 p n`, key lists concatenated,
                                  cursor of the reply is always 0
        DEL (≥ 2 keys)            grouped by `hash_key`, one `DEL` per group, integers summed
        EXISTS                    one `EXISTS [k]` per key on `hash_key(k)`, integers summed
        RANDOMKEY                 (since fix 4d9bd05) the shards are asked in turn, the first non-nil
                                  reply is returned, nil if every shard answers nil; the pinned
                                  code (default arm → shard 0 only) is kept as `randomkeyPinned`
        anything else             `get_primary_key()`: `hash_key(first key)`; no key → shard 0
    * `fast_get/fast_set/pooled_fast_get/pooled_fast_set`     → `.fastGet/.fastSet` (routed by `hash_key_bytes`,
                                  executed by `get_direct/set_direct`)
    * `fast_batch_get_pipeline/fast_batch_set_pipeline`       → `.batchGet/.batchSet`
  and the per-shard `CommandExecutor` for the handful of commands whose meaning the sharding
  layer relies on when it aggregates (MGET/BatchGet, MSET/BatchSet, MSETNX, DEL, EXISTS, KEYS,
  DBSIZE, FLUSHDB, SCAN, RANDOMKEY, get_direct, set_direct).

  Everything else the executor does is a PARAMETER: `Exec.exec1` (any command whose only key
  is its primary key) and `Exec.exec2` (two-key commands: RENAME, RENAMENX, RPOPLPUSH, LMOVE,
  SORT..STORE).  The theorems assume only locality of these (`Exec.Local` in
  `Lemmas/Shards.lean`): a command reads and writes only the keys it names.

  The order in which the real code visits per-shard groups (`HashMap` iteration, `join_all`)
  is irrelevant by construction: every group goes to a different shard, shards share no state,
  and the aggregation is either a sum or a write-back by original index.  The model visits
  shards in index order.

  Expiry is not modelled here (C01); the command streams of the C03 correspondence carry no TTL.
  This file imports only core (it is linked into the native driver).
-/
namespace RedisVerif
namespace Shards

abbrev Key := Nat
abbrev Bytes := List Nat
abbrev Store (ν : Type) := NMap ν

/-- the type parameters of a per-shard executor -/
structure Sig where
  Val : Type
  /-- single-key commands (everything routed by its primary key and touching only that key) -/
  Op : Type
  /-- two-key commands (routed by their FIRST key) -/
  Op2 : Type
  /-- glob patterns -/
  Pat : Type

/-- an element of a multi-element reply / a plain reply -/
inductive R1
  | ok
  | nil
  | int (i : Int)
  | bulk (b : Bytes)
  | err (code : Nat)
  /-- a reply of the M7 reference executor, carried verbatim (`Model/Shards7.lean`: the sharding
      model instantiated with `Model.Redis`; the small executor `ShardsStr` never produces it) -/
  | ext (r : Redis.Reply)
  deriving DecidableEq, Repr

inductive Reply
  | one (r : R1)
  /-- ordered multi-element reply (MGET, batch pipelines) -/
  | many (l : List R1)
  /-- UNORDERED list of keys (KEYS) -/
  | keys (l : List Key)
  /-- SCAN: next cursor + unordered page of keys -/
  | scan (cursor : Nat) (l : List Key)
  /-- RANDOMKEY -/
  | rkey (k : Option Key)
  deriving DecidableEq, Repr

/-- error class of `WRONGTYPE Operation against a key holding the wrong kind of value` -/
def errWrongType : Nat := 1

inductive Cmd (S : Sig)
  | single (k : Key) (op : S.Op)
  | two (k1 k2 : Key) (op : S.Op2)
  | mget (ks : List Key)
  | mset (kvs : List (Key × Bytes))
  | msetnx (kvs : List (Key × Bytes))
  | del (ks : List Key)
  | exists (ks : List Key)
  | keys (p : S.Pat)
  | dbsize
  | flush
  | scan (cursor : Nat) (p : Option S.Pat) (count : Option Nat)
  | randomkey
  /-- `fast_get` / `pooled_fast_get` -/
  | fastGet (k : Key)
  /-- `fast_set` / `pooled_fast_set` -/
  | fastSet (k : Key) (v : Bytes)
  /-- `fast_batch_get_pipeline` -/
  | batchGet (ks : List Key)
  /-- `fast_batch_set_pipeline` -/
  | batchSet (kvs : List (Key × Bytes))

/-- the abstract per-shard executor -/
structure Exec (S : Sig) where
  /-- any single-key command, executed whole on one `CommandExecutor` -/
  exec1 : Store S.Val → Key → S.Op → Store S.Val × Reply
  /-- any two-key command, executed whole on one `CommandExecutor` -/
  exec2 : Store S.Val → Key → Key → S.Op2 → Store S.Val × Reply
  /-- `Value::String(SDS::new(bytes))` -/
  str : Bytes → S.Val
  /-- `Some(bytes)` iff the value is a `Value::String` -/
  view : S.Val → Option Bytes
  /-- `matches_glob_pattern` -/
  glob : S.Pat → Key → Bool

section exec
variable {S : Sig} (E : Exec S)

/-- `CommandExecutor::get_direct` (= GET): WRONGTYPE on a non-string -/
def getDirect (s : Store S.Val) (k : Key) : R1 :=
  match NMap.get s k with
  | none => .nil
  | some v =>
    match E.view v with
    | some b => .bulk b
    | none => .err errWrongType

/-- one slot of `execute_mget` / `execute_batch_get`: nil on a non-string -/
def mgetSlot (s : Store S.Val) (k : Key) : R1 :=
  match NMap.get s k with
  | none => .nil
  | some v =>
    match E.view v with
    | some b => .bulk b
    | none => .nil

/-- `set_direct`, one iteration of `execute_mset` / `execute_batch_set` -/
def setStr (s : Store S.Val) (kv : Key × Bytes) : Store S.Val := NMap.insert kv.1 (E.str kv.2) s

def present (s : Store S.Val) (k : Key) : Bool := (NMap.get s k).isSome

/-- `execute_del`: keys are removed one after the other, a repeated key counts once -/
def delKeys : Store S.Val → List Key → Store S.Val × Nat
  | s, [] => (s, 0)
  | s, k :: ks =>
    let r := delKeys (NMap.erase k s) ks
    (r.1, (if present s k then 1 else 0) + r.2)

/-- `execute_exists`: a repeated key counts every time -/
def existsCount (s : Store S.Val) (ks : List Key) : Nat := (ks.filter (present s)).length

def globOpt (p : Option S.Pat) (k : Key) : Bool :=
  match p with
  | none => true
  | some q => E.glob q k

/-- `execute_scan`: matching keys sorted, `skip(cursor).take(count+1)`; the order of the sort is
    that of the key codes (the correspondence uses keys of one length, where it coincides with
    Rust's `String` order) -/
def scanStore (s : Store S.Val) (cursor : Nat) (p : Option S.Pat) (count : Option Nat) : Reply :=
  let cnt := count.getD 10
  let ks := (NMap.keys s).filter (globOpt E p)
  let results := (ks.drop cursor).take (cnt + 1)
  if results.length > cnt then .scan (cursor + cnt) (results.take cnt) else .scan 0 results

/-- one `CommandExecutor` (the sequential specification of a node, and what every shard runs) -/
def Exec.exec (s : Store S.Val) : Cmd S → Store S.Val × Reply
  | .single k op => E.exec1 s k op
  | .two k1 k2 op => E.exec2 s k1 k2 op
  | .mget ks => (s, .many (ks.map (mgetSlot E s)))
  | .mset kvs => (kvs.foldl (setStr E) s, .one .ok)
  | .msetnx kvs =>
    if kvs.any (fun kv => present s kv.1) then (s, .one (.int 0))
    else (kvs.foldl (setStr E) s, .one (.int 1))
  | .del ks => let r := delKeys s ks; (r.1, .one (.int r.2))
  | .exists ks => (s, .one (.int (existsCount s ks)))
  | .keys p => (s, .keys ((NMap.keys s).filter (E.glob p)))
  | .dbsize => (s, .one (.int s.length))
  | .flush => ([], .one .ok)
  | .scan c p n => (s, scanStore E s c p n)
  | .randomkey => (s, .rkey ((NMap.keys s).head?))
  | .fastGet k => (s, .one (getDirect E s k))
  | .fastSet k v => (setStr E s (k, v), .one .ok)
  | .batchGet ks => (s, .many (ks.map (getDirect E s)))
  | .batchSet kvs => (kvs.foldl (setStr E) s, .many (kvs.map (fun _ => .ok)))

end exec

/-! ## the sharding layer -/

/-- the two routing hashes of `sharded_actor.rs`, already reduced modulo the shard count -/
structure Routes where
  N : Nat
  /-- `hash_key(&str, N)`: `str::hash` (bytes then `0xff`) -/
  str : Key → Nat
  /-- `hash_key_bytes(&[u8], N)`: `<[u8]>::hash` (length prefix then bytes) -/
  bytes : Key → Nat

/-- the route used by every `hash_key` call site.  `fixed = true` (the code since fix 872671c, the default
    everywhere): `hash_key` delegates to `hash_key_bytes(key.as_bytes())`.  `fixed = false`: the
    pinned code (two different hashes), kept for the counterexamples. -/
def Routes.gen (R : Routes) (fixed : Bool) (k : Key) : Nat := if fixed then R.bytes k else R.str k

/-- routes given by a finite table `key ↦ (hash_key, hash_key_bytes)` (what the driver uses;
    keys outside the table go to shard 0 on both) -/
def Routes.ofTable (n : Nat) (tbl : NMap (Nat × Nat)) : Routes :=
  { N := n
    str := fun k => match NMap.get tbl k with | some e => e.1 | none => 0
    bytes := fun k => match NMap.get tbl k with | some e => e.2 | none => 0 }

abbrev Shards (ν : Type) := List (Store ν)

def shard {ν : Type} (st : Shards ν) (i : Nat) : Store ν := st.getD i []

/-- elements of `xs` routed to shard `i`, with their original index, in original order -/
def batch {α : Type} (route : α → Nat) (i : Nat) (xs : List α) : List (α × Nat) :=
  xs.zipIdx.filter (fun p => route p.1 == i)

/-- `for (i, resp) in indices.zip(shard_results) { results[i] = resp }` -/
def scatter {β : Type} (res : List β) (idxs : List Nat) (vals : List β) : List β :=
  (idxs.zip vals).foldl (fun r p => r.set p.1 p.2) res

def replyMany : Reply → List R1
  | .many l => l
  | _ => []

def replyKeys : Reply → List Key
  | .keys l => l
  | .scan _ l => l
  | _ => []

/-- `filter_map(|r| if let Integer(n) = r { Some(n) } else { None }).sum()` -/
def replyInt : Reply → Int
  | .one (.int i) => i
  | _ => 0

section execN
variable {S : Sig} (E : Exec S)

/-- send one command to one shard -/
def onShard (st : Shards S.Val) (i : Nat) (c : Cmd S) : Shards S.Val × Reply :=
  let r := E.exec (shard st i) c
  (st.set i r.1, r.2)

/-- send the same command to every shard -/
def fanAll (st : Shards S.Val) (c : Cmd S) : Shards S.Val × List Reply :=
  (st.map (fun s => (E.exec s c).1), st.map (fun s => (E.exec s c).2))

/-- grouped reads, reassembled by original index (MGET, `fast_batch_get_pipeline`) -/
def gatherN (N : Nat) (route : Key → Nat) (st : Shards S.Val) (mk : List Key → Cmd S)
    (ks : List Key) : List R1 :=
  (List.range N).foldl (fun res i =>
      let b := batch route i ks
      scatter res (b.map (·.2)) (replyMany (E.exec (shard st i) (mk (b.map (·.1)))).2))
    (List.replicate ks.length R1.nil)

/-- grouped commands sent shard by shard, states updated, replies collected
    (MSET, DEL, `fast_batch_set_pipeline`).  A shard whose group is empty gets no message in the
    real code; sending the empty group is a no-op of `Exec.exec`, see `Lemmas.Shards`. -/
def groupedN {α : Type} (N : Nat) (route : α → Nat) (st : Shards S.Val) (mk : List α → Cmd S)
    (xs : List α) : Shards S.Val × List Reply :=
  (List.range N).foldl (fun acc i =>
      let b := (batch route i xs).map (·.1)
      if b.isEmpty then acc else
      let r := onShard E acc.1 i (mk b)
      (r.1, acc.2 ++ [r.2]))
    (st, [])

def primaryKey : Cmd S → Option Key
  | .single k _ => some k
  | .two k _ _ => some k
  | .msetnx kvs => kvs.head?.map (·.1)
  | .del ks => ks.head?
  | .mget ks => ks.head?
  | .exists ks => ks.head?
  | .mset kvs => kvs.head?.map (·.1)
  | _ => none

/-- the default arm of `execute`: `get_primary_key()` → `hash_key`, no key → shard 0 -/
def routePrimary (R : Routes) (fixed : Bool) (st : Shards S.Val) (c : Cmd S) : Shards S.Val × Reply :=
  match primaryKey c with
  | some k => onShard E st (R.gen fixed k) c
  | none => onShard E st 0 c

/-- the `Command::RandomKey` arm: `for shard in self.shards.iter() { let r = shard.execute(RandomKey);
    if !matches!(r, BulkString(None)) { return r; } } BulkString(None)` -/
def randomkeyFrom (st : Shards S.Val) : List Nat → Shards S.Val × Reply
  | [] => (st, .rkey none)
  | i :: is =>
    let r := onShard E st i .randomkey
    if r.2 = .rkey none then randomkeyFrom r.1 is else r

/-- what the pinned code did with RANDOMKEY (no key → default arm → shard 0 only); not used by
    `execN` any more, kept for `C03.randomkey_counterexample` -/
def randomkeyPinned (st : Shards S.Val) : Shards S.Val × Reply := onShard E st 0 .randomkey

/-- `ShardedActorState::execute` and the fast entry points, on `R.N` shards -/
def execN (R : Routes) (fixed : Bool) (st : Shards S.Val) (c : Cmd S) : Shards S.Val × Reply :=
  match c with
  | .flush => ((fanAll E st .flush).1, .one .ok)
  | .keys p =>
    let r := fanAll E st (.keys p)
    (r.1, .keys (r.2.flatMap replyKeys))
  | .dbsize =>
    let r := fanAll E st .dbsize
    (r.1, .one (.int (r.2.map replyInt).sum))
  | .scan _ p n =>
    let r := fanAll E st (.scan 0 p n)
    (r.1, .scan 0 (r.2.flatMap replyKeys))
  | .mget ks => (st, .many (gatherN E R.N (R.gen fixed) st .mget ks))
  | .mset kvs => ((groupedN E R.N (fun kv => R.gen fixed kv.1) st .mset kvs).1, .one .ok)
  | .del ks =>
    -- `Command::Del(keys) if keys.len() > 1`
    if ks.length > 1 then
      let r := groupedN E R.N (R.gen fixed) st .del ks
      (r.1, .one (.int (r.2.map replyInt).sum))
    else routePrimary E R fixed st (.del ks)
  | .exists ks =>
    -- `Exists([key])` per key on its shard (read-only: states are threaded for faithfulness)
    let r := ks.foldl (fun acc k =>
        let x := onShard E acc.1 (R.gen fixed k) (.exists [k])
        (x.1, acc.2 + replyInt x.2)) (st, (0 : Int))
    (r.1, .one (.int r.2))
  | .fastGet k => onShard E st (R.bytes k) (.fastGet k)
  | .fastSet k v => onShard E st (R.bytes k) (.fastSet k v)
  | .batchGet ks => (st, .many (gatherN E R.N R.bytes st .batchGet ks))
  | .batchSet kvs =>
    ((groupedN E R.N (fun kv => R.bytes kv.1) st .batchSet kvs).1, .many (kvs.map (fun _ => .ok)))
  | .single k op => routePrimary E R fixed st (.single k op)
  | .two k1 k2 op => routePrimary E R fixed st (.two k1 k2 op)
  | .msetnx kvs => routePrimary E R fixed st (.msetnx kvs)
  | .randomkey => randomkeyFrom E st (List.range R.N)

/-- single-key requests: what one client message to one shard actor carries (C02), including ONE
    ITEM of a batched call (`fast_batch_get_pipeline` / `fast_batch_set_pipeline`) -/
def SingleKey : Cmd S → Bool
  | .single _ _ => true
  | .fastGet _ => true
  | .fastSet _ _ => true
  | .batchGet [_] => true
  | .batchSet [_] => true
  -- one ITEM of a generic fan-out (MGET / MSET / multi-key DEL, FLUSHALL seen from one key)
  | .mget [_] => true
  | .mset [_] => true
  | .del [_] => true
  | _ => false

def cmdKey : Cmd S → Key
  | .single k _ => k
  | .fastGet k => k
  | .fastSet k _ => k
  | .batchGet [k] => k
  | .batchSet [kv] => kv.1
  | .mget [k] => k
  | .mset [kv] => kv.1
  | .del [k] => k
  | _ => 0

/-- the shard a command is sent to when it travels as ONE message: defined for every command kind
    that names a key — it is the home of the command's FIRST key (`get_primary_key` + `hash_key` for
    everything that goes through `execute`, `hash_key_bytes` for the byte paths; one function since
    fix 872671c) -/
def cmdShard (R : Routes) (fixed : Bool) : Cmd S → Nat
  | .single k _ => R.gen fixed k
  | .two k _ _ => R.gen fixed k
  | .msetnx (kv :: _) => R.gen fixed kv.1
  | .del (k :: _) => R.gen fixed k
  | .mget (k :: _) => R.gen fixed k
  | .exists (k :: _) => R.gen fixed k
  | .mset (kv :: _) => R.gen fixed kv.1
  | .fastGet k => R.bytes k
  | .fastSet k _ => R.bytes k
  | .batchGet (k :: _) => R.bytes k
  | .batchSet (kv :: _) => R.bytes kv.1
  | _ => 0

/-- commands that travel as one message to one shard -/
def OneMessage : Cmd S → Bool
  | .single _ _ | .two _ _ _ | .fastGet _ | .fastSet _ _ => true
  | .msetnx (_ :: _) => true
  | .del [_] => true
  | _ => false

/-- a script WITHOUT `KEYS` (`EVAL … 0 …`) has no primary key: it runs on shard 0, whatever keys it
    touches through `ARGV` (an undeclared key access) -/
def execKeyless (st : Shards S.Val) (c : Cmd S) : Shards S.Val × Reply := onShard E st 0 c

/-- the keyspace a client can observe: the union of the shards (first shard wins on a key that
    is stored twice — which `home_unique` excludes) -/
def abs {ν : Type} : Shards ν → Store ν
  | [] => []
  | s :: rest => NMap.merge (fun x _ => x) s (abs rest)

def init (ν : Type) (n : Nat) : Shards ν := List.replicate n []

def runN (R : Routes) (fixed : Bool) (st : Shards S.Val) : List (Cmd S) → Shards S.Val × List Reply
  | [] => (st, [])
  | c :: cs =>
    let r := execN E R fixed st c
    let rs := runN R fixed r.1 cs
    (rs.1, r.2 :: rs.2)

def run1 (s : Store S.Val) : List (Cmd S) → Store S.Val × List Reply
  | [] => (s, [])
  | c :: cs =>
    let r := E.exec s c
    let rs := run1 r.1 cs
    (rs.1, r.2 :: rs.2)

end execN

/-! ## node-global state that is not the keyspace: the script cache

  Anchors: /repo/src/redis/executor/script_ops.rs (`cache_script_internal`, `get_script_internal`,
  `has_script_internal`, `flush_scripts_internal`: all go to the SHARED cache
  (`shared_script_cache`, one `Arc` handed to every shard by `ShardedActorState`) when there is one),
  `execute_lua_script` (EVAL caches its script through `cache_script_internal`),
  /repo/src/production/sharded_actor.rs (`SCRIPT LOAD / EXISTS / FLUSH` have no key → shard 0;
  `EVAL / EVALSHA` → the shard of `KEYS[1]`).

  `shared = true` is the code.  `shared = false` is a per-shard cache (seed
  C03-eval-caches-script-per-shard: lookups try the executor's private cache first, EVAL caches
  into the private cache, SCRIPT LOAD publishes to the shared one, SCRIPT FLUSH clears shard 0's
  private cache and the shared one).  Scripts are identified by a number (their SHA1); every
  script of the model reads its key (`getOp`). -/

inductive SCmd
  | load (i : Nat)
  | exists (i : Nat)
  | flush
  | eval (i : Nat) (k : Key)
  | evalsha (i : Nat) (k : Key)
  deriving DecidableEq, Repr

/-- error class of `NOSCRIPT No matching script` -/
def errNoScript : Nat := 5

structure GState (ν : Type) where
  /-- the cache every shard shares -/
  cache : NSet
  /-- the executors' private caches (unused by the code: `shared = true`) -/
  priv : List NSet
  st : Shards ν

def privOf {ν : Type} (g : GState ν) (i : Nat) : NSet := g.priv.getD i []

section scripts
variable {S : Sig} (E : Exec S)

def execS (getOp : S.Op) (R : Routes) (shared : Bool) (g : GState S.Val) : SCmd → GState S.Val × Reply
  | .load i => ({ g with cache := NSet.insert i g.cache }, .one .ok)
  | .exists i =>
    -- key-less → shard 0
    (g, .one (.int (if g.cache.contains i || (!shared && (privOf g 0).contains i) then 1 else 0)))
  | .flush =>
    ({ g with cache := [], priv := if shared then g.priv else g.priv.set 0 [] }, .one .ok)
  | .eval i k =>
    let h := R.bytes k
    let g1 : GState S.Val :=
      if shared then { g with cache := NSet.insert i g.cache }
      else { g with priv := g.priv.set h (NSet.insert i (privOf g h)) }
    let r := execN E R true g1.st (.single k getOp)
    ({ g1 with st := r.1 }, r.2)
  | .evalsha i k =>
    let h := R.bytes k
    if g.cache.contains i || (!shared && (privOf g h).contains i) then
      let r := execN E R true g.st (.single k getOp)
      ({ g with st := r.1 }, r.2)
    else (g, .one (.err errNoScript))

def ginit (ν : Type) (n : Nat) : GState ν := { cache := [], priv := List.replicate n [], st := init ν n }

def runS (getOp : S.Op) (R : Routes) (shared : Bool) (g : GState S.Val) : List SCmd → List Reply
  | [] => []
  | c :: cs =>
    let r := execS E getOp R shared g c
    r.2 :: runS getOp R shared r.1 cs

end scripts

end Shards
end RedisVerif
