import RedisVerif.Model.Redis

/-
  The keys an M7 command names (`Model/Redis.lean` is the reference executor C01 validates against
  the real `CommandExecutor`).  Used by the locality theorem (`Lemmas/RedisLocal.lean`:
  `exec_localOn`) and by the M7 instance of the sharding model (`Model/Shards7.lean`).
  Imports only core + models (linked into the native driver).
-/
namespace RedisVerif.Redis

/-- the keys a command names; `none` for the commands whose reply / effect is a function of the
    whole keyspace (KEYS, DBSIZE, FLUSHDB, FLUSHALL, RANDOMKEY) -/
def cmdKeys : Cmd → Option (List Nat)
  | .get k | .set k _ _ _ _ | .setnx k _ | .append k _ | .getset k _ | .strlen k
  | .getrange k _ _ | .setrange k _ _ | .getex k _ | .getdel k
  | .incr k | .decr k | .incrby k _ | .decrby k _
  | .type k
  | .expire k _ _ | .pexpire k _ _ | .expireat k _ _ | .pexpireat k _ _
  | .ttl k | .pttl k | .expiretime k | .pexpiretime k | .persist k
  | .lpush k _ | .rpush k _ | .lpop k | .rpop k | .llen k | .lindex k _ | .lrange k _ _
  | .lset k _ _ | .ltrim k _ _
  | .sadd k _ | .srem k _ | .smembers k | .sismember k _ | .scard k | .spop k _ _
  | .hset k _ | .hget k _ | .hdel k _ | .hgetall k | .hkeys k | .hvals k | .hlen k
  | .hexists k _ | .hincrby k _ _
  | .zadd k _ _ | .zrem k _ | .zrange k _ _ _ | .zrevrange k _ _ _ | .zscore k _ | .zrank k _
  | .zcard k | .zcount k _ _ | .zrangebyscore k _ _ _ _
  | .sort k none => some [k]
  | .rename a b | .renamenx a b | .rpoplpush a b | .lmove a b _ _ | .sort a (some b) => some [a, b]
  | .mget ks | .del ks | .exists ks => some ks
  | .mset kvs | .msetnx kvs => some (kvs.map (·.1))
  | .keys | .dbsize | .flushdb | .flushall | .randomkey _ => none

end RedisVerif.Redis
