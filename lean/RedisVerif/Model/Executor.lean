import RedisVerif.Model.Redis
import RedisVerif.Model.ExecutorCode

/-
  `Model.Executor` — the `CommandExecutor` of /repo AS IT IS (src/redis/executor/mod.rs, string_ops.rs,
  key_ops.rs, list_ops.rs, set_ops.rs, hash_ops.rs, sorted_set_ops.rs), transcribed function by function.

  Unlike `Model.Redis` (M7, the SPECIFICATION written from Redis' documentation) this is a transcription
  of the code:

  * the state is the executor's own: TWO maps — `data : key ↦ Value` and `expirations : key ↦ deadline`
    (virtual ms) — plus `current_time` (virtual ms, u64) and `simulation_start_epoch_ms`; a key can be
    physically present although it is past its deadline (lazy expiry), a deadline is stored next to the
    value, not inside it, so "a command forgets to clear / move / drop the deadline" is expressible
    (that is where most of the repaired C01 defects were);
  * `is_expired`, `get_value` / `get_value_mut` (drop the key when it is past its deadline, on access),
    `evict_expired_keys` / `set_time` / `update_time_readonly` / `evict_expired_direct`;
  * every `execute_*` with its own order of checks, its own lazy-expiry preamble (some use `get_value`,
    some `is_expired` + `data.remove`, some only `is_expired` + `contains_key`), its own i64 / u64
    arithmetic (`saturating_add/sub/mul`, `checked_add`, `as i64`, `as u64`, `i64::MAX / 1000`) and an
    explicit `none` = panic outcome where overflow-checked u64 arithmetic could trap
    (`VirtualTime + Duration`, `Duration::from_secs`).

  The VALUES are M7's (`Redis.Value`): the containers behind them (`RedisList`, `RedisSortedSet` +
  `SkipList`, `SDS`) are transcribed and proved to refine these in `Model/SkipList.lean`,
  `Model/DataStructs.lean`, `Props/C01Data.lean`; `RedisSet` / `RedisHash` are thin wrappers of
  `HashSet<String>` / `HashMap<String, SDS>` = `NMap`.  So this layer is "the executor over the
  specification of its containers".

  `Props/C01Exec.lean` proves that this transcription REFINES M7: for every state satisfying the
  executor's invariant (`verify_invariants` of mod.rs, which the release build never runs), every clock
  value and every command, the reply is M7's reply and the visible keyspace afterwards is M7's — except
  exactly where the two recorded findings say (`GETSET` on a key with a deadline, `GETRANGE` with an
  inverted negative range).  The harness ties the transcription to the real code on every run (`XC`
  lines of the C01 / C17 op stream: reply, PHYSICAL key set of `data` including lazily expired keys,
  `INFO`'s `keys_with_expiration`).

  No imports outside core.  Only structural recursion.
-/
namespace RedisVerif.Executor
open RedisVerif.Redis

/-! ## machine integers -/

def two64 : Nat := 18446744073709551616

/-- clamp to i64 (`saturating_*`) -/
def sat (i : Int) : Int := if i > i64Max then i64Max else if i < i64Min then i64Min else i

/-- `x as i64` for a u64 -/
def asI64 (n : Nat) : Int := if (n : Int) ≤ i64Max then (n : Int) else (n : Int) - (two64 : Int)

/-- `x as u64` for an i64 -/
def asU64 (i : Int) : Nat := if 0 ≤ i then i.toNat else (i + (two64 : Int)).toNat

/-- overflow-checked u64 addition (the harness builds /repo with overflow checks; `none` = panic) -/
def u64Add (a b : Nat) : Option Nat := if a + b < two64 then some (a + b) else none

/-- `Duration::from_secs(s)` = `Duration(s * 1000)` -/
def u64Mul1000 (a : Nat) : Option Nat := if a * 1000 < two64 then some (a * 1000) else none

/-- `a.checked_add(b)` on i64 -/
def checkedAdd (a b : Int) : Option Int := if inI64 (a + b) then some (a + b) else none

/-! ## the state -/

structure CState where
  data : NMap Value          -- `data: AHashMap<String, Value>`
  exp : NMap Nat             -- `expirations: AHashMap<String, VirtualTime>` (virtual ms)
  now : Nat                  -- `current_time` (virtual ms)
  epoch : Nat                -- `simulation_start_epoch_ms` (configuration; i64, non-negative)
  deriving DecidableEq, Repr

def CState.new (epoch : Nat) : CState := ⟨[], [], 0, epoch⟩

/-- `simulation_start_epoch_ms.saturating_add(current_time.as_millis() as i64)` -/
def basetimeMs (cs : CState) : Int := sat ((cs.epoch : Int) + asI64 cs.now)

/-- `is_expired` -/
def isExpired (cs : CState) (k : Nat) : Bool :=
  match NMap.get cs.exp k with
  | some d => decide (d ≤ cs.now)
  | none => false

/-- `self.data.remove(key); self.expirations.remove(key);` -/
def dropKey (cs : CState) (k : Nat) : CState :=
  { cs with data := NMap.erase k cs.data, exp := NMap.erase k cs.exp }

/-- `get_value` / `get_value_mut`: a key past its deadline is dropped on access -/
def getValue (cs : CState) (k : Nat) : CState × Option Value :=
  if isExpired cs k then (dropKey cs k, none) else (cs, NMap.get cs.data k)

/-- the preamble `if self.is_expired(key) { data.remove; expirations.remove }` -/
def lazyDrop (cs : CState) (k : Nat) : CState := if isExpired cs k then dropKey cs k else cs

/-- `!self.is_expired(key) && self.data.contains_key(key)` -/
def liveKey (cs : CState) (k : Nat) : Bool := !isExpired cs k && (NMap.get cs.data k).isSome

/-! ## the clock -/

/-- `evict_expired_keys`: `expirations.retain(exp > now)`, every dropped key leaves `data` -/
def evict (cs : CState) : CState :=
  { cs with
    exp := cs.exp.filter (fun p => !decide (p.2 ≤ cs.now)),
    data := cs.data.filter (fun p => !isExpired cs p.1) }

/-- `set_time` (what the shard actor does before every command) and `evict_expired_direct` -/
def setTime (cs : CState) (t : Nat) : CState := evict { cs with now := t }

/-- `update_time_readonly`: the clock only -/
def updateTimeReadonly (cs : CState) (t : Nat) : CState := { cs with now := t }

/-- number of entries `evict_expired_direct` reports -/
def evictCount (cs : CState) (t : Nat) : Nat := (cs.exp.filter (fun p => decide (p.2 ≤ t))).length

/-! ## strings (string_ops.rs) -/

def wrongType : Reply := .err .wrongType

/-- `execute_get` (also `get_direct`) -/
def cGet (cs : CState) (k : Nat) : CState × Reply :=
  match getValue cs k with
  | (c, some (.str b)) => (c, .bulk b)
  | (c, some _) => (c, wrongType)
  | (c, none) => (c, .nil)

/-- `set_direct` -/
def cSetDirect (cs : CState) (k : Nat) (v : BS) : CState × Reply :=
  ({ cs with data := NMap.insert k (.str v) cs.data, exp := NMap.erase k cs.exp }, .ok)

/-- `execute_setnx` -/
def cSetNx (cs : CState) (k : Nat) (v : BS) : CState × Reply :=
  if liveKey cs k then (cs, .int 0)
  else ({ cs with data := NMap.insert k (.str v) cs.data, exp := NMap.erase k cs.exp }, .int 1)

/-- the arguments of `execute_set` as the `Command::Set` fields carry them -/
structure SetArgs where
  ex : Option Int := none
  px : Option Int := none
  exat : Option Int := none
  pxat : Option Int := none
  nx : Bool := false
  xx : Bool := false
  get : Bool := false
  keepttl : Bool := false
  deriving DecidableEq, Repr

/-- the validation block at the head of `execute_set` (`true` = "invalid expire time") -/
def setArgsInvalid (cs : CState) (a : SetArgs) : Bool :=
  (match a.ex with
   | some s => decide (s ≤ 0) || decide (s > i64MaxDiv1000) || (checkedAdd (s * 1000) (basetimeMs cs)).isNone
   | none => false) ||
  (match a.px with
   | some m => decide (m ≤ 0) || (checkedAdd m (basetimeMs cs)).isNone
   | none => false) ||
  (match a.exat with
   | some t => decide (t ≤ 0) || decide (t > i64MaxDiv1000)
   | none => false) ||
  (match a.pxat with
   | some t => decide (t ≤ 0)
   | none => false)

/-- "Handle expiration" of `execute_set`, after the value has been stored; `none` = u64 overflow panic -/
def setExpiry (cs : CState) (k : Nat) (a : SetArgs) : Option CState :=
  match a.ex with
  | some s =>
    (u64Mul1000 (asU64 s)).bind fun d => (u64Add cs.now d).map fun e =>
      { cs with exp := NMap.insert k e cs.exp }
  | none =>
    match a.px with
    | some m => (u64Add cs.now (asU64 m)).map fun e => { cs with exp := NMap.insert k e cs.exp }
    | none =>
      match a.exat with
      | some t =>
        let rel := sat (sat (t * 1000) - (cs.epoch : Int))
        if rel ≤ 0 then some (dropKey cs k) else some { cs with exp := NMap.insert k (asU64 rel) cs.exp }
      | none =>
        match a.pxat with
        | some t =>
          let rel := sat (t - (cs.epoch : Int))
          if rel ≤ 0 then some (dropKey cs k) else some { cs with exp := NMap.insert k (asU64 rel) cs.exp }
        | none => if !a.keepttl then some { cs with exp := NMap.erase k cs.exp } else some cs

/-- M7's `SET` options as `Command::Set` fields (what the parser builds) -/
def setArgsOf (c : SetCond) (e : SetExp) (g : Bool) : SetArgs :=
  { ex := match e with | .ex v => some v | _ => none
    px := match e with | .px v => some v | _ => none
    exat := match e with | .exat v => some v | _ => none
    pxat := match e with | .pxat v => some v | _ => none
    nx := c == .nx
    xx := c == .xx
    get := g
    keepttl := e == .keepttl }

def oldReply : Option BS → Reply
  | some b => .bulk b
  | none => .nil

/-- `execute_set` -/
def cSet (cs : CState) (k : Nat) (v : BS) (a : SetArgs) : Option (CState × Reply) :=
  if setArgsInvalid cs a then some (cs, .err .invalidExpire)
  else
    -- "Get old value if GET option specified"
    let g : CState × Option (Option BS) :=
      if a.get then
        match getValue cs k with
        | (c, some (.str b)) => (c, some (some b))
        | (c, some _) => (c, none)
        | (c, none) => (c, some none)
      else (cs, some none)
    match g.2 with
    | none => some (g.1, wrongType)
    | some old =>
      let e := getValue g.1 k
      let keyExists := e.2.isSome
      if a.nx && keyExists then some (e.1, oldReply old)
      else if a.xx && !keyExists then some (e.1, .nil)
      else
        (setExpiry { e.1 with data := NMap.insert k (.str v) e.1.data } k a).map fun c =>
          (c, if a.get then oldReply old else .ok)

/-- `execute_append` -/
def cAppend (cs : CState) (k : Nat) (v : BS) : CState × Reply :=
  match getValue cs k with
  | (c, some (.str b)) => ({ c with data := NMap.insert k (.str (b ++ v)) c.data }, .int (b ++ v).length)
  | (c, some _) => (c, wrongType)
  | (c, none) => ({ c with data := NMap.insert k (.str v) c.data }, .int v.length)

/-- `execute_getset`: the deadline stays (finding C01:getset-keeps-deadline) -/
def cGetSet (cs : CState) (k : Nat) (v : BS) : CState × Reply :=
  match getValue cs k with
  | (c, some (.str b)) => ({ c with data := NMap.insert k (.str v) c.data }, .bulk b)
  | (c, some _) => (c, wrongType)
  | (c, none) => ({ c with data := NMap.insert k (.str v) c.data }, .nil)

/-- `execute_strlen` -/
def cStrLen (cs : CState) (k : Nat) : CState × Reply :=
  match getValue cs k with
  | (c, some (.str b)) => (c, .int b.length)
  | (c, some _) => (c, wrongType)
  | (c, none) => (c, .int 0)

/-- the loop of `execute_mget` / `execute_batch_get` -/
def cMGetLoop : CState → List Nat → CState × List Elem
  | cs, [] => (cs, [])
  | cs, k :: ks =>
    ((cMGetLoop (getValue cs k).1 ks).1,
     (match (getValue cs k).2 with
      | some (.str b) => Elem.bulk b
      | _ => Elem.nil) :: (cMGetLoop (getValue cs k).1 ks).2)

def cMGet (cs : CState) (ks : List Nat) : CState × Reply :=
  ((cMGetLoop cs ks).1, .arr (cMGetLoop cs ks).2)

/-- the loop of `execute_mset` / `execute_batch_set` / the second loop of `execute_msetnx` -/
def cMSetLoop : CState → List (Nat × BS) → CState
  | cs, [] => cs
  | cs, (k, v) :: kvs =>
    cMSetLoop { cs with data := NMap.insert k (.str v) cs.data, exp := NMap.erase k cs.exp } kvs

def cMSet (cs : CState) (kvs : List (Nat × BS)) : CState × Reply := (cMSetLoop cs kvs, .ok)

/-- `execute_msetnx` -/
def cMSetNx (cs : CState) (kvs : List (Nat × BS)) : CState × Reply :=
  if kvs.any (fun p => liveKey cs p.1) then (cs, .int 0) else (cMSetLoop cs kvs, .int 1)

/-- `execute_getrange` (index arithmetic = `ExecutorCode.codeRangeNorm`, finding
    C01:getrange-negative-inverted) -/
def cGetRange (cs : CState) (k : Nat) (a b : Int) : CState × Reply :=
  match getValue cs k with
  | (c, some (.str v)) => (c, .bulk (slice v (ExecutorCode.codeRangeNorm v.length a b)))
  | (c, some _) => (c, wrongType)
  | (c, none) => (c, .bulk [])

/-- `bytes.resize(needed, 0); bytes[offset..needed].copy_from_slice(val)` -/
def overlayCode (old : BS) (off : Nat) (v : BS) : BS :=
  let bytes := if off + v.length > old.length then old ++ List.replicate (off + v.length - old.length) 0 else old
  bytes.take off ++ v ++ bytes.drop (off + v.length)

/-- `execute_setrange` -/
def cSetRange (cs : CState) (k : Nat) (off : Nat) (v : BS) : CState × Reply :=
  let needed : Option Nat := if off + v.length ≤ maxStrLen then some (off + v.length) else none
  match getValue cs k with
  | (c, some (.str b)) =>
    if v = [] then (c, .int b.length)
    else
      match needed with
      | none => (c, .err .tooLong)
      | some _ => ({ c with data := NMap.insert k (.str (overlayCode b off v)) c.data },
                   .int (overlayCode b off v).length)
  | (c, some _) => (c, wrongType)
  | (c, none) =>
    if v = [] then (c, .int 0)
    else
      match needed with
      | none => (c, .err .tooLong)
      | some n => ({ c with data := NMap.insert k (.str (List.replicate off 0 ++ v)) c.data }, .int n)

/-- the arguments of `execute_getex` -/
structure GetExArgs where
  ex : Option Int := none
  px : Option Int := none
  exat : Option Int := none
  pxat : Option Int := none
  persist : Bool := false
  deriving DecidableEq, Repr

/-- M7's `GETEX` option as `Command::GetEx` fields -/
def getExArgsOf (o : GetExOpt) : GetExArgs :=
  { ex := match o with | .ex v => some v | _ => none
    px := match o with | .px v => some v | _ => none
    exat := match o with | .exat v => some v | _ => none
    pxat := match o with | .pxat v => some v | _ => none
    persist := o == .persist }

/-- `execute_getex` -/
def cGetEx (cs : CState) (k : Nat) (a : GetExArgs) : Option (CState × Reply) :=
  match getValue cs k with
  | (c, some (.str b)) =>
    match a.ex with
    | some s =>
      if decide (s ≤ 0) || decide (s > i64MaxDiv1000) || (checkedAdd (s * 1000) (basetimeMs c)).isNone then
        some (c, .err .invalidExpire)
      else
        (u64Mul1000 (asU64 s)).bind fun d => (u64Add c.now d).map fun e =>
          ({ c with exp := NMap.insert k e c.exp }, .bulk b)
    | none =>
      match a.px with
      | some m =>
        if decide (m ≤ 0) || (checkedAdd m (basetimeMs c)).isNone then some (c, .err .invalidExpire)
        else (u64Add c.now (asU64 m)).map fun e => ({ c with exp := NMap.insert k e c.exp }, .bulk b)
      | none =>
        match a.exat with
        | some t =>
          if decide (t ≤ 0) || decide (t > i64MaxDiv1000) then some (c, .err .invalidExpire)
          else
            let rel := sat (sat (t * 1000) - (c.epoch : Int))
            if rel ≤ 0 then some (dropKey c k, .bulk b)
            else some ({ c with exp := NMap.insert k (asU64 rel) c.exp }, .bulk b)
        | none =>
          match a.pxat with
          | some t =>
            if decide (t ≤ 0) then some (c, .err .invalidExpire)
            else
              let rel := sat (t - (c.epoch : Int))
              if rel ≤ 0 then some (dropKey c k, .bulk b)
              else some ({ c with exp := NMap.insert k (asU64 rel) c.exp }, .bulk b)
          | none =>
            if a.persist then some ({ c with exp := NMap.erase k c.exp }, .bulk b) else some (c, .bulk b)
  | (c, some _) => some (c, wrongType)
  | (c, none) => some (c, .nil)

/-- `execute_getdel` -/
def cGetDel (cs : CState) (k : Nat) : CState × Reply :=
  match getValue cs k with
  | (c, some (.str b)) => (dropKey c k, .bulk b)
  | (c, some _) => (c, wrongType)
  | (c, none) => (c, .nil)

/-- `text.parse::<i64>()` accepted only when `n.to_string() == text`: exactly the canonical decimal
    form of an i64 (= M7's `parseCanon`, Redis' `string2ll`); `to_string` of a non-UTF-8 value is
    lossy and never parses -/
def parseI64Canonical (b : BS) : Option Int := parseCanon b

/-- `incr_by_impl` -/
def cIncrBy (cs : CState) (k : Nat) (d : Int) : CState × Reply :=
  match getValue cs k with
  | (c, some (.str b)) =>
    match parseI64Canonical b with
    | none => (c, .err .notInt)
    | some cur =>
      match checkedAdd cur d with
      | none => (c, .err .overflow)
      | some n => ({ c with data := NMap.insert k (.str (showInt n)) c.data }, .int n)
  | (c, some _) => (c, wrongType)
  | (c, none) => ({ c with data := NMap.insert k (.str (showInt d)) c.data }, .int d)

/-- `Command::DecrBy`: `decrement.checked_neg()` -/
def cDecrBy (cs : CState) (k : Nat) (d : Int) : CState × Reply :=
  if d = i64Min then (cs, .err .overflow) else cIncrBy cs k (-d)

/-! ## keys and expiry (key_ops.rs, mod.rs) -/

/-- the loop of `execute_del` -/
def cDelLoop : CState → List Nat → Int → CState × Int
  | cs, [], n => (cs, n)
  | cs, k :: ks, n =>
    cDelLoop (dropKey cs k) ks (if (NMap.get cs.data k).isSome && !isExpired cs k then n + 1 else n)

def cDel (cs : CState) (ks : List Nat) : CState × Reply :=
  ((cDelLoop cs ks 0).1, .int (cDelLoop cs ks 0).2)

/-- `execute_exists` -/
def cExists (cs : CState) (ks : List Nat) : CState × Reply :=
  (cs, .int (ks.filter (liveKey cs)).length)

/-- `execute_typeof` -/
def cType (cs : CState) (k : Nat) : CState × Reply :=
  match getValue cs k with
  | (c, some v) => (c, .simple (typeName v))
  | (c, none) => (c, .simple "none")

/-- `execute_keys` with the match-all pattern; the order is the hash map's (compared sorted) -/
def cKeys (cs : CState) : CState × Reply :=
  (cs, .arr ((cs.data.filter (fun p => !isExpired cs p.1)).map (fun p => Elem.key p.1)))

/-- `execute_dbsize` -/
def cDbSize (cs : CState) : CState × Reply :=
  (cs, .int (cs.data.filter (fun p => !isExpired cs p.1)).length)

/-- `execute_flush` -/
def cFlush (cs : CState) : CState × Reply := ({ cs with data := [], exp := [] }, .ok)

/-- `Command::RandomKey`: `data.keys().find(|k| !is_expired(k))` — the first live key in the hash
    map's iteration order, i.e. SOME live key: the op carries the implementation's choice -/
def cRandomKey (cs : CState) (choice : Option Nat) : CState × Reply :=
  match cs.data.filter (fun p => !isExpired cs p.1) with
  | [] => (cs, .nil)
  | p :: _ =>
    match choice with
    | none => (cs, .key p.1)
    | some c => if liveKey cs c then (cs, .key c) else (cs, .key p.1)

/-- the common part of `Command::Rename` / `RenameNx` after the checks -/
def renameMove (cs : CState) (a b : Nat) (v : Value) : CState :=
  let d1 := NMap.erase a cs.data
  let e := NMap.get cs.exp a
  let e1 := NMap.erase a cs.exp
  { cs with
    data := NMap.insert b v d1,
    exp := match e with
      | some t => NMap.insert b t e1
      | none => NMap.erase b e1 }

/-- `Command::Rename` -/
def cRename (cs : CState) (a b : Nat) : CState × Reply :=
  if isExpired cs a then (cs, .err .noSuchKey)
  else
    match NMap.get cs.data a with
    | none => (cs, .err .noSuchKey)
    | some v => (renameMove cs a b v, .ok)

/-- `Command::RenameNx` -/
def cRenameNx (cs : CState) (a b : Nat) : CState × Reply :=
  if isExpired cs a then (cs, .err .noSuchKey)
  else
    match NMap.get cs.data a with
    | none => (cs, .err .noSuchKey)
    | some v => if liveKey cs b then (cs, .int 0) else (renameMove cs a b v, .int 1)

/-- the NX / XX / GT / LT tests of `execute_expire` / `execute_pexpire` (`true` = reply 0);
    `newMs` = the signed new deadline in virtual ms -/
def expireFlagsFail (f : ExpFlags) (cur : Option Nat) (newMs : Int) : Bool :=
  (f.nx && cur.isSome) ||
  (f.xx && !cur.isSome) ||
  (f.gt && (match cur with
            | some c => decide (newMs ≤ asI64 c)
            | none => true)) ||
  (f.lt && (match cur with
            | some c => decide (newMs ≥ asI64 c)
            | none => false))

/-- `execute_expire` -/
def cExpire (cs : CState) (k : Nat) (secs : Int) (f : ExpFlags) : Option (CState × Reply) :=
  if secs > i64MaxDiv1000 ∨ secs < i64MinDiv1000 then some (cs, .err .invalidExpire)
  else if sat (secs * 1000) > 0 ∧ sat (secs * 1000) > i64Max - basetimeMs cs then
    some (cs, .err .invalidExpire)
  else if !liveKey cs k then some (cs, .int 0)
  else if expireFlagsFail f (NMap.get cs.exp k) (sat (asI64 cs.now + sat (secs * 1000))) then some (cs, .int 0)
  else if secs ≤ 0 then some (dropKey cs k, .int 1)
  else
    (u64Mul1000 (asU64 secs)).bind fun d => (u64Add cs.now d).map fun e =>
      ({ cs with exp := NMap.insert k e cs.exp }, .int 1)

/-- `execute_pexpire` -/
def cPExpire (cs : CState) (k : Nat) (ms : Int) (f : ExpFlags) : Option (CState × Reply) :=
  if ms > 0 ∧ ms > i64Max - basetimeMs cs then some (cs, .err .invalidExpire)
  else if !liveKey cs k then some (cs, .int 0)
  else if expireFlagsFail f (NMap.get cs.exp k) (sat (asI64 cs.now + ms)) then some (cs, .int 0)
  else if ms ≤ 0 then some (dropKey cs k, .int 1)
  else (u64Add cs.now (asU64 ms)).map fun e => ({ cs with exp := NMap.insert k e cs.exp }, .int 1)

/-- the common tail of `execute_expireat` / `execute_pexpireat`: `rel` = deadline in virtual ms -/
def expireAtRel (cs : CState) (k : Nat) (rel : Int) : CState × Reply :=
  if rel ≤ 0 then (dropKey cs k, .int 1)
  else if asU64 rel ≤ cs.now then (dropKey cs k, .int 1)
  else ({ cs with exp := NMap.insert k (asU64 rel) cs.exp }, .int 1)

/-- `execute_expireat` (the variant carries no flags) -/
def cExpireAt (cs : CState) (k : Nat) (t : Int) : CState × Reply :=
  if t > i64MaxDiv1000 ∨ t < i64MinDiv1000 then (cs, .err .invalidExpire)
  else if !liveKey cs k then (cs, .int 0)
  else expireAtRel cs k (sat (sat (t * 1000) - (cs.epoch : Int)))

/-- `execute_pexpireat` -/
def cPExpireAt (cs : CState) (k : Nat) (t : Int) : CState × Reply :=
  if !liveKey cs k then (cs, .int 0)
  else expireAtRel cs k (sat (t - (cs.epoch : Int)))

/-- the shape `execute_ttl` / `execute_pttl` / `execute_expiretime` / `execute_pexpiretime` share:
    −2 for a key that is absent or past its deadline, −1 without a deadline, else `f deadline` -/
def ttlShape (cs : CState) (k : Nat) (f : Nat → Int) : CState × Reply :=
  if !liveKey cs k then (cs, .int (-2))
  else
    match NMap.get cs.exp k with
    | some d => (cs, .int (f d))
    | none => (cs, .int (-1))

/-- `execute_ttl`: `((remaining_ms + 500) / 1000).max(0)` -/
def cTtl (cs : CState) (k : Nat) : CState × Reply :=
  ttlShape cs k (fun d => max ((asI64 d - asI64 cs.now + 500) / 1000) 0)

/-- `execute_pttl` -/
def cPTtl (cs : CState) (k : Nat) : CState × Reply :=
  ttlShape cs k (fun d => max (asI64 d - asI64 cs.now) 0)

/-- `execute_expiretime` -/
def cExpireTime (cs : CState) (k : Nat) : CState × Reply :=
  ttlShape cs k (fun d => sat (sat ((cs.epoch : Int) + asI64 d) + 500) / 1000)

/-- `execute_pexpiretime` -/
def cPExpireTime (cs : CState) (k : Nat) : CState × Reply :=
  ttlShape cs k (fun d => sat ((cs.epoch : Int) + asI64 d))

/-- `execute_persist` -/
def cPersist (cs : CState) (k : Nat) : CState × Reply :=
  if !liveKey cs k then (cs, .int 0)
  else if (NMap.get cs.exp k).isSome then ({ cs with exp := NMap.erase k cs.exp }, .int 1)
  else (cs, .int 0)

end RedisVerif.Executor
