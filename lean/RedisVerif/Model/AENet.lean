import RedisVerif.Model.AntiEntropy

/-
  M8 (anti-entropy half), session level — a NETWORK of `k` `AntiEntropyManager`s (session 4).

  `AE.Mgr` (Model/AntiEntropy.lean) transcribes the manager's functions one by one; the driver
  runs them on message registers (`MDIG` / `MPROC` / `MREQ` / `MHANDLE` / `MAPPLY`).  This file
  composes exactly those functions into ONE transition function over a network state, so that
  "any interleaving" is a quantifier over lists of actions:

  * any number of nodes (`nodes : List NetNode`), each with its manager, its replicated state and
    the verdict of its last `process_peer_digest`;
  * every digest / request / response ever produced stays in a register and can be consumed at
    any later time, any number of times, by ANY node (late, duplicated, reordered, misdelivered
    messages; a message that is never consumed is a lost one);
  * every action carries the `HashMap` iteration order `π` the acting node happens to have —
    an arbitrary list: `AE.iter` skips what is not a key of the state;
  * a local write between any two protocol steps (`put`: the new value is merged into the old
    one, as `ShardReplicaState` does, and `on_local_write` bumps the generation).

  Nothing here is new code: each arm is the composition of `Mgr.*` functions the driver already
  runs for the corresponding op line.
-/
namespace RedisVerif
namespace AE

structure NetNode where
  mgr : Mgr
  st : NMap RV
  /-- the result of this node's last `process_peer_digest` (the buckets `create_sync_request` is given) -/
  verdict : Option (List Nat)
  deriving Repr, Inhabited

structure Net where
  nodes : List NetNode
  digs : List (Nat × TDigest)
  reqs : List (Nat × Request)
  resps : List (Nat × Response)
  deriving Repr, Inhabited

inductive NetAct where
  /-- local write of `v` under key `k` on node `n` (merged into the old value), `on_local_write` -/
  | put (n k : Nat) (v : RV)
  /-- `on_partition_healed(peer)` on node `n` -/
  | heal (n peer : Nat)
  /-- digest register `id` := node `n`.generate_digest(its state NOW) -/
  | dig (id n : Nat) (π : List Nat)
  /-- node `n`.process_peer_digest(register `id`, its own digest NOW) -/
  | proc (n id : Nat) (π : List Nat)
  /-- request register `id` := node `n`.create_sync_request(peer, own digest NOW, last verdict | None) -/
  | req (id n peer : Nat) (full : Bool) (now : Nat) (π : List Nat)
  /-- response register `rid` := node `n`.handle_sync_request(request `qid`, its state NOW) -/
  | handle (rid n qid : Nat) (π : List Nat)
  /-- node `n` merges response `rid` into its state NOW (`apply_remote_delta` for each delta) -/
  | apply (n rid : Nat)
  deriving Repr

def putReg {α : Type} (l : List (Nat × α)) (k : Nat) (v : α) : List (Nat × α) :=
  (k, v) :: l.filter (fun p => p.1 != k)

/-- one action; an action that names a node or a register that does not exist changes nothing -/
def Net.step (H : Hasher) (net : Net) : NetAct → Net
  | .put n k v =>
    match net.nodes[n]? with
    | none => net
    | some nd => { net with nodes := net.nodes.set n { nd with st := applyDelta nd.st (k, v), mgr := nd.mgr.onLocalWrite } }
  | .heal n peer =>
    match net.nodes[n]? with
    | none => net
    | some nd => { net with nodes := net.nodes.set n { nd with mgr := nd.mgr.onPartitionHealed peer } }
  | .dig id n π =>
    match net.nodes[n]? with
    | none => net
    | some nd => { net with digs := putReg net.digs id (nd.mgr.generateDigest H π nd.st) }
  | .proc n id π =>
    match net.nodes[n]?, net.digs.lookup id with
    | some nd, some pd =>
      let r := nd.mgr.processPeerDigest pd (nd.mgr.generateDigest H π nd.st)
      { net with nodes := net.nodes.set n { nd with mgr := r.1, verdict := r.2 } }
    | _, _ => net
  | .req id n peer full now π =>
    match net.nodes[n]? with
    | none => net
    | some nd =>
      let r := nd.mgr.createSyncRequest peer (nd.mgr.generateDigest H π nd.st) (if full then none else nd.verdict) now
      { net with nodes := net.nodes.set n { nd with mgr := r.1 }, reqs := putReg net.reqs id r.2 }
  | .handle rid n qid π =>
    match net.nodes[n]?, net.reqs.lookup qid with
    | some nd, some rq =>
      let r := nd.mgr.handleSyncRequest H rq π nd.st
      { net with nodes := net.nodes.set n { nd with mgr := r.1 }, resps := putReg net.resps rid r.2 }
    | _, _ => net
  | .apply n rid =>
    match net.nodes[n]?, net.resps.lookup rid with
    | some nd, some rs => { net with nodes := net.nodes.set n { nd with st := applyDeltas nd.st rs.deltas } }
    | _, _ => net

/-- any interleaving = any list of actions -/
def Net.run (H : Hasher) (net : Net) (acts : List NetAct) : Net := acts.foldl (Net.step H) net

/-- the action is not a local write -/
def NetAct.isPut : NetAct → Bool
  | .put .. => true
  | _ => false

/-- a session of `k` fresh managers over the given states -/
def Net.init (depth limit interval : Nat) (auto : Bool) (sts : List (NMap RV)) : Net :=
  { nodes := (sts.zipIdx 1).map fun p => { mgr := Mgr.new p.2 depth limit interval auto, st := p.1, verdict := none },
    digs := [], reqs := [], resps := [] }

/-- the value the whole network holds for key `k`: the merge of every node's value (a missing one
    is the identity) -/
def Net.joinAt (net : Net) (k : Nat) : Option RV :=
  (net.nodes.map fun nd => NMap.get nd.st k).foldl (optMerge RV.merge) none

/-- one complete pull `r ← p` as five actions over fresh registers (`id`): digest of `p`, processed
    by `r`, request (for the divergent buckets, or the full state), answer, merge -/
def pullActs (id r p : Nat) (pRid : Nat) (full : Bool) (now : Nat) (πr πp : List Nat) : List NetAct :=
  [.dig id p πp, .proc r id πr, .req id r pRid full now πr, .handle id p id πp, .apply r id]

end AE
end RedisVerif
