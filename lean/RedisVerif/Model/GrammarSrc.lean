import RedisVerif.Model.GrammarGen

/-
  M7 / GrammarSrc — the FIRST-ORDER form of a shape row, as the source → shape-descriptor translator of
  `./check C16` (harness/src/c16_shape.rs) emits it from the match arms of parser.rs, commands.rs and
  `parse_lua_command_bytes` ON EVERY RUN (a Lean file `GrammarSrcGen.lean` with three lists of `SRow`, written
  next to the run's op files and checked with `lake env lean` by `./check`).  Texts, not `Lit` names: the source
  knows error texts only.  `SRow.describes` says when a source row describes a row of the model's shape table
  (`shapeRows`, proved to BE the model grammar: `parse_is_generic`); `rowsDescribe` lifts it to whole tables,
  independently of the order of the match arms.  `Props/C16Src.lean` derives, from `rowsDescribe`, what the source
  rows then say about EVERY frame.  Imports core + RedisVerif.Model only.
-/
namespace RedisVerif.Grammar

/-- slot kind as the source shows it; `num` = a `.parse()` whose target type the syntax does not show (the two
    option values of the translator's SET): any numeric kind -/
inductive SKind where
  | k (a : ArgKind)
  | num
  deriving DecidableEq, Repr

def ArgKind.numeric : ArgKind → Bool
  | .int | .u64 | .usz | .u32 | .flt | .pos => true
  | _ => false

def SKind.fits : SKind → ArgKind → Bool
  | .k a, b => a == b
  | .num, b => b.numeric

/-- a slot: kind and its own error text (`none`: the extract helper's generic text) -/
structure SArg where
  kind : SKind
  err : Option Bytes := none
  deriving DecidableEq, Repr

def SArg.fits (s : SArg) (a : Arg) : Bool :=
  s.kind.fits a.kind && s.err == a.onErr.map Lit.text

inductive SMissing where
  | na                 -- the option takes no value
  | crash              -- a value is read without a guard
  | ignore
  | text (t : Bytes)   -- `if i >= len { return Err("…") }`
  deriving DecidableEq, Repr

def SMissing.fits (s : SMissing) (o : OptSpec) : Bool :=
  match o.missing with
  | .err l => !o.vals.isEmpty && s == .text l.text
  | .crash => if o.vals.isEmpty then s == .na else s == .crash
  | .ignore => if o.vals.isEmpty then s == .na else s == .ignore

structure SOpt where
  kw : Bytes
  vals : List SArg := []
  missing : SMissing := .na
  reject : Option Bytes := none      -- prefix of the `format!` text of a refused option
  deriving DecidableEq, Repr

/-- pointwise on two lists of the same length -/
def all2 {α β : Type} (p : α → β → Bool) : List α → List β → Bool
  | [], [] => true
  | a :: as, b :: bs => p a b && all2 p as bs
  | _, _ => false

def SOpt.fits (s : SOpt) (o : OptSpec) : Bool :=
  s.kw == o.kw && all2 SArg.fits s.vals o.vals && s.missing.fits o && s.reject == o.reject.map Fmt.pre

inductive SUnk where
  | na
  | lit (t : Bytes)      -- `_ => return Err("…")`
  | fmt (pre : Bytes)    -- `_ => return Err(format!("…{}", opt))`
  | brk                  -- `_ => break` (leading flags)
  | skip                 -- `_ => {}` (the word is skipped)
  deriving DecidableEq, Repr

inductive STail where
  | none | ignore | raw | scan
  | many (a : SArg)
  | pairs (a b : SArg)
  | flags (a b : SArg) (odd : Bytes)
  deriving DecidableEq, Repr

/-- a conflict rule over option KEYWORDS (the source names option variables; the translator maps them to the
    keyword of the arm that assigns them) -/
inductive SCond where
  | kw (w : Bytes)
  | and (a b : SCond)
  | or (a b : SCond)
  | countGt (ws : List Bytes) (n : Nat)
  deriving DecidableEq, Repr

def optKw (tbl : List OptSpec) (i : Nat) : Bytes :=
  match tbl[i]? with
  | some o => o.kw
  | none => []

def SCond.fits (tbl : List OptSpec) : SCond → Cond → Bool
  | .kw w, .has i => w == optKw tbl i
  | .and a b, .and c d => a.fits tbl c && b.fits tbl d
  | .or a b, .or c d => a.fits tbl c && b.fits tbl d
  | .countGt ws n, .countGt is m => ws == is.map (optKw tbl) && n == m
  | _, _ => false

/-- every element of `a` fits some element of `b` and the reverse, same length (the translator sorts its lists
    by text, the model writes them in source order) -/
def sameUpToOrder {α β : Type} (p : α → β → Bool) (a : List α) (b : List β) : Bool :=
  a.length == b.length && a.all (fun x => b.any (p x)) && b.all (fun y => a.any (fun x => p x y))

/-- one row of a grammar as translated from a match arm of the source -/
structure SRow where
  name : Bytes
  arity : Arity
  aerr : Bytes
  ctors : List Bytes
  slots : List SArg := []
  opt : List SArg := []
  tail : STail
  opts : List SOpt := []
  unk : SUnk := .na
  flits : List Bytes := []
  checks : List (SCond × Bytes) := []
  deriving DecidableEq, Repr

def tailOpts : Tail → List OptSpec
  | .scan tbl _ => tbl
  | _ => []

/-- the tail, the option table and the unknown-word policy of the source row describe the model's tail -/
def STail.fits (r : SRow) : Tail → Bool
  | .none => r.tail == .none && r.opts.isEmpty && r.unk == .na
  | .ignore => r.tail == .ignore && r.opts.isEmpty && r.unk == .na
  | .raw => r.tail == .raw && r.opts.isEmpty && r.unk == .na
  | .many a => (match r.tail with | .many s => s.fits a | _ => false) && r.opts.isEmpty && r.unk == .na
  | .pairs a b => (match r.tail with | .pairs s t => s.fits a && t.fits b | _ => false) && r.opts.isEmpty && r.unk == .na
  | .scan tbl unk =>
    r.tail == .scan && sameUpToOrder SOpt.fits r.opts tbl &&
      (match unk with
       | .lit l => r.unk == .lit l.text
       | .fmt f => r.unk == .fmt f.pre)
  | .flagsPairs fl odd a b =>
    (match r.tail with | .flags s t o => s.fits a && t.fits b && o == odd.text | _ => false) &&
      sameUpToOrder (fun (s : SOpt) (f : Bytes) => s == { kw := f }) r.opts fl && r.unk == .brk

/-- the source row `r` describes the model row `m`, field by field -/
def SRow.describes (r : SRow) (m : ShapeRow) : Bool :=
  r.name == m.name && r.arity == m.arity && r.aerr == m.arityErr &&
  sameUpToOrder (fun (a b : Bytes) => a == b) r.ctors m.gen.ctors &&
  all2 SArg.fits r.slots m.gen.pre && all2 SArg.fits r.opt m.gen.opt &&
  STail.fits r m.gen.tail &&
  sameUpToOrder (fun (a : Bytes) (l : Lit) => a == l.text) r.flits m.gen.finLits &&
  all2 (fun (s : SCond × Bytes) (c : Cond × Lit) => s.1.fits (tailOpts m.gen.tail) c.1 && s.2 == c.2.text) r.checks m.gen.checks

/-- the source table describes the model table: row by row.  The translator writes its rows in the order of the
    model's rows (it looks each one up BY NAME among the match arms, so the order of the arms in the source does not
    matter; an arm the model has no row for comes last and makes the lengths differ) -/
def rowsDescribe (src : List SRow) (model : List ShapeRow) : Bool :=
  all2 SRow.describes src model

/-! ## the error texts and `format!` prefixes a source row names -/

def kindTexts : SKind → List Bytes
  | .k .int | .k .usz | .k .u32 => [Lit.notInt.text]
  | .k .flt => [Lit.notFloat.text]
  | .k .pos => [Lit.notInt.text, Lit.syntax.text]
  | .k .u64 => [Lit.u64Empty.text, Lit.u64Invalid.text, Lit.u64Overflow.text]
  | .num => [Lit.notInt.text, Lit.notFloat.text, Lit.u64Empty.text, Lit.u64Invalid.text, Lit.u64Overflow.text, Lit.syntax.text]
  | _ => []

/-- the error texts a slot can answer: its own text, else the generic text(s) of its kind -/
def SArg.texts (a : SArg) : List Bytes :=
  match a.err with
  | some t => [t, Lit.syntax.text]        -- the own text, and the range text of a `pos` slot
  | none => kindTexts a.kind

def STail.texts : STail → List Bytes
  | .many a => a.texts
  | .pairs a b => a.texts ++ b.texts
  | .flags a b odd => odd :: (a.texts ++ b.texts)
  | _ => []

def SOpt.texts (o : SOpt) : List Bytes :=
  o.vals.flatMap SArg.texts ++ (match o.missing with | .text t => [t] | _ => [])

/-- every error text the source row names (the arity text apart) -/
def SRow.errTexts (r : SRow) : List Bytes :=
  r.slots.flatMap SArg.texts ++ r.opt.flatMap SArg.texts ++ r.tail.texts ++ r.opts.flatMap SOpt.texts ++
    (match r.unk with | .lit t => [t] | _ => []) ++ r.flits

/-- the prefixes of the `format!` errors the source row names (refused options, unknown words) -/
def SRow.prefixes (r : SRow) : List Bytes :=
  r.opts.filterMap (·.reject) ++ (match r.unk with | .fmt p => [p] | _ => [])

/-! ## the table-driven body a row denotes (`Props/C16Src.lean`: `body_of_described`, `resp_dsl_is_generated`) -/

/-- a model slot without an error text of its own -/
def Arg.isPlain (a : Arg) : Bool := a.onErr.isNone

/-- no `num` kind in a row (the translator resolved every `.parse()`) -/
def SArg.definite (s : SArg) : Bool := s.kind != .num

/-- a slot without a text of its own and with a definite kind, as a model slot -/
def SArg.plain? (s : SArg) : Option Arg :=
  match s.kind, s.err with
  | .k a, none => some { kind := a }
  | _, _ => none

def plainArgs? : List SArg → Option (List Arg)
  | [] => some []
  | s :: ss => match s.plain?, plainArgs? ss with
    | some a, some as => some (a :: as)
    | _, _ => none

/-- the table-driven body a row denotes (rows with optional slots, options, finishing literals or several
    constructors are not table-driven) -/
def SRow.body? (r : SRow) : Option Body :=
  match r.ctors, r.opt, r.opts, r.unk, r.flits, r.checks with
  | [c], [], [], .na, [], [] =>
    match plainArgs? r.slots with
    | none => none
    | some sl =>
      match r.tail with
      | .ignore => if sl.isEmpty then some (.const c) else none
      | .none => some (.fixed c sl)
      | .many a => (a.plain?).map (fun e => .many c sl e)
      | .pairs a b => match a.plain?, b.plain? with
        | some x, some y => some (.pairs c sl x y)
        | _, _ => none
      | _ => none
  | _, _, _, _, _, _ => none

/-- a table-driven body whose slots carry no error text of their own -/
def Body.plainDsl : Body → Bool
  | .const _ => true
  | .fixed _ slots => slots.all Arg.isPlain
  | .many _ pre each => pre.all Arg.isPlain && each.isPlain
  | .pairs _ pre a b => pre.all Arg.isPlain && a.isPlain && b.isPlain
  | .custom _ => false

/-- every slot kind of the row is definite -/
def SRow.definite (r : SRow) : Bool :=
  r.slots.all SArg.definite &&
    (match r.tail with
     | .many a => a.definite
     | .pairs a b => a.definite && b.definite
     | _ => true)

/-- a sub-command family as the source shows it: name, the text of a missing sub-command, and what an unknown
    sub-command `ZZZ` (no further argument) answers — `ok ctor toks…` or an error text -/
structure SFamily where
  name : Bytes
  aerr : Bytes
  probe : Except Bytes (Bytes × List Bytes)
  deriving DecidableEq, Repr

def probeOf (r : Res) : Except Bytes (Bytes × List Bytes) :=
  match r with
  | .ok c => .ok (c.ctor, c.toks.filterMap fun t => match t with | .s b => some b | _ => none)
  | .error e => .error (e.text.getD [])

def familiesOf (tbl : List Entry) : List SFamily :=
  tbl.filterMap fun e => match e with
    | .cmd _ => none
    | .family n a _ d => some ⟨n, a, probeOf (d (s2b "ZZZ") [])⟩

def familiesDescribe (src : List SFamily) (tbl : List Entry) : Bool :=
  sameUpToOrder (fun (a b : SFamily) => a == b) src (familiesOf tbl)

end RedisVerif.Grammar
