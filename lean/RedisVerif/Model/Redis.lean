import RedisVerif.Model.NMap

/-
  M7 — `Model.Redis`: the REFERENCE model of Redis (single node, one database).

  Unlike every other model of this framework this one is NOT a transcription of /repo.
  It is written from Redis' documented semantics (7.x; command reference pages and
  t_string.c / expire.c / db.c / t_list.c / t_set.c / t_hash.c / t_zset.c of 7.0/7.2) and is
  the SPECIFICATION against which `CommandExecutor::execute` is compared (C01) and on which
  the no-op laws are proved (C17).  A disagreement between this model and /repo is a
  conformance defect of /repo unless this file misreads Redis; every such correction is
  logged in a comment `-- REDIS-REF:` with the source it was checked against.

  Shape
  * keys, set members and hash fields are opaque byte strings: they are coded to `Nat` by the
    driver (`Driver.keyCode`, injective, order = (length, bytes)); nothing here inspects them.
    String values, list elements, hash values and sorted-set members carry real bytes.
  * `State = NMap Entry`, `Entry = (value, deadline?)`, deadline = absolute time in ms.
  * the clock is an explicit argument: `step s now c`.  Expiry: an entry whose deadline is
    `≤ now` is treated as absent by every command.  The model realises this by `purge s now`
    (drop every such entry) before executing the command on the purged state, i.e.
    `step s now c = exec (purge s now) now c`.  (Real Redis reclaims lazily on access plus an
    active cycle; which dead entries are physically present is not observable through any
    modelled command, so the model idealises: KEYS, DBSIZE, RANDOMKEY never see a dead key.)
  * `view s now` = the visible keyspace (key ↦ type+value, remaining TTL in ms).

  No imports outside core (linked into the native driver).  Only structural recursion.
-/
namespace RedisVerif.Redis

/-- byte string -/
abbrev BS := List Nat

/-! ## values -/

/-- sorted-set score: integers (|x| < 2^53 in the correspondence runs) and ±inf.
    Non-integral scores and float formatting are outside the model (C01 is partial there). -/
inductive Score
  | ninf
  | fin (i : Int)
  | pinf
  deriving DecidableEq, Repr

inductive Value
  | str (b : BS)
  | list (l : List BS)
  | set (s : NMap Unit)            -- member codes (a canonical set = a map to Unit)
  | hash (h : NMap BS)             -- field code ↦ value bytes
  | zset (z : List (BS × Score))   -- (member bytes, score), sorted by (score, member)
  deriving DecidableEq, Repr

structure Entry where
  val : Value
  dl : Option Nat                  -- absolute deadline, ms
  deriving DecidableEq, Repr

abbrev State := NMap Entry

def init : State := []

/-! ## expiry and the visible keyspace -/

/-- an entry is live at `now` iff it has no deadline or `now` is strictly before it -/
def live (now : Nat) (e : Entry) : Bool :=
  match e.dl with
  | none => true
  | some d => decide (now < d)

/-- drop every entry whose deadline has been reached -/
def purge (s : State) (now : Nat) : State := s.filter (fun p => live now p.2)

/-- what a client can see of one key: the value (hence its type) and the remaining TTL in ms -/
structure VEntry where
  val : Value
  ttl : Option Nat
  deriving DecidableEq, Repr

/-- the visible keyspace at instant `now`: (key, type, value, remaining TTL) -/
def view (s : State) (now : Nat) : NMap VEntry :=
  (purge s now).map (fun p => (p.1, { val := p.2.val, ttl := p.2.dl.map (· - now) }))

/-- key `k` is visible at instant `now` -/
def visible (s : State) (now : Nat) (k : Nat) : Bool := (NMap.get (view s now) k).isSome

/-! ## replies -/

inductive Err
  | wrongType        -- WRONGTYPE Operation against a key holding the wrong kind of value
  | notInt           -- ERR value is not an integer or out of range
  | overflow         -- ERR increment or decrement would overflow
  | invalidExpire    -- ERR invalid expire time in '<cmd>' command
  | badFlags         -- ERR NX and XX, GT or LT options at the same time are not compatible
  | noSuchKey        -- ERR no such key
  | indexRange       -- ERR index out of range
  | hashNotInt       -- ERR hash value is not an integer
  | tooLong          -- ERR string exceeds maximum allowed size (proto-max-bulk-len)
  | syntax           -- ERR syntax error
  | notFloat         -- ERR value is not a valid float / min or max is not a float
  | outOfRange       -- ERR value is out of range, must be positive
  | notDouble        -- ERR One or more scores can't be converted into double
  deriving DecidableEq, Repr

/-- element of an array reply -/
inductive Elem
  | bulk (b : BS)
  | key (c : Nat)      -- a bulk string given by its code (key / set member / hash field)
  | nil
  | int (i : Int)
  deriving DecidableEq, Repr

/-- RESP reply tree (depth ≤ 2 suffices for the modelled commands) -/
inductive Reply
  | simple (s : String)
  | err (e : Err)
  | int (i : Int)
  | bulk (b : BS)
  | key (c : Nat)
  | nil
  | arr (l : List Elem)
  deriving DecidableEq, Repr

def Reply.ok : Reply := .simple "OK"

def Reply.isError : Reply → Bool
  | .err _ => true
  | _ => false

/-! ## integers -/

def i64Max : Int := 9223372036854775807
def i64Min : Int := -9223372036854775808
/-- `LLONG_MAX / 1000` and `LLONG_MIN / 1000` (C division truncates toward zero) -/
def i64MaxDiv1000 : Int := 9223372036854775
def i64MinDiv1000 : Int := -9223372036854775

def inI64 (i : Int) : Bool := decide (i64Min ≤ i) && decide (i ≤ i64Max)

/-- value of a string of ASCII digits -/
def digitsVal : List Nat → Nat → Option Nat
  | [], acc => some acc
  | d :: ds, acc => if 48 ≤ d ∧ d ≤ 57 then digitsVal ds (acc * 10 + (d - 48)) else none

/-- `string2ll`: exactly the canonical decimal representation of an `i64`:
    no spaces, no `+`, no leading zeros, no `-0`. -/
def parseCanon (b : BS) : Option Int :=
  match b with
  | [] => none
  | [48] => some 0
  | 45 :: d :: ds =>
    if d = 48 then none else
    match digitsVal (d :: ds) 0 with
    | some n => if n ≤ 9223372036854775808 then some (-(n : Int)) else none
    | none => none
  | d :: ds =>
    if d = 48 then none else
    match digitsVal (d :: ds) 0 with
    | some n => if n ≤ 9223372036854775807 then some (n : Int) else none
    | none => none

/-- decimal digits of a natural number, most significant first (fuel = value + 1 suffices) -/
def natDigitsAux : Nat → Nat → List Nat → List Nat
  | 0, _, acc => acc
  | fuel + 1, n, acc =>
    if n < 10 then (48 + n) :: acc else natDigitsAux fuel (n / 10) ((48 + n % 10) :: acc)

def natDigits (n : Nat) : List Nat := natDigitsAux 64 n []

/-- canonical decimal text of an integer (`ll2string`) -/
def showInt (i : Int) : BS :=
  match i with
  | .ofNat n => natDigits n
  | .negSucc n => 45 :: natDigits (n + 1)

/-! ## lookups -/

inductive StrLookup
  | missing
  | wrong
  | found (b : BS) (dl : Option Nat)

def lookupStr (s : State) (k : Nat) : StrLookup :=
  match NMap.get s k with
  | none => .missing
  | some e =>
    match e.val with
    | .str b => .found b e.dl
    | _ => .wrong

def typeName : Value → String
  | .str _ => "string"
  | .list _ => "list"
  | .set _ => "set"
  | .hash _ => "hash"
  | .zset _ => "zset"

/-! ## options -/

inductive SetCond | always | nx | xx
  deriving DecidableEq, Repr

/-- at most one of EX / PX / EXAT / PXAT / KEEPTTL (anything else is a syntax error in Redis
    and is not representable here) -/
inductive SetExp
  | none
  | ex (v : Int)
  | px (v : Int)
  | exat (v : Int)
  | pxat (v : Int)
  | keepttl
  deriving DecidableEq, Repr

inductive GetExOpt
  | none
  | ex (v : Int)
  | px (v : Int)
  | exat (v : Int)
  | pxat (v : Int)
  | persist
  deriving DecidableEq, Repr

structure ExpFlags where
  nx : Bool
  xx : Bool
  gt : Bool
  lt : Bool
  deriving DecidableEq, Repr

/-- `getExpireMillisecondsOrReply` (t_string.c): the absolute deadline requested by
    EX/PX (relative) or EXAT/PXAT (absolute); `none` = "invalid expire time" -/
def absDeadline (now : Nat) (unitSec relative : Bool) (v : Int) : Option Nat :=
  if v ≤ 0 then none
  else if unitSec && decide (v > i64MaxDiv1000) then none
  else
    let ms := if unitSec then v * 1000 else v
    let t := if relative then ms + (now : Int) else ms
    if t > i64Max then none else some t.toNat

/-- what a SET-like command does with the deadline -/
inductive DlPlan
  | invalid
  | keep
  | clear
  | at (d : Nat)
  deriving DecidableEq, Repr

def planOfOpt : Option Nat → DlPlan
  | none => .invalid
  | some d => .at d

def setPlan (now : Nat) : SetExp → DlPlan
  | .none => .clear
  | .keepttl => .keep
  | .ex v => planOfOpt (absDeadline now true true v)
  | .px v => planOfOpt (absDeadline now false true v)
  | .exat v => planOfOpt (absDeadline now true false v)
  | .pxat v => planOfOpt (absDeadline now false false v)

def planDl (p : DlPlan) (old : Option Nat) : Option Nat :=
  match p with
  | .keep => old
  | .at d => some d
  | _ => none

/-! ## string commands -/

def execGet (s : State) (k : Nat) : State × Reply :=
  match lookupStr s k with
  | .missing => (s, .nil)
  | .wrong => (s, .err .wrongType)
  | .found b _ => (s, .bulk b)

/-- reply of an aborted / GET-flavoured SET: the old string value or nil -/
def oldStrReply (s : State) (k : Nat) : Reply :=
  match lookupStr s k with
  | .found b _ => .bulk b
  | _ => .nil

def oldDl (s : State) (k : Nat) : Option Nat :=
  match NMap.get s k with
  | none => none
  | some e => e.dl

def wrongStr (s : State) (k : Nat) : Bool :=
  match lookupStr s k with
  | .wrong => true
  | _ => false

/-- SET after the expire argument has been validated: GET → WRONGTYPE on a non-string,
    NX/XX abort → nil (or the old value with GET), else the value is replaced (any type) and
    the deadline follows the plan (cleared by default, kept by KEEPTTL). -/
def setCore (s : State) (k : Nat) (v : BS) (c : SetCond) (g : Bool) (p : DlPlan) : State × Reply :=
  if g && wrongStr s k then (s, .err .wrongType)
  else if (c == .nx && (NMap.get s k).isSome) || (c == .xx && !(NMap.get s k).isSome) then
    (s, if g then oldStrReply s k else .nil)
  else
    (NMap.insert k ⟨.str v, planDl p (oldDl s k)⟩ s, if g then oldStrReply s k else .ok)

/-- SET key value [NX|XX] [GET] [EX|PX|EXAT|PXAT|KEEPTTL]  (setGenericCommand): the expire
    argument is validated first ("invalid expire time"), then `setCore`. -/
def execSet (s : State) (now : Nat) (k : Nat) (v : BS) (c : SetCond) (e : SetExp) (g : Bool) :
    State × Reply :=
  if setPlan now e = .invalid then (s, .err .invalidExpire)
  else setCore s k v c g (setPlan now e)

def execSetNx (s : State) (k : Nat) (v : BS) : State × Reply :=
  match NMap.get s k with
  | some _ => (s, .int 0)
  | none => (NMap.insert k ⟨.str v, none⟩ s, .int 1)

/-- APPEND keeps the deadline of an existing key; creates the key (no deadline) otherwise -/
def execAppend (s : State) (k : Nat) (v : BS) : State × Reply :=
  match lookupStr s k with
  | .missing => (NMap.insert k ⟨.str v, none⟩ s, .int v.length)
  | .wrong => (s, .err .wrongType)
  | .found b dl => (NMap.insert k ⟨.str (b ++ v), dl⟩ s, .int (b ++ v).length)

/-- GETSET = SET key value GET: the deadline is cleared -/
def execGetSet (s : State) (k : Nat) (v : BS) : State × Reply :=
  match lookupStr s k with
  | .missing => (NMap.insert k ⟨.str v, none⟩ s, .nil)
  | .wrong => (s, .err .wrongType)
  | .found b _ => (NMap.insert k ⟨.str v, none⟩ s, .bulk b)

def execStrLen (s : State) (k : Nat) : State × Reply :=
  match lookupStr s k with
  | .missing => (s, .int 0)
  | .wrong => (s, .err .wrongType)
  | .found b _ => (s, .int b.length)

def mgetElem (s : State) (k : Nat) : Elem :=
  match lookupStr s k with
  | .found b _ => .bulk b
  | _ => .nil

def execMGet (s : State) (ks : List Nat) : State × Reply :=
  (s, .arr (ks.map (mgetElem s)))

/-- MSET: every key is overwritten (any type) and loses its deadline; later pairs win -/
def msetAll (s : State) : List (Nat × BS) → State
  | [] => s
  | (k, v) :: kvs => msetAll (NMap.insert k ⟨.str v, none⟩ s) kvs

def execMSet (s : State) (kvs : List (Nat × BS)) : State × Reply :=
  (msetAll s kvs, .ok)

def execMSetNx (s : State) (kvs : List (Nat × BS)) : State × Reply :=
  if kvs.any (fun p => (NMap.get s p.1).isSome) then (s, .int 0)
  else (msetAll s kvs, .int 1)

/-- a possibly negative index counted from the end, clamped below at 0 -/
def normIdx (len : Nat) (i : Int) : Int :=
  if i < 0 then (if i + len < 0 then 0 else i + len) else i

/-- an end index clamped above at `len - 1` -/
def clampEnd (len : Nat) (e : Int) : Int := if e ≥ len then (len : Int) - 1 else e

/-- GETRANGE index normalisation (getrangeCommand, 7.x).  Returns `(start, count)` of the
    slice, `none` = empty reply.  `len` is the string length. -/
def rangeNorm (len : Nat) (a b : Int) : Option (Nat × Nat) :=
  if a < 0 ∧ b < 0 ∧ a > b then none
  else if len = 0 ∨ normIdx len a > clampEnd len (normIdx len b) then none
  else some ((normIdx len a).toNat, (clampEnd len (normIdx len b) - normIdx len a + 1).toNat)

def slice (l : List α) (r : Option (Nat × Nat)) : List α :=
  match r with
  | none => []
  | some (st, n) => (l.drop st).take n

def execGetRange (s : State) (k : Nat) (a b : Int) : State × Reply :=
  match lookupStr s k with
  | .missing => (s, .bulk [])
  | .wrong => (s, .err .wrongType)
  | .found v _ => (s, .bulk (slice v (rangeNorm v.length a b)))

/-- 512 MB: `proto-max-bulk-len` -/
def maxStrLen : Nat := 536870912

/-- overwrite `old` from `off` with `v`, zero-padding -/
def overlay (old : BS) (off : Nat) (v : BS) : BS :=
  let padded := old ++ List.replicate (off - old.length) 0
  padded.take off ++ v ++ padded.drop (off + v.length)

/-- SETRANGE key offset value (offset ≥ 0 is a parser matter): type check first, an empty
    value is a no-op returning the current length, then the 512 MB check. -/
def execSetRange (s : State) (k : Nat) (off : Nat) (v : BS) : State × Reply :=
  match lookupStr s k with
  | .wrong => (s, .err .wrongType)
  | .missing =>
    if v = [] then (s, .int 0)
    else if off + v.length > maxStrLen then (s, .err .tooLong)
    else (NMap.insert k ⟨.str (overlay [] off v), none⟩ s, .int (overlay [] off v).length)
  | .found b dl =>
    if v = [] then (s, .int b.length)
    else if off + v.length > maxStrLen then (s, .err .tooLong)
    else (NMap.insert k ⟨.str (overlay b off v), dl⟩ s, .int (overlay b off v).length)

def execGetDel (s : State) (k : Nat) : State × Reply :=
  match lookupStr s k with
  | .missing => (s, .nil)
  | .wrong => (s, .err .wrongType)
  | .found b _ => (NMap.erase k s, .bulk b)

def getExPlan (now : Nat) : GetExOpt → DlPlan
  | .none => .keep
  | .persist => .clear
  | .ex v => planOfOpt (absDeadline now true true v)
  | .px v => planOfOpt (absDeadline now false true v)
  | .exat v => planOfOpt (absDeadline now true false v)
  | .pxat v => planOfOpt (absDeadline now false false v)

/-- GETEX (getexCommand): lookup, type check, THEN expire validation; an EXAT/PXAT deadline in
    the past deletes the key (here: stores a dead entry, which is the same to every observer) -/
def execGetEx (s : State) (now : Nat) (k : Nat) (o : GetExOpt) : State × Reply :=
  match lookupStr s k with
  | .missing => (s, .nil)
  | .wrong => (s, .err .wrongType)
  | .found b _ =>
    match getExPlan now o with
    | .invalid => (s, .err .invalidExpire)
    | .keep => (s, .bulk b)
    | .clear => (NMap.insert k ⟨.str b, none⟩ s, .bulk b)
    | .at d => (NMap.insert k ⟨.str b, some d⟩ s, .bulk b)

/-- INCR family (incrDecrCommand): the stored string must be a canonical i64; the sum must
    not leave i64; the deadline is kept. -/
def execIncrBy (s : State) (k : Nat) (delta : Int) : State × Reply :=
  match lookupStr s k with
  | .wrong => (s, .err .wrongType)
  | .missing =>
    (NMap.insert k ⟨.str (showInt delta), none⟩ s, .int delta)
  | .found b dl =>
    match parseCanon b with
    | none => (s, .err .notInt)
    | some v =>
      if inI64 (v + delta) then (NMap.insert k ⟨.str (showInt (v + delta)), dl⟩ s, .int (v + delta))
      else (s, .err .overflow)

/-- DECRBY: `-LLONG_MIN` does not exist → "decrement would overflow" -/
def execDecrBy (s : State) (k : Nat) (d : Int) : State × Reply :=
  if d = i64Min then (s, .err .overflow) else execIncrBy s k (-d)

/-! ## key commands -/

def delKeys : State → List Nat → State × Nat
  | s, [] => (s, 0)
  | s, k :: ks =>
    match NMap.get s k with
    | none => delKeys s ks
    | some _ => ((delKeys (NMap.erase k s) ks).1, (delKeys (NMap.erase k s) ks).2 + 1)

def execDel (s : State) (ks : List Nat) : State × Reply :=
  ((delKeys s ks).1, .int (delKeys s ks).2)

def execExists (s : State) (ks : List Nat) : State × Reply :=
  (s, .int (ks.filter (fun k => (NMap.get s k).isSome)).length)

def execType (s : State) (k : Nat) : State × Reply :=
  match NMap.get s k with
  | none => (s, .simple "none")
  | some e => (s, .simple (typeName e.val))

/-- KEYS * (only the match-all pattern is modelled); order is unspecified in Redis, the
    correspondence compares sorted -/
def execKeys (s : State) : State × Reply :=
  (s, .arr (s.map (fun p => Elem.key p.1)))

def execDbSize (s : State) : State × Reply := (s, .int s.length)

def execFlush (_s : State) : State × Reply := ([], .ok)

/-- RANDOMKEY is a relation: any visible key is a correct answer.  The op carries the
    implementation's choice; the model accepts it iff it is a visible key (else it answers
    with its own first key, which shows up as a disagreement). -/
def execRandomKey (s : State) (choice : Option Nat) : State × Reply :=
  match s with
  | [] => (s, .nil)
  | p :: _ =>
    match choice with
    | none => (s, .key p.1)
    | some c => if (NMap.get s c).isSome then (s, .key c) else (s, .key p.1)

def flagsCompatible (f : ExpFlags) : Bool :=
  !(f.nx && (f.xx || f.gt || f.lt)) && !(f.gt && f.lt)

/-- NX/XX/GT/LT of EXPIRE (expireGenericCommand): `cur` = current deadline (none = persistent =
    infinite), `whenMs` = requested absolute deadline -/
def flagsPass (f : ExpFlags) (cur : Option Nat) (whenMs : Int) : Bool :=
  match cur with
  | none => !f.xx && !f.gt
  | some c => !f.nx && !(f.gt && decide (whenMs ≤ c)) && !(f.lt && decide (whenMs ≥ c))

/-- common tail of EXPIRE/PEXPIRE/EXPIREAT/PEXPIREAT once the absolute deadline is known:
    missing key → 0; flags fail → 0; deadline already reached → key deleted, 1; else set, 1 -/
def expireAt (s : State) (now : Nat) (k : Nat) (whenMs : Int) (f : ExpFlags) : State × Reply :=
  match NMap.get s k with
  | none => (s, .int 0)
  | some e =>
    if !flagsPass f e.dl whenMs then (s, .int 0)
    else if whenMs ≤ now then (NMap.erase k s, .int 1)
    else (NMap.insert k ⟨e.val, some whenMs.toNat⟩ s, .int 1)

def execExpire (s : State) (now : Nat) (k : Nat) (secs : Int) (f : ExpFlags) : State × Reply :=
  if !flagsCompatible f then (s, .err .badFlags)
  else if secs > i64MaxDiv1000 ∨ secs < i64MinDiv1000 then (s, .err .invalidExpire)
  else if secs * 1000 > i64Max - now then (s, .err .invalidExpire)
  else expireAt s now k (secs * 1000 + now) f

def execPExpire (s : State) (now : Nat) (k : Nat) (ms : Int) (f : ExpFlags) : State × Reply :=
  if !flagsCompatible f then (s, .err .badFlags)
  else if ms > i64Max - now then (s, .err .invalidExpire)
  else expireAt s now k (ms + now) f

def execExpireAt (s : State) (now : Nat) (k : Nat) (t : Int) (f : ExpFlags) : State × Reply :=
  if !flagsCompatible f then (s, .err .badFlags)
  else if t > i64MaxDiv1000 ∨ t < i64MinDiv1000 then (s, .err .invalidExpire)
  else expireAt s now k (t * 1000) f

def execPExpireAt (s : State) (now : Nat) (k : Nat) (t : Int) (f : ExpFlags) : State × Reply :=
  if !flagsCompatible f then (s, .err .badFlags)
  else expireAt s now k t f

/-- TTL rounding of Redis: `(ms + 500) / 1000` -/
def roundSecs (ms : Nat) : Nat := (ms + 500) / 1000

/-- TTL / PTTL / EXPIRETIME / PEXPIRETIME: −2 missing, −1 no deadline, else the value -/
def ttlReply (s : State) (k : Nat) (f : Nat → Nat) : Reply :=
  match NMap.get s k with
  | none => .int (-2)
  | some e =>
    match e.dl with
    | none => .int (-1)
    | some d => .int (f d)

def execTtl (s : State) (now : Nat) (k : Nat) : State × Reply :=
  (s, ttlReply s k (fun d => roundSecs (d - now)))

def execPTtl (s : State) (now : Nat) (k : Nat) : State × Reply :=
  (s, ttlReply s k (fun d => d - now))

def execExpireTime (s : State) (k : Nat) : State × Reply :=
  (s, ttlReply s k roundSecs)

def execPExpireTime (s : State) (k : Nat) : State × Reply :=
  (s, ttlReply s k id)

def execPersist (s : State) (k : Nat) : State × Reply :=
  match NMap.get s k with
  | none => (s, .int 0)
  | some e =>
    match e.dl with
    | none => (s, .int 0)
    | some _ => (NMap.insert k ⟨e.val, none⟩ s, .int 1)

/-- RENAME: the value moves with its deadline; the destination is overwritten with its own
    deadline discarded; `RENAME k k` on an existing key is a no-op -/
def execRename (s : State) (a b : Nat) : State × Reply :=
  match NMap.get s a with
  | none => (s, .err .noSuchKey)
  | some e => if a = b then (s, .ok) else (NMap.insert b e (NMap.erase a s), .ok)

def execRenameNx (s : State) (a b : Nat) : State × Reply :=
  match NMap.get s a with
  | none => (s, .err .noSuchKey)
  | some e =>
    if (NMap.get s b).isSome then (s, .int 0)
    else (NMap.insert b e (NMap.erase a s), .int 1)

/-! ## lists -/

inductive ListLookup
  | missing
  | wrong
  | found (l : List BS) (dl : Option Nat)

def lookupList (s : State) (k : Nat) : ListLookup :=
  match NMap.get s k with
  | none => .missing
  | some e =>
    match e.val with
    | .list l => .found l e.dl
    | _ => .wrong

/-- store a list; an empty list is not stored: the key (and its deadline) disappears -/
def putList (s : State) (k : Nat) (l : List BS) (dl : Option Nat) : State :=
  match l with
  | [] => NMap.erase k s
  | _ :: _ => NMap.insert k ⟨.list l, dl⟩ s

inductive Side | left | right
  deriving DecidableEq, Repr

/-- LPUSH a b c puts c at the head (elements are pushed one after the other) -/
def pushMany (side : Side) (l : List BS) (vs : List BS) : List BS :=
  match side with
  | .left => vs.reverse ++ l
  | .right => l ++ vs

/-- LPUSH / RPUSH: creates the list (no deadline) or extends it (deadline kept) -/
def execPush (side : Side) (s : State) (k : Nat) (vs : List BS) : State × Reply :=
  match vs with
  | [] => (s, .err .syntax)       -- arity error in Redis; never produced by a parser
  | _ :: _ =>
    match lookupList s k with
    | .wrong => (s, .err .wrongType)
    | .missing => (putList s k (pushMany side [] vs) none, .int (pushMany side [] vs).length)
    | .found l dl => (putList s k (pushMany side l vs) dl, .int (pushMany side l vs).length)

/-- remove one element from an end: (element, rest) -/
def popSide (side : Side) (l : List BS) : Option (BS × List BS) :=
  match side with
  | .left =>
    match l with
    | [] => none
    | x :: xs => some (x, xs)
  | .right =>
    match l.getLast? with
    | none => none
    | some x => some (x, l.dropLast)

/-- LPOP / RPOP (no count): nil on a missing key; the key vanishes with its last element -/
def execPop (side : Side) (s : State) (k : Nat) : State × Reply :=
  match lookupList s k with
  | .missing => (s, .nil)
  | .wrong => (s, .err .wrongType)
  | .found l dl =>
    match popSide side l with
    | none => (s, .nil)
    | some (x, rest) => (putList s k rest dl, .bulk x)

def execLLen (s : State) (k : Nat) : State × Reply :=
  match lookupList s k with
  | .missing => (s, .int 0)
  | .wrong => (s, .err .wrongType)
  | .found l _ => (s, .int l.length)

/-- position of a (possibly negative) index, `none` = out of range -/
def listIdx (len : Nat) (i : Int) : Option Nat :=
  let j := if i < 0 then i + len else i
  if j < 0 ∨ j ≥ len then none else some j.toNat

def execLIndex (s : State) (k : Nat) (i : Int) : State × Reply :=
  match lookupList s k with
  | .missing => (s, .nil)
  | .wrong => (s, .err .wrongType)
  | .found l _ =>
    match listIdx l.length i with
    | none => (s, .nil)
    | some n =>
      match l[n]? with
      | none => (s, .nil)
      | some x => (s, .bulk x)

/-- LRANGE / LTRIM normalisation (t_list.c): start clamped at 0, an end that is still negative
    or a start beyond the end selects nothing, end clamped at len-1 -/
def lrangeNorm (len : Nat) (a b : Int) : Option (Nat × Nat) :=
  if normIdx len a > (if b < 0 then b + len else b) ∨ normIdx len a ≥ len then none
  else some ((normIdx len a).toNat,
             (clampEnd len (if b < 0 then b + len else b) - normIdx len a + 1).toNat)

def execLRange (s : State) (k : Nat) (a b : Int) : State × Reply :=
  match lookupList s k with
  | .missing => (s, .arr [])
  | .wrong => (s, .err .wrongType)
  | .found l _ => (s, .arr ((slice l (lrangeNorm l.length a b)).map Elem.bulk))

def execLSet (s : State) (k : Nat) (i : Int) (v : BS) : State × Reply :=
  match lookupList s k with
  | .missing => (s, .err .noSuchKey)
  | .wrong => (s, .err .wrongType)
  | .found l dl =>
    match listIdx l.length i with
    | none => (s, .err .indexRange)
    | some n => (putList s k (l.set n v) dl, .ok)

/-- LTRIM keeps the selected range; nothing selected → the key is deleted -/
def execLTrim (s : State) (k : Nat) (a b : Int) : State × Reply :=
  match lookupList s k with
  | .missing => (s, .ok)
  | .wrong => (s, .err .wrongType)
  | .found l dl => (putList s k (slice l (lrangeNorm l.length a b)) dl, .ok)

def pushOne (side : Side) (l : List BS) (x : BS) : List BS :=
  match side with
  | .left => x :: l
  | .right => l ++ [x]

/-- LMOVE src dst from to (RPOPLPUSH = LMOVE … RIGHT LEFT), lmoveGenericCommand: a missing
    source answers nil before the destination is looked at; BOTH types are checked before
    anything is popped; `src = dst` rotates in place (deadline kept); the source vanishes with
    its last element; a new destination has no deadline, an existing one keeps its own. -/
def execLMove (s : State) (src dst : Nat) (frm to : Side) : State × Reply :=
  match lookupList s src with
  | .missing => (s, .nil)
  | .wrong => (s, .err .wrongType)
  | .found l dl =>
    match popSide frm l with
    | none => (s, .nil)
    | some (x, rest) =>
      if src = dst then (putList s src (pushOne to rest x) dl, .bulk x)
      else
        match lookupList s dst with
        | .wrong => (s, .err .wrongType)
        | .missing => (putList (putList s src rest dl) dst [x] none, .bulk x)
        | .found l' dl' => (putList (putList s src rest dl) dst (pushOne to l' x) dl', .bulk x)

/-! ## sets -/

abbrev MSet := NMap Unit

inductive SetLookup
  | missing
  | wrong
  | found (m : MSet) (dl : Option Nat)

def lookupSet (s : State) (k : Nat) : SetLookup :=
  match NMap.get s k with
  | none => .missing
  | some e =>
    match e.val with
    | .set m => .found m e.dl
    | _ => .wrong

/-- store a set; an empty set is not stored -/
def putSet (s : State) (k : Nat) (m : MSet) (dl : Option Nat) : State :=
  match m with
  | [] => NMap.erase k s
  | _ :: _ => NMap.insert k ⟨.set m, dl⟩ s

/-- add members one by one; second component = how many were new -/
def saddAll : MSet → List Nat → MSet × Nat
  | m, [] => (m, 0)
  | m, c :: cs =>
    if (NMap.get m c).isSome then saddAll m cs
    else ((saddAll (NMap.insert c () m) cs).1, (saddAll (NMap.insert c () m) cs).2 + 1)

/-- remove members one by one; second component = how many were present -/
def sremAll : MSet → List Nat → MSet × Nat
  | m, [] => (m, 0)
  | m, c :: cs =>
    if (NMap.get m c).isSome then ((sremAll (NMap.erase c m) cs).1, (sremAll (NMap.erase c m) cs).2 + 1)
    else sremAll m cs

def execSAdd (s : State) (k : Nat) (ms : List Nat) : State × Reply :=
  match ms with
  | [] => (s, .err .syntax)
  | _ :: _ =>
    match lookupSet s k with
    | .wrong => (s, .err .wrongType)
    | .missing => (putSet s k (saddAll [] ms).1 none, .int (saddAll [] ms).2)
    | .found m dl => (putSet s k (saddAll m ms).1 dl, .int (saddAll m ms).2)

def execSRem (s : State) (k : Nat) (ms : List Nat) : State × Reply :=
  match lookupSet s k with
  | .missing => (s, .int 0)
  | .wrong => (s, .err .wrongType)
  | .found m dl => (putSet s k (sremAll m ms).1 dl, .int (sremAll m ms).2)

/-- order unspecified in Redis; the correspondence compares sorted -/
def execSMembers (s : State) (k : Nat) : State × Reply :=
  match lookupSet s k with
  | .missing => (s, .arr [])
  | .wrong => (s, .err .wrongType)
  | .found m _ => (s, .arr (m.map (fun p => Elem.key p.1)))

def execSIsMember (s : State) (k : Nat) (c : Nat) : State × Reply :=
  match lookupSet s k with
  | .missing => (s, .int 0)
  | .wrong => (s, .err .wrongType)
  | .found m _ => (s, .int (if (NMap.get m c).isSome then 1 else 0))

def execSCard (s : State) (k : Nat) : State × Reply :=
  match lookupSet s k with
  | .missing => (s, .int 0)
  | .wrong => (s, .err .wrongType)
  | .found m _ => (s, .int m.length)

/-- remove the chosen members in turn; `none` if one of them is not (or no longer) a member -/
def removeChosen : MSet → List Nat → Option MSet
  | m, [] => some m
  | m, c :: cs => if (NMap.get m c).isSome then removeChosen (NMap.erase c m) cs else none

/-- SPOP key: a relation — any member may be popped.  The op carries the implementation's
    choice; the model accepts it iff it is a member (else it pops its own first member, which
    shows up as a disagreement). -/
def execSPop1 (s : State) (k : Nat) (choice : List Nat) : State × Reply :=
  match lookupSet s k with
  | .missing => (s, .nil)
  | .wrong => (s, .err .wrongType)
  | .found m dl =>
    match m with
    | [] => (s, .nil)
    | p :: rest =>
      match choice with
      | [c] => if (NMap.get m c).isSome then (putSet s k (NMap.erase c m) dl, .key c)
               else (putSet s k rest dl, .key p.1)
      | _ => (putSet s k rest dl, .key p.1)

/-- SPOP key count: min(count, card) distinct members are removed (all of them → key gone);
    the choice is validated the same way -/
def execSPopN (s : State) (k : Nat) (n : Nat) (choice : List Nat) : State × Reply :=
  match lookupSet s k with
  | .missing => (s, .arr [])
  | .wrong => (s, .err .wrongType)
  | .found m dl =>
    if choice.length = min n m.length then
      match removeChosen m choice with
      | some m' => (putSet s k m' dl, .arr (choice.map Elem.key))
      | none => (putSet s k (m.drop (min n m.length)) dl, .arr ((m.take (min n m.length)).map (fun p => Elem.key p.1)))
    else (putSet s k (m.drop (min n m.length)) dl, .arr ((m.take (min n m.length)).map (fun p => Elem.key p.1)))

/-! ## hashes -/

abbrev MHash := NMap BS

inductive HashLookup
  | missing
  | wrong
  | found (h : MHash) (dl : Option Nat)

def lookupHash (s : State) (k : Nat) : HashLookup :=
  match NMap.get s k with
  | none => .missing
  | some e =>
    match e.val with
    | .hash h => .found h e.dl
    | _ => .wrong

def putHash (s : State) (k : Nat) (h : MHash) (dl : Option Nat) : State :=
  match h with
  | [] => NMap.erase k s
  | _ :: _ => NMap.insert k ⟨.hash h, dl⟩ s

/-- set fields one by one (later pairs win); second component = how many fields were new -/
def hsetAll : MHash → List (Nat × BS) → MHash × Nat
  | h, [] => (h, 0)
  | h, (f, v) :: fvs =>
    if (NMap.get h f).isSome then hsetAll (NMap.insert f v h) fvs
    else ((hsetAll (NMap.insert f v h) fvs).1, (hsetAll (NMap.insert f v h) fvs).2 + 1)

def hdelAll : MHash → List Nat → MHash × Nat
  | h, [] => (h, 0)
  | h, f :: fs =>
    if (NMap.get h f).isSome then ((hdelAll (NMap.erase f h) fs).1, (hdelAll (NMap.erase f h) fs).2 + 1)
    else hdelAll h fs

def execHSet (s : State) (k : Nat) (fvs : List (Nat × BS)) : State × Reply :=
  match fvs with
  | [] => (s, .err .syntax)
  | _ :: _ =>
    match lookupHash s k with
    | .wrong => (s, .err .wrongType)
    | .missing => (putHash s k (hsetAll [] fvs).1 none, .int (hsetAll [] fvs).2)
    | .found h dl => (putHash s k (hsetAll h fvs).1 dl, .int (hsetAll h fvs).2)

def execHGet (s : State) (k : Nat) (f : Nat) : State × Reply :=
  match lookupHash s k with
  | .missing => (s, .nil)
  | .wrong => (s, .err .wrongType)
  | .found h _ =>
    match NMap.get h f with
    | none => (s, .nil)
    | some v => (s, .bulk v)

def execHDel (s : State) (k : Nat) (fs : List Nat) : State × Reply :=
  match lookupHash s k with
  | .missing => (s, .int 0)
  | .wrong => (s, .err .wrongType)
  | .found h dl => (putHash s k (hdelAll h fs).1 dl, .int (hdelAll h fs).2)

def execHGetAll (s : State) (k : Nat) : State × Reply :=
  match lookupHash s k with
  | .missing => (s, .arr [])
  | .wrong => (s, .err .wrongType)
  | .found h _ => (s, .arr (h.flatMap (fun p => [Elem.key p.1, Elem.bulk p.2])))

def execHKeys (s : State) (k : Nat) : State × Reply :=
  match lookupHash s k with
  | .missing => (s, .arr [])
  | .wrong => (s, .err .wrongType)
  | .found h _ => (s, .arr (h.map (fun p => Elem.key p.1)))

def execHVals (s : State) (k : Nat) : State × Reply :=
  match lookupHash s k with
  | .missing => (s, .arr [])
  | .wrong => (s, .err .wrongType)
  | .found h _ => (s, .arr (h.map (fun p => Elem.bulk p.2)))

def execHLen (s : State) (k : Nat) : State × Reply :=
  match lookupHash s k with
  | .missing => (s, .int 0)
  | .wrong => (s, .err .wrongType)
  | .found h _ => (s, .int h.length)

def execHExists (s : State) (k : Nat) (f : Nat) : State × Reply :=
  match lookupHash s k with
  | .missing => (s, .int 0)
  | .wrong => (s, .err .wrongType)
  | .found h _ => (s, .int (if (NMap.get h f).isSome then 1 else 0))

/-- the integer currently stored under a field: missing field = 0; `none` = not a canonical i64 -/
def hfieldInt (h : MHash) (f : Nat) : Option Int :=
  match NMap.get h f with
  | none => some 0
  | some b => parseCanon b

/-- HINCRBY: like INCRBY on one field ("hash value is not an integer" / "would overflow") -/
def execHIncrBy (s : State) (k : Nat) (f : Nat) (d : Int) : State × Reply :=
  match lookupHash s k with
  | .wrong => (s, .err .wrongType)
  | .missing => (putHash s k (NMap.insert f (showInt d) []) none, .int d)
  | .found h dl =>
    match hfieldInt h f with
    | none => (s, .err .hashNotInt)
    | some v =>
      if inI64 (v + d) then (putHash s k (NMap.insert f (showInt (v + d)) h) dl, .int (v + d))
      else (s, .err .overflow)

/-! ## sorted sets -/

def Score.lt : Score → Score → Bool
  | .ninf, .ninf => false
  | .ninf, _ => true
  | .fin _, .ninf => false
  | .fin a, .fin b => decide (a < b)
  | .fin _, .pinf => true
  | .pinf, _ => false

def Score.le (a b : Score) : Bool := a.lt b || a == b

/-- bytewise lexicographic order (memcmp, then the shorter string first) -/
def bsLt : BS → BS → Bool
  | [], [] => false
  | [], _ :: _ => true
  | _ :: _, [] => false
  | a :: as, b :: bs => decide (a < b) || (a == b && bsLt as bs)

abbrev ZL := List (BS × Score)

/-- order of a sorted set: by score, ties by member bytes -/
def zLt (a b : BS × Score) : Bool := a.2.lt b.2 || (a.2 == b.2 && bsLt a.1 b.1)

def zScore : ZL → BS → Option Score
  | [], _ => none
  | (m', sc) :: z, m => if m = m' then some sc else zScore z m

def zRemove (m : BS) : ZL → ZL
  | [] => []
  | (m', sc) :: z => if m = m' then z else (m', sc) :: zRemove m z

/-- insert at the sorted position (the member must not be present) -/
def zInsert (m : BS) (sc : Score) : ZL → ZL
  | [] => [(m, sc)]
  | p :: z => if zLt (m, sc) p then (m, sc) :: p :: z else p :: zInsert m sc z

/-- canonical text of a score (integers as `%.17g` prints them, `inf`, `-inf`) -/
def showScore : Score → BS
  | .ninf => [45, 105, 110, 102]
  | .pinf => [105, 110, 102]
  | .fin i => showInt i

inductive ZLookup
  | missing
  | wrong
  | found (z : ZL) (dl : Option Nat)

def lookupZ (s : State) (k : Nat) : ZLookup :=
  match NMap.get s k with
  | none => .missing
  | some e =>
    match e.val with
    | .zset z => .found z e.dl
    | _ => .wrong

def putZ (s : State) (k : Nat) (z : ZL) (dl : Option Nat) : State :=
  match z with
  | [] => NMap.erase k s
  | _ :: _ => NMap.insert k ⟨.zset z, dl⟩ s

structure ZFlags where
  nx : Bool
  xx : Bool
  gt : Bool
  lt : Bool
  ch : Bool
  deriving DecidableEq, Repr

def zflagsCompatible (f : ZFlags) : Bool :=
  !(f.nx && f.xx) && !(f.gt && f.lt) && !(f.nx && (f.gt || f.lt))

/-- one (score, member) of ZADD: result = (zset, added?, updated?).  NX never touches an
    existing member, XX never adds, GT/LT only restrict UPDATES (new members are still added) -/
def zaddOne (f : ZFlags) (z : ZL) (m : BS) (sc : Score) : ZL × Nat × Nat :=
  match zScore z m with
  | none => if f.xx then (z, 0, 0) else (zInsert m sc z, 1, 0)
  | some old =>
    if f.nx then (z, 0, 0)
    else if f.gt && !(old.lt sc) then (z, 0, 0)
    else if f.lt && !(sc.lt old) then (z, 0, 0)
    else if sc = old then (z, 0, 0)
    else (zInsert m sc (zRemove m z), 0, 1)

def zaddAll (f : ZFlags) : ZL → List (BS × Score) → ZL × Nat × Nat
  | z, [] => (z, 0, 0)
  | z, (m, sc) :: ps =>
    ((zaddAll f (zaddOne f z m sc).1 ps).1,
     (zaddAll f (zaddOne f z m sc).1 ps).2.1 + (zaddOne f z m sc).2.1,
     (zaddAll f (zaddOne f z m sc).1 ps).2.2 + (zaddOne f z m sc).2.2)

def zaddReply (f : ZFlags) (r : ZL × Nat × Nat) : Reply :=
  .int (if f.ch then r.2.1 + r.2.2 else r.2.1)

/-- ZADD key [NX|XX] [GT|LT] [CH] score member …: XX on a missing key does nothing (no key is
    created); a new sorted set has no deadline, an existing one keeps its own -/
def execZAdd (s : State) (k : Nat) (f : ZFlags) (ps : List (BS × Score)) : State × Reply :=
  if !zflagsCompatible f then (s, .err .badFlags)
  else
    match ps with
    | [] => (s, .err .syntax)
    | _ :: _ =>
      match lookupZ s k with
      | .wrong => (s, .err .wrongType)
      | .missing =>
        if f.xx then (s, .int 0)
        else (putZ s k (zaddAll f [] ps).1 none, zaddReply f (zaddAll f [] ps))
      | .found z dl => (putZ s k (zaddAll f z ps).1 dl, zaddReply f (zaddAll f z ps))

def zremAll : ZL → List BS → ZL × Nat
  | z, [] => (z, 0)
  | z, m :: ms =>
    match zScore z m with
    | none => zremAll z ms
    | some _ => ((zremAll (zRemove m z) ms).1, (zremAll (zRemove m z) ms).2 + 1)

def execZRem (s : State) (k : Nat) (ms : List BS) : State × Reply :=
  match lookupZ s k with
  | .missing => (s, .int 0)
  | .wrong => (s, .err .wrongType)
  | .found z dl => (putZ s k (zremAll z ms).1 dl, .int (zremAll z ms).2)

def zElems (withScores : Bool) (z : ZL) : List Elem :=
  z.flatMap (fun p => if withScores then [Elem.bulk p.1, Elem.bulk (showScore p.2)] else [Elem.bulk p.1])

/-- ZRANGE / ZREVRANGE by rank (same normalisation as LRANGE) -/
def execZRange (s : State) (k : Nat) (a b : Int) (ws rev : Bool) : State × Reply :=
  match lookupZ s k with
  | .missing => (s, .arr [])
  | .wrong => (s, .err .wrongType)
  | .found z _ =>
    (s, .arr (zElems ws (slice (if rev then z.reverse else z) (lrangeNorm z.length a b))))

def execZScore (s : State) (k : Nat) (m : BS) : State × Reply :=
  match lookupZ s k with
  | .missing => (s, .nil)
  | .wrong => (s, .err .wrongType)
  | .found z _ =>
    match zScore z m with
    | none => (s, .nil)
    | some sc => (s, .bulk (showScore sc))

def zRankAux : ZL → BS → Nat → Option Nat
  | [], _, _ => none
  | (m', _) :: z, m, i => if m = m' then some i else zRankAux z m (i + 1)

def execZRank (s : State) (k : Nat) (m : BS) : State × Reply :=
  match lookupZ s k with
  | .missing => (s, .nil)
  | .wrong => (s, .err .wrongType)
  | .found z _ =>
    match zRankAux z m 0 with
    | none => (s, .nil)
    | some i => (s, .int i)

def execZCard (s : State) (k : Nat) : State × Reply :=
  match lookupZ s k with
  | .missing => (s, .int 0)
  | .wrong => (s, .err .wrongType)
  | .found z _ => (s, .int z.length)

/-- a score bound: `(` = exclusive.  `none` = "min or max is not a float" -/
structure Bound where
  excl : Bool
  v : Score
  deriving DecidableEq, Repr

def inRange (lo hi : Bound) (sc : Score) : Bool :=
  (if lo.excl then lo.v.lt sc else lo.v.le sc) && (if hi.excl then sc.lt hi.v else sc.le hi.v)

/-- ZCOUNT: the range is parsed BEFORE the key is looked up -/
def execZCount (s : State) (k : Nat) (lo hi : Option Bound) : State × Reply :=
  match lo, hi with
  | some lo, some hi =>
    match lookupZ s k with
    | .missing => (s, .int 0)
    | .wrong => (s, .err .wrongType)
    | .found z _ => (s, .int (z.filter (fun p => inRange lo hi p.2)).length)
  | _, _ => (s, .err .notFloat)

/-- LIMIT offset count: a negative offset selects nothing -/
def applyLimit (l : ZL) : Option (Int × Nat) → ZL
  | none => l
  | some (off, cnt) => if off < 0 then [] else (l.drop off.toNat).take cnt

def execZRangeByScore (s : State) (k : Nat) (lo hi : Option Bound) (ws : Bool)
    (lim : Option (Int × Nat)) : State × Reply :=
  match lo, hi with
  | some lo, some hi =>
    match lookupZ s k with
    | .missing => (s, .arr [])
    | .wrong => (s, .err .wrongType)
    | .found z _ => (s, .arr (zElems ws (applyLimit (z.filter (fun p => inRange lo hi p.2)) lim)))
  | _, _ => (s, .err .notFloat)

/-! ## SORT key [STORE dst]

Only the form the parser of /repo can produce (`Command::Sort { key, store }`: every other option
is ignored by that parser) — i.e. Redis' default: ascending, NUMERIC.  sortCommand (sort.c):
the source may be a list, a set or a sorted set (its members), anything else is WRONGTYPE; every
element is converted with strtod — one failure and the reply is "One or more scores can't be
converted into double", nothing is stored; equal values are ordered by their bytes; STORE writes
the result as a list (no deadline; an empty result deletes the destination) and replies its
length.  The numeric reading is restricted to integers (strtod's integer syntax: leading white
space, optional sign, digits; the empty string is 0); floats / hex / inf are outside the model. -/

/-- bytes of a key code (inverse of `Driver.keyCode`; fuel = the code itself) -/
def codeBytesAux : Nat → Nat → BS → BS
  | 0, _, acc => acc
  | fuel + 1, n, acc => if n ≤ 1 then acc else codeBytesAux fuel (n / 256) ((n % 256) :: acc)

def codeBytes (c : Nat) : BS := codeBytesAux c c []

def isSpaceByte (c : Nat) : Bool := c == 32 || (decide (9 ≤ c) && decide (c ≤ 13))

def unsignedVal (ds : BS) : Option Nat :=
  match ds with
  | [] => none
  | _ :: _ => digitsVal ds 0

/-- strtod on the integer syntax; `none` = not convertible -/
def sortNum (b : BS) : Option Int :=
  match b with
  | [] => some 0
  | _ :: _ =>
    match b.dropWhile isSpaceByte with
    | 45 :: ds => (unsignedVal ds).map (fun n => -(n : Int))
    | 43 :: ds => (unsignedVal ds).map (fun n => (n : Int))
    | ds => (unsignedVal ds).map (fun n => (n : Int))

/-- SORT order: by numeric value, ties by bytes -/
def sortLt (a b : BS) : Bool :=
  match sortNum a, sortNum b with
  | some x, some y => decide (x < y) || (x == y && bsLt a b)
  | _, _ => bsLt a b

def sortInsert (x : BS) : List BS → List BS
  | [] => [x]
  | y :: ys => if sortLt y x then y :: sortInsert x ys else x :: y :: ys

def sortAll (l : List BS) : List BS := l.foldr sortInsert []

/-- the elements SORT works on; `none` = WRONGTYPE -/
def sortSource (s : State) (k : Nat) : Option (List BS) :=
  match NMap.get s k with
  | none => some []
  | some e =>
    match e.val with
    | .list l => some l
    | .set m => some (m.map (fun p => codeBytes p.1))
    | .zset z => some (z.map (fun p => p.1))
    | _ => none

def execSort (s : State) (k : Nat) (store : Option Nat) : State × Reply :=
  match sortSource s k with
  | none => (s, .err .wrongType)
  | some es =>
    if es.any (fun e => (sortNum e).isNone) then (s, .err .notDouble)
    else
      match store with
      | none => (s, .arr ((sortAll es).map Elem.bulk))
      | some d => (putList s d (sortAll es) none, .int (sortAll es).length)

/-! ## commands -/

inductive Cmd
  -- strings
  | get (k : Nat)
  | set (k : Nat) (v : BS) (c : SetCond) (e : SetExp) (g : Bool)
  | setnx (k : Nat) (v : BS)
  | append (k : Nat) (v : BS)
  | getset (k : Nat) (v : BS)
  | strlen (k : Nat)
  | mget (ks : List Nat)
  | mset (kvs : List (Nat × BS))
  | msetnx (kvs : List (Nat × BS))
  | getrange (k : Nat) (a b : Int)
  | setrange (k : Nat) (off : Nat) (v : BS)
  | getex (k : Nat) (o : GetExOpt)
  | getdel (k : Nat)
  -- counters
  | incr (k : Nat)
  | decr (k : Nat)
  | incrby (k : Nat) (d : Int)
  | decrby (k : Nat) (d : Int)
  -- keys
  | del (ks : List Nat)
  | exists (ks : List Nat)
  | type (k : Nat)
  | keys
  | dbsize
  | flushdb
  | flushall
  | randomkey (choice : Option Nat)
  | rename (a b : Nat)
  | renamenx (a b : Nat)
  -- expiry
  | expire (k : Nat) (secs : Int) (f : ExpFlags)
  | pexpire (k : Nat) (ms : Int) (f : ExpFlags)
  | expireat (k : Nat) (t : Int) (f : ExpFlags)
  | pexpireat (k : Nat) (t : Int) (f : ExpFlags)
  | ttl (k : Nat)
  | pttl (k : Nat)
  | expiretime (k : Nat)
  | pexpiretime (k : Nat)
  | persist (k : Nat)
  -- lists
  | lpush (k : Nat) (vs : List BS)
  | rpush (k : Nat) (vs : List BS)
  | lpop (k : Nat)
  | rpop (k : Nat)
  | llen (k : Nat)
  | lindex (k : Nat) (i : Int)
  | lrange (k : Nat) (a b : Int)
  | lset (k : Nat) (i : Int) (v : BS)
  | ltrim (k : Nat) (a b : Int)
  | rpoplpush (src dst : Nat)
  | lmove (src dst : Nat) (frm to : Side)
  -- sets
  | sadd (k : Nat) (ms : List Nat)
  | srem (k : Nat) (ms : List Nat)
  | smembers (k : Nat)
  | sismember (k : Nat) (m : Nat)
  | scard (k : Nat)
  | spop (k : Nat) (count : Option Nat) (choice : List Nat)
  -- hashes
  | hset (k : Nat) (fvs : List (Nat × BS))
  | hget (k : Nat) (f : Nat)
  | hdel (k : Nat) (fs : List Nat)
  | hgetall (k : Nat)
  | hkeys (k : Nat)
  | hvals (k : Nat)
  | hlen (k : Nat)
  | hexists (k : Nat) (f : Nat)
  | hincrby (k : Nat) (f : Nat) (d : Int)
  -- sorted sets
  | zadd (k : Nat) (f : ZFlags) (ps : List (BS × Score))
  | zrem (k : Nat) (ms : List BS)
  | zrange (k : Nat) (a b : Int) (ws : Bool)
  | zrevrange (k : Nat) (a b : Int) (ws : Bool)
  | zscore (k : Nat) (m : BS)
  | zrank (k : Nat) (m : BS)
  | zcard (k : Nat)
  | zcount (k : Nat) (lo hi : Option Bound)
  | zrangebyscore (k : Nat) (lo hi : Option Bound) (ws : Bool) (lim : Option (Int × Nat))
  | sort (k : Nat) (store : Option Nat)
  deriving Repr

/-- execute on a state that holds no dead entry -/
def exec (s : State) (now : Nat) : Cmd → State × Reply
  | .get k => execGet s k
  | .set k v c e g => execSet s now k v c e g
  | .setnx k v => execSetNx s k v
  | .append k v => execAppend s k v
  | .getset k v => execGetSet s k v
  | .strlen k => execStrLen s k
  | .mget ks => execMGet s ks
  | .mset kvs => execMSet s kvs
  | .msetnx kvs => execMSetNx s kvs
  | .getrange k a b => execGetRange s k a b
  | .setrange k off v => execSetRange s k off v
  | .getex k o => execGetEx s now k o
  | .getdel k => execGetDel s k
  | .incr k => execIncrBy s k 1
  | .decr k => execIncrBy s k (-1)
  | .incrby k d => execIncrBy s k d
  | .decrby k d => execDecrBy s k d
  | .del ks => execDel s ks
  | .exists ks => execExists s ks
  | .type k => execType s k
  | .keys => execKeys s
  | .dbsize => execDbSize s
  | .flushdb => execFlush s
  | .flushall => execFlush s
  | .randomkey ch => execRandomKey s ch
  | .rename a b => execRename s a b
  | .renamenx a b => execRenameNx s a b
  | .expire k v f => execExpire s now k v f
  | .pexpire k v f => execPExpire s now k v f
  | .expireat k v f => execExpireAt s now k v f
  | .pexpireat k v f => execPExpireAt s now k v f
  | .ttl k => execTtl s now k
  | .pttl k => execPTtl s now k
  | .expiretime k => execExpireTime s k
  | .pexpiretime k => execPExpireTime s k
  | .persist k => execPersist s k
  | .lpush k vs => execPush .left s k vs
  | .rpush k vs => execPush .right s k vs
  | .lpop k => execPop .left s k
  | .rpop k => execPop .right s k
  | .llen k => execLLen s k
  | .lindex k i => execLIndex s k i
  | .lrange k a b => execLRange s k a b
  | .lset k i v => execLSet s k i v
  | .ltrim k a b => execLTrim s k a b
  | .rpoplpush a b => execLMove s a b .right .left
  | .lmove a b f t => execLMove s a b f t
  | .sadd k ms => execSAdd s k ms
  | .srem k ms => execSRem s k ms
  | .smembers k => execSMembers s k
  | .sismember k m => execSIsMember s k m
  | .scard k => execSCard s k
  | .spop k none ch => execSPop1 s k ch
  | .spop k (some n) ch => execSPopN s k n ch
  | .hset k fvs => execHSet s k fvs
  | .hget k f => execHGet s k f
  | .hdel k fs => execHDel s k fs
  | .hgetall k => execHGetAll s k
  | .hkeys k => execHKeys s k
  | .hvals k => execHVals s k
  | .hlen k => execHLen s k
  | .hexists k f => execHExists s k f
  | .hincrby k f d => execHIncrBy s k f d
  | .zadd k f ps => execZAdd s k f ps
  | .zrem k ms => execZRem s k ms
  | .zrange k a b ws => execZRange s k a b ws false
  | .zrevrange k a b ws => execZRange s k a b ws true
  | .zscore k m => execZScore s k m
  | .zrank k m => execZRank s k m
  | .zcard k => execZCard s k
  | .zcount k lo hi => execZCount s k lo hi
  | .zrangebyscore k lo hi ws lim => execZRangeByScore s k lo hi ws lim
  | .sort k st => execSort s k st

/-- one command at instant `now` -/
def step (s : State) (now : Nat) (c : Cmd) : State × Reply := exec (purge s now) now c

/-- run a timed command sequence, collecting the replies -/
def run : State → List (Nat × Cmd) → State × List Reply
  | s, [] => (s, [])
  | s, (t, c) :: cs =>
    ((run (step s t c).1 cs).1, (step s t c).2 :: (run (step s t c).1 cs).2)

/-! ## scripts

EVAL of a script that is a straight sequence of `redis.call(…)` on data commands followed by
`return 'done'`.  Redis' own semantics (scripting.c / script_lua.c, "Lua scripts … are not rolled
back"): every call runs as the command itself at the same instant, the first call that replies with
an error raises it, the script stops there and EVAL's reply is that error; what the earlier calls
wrote stays written. -/

/-- the reply of a script whose calls all succeed: `return 'done'` -/
def scriptDone : Reply := .bulk [100, 111, 110, 101]

def stepScript (s : State) (now : Nat) : List Cmd → State × Reply
  | [] => (s, scriptDone)
  | c :: cs =>
    match (step s now c).2 with
    | .err e => ((step s now c).1, .err e)
    | _ => stepScript (step s now c).1 now cs

/-- the model's transcription of `Command::is_read_only` (src/redis/command.rs), restricted to
    the modelled commands; compared with the real classification on every op by the harness -/
def isReadOnly : Cmd → Bool
  | .get _ | .getrange _ _ _ | .strlen _ | .mget _ | .exists _ | .type _ | .keys
  | .ttl _ | .pttl _ | .expiretime _ | .pexpiretime _ | .randomkey _ | .dbsize
  | .llen _ | .lindex _ _ | .lrange _ _ _
  | .smembers _ | .sismember _ _ | .scard _
  | .hget _ _ | .hgetall _ | .hkeys _ | .hvals _ | .hlen _ | .hexists _ _
  | .zrange _ _ _ _ | .zrevrange _ _ _ _ | .zscore _ _ | .zrank _ _ | .zcard _ | .zcount _ _ _
  | .zrangebyscore _ _ _ _ _ => true
  | _ => false

/-! ## invariant -/

/-- canonical form of a sorted set: strictly increasing in (score, member) and no member twice
    (so the "index" — the order — and the member ↦ score map cannot disagree) -/
def ZCanon (z : ZL) : Prop :=
  z.Pairwise (fun a b => zLt a b = true) ∧ z.Pairwise (fun a b => a.1 ≠ b.1)

instance : DecidablePred ZCanon := fun z => by unfold ZCanon; infer_instance

/-- no empty collection is stored; inner maps are canonical -/
def ValueOk : Value → Prop
  | .str _ => True
  | .list l => l ≠ []
  | .set m => m ≠ [] ∧ NMap.WF m
  | .hash h => h ≠ [] ∧ NMap.WF h
  | .zset z => z ≠ [] ∧ ZCanon z

instance : DecidablePred ValueOk := fun v => by
  cases v <;> unfold ValueOk <;> infer_instance

/-- state invariant: canonical keyspace, every stored value well-formed and non-empty -/
def Inv (s : State) : Prop := NMap.WF s ∧ ∀ p ∈ s, ValueOk p.2.val

instance : DecidablePred Inv := fun s => by unfold Inv; infer_instance

/-- states reachable from the empty database by commands at arbitrary instants -/
inductive Reachable : State → Prop
  | init : Reachable init
  | step {s : State} (now : Nat) (c : Cmd) : Reachable s → Reachable (step s now c).1

end RedisVerif.Redis
