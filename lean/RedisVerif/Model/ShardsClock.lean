import RedisVerif.Model.Shards

/-
  M7/ShardsClock — the per-shard CLOCK and key expiry under the sharding layer.

  Anchors: /repo/src/production/sharded_actor.rs — `ShardActor::run`: EVERY message arm
  (`Command`, `FastGet`, `FastSet`, `PooledFastGet`, `PooledFastSet`, `FastBatchGet`,
  `FastBatchSet`) starts with `self.executor.set_time(virtual_time)` (the fast arms since fix
  ef50533); `ShardedActorState::{execute, fast_*, pooled_fast_*, fast_batch_*_pipeline}` stamp the
  message with `get_current_virtual_time()`.  /repo/src/redis/executor/mod.rs — `set_time` = set
  the clock + `evict_expired_keys`; `is_expired`: `expiration <= current_time`; `get_value`: an
  expired key is removed on access; `get_direct`; `set_direct` / `execute_mset` /
  `execute_batch_set`: store the string and clear the expiration; `execute_dbsize` /
  `execute_exists`: skip expired keys.  string_ops.rs — `execute_set`: `PX ms` → `current_time +
  ms`, `EX s` → `current_time + 1000 s`, no option → expiration cleared.

  Whether a message KIND carries the virtual time (= its arm calls `set_time`) is a parameter
  `Carries : Kind → Bool`: `allCarry` is the code; a kind that does not carry it judges expiry
  against the clock its shard saw at its last time-carrying message.

  Per-key operations are written in slot form (`slotT`): an expired old entry is treated as
  absent (and dropped), which is what `get_value` does and what every other reader observes.
  A batch (`fast_batch_*_pipeline`, MGET / MSET) is modelled per key: every shard that receives a
  sub-batch adopts the time once, then the items run in order, each on its key's shard (shards
  share no state, so this is the grouped execution; the by-index reassembly is `gatherN_spec`
  of the untimed model).

  Executable; used by the C03 correspondence (timed streams), by `timed_refines` /
  `shard_count_unobservable_timed` and the stale-clock counterexamples.  Imports only core.
-/
namespace RedisVerif
namespace Shards
namespace Clock

/-- value + deadline (virtual ms) -/
abbrev Entry := Bytes × Option Nat

/-- one `CommandExecutor`: `data` + `expirations` + `current_time` -/
structure TShard where
  data : NMap Entry
  clock : Nat
  deriving DecidableEq, Repr

/-- the kinds of `ShardMessage` -/
inductive Kind
  | generic | fastGet | fastSet | pooledGet | pooledSet | batchGet | batchSet
  deriving DecidableEq, Repr

abbrev Carries := Kind → Bool

/-- the code: every message carries the virtual time -/
def allCarry : Carries := fun _ => true

/-- per-key operations -/
inductive KOp
  | set (v : Bytes)
  | setPx (v : Bytes) (ms : Nat)
  | setEx (v : Bytes) (secs : Nat)
  | get
  | exists
  deriving DecidableEq, Repr

inductive TCmd
  /-- one single-key message of the given kind -/
  | key (kind : Kind) (k : Key) (op : KOp)
  /-- a grouped multi-key request: `fast_batch_get_pipeline` (`batchGet`), `fast_batch_set_pipeline`
      (`batchSet`), MGET / MSET (`generic`: `Command::BatchGet` / `BatchSet`) -/
  | batch (kind : Kind) (items : List (Key × KOp))
  | dbsize
  deriving DecidableEq, Repr

def expired (clock : Nat) (e : Entry) : Bool :=
  match e.2 with
  | some d => decide (d ≤ clock)
  | none => false

/-- what a reader at time `clock` sees of a slot -/
def liveE (clock : Nat) : Option Entry → Option Entry
  | some e => if expired clock e then none else some e
  | none => none

/-- `set_time`: set the clock, evict every key whose deadline has passed -/
def setTime (sh : TShard) (now : Nat) : TShard :=
  { data := sh.data.filter (fun p => !expired now p.2), clock := now }

def bulk : Option Entry → R1
  | none => .nil
  | some e => .bulk e.1

/-- slot-level meaning of a per-key operation at shard time `clock` -/
def slotT (op : KOp) (clock : Nat) (old : Option Entry) : Option Entry × R1 :=
  match op with
  | .set v => (some (v, none), .ok)
  | .setPx v ms => (some (v, some (clock + ms)), .ok)
  | .setEx v secs => (some (v, some (clock + 1000 * secs)), .ok)
  | .get => (liveE clock old, bulk (liveE clock old))
  | .exists => (liveE clock old, .int (if (liveE clock old).isSome then 1 else 0))

def put (d : NMap Entry) (k : Key) : Option Entry → NMap Entry
  | none => NMap.erase k d
  | some e => NMap.insert k e d

/-- one per-key operation on one executor, judged by THAT executor's clock -/
def keyExec (sh : TShard) (k : Key) (op : KOp) : TShard × R1 :=
  let r := slotT op sh.clock (NMap.get sh.data k)
  ({ sh with data := put sh.data k r.1 }, r.2)

def tshard (st : List TShard) (i : Nat) : TShard := st.getD i { data := [], clock := 0 }

/-- the shard adopts the message's time iff the message kind carries it -/
def adopt (K : Carries) (kind : Kind) (sh : TShard) (now : Nat) : TShard :=
  if K kind then setTime sh now else sh

def keyExecAt (st : List TShard) (i : Nat) (k : Key) (op : KOp) : List TShard × R1 :=
  let r := keyExec (tshard st i) k op
  (st.set i r.1, r.2)

def replyNat : R1 → Nat
  | .int i => i.toNat
  | _ => 0

/-- `ShardedActorState` at virtual time `now`, routing by the (one) hash `R.bytes` -/
def execNT (R : Routes) (K : Carries) (now : Nat) (st : List TShard) : TCmd → List TShard × List R1
  | .key kind k op =>
    let i := R.bytes k
    let r := keyExecAt (st.set i (adopt K kind (tshard st i) now)) i k op
    (r.1, [r.2])
  | .batch kind items =>
    -- every shard that receives a sub-batch adopts the time once …
    let st1 := (List.range st.length).map (fun i =>
      if items.any (fun it => R.bytes it.1 == i) then adopt K kind (tshard st i) now else tshard st i)
    -- … then the items run in order, each on its key's shard
    items.foldl (fun acc it =>
      let r := keyExecAt acc.1 (R.bytes it.1) it.1 it.2
      (r.1, acc.2 ++ [r.2])) (st1, [])
  | .dbsize =>
    -- a `Command::DbSize` to every shard (generic messages), integers summed
    let sts := st.map (fun sh => adopt K .generic sh now)
    (sts, [.int ((sts.map (fun sh => (sh.data.filter (fun p => !expired sh.clock p.2)).length)).sum)])

/-! ### the timed sequential specification of one key (C02)

  An operation INVOKED at virtual time `now` sees an entry iff `now < deadline`; nothing else ever
  removes an entry: expiry is a function of the invocation time, not an operation. -/

def specSlot (op : KOp) (now : Nat) (old : Option Entry) : Option Entry × R1 :=
  match op with
  | .set v => (some (v, none), .ok)
  | .setPx v ms => (some (v, some (now + ms)), .ok)
  | .setEx v secs => (some (v, some (now + 1000 * secs)), .ok)
  | .get => (old, bulk (liveE now old))
  | .exists => (old, .int (if (liveE now old).isSome then 1 else 0))

def specKeyAt (now : Nat) (s : NMap Entry) (c : Key × KOp) : NMap Entry × R1 :=
  let r := specSlot c.2 now (NMap.get s c.1)
  (put s c.1 r.1, r.2)

/-- `evict_expired_all_shards` (the TTL manager's tick): every shard adopts the time and evicts; the
    return value is the number of keys evicted NOW — an internal metric that legitimately depends on
    the shard count (on one shard earlier messages have already evicted what N shards still hold) -/
def evictAll (st : List TShard) (now : Nat) : List TShard × Nat :=
  (st.map (fun sh => setTime sh now),
   (st.map (fun sh => sh.data.length - (setTime sh now).data.length)).sum)

def tinit (n : Nat) : List TShard := List.replicate n { data := [], clock := 0 }

/-- a timed run: every step is (virtual time, command) -/
def runNT (R : Routes) (K : Carries) (st : List TShard) : List (Nat × TCmd) → List (List R1)
  | [] => []
  | (now, c) :: cs =>
    let r := execNT R K now st c
    r.2 :: runNT R K r.1 cs

/-- virtual time never goes backwards -/
def Mono : Nat → List (Nat × TCmd) → Prop
  | _, [] => True
  | t, (now, _) :: cs => t ≤ now ∧ Mono now cs

def decMono : (t : Nat) → (l : List (Nat × TCmd)) → Decidable (Mono t l)
  | _, [] => isTrue trivial
  | t, (now, _) :: cs =>
    match Nat.decLe t now, decMono now cs with
    | isTrue h1, isTrue h2 => isTrue ⟨h1, h2⟩
    | isFalse h, _ => isFalse (fun x => h x.1)
    | _, isFalse h => isFalse (fun x => h x.2)

instance (t : Nat) (l : List (Nat × TCmd)) : Decidable (Mono t l) := decMono t l

end Clock
end Shards
end RedisVerif
