import RedisVerif.Model.Shards

/-
  M7/ShardsClock — the per-shard CLOCK and key expiry under the sharding layer, for a handful of
  commands (SET [PX], GET, EXISTS, DBSIZE, fast/pooled GET/SET).

  Anchors: /repo/src/production/sharded_actor.rs (`ShardActor::run`: the `Command` arm calls
  `executor.set_time(virtual_time)` before executing; the Fast*/PooledFast* arms do so only since
  the fix "fast/pooled/batch shard messages carry the virtual time" — flag `carries`),
  /repo/src/redis/executor/mod.rs (`set_time` = set the clock + `evict_expired_keys`,
  `is_expired`: `expiration <= current_time`, `get_value`: lazy removal, `get_direct`,
  `set_direct`: clears the expiration, `execute_dbsize`/`execute_exists`: skip expired keys),
  string_ops.rs (`execute_set`: `PX ms` → `current_time + ms`, no option → expiration cleared).

  This is an executable transcription used by the C03 correspondence (timed streams) and by the
  `stale_clock_counterexample`; the refinement theorems of `Props/C03.lean` are about the untimed
  model (expiry semantics proper is C01's).  Imports only core.
-/
namespace RedisVerif
namespace Shards
namespace Clock

/-- one `CommandExecutor`: `data` + `expirations` (deadline in virtual ms) + `current_time` -/
structure TShard where
  data : NMap (Bytes × Option Nat)
  clock : Nat
  deriving DecidableEq, Repr

inductive TCmd
  | set (k : Key) (v : Bytes)
  | setPx (k : Key) (v : Bytes) (ms : Nat)
  | get (k : Key)
  | exists (k : Key)
  | dbsize
  | fastGet (k : Key)
  | fastSet (k : Key) (v : Bytes)
  deriving DecidableEq, Repr

def expired (clock : Nat) (e : Bytes × Option Nat) : Bool :=
  match e.2 with
  | some d => decide (d ≤ clock)
  | none => false

/-- `set_time`: set the clock, evict every key whose deadline has passed -/
def setTime (sh : TShard) (now : Nat) : TShard :=
  { data := sh.data.filter (fun p => !expired now p.2), clock := now }

/-- `get_value`: an expired key is removed on access -/
def getValue (sh : TShard) (k : Key) : TShard × Option Bytes :=
  match NMap.get sh.data k with
  | none => (sh, none)
  | some e => if expired sh.clock e then ({ sh with data := NMap.erase k sh.data }, none) else (sh, some e.1)

def bulk : Option Bytes → R1
  | none => .nil
  | some b => .bulk b

/-- what one shard does with a message that is already addressed to it (clock handling excluded) -/
def shardExec (sh : TShard) : TCmd → TShard × R1
  | .set k v => ({ sh with data := NMap.insert k (v, none) sh.data }, .ok)
  | .setPx k v ms => ({ sh with data := NMap.insert k (v, some (sh.clock + ms)) sh.data }, .ok)
  | .get k => let r := getValue sh k; (r.1, bulk r.2)
  | .exists k =>
    (sh, .int (match NMap.get sh.data k with
      | some e => if expired sh.clock e then 0 else 1
      | none => 0))
  | .dbsize => (sh, .int (sh.data.filter (fun p => !expired sh.clock p.2)).length)
  | .fastGet k => let r := getValue sh k; (r.1, bulk r.2)
  | .fastSet k v => ({ sh with data := NMap.insert k (v, none) sh.data }, .ok)

def tshard (st : List TShard) (i : Nat) : TShard := st.getD i { data := [], clock := 0 }

/-- a `ShardMessage::Command` to shard `i` at virtual time `now` -/
def generic (st : List TShard) (i : Nat) (now : Nat) (c : TCmd) : List TShard × R1 :=
  let r := shardExec (setTime (tshard st i) now) c
  (st.set i r.1, r.2)

/-- a `Fast*` / `PooledFast*` message: carries the virtual time only if `carries` -/
def fast (carries : Bool) (st : List TShard) (i : Nat) (now : Nat) (c : TCmd) : List TShard × R1 :=
  let sh := if carries then setTime (tshard st i) now else tshard st i
  let r := shardExec sh c
  (st.set i r.1, r.2)

def replyNat : R1 → Nat
  | .int i => i.toNat
  | _ => 0

/-- `ShardedActorState` at virtual time `now` (routing is the repaired one: one hash) -/
def execNT (R : Routes) (carries : Bool) (now : Nat) (st : List TShard) : TCmd → List TShard × R1
  | .dbsize =>
    -- DBSIZE to every shard (each sets its clock), integers summed
    let sts := st.map (fun sh => setTime sh now)
    (sts, .int ((sts.map (fun sh => replyNat (shardExec sh .dbsize).2)).sum))
  | .fastGet k => fast carries st (R.bytes k) now (.fastGet k)
  | .fastSet k v => fast carries st (R.bytes k) now (.fastSet k v)
  | .set k v => generic st (R.bytes k) now (.set k v)
  | .setPx k v ms => generic st (R.bytes k) now (.setPx k v ms)
  | .get k => generic st (R.bytes k) now (.get k)
  | .exists k => generic st (R.bytes k) now (.exists k)

def tinit (n : Nat) : List TShard := List.replicate n { data := [], clock := 0 }

/-- a timed run: every step is (virtual time, command) -/
def runNT (R : Routes) (carries : Bool) (st : List TShard) : List (Nat × TCmd) → List R1
  | [] => []
  | (now, c) :: cs =>
    let r := execNT R carries now st c
    r.2 :: runNT R carries r.1 cs

end Clock
end Shards
end RedisVerif
