import RedisVerif.Model.Redis

/-
  `Model.SkipList` — TRANSCRIPTION of `src/redis/data/skiplist.rs` (`SkipList`) and
  `src/redis/data/sorted_set.rs` (`RedisSortedSet`), the structure behind every sorted-set
  command.  Unlike `Model.Redis` (the specification) this file follows the code as it is:
  levels, per-level spans, the `update[]` / `rank[]` arrays of the searches, the span arithmetic of
  `insert_internal` / `delete_node`, the level bookkeeping (`self.level` grows with a tall node and
  shrinks in `delete_node`), the xorshift level generator, the isize index normalisation of
  `RedisSortedSet::range`, the member ↦ score map next to the list.  `Props/C01Data.lean` proves
  that it REFINES the sorted-list operations `Model.Redis` defines the sorted-set commands with
  (`zInsert`, `zRemove`, `zRankAux`, `slice ∘ lrangeNorm`, `filter inRange`, `applyLimit`) for
  every operation sequence and every choice of levels.

  Representation.  The arena (`nodes: Vec<Option<SkipListNode>>`, `free_slots`) is a linked
  structure; the model keeps the nodes in level-0 order as `towers : List Tower`, each with its
  per-level `spans` (`spans.length` = `levels.len()`), and the header's 32 spans in `hdr`.  A
  position is `0` (the header) or `p+1` (the tower `towers[p]`).  The level-`i` forward pointer of a
  node is NOT stored: it is "the next tower with more than `i` levels" (`walk` skips the towers that
  are not on level `i`); the harness checks on the real structure (through its `Debug` rendering)
  after every operation that each stored `forward` is exactly that node, that `backward` / `tail`
  / `free_slots` are consistent, and compares heights, spans, header spans, `level`, `length` and
  `rng_state` with the model's.  `backward`, `tail` and the arena indices are written but never read
  by any public function and are not modelled.

  Panics (`expect("node must exist")`, slice index out of range, usize underflow — the harness
  builds /repo with overflow checks) are the explicit outcome `none`; the refinement theorems
  include "never `none` on a well-formed list".

  Scores are `Model.Redis.Score` (integers and ±inf; no NaN, no fractions: as in M7).
  No imports outside core.  Only structural recursion.
-/
namespace RedisVerif.SkipList
open RedisVerif.Redis

/-- `SKIPLIST_MAXLEVEL` -/
def maxLevel : Nat := 32

/-- one `SkipListNode`: payload + the span stored at each of its levels -/
structure Tower where
  member : BS
  score : Score
  spans : List Nat
  deriving DecidableEq, Repr

/-- `SkipList` (see the file comment for what is kept) -/
structure SL where
  /-- spans of the header node, one per level (`SKIPLIST_MAXLEVEL` of them) -/
  hdr : List Nat
  /-- the nodes in level-0 order -/
  towers : List Tower
  level : Nat
  length : Nat
  /-- `rng_state` of the xorshift level generator -/
  rng : UInt64
  deriving DecidableEq, Repr

/-- `SkipList::new` -/
def SL.new : SL :=
  { hdr := List.replicate maxLevel 0, towers := [], level := 1, length := 0, rng := 0x853c49e6748fea9b }

def Tower.key (t : Tower) : BS × Score := (t.member, t.score)

/-! ## the level generator -/

def xorshift (x : UInt64) : UInt64 :=
  let x := x ^^^ (x <<< 13)
  let x := x ^^^ (x >>> 7)
  x ^^^ (x <<< 17)

/-- body of `random_level`'s `while level < SKIPLIST_MAXLEVEL` (fuel = iterations left):
    `(x & 0xFFFF) as f64 / 65536.0 >= 0.25` ⇔ `(x & 0xFFFF) ≥ 16384` -/
def randomLevelAux : Nat → Nat → UInt64 → Nat × UInt64
  | 0, l, s => (l, s)
  | f + 1, l, s =>
    if (xorshift s &&& 0xFFFF) ≥ 16384 then (l, xorshift s) else randomLevelAux f (l + 1) (xorshift s)

/-- `random_level`: (level, new rng state) -/
def randomLevel (s : UInt64) : Nat × UInt64 := randomLevelAux (maxLevel - 1) 1 s

/-- a level generator: the theorems hold for EVERY `lv` whose levels lie in `1..=32` -/
abbrev LevelGen := UInt64 → Nat × UInt64

/-! ## spans -/

/-- `nodes[p].levels[i].span`; `none` = the slot does not exist (index panic in the code) -/
def spanAt (sl : SL) (p i : Nat) : Option Nat :=
  match p with
  | 0 => sl.hdr[i]?
  | q + 1 =>
    match sl.towers[q]? with
    | none => none
    | some t => t.spans[i]?

def modifyAt {α : Type} (f : α → α) : List α → Nat → List α
  | [], _ => []
  | x :: xs, 0 => f x :: xs
  | x :: xs, n + 1 => x :: modifyAt f xs n

/-- `nodes[p].levels[i].span = v` (always preceded by a read of the same slot) -/
def setSpan (sl : SL) (p i v : Nat) : SL :=
  match p with
  | 0 => { sl with hdr := sl.hdr.set i v }
  | q + 1 => { sl with towers := modifyAt (fun t => { t with spans := t.spans.set i v }) sl.towers q }

/-! ## the searches -/

/-- the inner `loop` of every search at level `i`.  We stand on the node at position `p` whose
    level-`i` span is `cs`; `rest` = the towers not yet looked at, `sk` of them already skipped
    because they have no level `i`; `acc` = `rank[i]` / `traversed`.  The node's level-`i` forward
    pointer is the first tower of `rest` that has a level `i`; `go fwd (acc + span)` is the loop's
    continue-condition.  Result: (position reached, accumulated rank). -/
def walk (go : Tower → Nat → Bool) (i : Nat) : List Tower → Nat → Nat → Nat → Nat → Nat × Nat
  | [], p, _, _, acc => (p, acc)
  | t :: ts, p, sk, cs, acc =>
    match t.spans[i]? with
    | none => walk go i ts p (sk + 1) cs acc
    | some cs' =>
      if go t (acc + cs) then walk go i ts (p + sk + 1) 0 cs' (acc + cs)
      else (p, acc)

/-- `for i in (0..level).rev() { … loop … ; update[i] = x }`: the first argument counts the levels
    still to visit; result = `(update[i], rank[i])` for `i < level`, index = level -/
def descend (go : Tower → Nat → Bool) (sl : SL) : Nat → Nat → Nat → Option (List (Nat × Nat))
  | 0, _, _ => some []
  | i + 1, p, acc =>
    match spanAt sl p i with
    | none => none
    | some cs =>
      match descend go sl i (walk go i (sl.towers.drop p) p 0 cs acc).1 (walk go i (sl.towers.drop p) p 0 cs acc).2 with
      | none => none
      | some l => some (l ++ [walk go i (sl.towers.drop p) p 0 cs acc])

/-- the arrays `update` / `rank` are `[0usize; SKIPLIST_MAXLEVEL]`: slots at and above `level` stay 0 -/
def pad (ur : List (Nat × Nat)) : List (Nat × Nat) := ur ++ List.replicate (maxLevel - ur.length) (0, 0)

/-- entry `i` of a padded array (a slot beyond 32 is an index panic) -/
def slot (ur : List (Nat × Nat)) (i : Nat) : Option (Nat × Nat) := ur[i]?

/-- the search of `insert` / `remove_with_score`: `compare(fwd, (score, member)) == Less` -/
def goLess (m : BS) (sc : Score) : Tower → Nat → Bool := fun t _ => zLt t.key (m, sc)

def search (sl : SL) (m : BS) (sc : Score) : Option (List (Nat × Nat)) :=
  (descend (goLess m sc) sl sl.level 0 0).map pad

/-! ## insert_internal -/

/-- `for i in 0..level { new.span = old_span - (rank[0] - rank[i]); update[i].span = (rank[0] - rank[i]) + 1 }`
    over the given `(update[i], rank[i])` entries starting at level `i`; returns the new node's spans -/
def linkLevels (r0 : Nat) : List (Nat × Nat) → Nat → SL → Option (SL × List Nat)
  | [], _, sl => some (sl, [])
  | (u, r) :: rest, i, sl =>
    match spanAt sl u i with
    | none => none
    | some old =>
      if r0 < r ∨ old < r0 - r then none
      else
        match linkLevels r0 rest (i + 1) (setSpan sl u i (r0 - r + 1)) with
        | none => none
        | some (sl', sp) => some (sl', (old - (r0 - r)) :: sp)

/-- `for i in level..self.level { update[i].span += 1 }` -/
def bumpLevels : List (Nat × Nat) → Nat → SL → Option SL
  | [], _, sl => some sl
  | (u, _) :: rest, i, sl =>
    match spanAt sl u i with
    | none => none
    | some s => bumpLevels rest (i + 1) (setSpan sl u i (s + 1))

/-- `header.levels[i].span = self.length` for `i` in `from..from+n` -/
def initHdr (hdr : List Nat) (len : Nat) : Nat → Nat → List Nat
  | _, 0 => hdr
  | i, n + 1 => initHdr (hdr.set i len) len (i + 1) n

/-- `if level > self.level { for i in self.level..level { rank[i] = 0; update[i] = 0; … } }` on the arrays -/
def resetSlots (ur : List (Nat × Nat)) (lo hi : Nat) : List (Nat × Nat) :=
  ur.take lo ++ List.replicate (hi - lo) (0, 0) ++ ur.drop hi

def insertAt {α : Type} (x : α) : List α → Nat → List α
  | l, 0 => x :: l
  | [], _ + 1 => [x]
  | y :: ys, n + 1 => y :: insertAt x ys n

/-- `insert_internal(member, score, update, rank)`; `lv` = the level generator in force -/
def insertInternal (lv : LevelGen) (sl : SL) (m : BS) (sc : Score) (ur : List (Nat × Nat)) : Option SL :=
  let h := (lv sl.rng).1
  let sl := { sl with rng := (lv sl.rng).2 }
  -- alloc_node(level) then `levels[0]` of the new node is touched: level 0 panics; header.levels[i] for i ≥ 32 panics
  if h = 0 ∨ h > maxLevel then none
  else
    let ur := if h > sl.level then resetSlots ur sl.level h else ur
    let sl := if h > sl.level then { sl with hdr := initHdr sl.hdr sl.length sl.level (h - sl.level), level := h } else sl
    match slot ur 0 with
    | none => none
    | some (u0, r0) =>
      match linkLevels r0 (ur.take h) 0 sl with
      | none => none
      | some (sl, sp) =>
        match bumpLevels ((ur.take sl.level).drop h) h sl with
        | none => none
        | some sl =>
          some { sl with towers := insertAt ⟨m, sc, sp⟩ sl.towers u0, length := sl.length + 1 }

/-! ## delete_node -/

/-- position of the first tower with a level `i` (the argument is the position of the list's head) -/
def fwdPos (i : Nat) : List Tower → Nat → Option Nat
  | [], _ => none
  | t :: ts, p => if i < t.spans.length then some p else fwdPos i ts (p + 1)

/-- `for i in 0..self.level { if update[i].forward == Some(idx) { span = span + idx.span - 1 } else { span -= 1 } }` -/
def unlinkLevels (q : Nat) : List (Nat × Nat) → Nat → SL → Option SL
  | [], _, sl => some sl
  | (u, _) :: rest, i, sl =>
    match spanAt sl u i with
    | none => none
    | some su =>
      if fwdPos i (sl.towers.drop u) (u + 1) = some q then
        match spanAt sl q i with
        | none => none
        | some sq => if su + sq = 0 then none else unlinkLevels q rest (i + 1) (setSpan sl u i (su + sq - 1))
      else if su = 0 then none
      else unlinkLevels q rest (i + 1) (setSpan sl u i (su - 1))

/-- `while self.level > 1 { if header.levels[self.level - 1].forward.is_some() { break } self.level -= 1 }` -/
def shrinkLevel (towers : List Tower) : Nat → Nat
  | 0 => 0
  | 1 => 1
  | l + 2 => if towers.any (fun t => l + 1 < t.spans.length) then l + 2 else shrinkLevel towers (l + 1)

/-- `delete_node(idx, update)`; `q` = position (≥ 1) of the node -/
def deleteNode (sl : SL) (q : Nat) (ur : List (Nat × Nat)) : Option SL :=
  match unlinkLevels q (ur.take sl.level) 0 sl with
  | none => none
  | some sl =>
    if q = 0 ∨ sl.length = 0 then none
    else
      some { sl with towers := sl.towers.eraseIdx (q - 1),
                     level := shrinkLevel (sl.towers.eraseIdx (q - 1)) sl.level,
                     length := sl.length - 1 }

/-! ## public functions of `SkipList` -/

/-- `insert(member, score)`: (list, "new element") -/
def insert (lv : LevelGen) (sl : SL) (m : BS) (sc : Score) : Option (SL × Bool) :=
  match search sl m sc with
  | none => none
  | some ur =>
    match slot ur 0 with
    | none => none
    | some (u0, _) =>
      match sl.towers[u0]? with        -- `nodes[x].levels[0].forward`
      | some t =>
        if t.member = m then
          if t.score ≠ sc then
            match deleteNode sl (u0 + 1) ur with
            | none => none
            | some sl' => (insertInternal lv sl' m sc ur).map (fun s => (s, false))
          else some (sl, false)
        else (insertInternal lv sl m sc ur).map (fun s => (s, true))
      | none => (insertInternal lv sl m sc ur).map (fun s => (s, true))

/-- `remove_with_score(member, score)` -/
def removeWithScore (sl : SL) (m : BS) (sc : Score) : Option (SL × Bool) :=
  match search sl m sc with
  | none => none
  | some ur =>
    match slot ur 0 with
    | none => none
    | some (u0, _) =>
      match sl.towers[u0]? with
      | some t =>
        if t.member = m ∧ t.score = sc then (deleteNode sl (u0 + 1) ur).map (fun s => (s, true))
        else some (sl, false)
      | none => some (sl, false)

/-- continue-condition of `rank`: `cmp == Less || (cmp == Equal && fwd.member < member)` -/
def goRank (m : BS) (sc : Score) : Tower → Nat → Bool :=
  fun t _ => zLt t.key (m, sc) || (t.key == (m, sc) && bsLt t.member m)

/-- `rank(member, score)`: outer `none` = panic -/
def rank (sl : SL) (m : BS) (sc : Score) : Option (Option Nat) :=
  match descend (goRank m sc) sl sl.level 0 0 with
  | none => none
  | some ur =>
    match slot (pad ur) 0 with
    | none => none
    | some (x, r) =>
      -- with `level = 0` the loop does not run: x = header, rank = 0 (the padded slot)
      match sl.towers[x]? with
      | some t => if t.member = m ∧ t.score = sc then some (some r) else some none
      | none => some none

def payload (t : Tower) : BS × Score := (t.member, t.score)

/-- `range(start, end)` (inclusive ranks) -/
def range (sl : SL) (start stop : Nat) : Option (List (BS × Score)) :=
  if start > stop ∨ start ≥ sl.length then some []
  else
    match descend (fun _ a => decide (a ≤ start)) sl sl.level 0 0 with
    | none => none
    | some ur =>
      match slot (pad ur) 0 with
      | none => none
      | some (x, _) =>
        some (((sl.towers.drop x).take (min stop (sl.length - 1) - start + 1)).map payload)

/-- `rev_range(start, end)` -/
def revRange (sl : SL) (start stop : Nat) : Option (List (BS × Score)) :=
  if start > stop ∨ start ≥ sl.length then some []
  else
    (range sl (sl.length - 1 - min stop (sl.length - 1)) (sl.length - 1 - start)).map List.reverse

/-- `iter()` -/
def iter (sl : SL) : List (BS × Score) := sl.towers.map payload

/-! ## `RedisSortedSet` -/

/-- association list for `members: AHashMap<String, f64>` (unique keys; order irrelevant) -/
abbrev MemberMap := List (BS × Score)

def mmGet : MemberMap → BS → Option Score
  | [], _ => none
  | (k, v) :: r, m => if m = k then some v else mmGet r m

def mmErase : MemberMap → BS → MemberMap
  | [], _ => []
  | (k, v) :: r, m => if m = k then r else (k, v) :: mmErase r m

def mmSet : MemberMap → BS → Score → MemberMap
  | [], m, s => [(m, s)]
  | (k, v) :: r, m, s => if m = k then (k, s) :: r else (k, v) :: mmSet r m s

structure ZS where
  members : MemberMap
  sl : SL
  deriving DecidableEq, Repr

def ZS.new : ZS := ⟨[], SL.new⟩

/-- `add(member, score)`: (set, "new member") -/
def add (lv : LevelGen) (z : ZS) (m : BS) (sc : Score) : Option (ZS × Bool) :=
  match mmGet z.members m with
  | some old =>
    if old = sc then some (z, false)
    else
      match removeWithScore z.sl m old with
      | none => none
      | some (sl1, _) =>
        match insert lv sl1 m sc with
        | none => none
        | some (sl2, _) => some (⟨mmSet z.members m sc, sl2⟩, false)
  | none =>
    match insert lv z.sl m sc with
    | none => none
    | some (sl2, _) => some (⟨mmSet z.members m sc, sl2⟩, true)

/-- `remove(member)` -/
def remove (z : ZS) (m : BS) : Option (ZS × Bool) :=
  match mmGet z.members m with
  | none => some (z, false)
  | some old =>
    match removeWithScore z.sl m old with
    | none => none
    | some (sl1, _) => some (⟨mmErase z.members m, sl1⟩, true)

def score (z : ZS) (m : BS) : Option Score := mmGet z.members m

/-- `rank(member)` -/
def zrank (z : ZS) (m : BS) : Option (Option Nat) :=
  match mmGet z.members m with
  | none => some none
  | some sc => rank z.sl m sc

def len (z : ZS) : Nat := z.members.length
def skiplistLen (z : ZS) : Nat := z.sl.length

/-- the isize normalisation shared by `range` and `rev_range`: `none` = empty result -/
def normRange (len : Nat) (start stop : Int) : Option (Nat × Nat) :=
  if len = 0 then none
  else
    let s := if start < 0 then max ((len : Int) + start) 0 else min start len
    let e := if stop < 0 then max ((len : Int) + stop) (-1) else min stop ((len : Int) - 1)
    if s > e ∨ s ≥ len then none else some (s.toNat, e.toNat)

/-- `range(start, stop)` -/
def zrange (z : ZS) (start stop : Int) : Option (List (BS × Score)) :=
  match normRange z.sl.length start stop with
  | none => some []
  | some (s, e) => range z.sl s e

/-- `rev_range(start, stop)` -/
def zrevRange (z : ZS) (start stop : Int) : Option (List (BS × Score)) :=
  match normRange z.sl.length start stop with
  | none => some []
  | some (s, e) => revRange z.sl s e

/-- `is_sorted()` -/
def isSortedAux : List (BS × Score) → Score → BS → Bool
  | [], _, _ => true
  | (m, s) :: r, ps, pm => if s.lt ps || (s == ps && bsLt m pm) then false else isSortedAux r s m

def isSorted (z : ZS) : Bool := isSortedAux (iter z.sl) .ninf []

/-- `count_in_range(min, max)` once both bounds are parsed (`none` = "min or max is not a float") -/
def countInRange (z : ZS) (lo hi : Option Bound) : Option Nat :=
  match lo, hi with
  | some lo, some hi => some ((iter z.sl).filter (fun p => inRange lo hi p.2)).length
  | _, _ => none

/-- `range_by_score(min, max, _, limit)` -/
def rangeByScore (z : ZS) (lo hi : Option Bound) (lim : Option (Int × Nat)) : Option (List (BS × Score)) :=
  match lo, hi with
  | some lo, some hi =>
    match lim with
    | none => some ((iter z.sl).filter (fun p => inRange lo hi p.2))
    | some (off, cnt) =>
      if off < 0 then some []
      else some ((((iter z.sl).filter (fun p => inRange lo hi p.2)).drop off.toNat).take cnt)
  | _, _ => none

/-! ## `execute_zadd` / `execute_zrem` of `sorted_set_ops.rs`: the loops over the structure -/

/-- the slow path of `execute_zadd` for one `(score, member)`: (set, added, changed) -/
def zaddPair (lv : LevelGen) (f : ZFlags) (z : ZS) (m : BS) (sc : Score) : Option (ZS × Nat × Nat) :=
  match score z m with
  | some cs =>
    if f.nx then some (z, 0, 0)
    else if f.gt && (sc.le cs) then some (z, 0, 0)
    else if f.lt && (cs.le sc) then some (z, 0, 0)
    else
      match add lv z m sc with
      | none => none
      | some (z', wasAdded) =>
        some (z', if wasAdded then 1 else 0, if wasAdded then 1 else if cs ≠ sc then 1 else 0)
  | none =>
    if f.xx then some (z, 0, 0)
    else
      match add lv z m sc with
      | none => none
      | some (z', wasAdded) => some (z', if wasAdded then 1 else 0, 1)

/-- `for (score, member) in pairs { … }`: (set, added, changed) -/
def zaddLoop (lv : LevelGen) (f : ZFlags) : ZS → List (BS × Score) → Option (ZS × Nat × Nat)
  | z, [] => some (z, 0, 0)
  | z, (m, sc) :: ps =>
    match zaddPair lv f z m sc with
    | none => none
    | some (z1, a1, c1) =>
      match zaddLoop lv f z1 ps with
      | none => none
      | some (z2, a2, c2) => some (z2, a2 + a1, c2 + c1)

/-- `for member in members { if zs.remove(member) { removed += 1 } }` -/
def zremLoop : ZS → List BS → Option (ZS × Nat)
  | z, [] => some (z, 0)
  | z, m :: ms =>
    match remove z m with
    | none => none
    | some (z1, b) =>
      match zremLoop z1 ms with
      | none => none
      | some (z2, n) => some (z2, n + (if b then 1 else 0))

end RedisVerif.SkipList
