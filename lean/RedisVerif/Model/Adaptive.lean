import RedisVerif.Model.NMap

/-
  M8 (ring half) — `AdaptiveReplicationManager` with its `HotKeyDetector` (session 4).

  Anchors: /repo/src/production/adaptive_replication.rs (`AdaptiveReplicationManager::{new, observe,
  get_rf_for_key, is_hot, recalculate, force_recalculate, get_hot_key_updates, hot_key_count, stats,
  clear}`), /repo/src/production/hotkey.rs (`AccessMetrics::{new, record, access_rate}`,
  `HotKeyDetector::{new, record_access, is_hot, get_hot_keys, cleanup_stale, tracked_key_count, clear}`).

  Keys are `Nat` codes (`HashMap<String, _>` → `NMap`), times and counters `Nat` with the `u64`
  saturating operations of the code (`saturating_sub` = truncated subtraction, `saturating_add`
  capped at `u64::MAX`).

  The ONE float comparison, `access_rate(now) >= hot_threshold` with
  `access_rate = (total as f64 * 1000.0) / duration_ms as f64`, is modelled in integers:
  `total * 1000 ≥ threshold * duration`.  That is EXACT whenever the threshold is an integer
  `T ≤ 2^20`, `duration < 2^32` and `total * 1000 < 2^53`: then `total * 1000` and `duration` are exact
  `f64`s, the quotient is correctly rounded, and a real quotient `< T` is `≤ T - 1/duration`, more
  than half an ulp (`≤ 2^-34`) below `T`, so it cannot round up to `T`; a quotient `≥ T` rounds to
  `≥ T` by monotonicity.  The harness stays inside that domain (integer thresholds, 32-bit
  clocks); everything else about `f64` (the rates returned by `get_hot_keys` / `get_top_keys`,
  non-integer thresholds, NaN) is not modelled.
-/
namespace RedisVerif
namespace Adaptive

def u64Max : Nat := 2 ^ 64 - 1

/-- `x.saturating_add(1)` on `u64` -/
def satSucc (x : Nat) : Nat := min (x + 1) u64Max

/-- `AccessMetrics` -/
structure Metrics where
  reads : Nat
  writes : Nat
  first : Nat
  last : Nat
  deriving DecidableEq, Repr, Inhabited

/-- `AccessMetrics::new(now_ms, is_write)` -/
def Metrics.new (now : Nat) (isWrite : Bool) : Metrics :=
  { reads := if isWrite then 0 else 1, writes := if isWrite then 1 else 0, first := now, last := now }

/-- `AccessMetrics::record(now_ms, is_write)` -/
def Metrics.record (m : Metrics) (now : Nat) (isWrite : Bool) : Metrics :=
  if isWrite then { m with writes := satSucc m.writes, last := now }
  else { m with reads := satSucc m.reads, last := now }

/-- `access_rate(now_ms) >= threshold`: `total = reads.saturating_add(writes)`,
    `duration = now.saturating_sub(first).max(1)`, `total * 1000 / duration >= threshold` -/
def Metrics.isHot (m : Metrics) (threshold now : Nat) : Bool :=
  decide (threshold * max (now - m.first) 1 ≤ min (m.reads + m.writes) u64Max * 1000)

/-- `HotKeyConfig` (`hot_threshold` an integer number of accesses per second) -/
structure HotCfg where
  window : Nat
  threshold : Nat
  cleanupInterval : Nat
  maxTracked : Nat
  deriving DecidableEq, Repr, Inhabited

/-- `HotKeyDetector` -/
structure Detector where
  counts : NMap Metrics
  cfg : HotCfg
  lastCleanup : Nat
  deriving DecidableEq, Repr, Inhabited

def Detector.new (cfg : HotCfg) : Detector := { counts := [], cfg := cfg, lastCleanup := 0 }

/-- `cleanup_stale(now)`: `retain(|_, m| m.last_access_ms >= now.saturating_sub(window_ms))` -/
def Detector.cleanupStale (d : Detector) (now : Nat) : Detector :=
  { d with counts := d.counts.filter fun p => decide (now - d.cfg.window ≤ p.2.last) }

/-- `record_access(key, is_write, now)` -/
def Detector.recordAccess (d : Detector) (key : Nat) (isWrite : Bool) (now : Nat) : Detector :=
  let d := if d.cfg.cleanupInterval ≤ now - d.lastCleanup then { d.cleanupStale now with lastCleanup := now } else d
  match NMap.get d.counts key with
  | some m => { d with counts := NMap.insert key (m.record now isWrite) d.counts }
  | none =>
    if d.counts.length < d.cfg.maxTracked then { d with counts := NMap.insert key (Metrics.new now isWrite) d.counts }
    else d

/-- `is_hot(key, now)` -/
def Detector.isHot (d : Detector) (key now : Nat) : Bool :=
  match NMap.get d.counts key with
  | some m => m.isHot d.cfg.threshold now
  | none => false

/-- the keys of `get_hot_keys(now)` (ascending; the code returns them in `HashMap` order, with rates) -/
def Detector.hotKeys (d : Detector) (now : Nat) : List Nat :=
  (d.counts.filter fun p => p.2.isHot d.cfg.threshold now).map (·.1)

/-- `AdaptiveReplicationManager` -/
structure Mgr where
  det : Detector
  overrides : NMap Nat
  baseRf : Nat
  hotRf : Nat
  recalcInterval : Nat
  lastRecalc : Nat
  promotions : Nat
  demotions : Nat
  deriving DecidableEq, Repr, Inhabited

/-- the hot-key factor in effect: `clamped` = `new` raises `hot_key_rf` to at least `base_rf`
    (suggested patch); the code as it is takes the configured value -/
def effHot (clamped : Bool) (baseRf hotRf : Nat) : Nat := if clamped then max hotRf baseRf else hotRf

/-- `AdaptiveReplicationManager::new(config)` -/
def Mgr.newWith (clamped : Bool) (baseRf hotRf recalcInterval : Nat) (cfg : HotCfg) : Mgr :=
  { det := Detector.new cfg, overrides := [], baseRf := baseRf, hotRf := effHot clamped baseRf hotRf,
    recalcInterval := recalcInterval, lastRecalc := 0, promotions := 0, demotions := 0 }

/-- the current tree: `new` raises `hot_key_rf` to at least `base_rf` (fix of
    C19:adaptive:config:hot_key_rf<base_rf:hot-key-loses-owners) -/
def currentHotClamped : Bool := true

def Mgr.new (baseRf hotRf recalcInterval : Nat) (cfg : HotCfg) : Mgr :=
  Mgr.newWith currentHotClamped baseRf hotRf recalcInterval cfg

/-- `recalculate(now)`: promote the hot keys that have no override, then demote every override
    whose key is not hot any more -/
def Mgr.recalculate (m : Mgr) (now : Nat) : Mgr :=
  let hot := m.det.hotKeys now
  let promoted := hot.filter fun k => (NMap.get m.overrides k).isNone
  let ov1 := promoted.foldl (fun o k => NMap.insert k m.hotRf o) m.overrides
  let demoted := ov1.filter fun p => !hot.contains p.1
  { m with
    overrides := ov1.filter fun p => hot.contains p.1
    promotions := m.promotions + promoted.length
    demotions := m.demotions + demoted.length }

/-- `observe(key, is_write, now)` -/
def Mgr.observe (m : Mgr) (key : Nat) (isWrite : Bool) (now : Nat) : Mgr :=
  let m := { m with det := m.det.recordAccess key isWrite now }
  if m.recalcInterval ≤ now - m.lastRecalc then { m.recalculate now with lastRecalc := now } else m

/-- `get_rf_for_key(key)` -/
def Mgr.rfForKey (m : Mgr) (key : Nat) : Nat := (NMap.get m.overrides key).getD m.baseRf

/-- `clear()`: forgets the access table and the overrides (NOT the timestamps, NOT the statistics) -/
def Mgr.clear (m : Mgr) : Mgr := { m with det := { m.det with counts := [] }, overrides := [] }

/-- the public mutators -/
inductive Op where
  | observe (key : Nat) (isWrite : Bool) (now : Nat)
  | recalc (now : Nat)          -- `force_recalculate`
  | clear
  deriving DecidableEq, Repr

def Mgr.step (m : Mgr) : Op → Mgr
  | .observe k w now => m.observe k w now
  | .recalc now => m.recalculate now
  | .clear => m.clear

def Mgr.run (m : Mgr) (ops : List Op) : Mgr := ops.foldl Mgr.step m

end Adaptive
end RedisVerif
