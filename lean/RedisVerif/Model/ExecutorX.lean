import RedisVerif.Model.ExecutorScan

/-
  `Model.ExecutorX` — the rest of `CommandExecutor::execute` that touches the keyspace, as it is:

  * SETBIT / GETBIT (bitmap_ops.rs), the internal BatchSet / BatchGet, KEYS with a pattern — the
    commands of `Model.RedisX` (`XCmd`) on the executor's two-map state;
  * the STUBS that look at a key: OBJECT ENCODING / REFCOUNT / IDLETIME / FREQ, DEBUG OBJECT
    (`get_value(key)`, then a reply that depends on the type / size only);
  * every other arm of the `match` (PING, ECHO, INFO, TIME, SELECT, WAIT, CLIENT *, CONFIG *, ACL *, AUTH,
    COMMAND *, FUNCTION FLUSH, OBJECT HELP, DEBUG SLEEP / SET, XADD / XINFO stubs, unknown commands)
    neither reads nor writes `data` / `expirations`: `StubCmd.const`.

  Outside: INCRBYFLOAT (floats), the transaction commands (C05) and the script commands (C16 / stepScript).
-/
namespace RedisVerif.Executor
open RedisVerif.Redis RedisVerif.RedisX

/-- `execute_setbit` -/
def cSetBit (cs : CState) (k off bit : Nat) : CState × Reply :=
  if off ≥ maxBitOffset then (cs, .err .notInt)
  else
    match getValue cs k with
    | (c, some (.str b)) =>
      ({ c with data := NMap.insert k (.str ((growFor b off).set (off / 8)
          (withBit ((growFor b off).getD (off / 8) 0) (off % 8) bit))) c.data },
       .int (bitOf ((growFor b off).getD (off / 8) 0) (off % 8)))
    | (c, some _) => (c, wrongType)
    | (c, none) =>
      ({ c with data := NMap.insert k (.str ((growFor [] off).set (off / 8) (withBit 0 (off % 8) bit))) c.data },
       .int 0)

/-- `execute_getbit` -/
def cGetBit (cs : CState) (k off : Nat) : CState × Reply :=
  if off ≥ maxBitOffset then (cs, .err .notInt)
  else
    match getValue cs k with
    | (c, none) => (c, .int 0)
    | (c, some (.str b)) =>
      match b[off / 8]? with
      | none => (c, .int 0)
      | some byte => (c, .int (bitOf byte (off % 8)))
    | (c, some _) => (c, wrongType)

/-- `execute_keys` with a pattern -/
def cKeysPat (cs : CState) (pat : BS) : CState × Reply :=
  (cs, .arr ((cs.data.filter (fun p => !isExpired cs p.1 && globMatch pat (codeBytes p.1))).map
    (fun p => Elem.key p.1)))

def execXC (cs : CState) : XCmd → CState × Reply
  | .setbit k off bit => cSetBit cs k off bit
  | .getbit k off => cGetBit cs k off
  | .batchset kvs => cMSet cs kvs
  | .batchget ks => cMGet cs ks
  | .keys pat => cKeysPat cs pat

/-! ## stubs -/

/-- Rust's `str::parse::<i64>()`: optional `+` / `-`, at least one ASCII digit, value inside i64
    (leading zeros are accepted) -/
def parseRustI64 (b : BS) : Option Int :=
  match b with
  | 45 :: ds =>
    match unsignedVal ds with
    | some n => if n ≤ 9223372036854775808 then some (-(n : Int)) else none
    | none => none
  | 43 :: ds =>
    match unsignedVal ds with
    | some n => if n ≤ 9223372036854775807 then some (n : Int) else none
    | none => none
  | ds =>
    match unsignedVal ds with
    | some n => if n ≤ 9223372036854775807 then some (n : Int) else none
    | none => none

def asciiBytes (s : String) : BS := s.toList.map Char.toNat

/-- `Command::ObjectEncoding`: the reply text by type and size -/
def objectEncodingOf : Value → String
  | .str b => if (parseRustI64 b).isSome then "int" else if b.length ≤ 44 then "embstr" else "raw"
  | .list l => if l.length ≤ 128 then "listpack" else "quicklist"
  | .set m => if m.length ≤ 128 then "listpack" else "hashtable"
  | .hash h => if h.length ≤ 128 then "listpack" else "hashtable"
  | .zset z => if z.length ≤ 128 then "listpack" else "skiplist"

inductive StubCmd
  | objectEncoding (k : Nat)
  | objectRefCount (k : Nat)
  | objectIdleTime (k : Nat)
  | objectFreq (k : Nat)
  | debugObject (k : Nat)
  /-- an arm of `execute` that does not mention `self.data` / `self.expirations` -/
  | const (name : String)
  deriving Repr

inductive StubReply
  | bulk (b : BS)
  | int (i : Int)
  | noSuchKey
  | unspecified      -- a `const` arm: the reply is not modelled
  deriving DecidableEq, Repr

def execStub (cs : CState) : StubCmd → CState × StubReply
  | .objectEncoding k =>
    match getValue cs k with
    | (c, some v) => (c, .bulk (asciiBytes (objectEncodingOf v)))
    | (c, none) => (c, .noSuchKey)
  | .objectRefCount k =>
    match getValue cs k with
    | (c, some _) => (c, .int 1)
    | (c, none) => (c, .noSuchKey)
  | .objectIdleTime k =>
    match getValue cs k with
    | (c, some _) => (c, .int 0)
    | (c, none) => (c, .noSuchKey)
  | .objectFreq k =>
    match getValue cs k with
    | (c, some _) => (c, .int 0)
    | (c, none) => (c, .noSuchKey)
  | .debugObject k =>
    match getValue cs k with
    | (c, some _) => (c, .bulk (asciiBytes
        "Value at:0x0 refcount:1 encoding:raw serializedlength:0 lru:0 lru_seconds_idle:0 type:string"))
    | (c, none) => (c, .noSuchKey)
  | .const _ => (cs, .unspecified)

/-! ## `execute_readonly(&self, cmd)` (mod.rs): the read path that takes no `&mut` -/

/-- GET / EXISTS / KEYS on an IMMUTABLE executor: `is_expired` is consulted, nothing is dropped;
    `none` = "ERR command not supported in readonly mode" (every other command; PING is a `const`) -/
def cReadonly (cs : CState) : Cmd → Option Reply
  | .get k =>
    if isExpired cs k then some .nil
    else
      match NMap.get cs.data k with
      | some (.str b) => some (.bulk b)
      | some _ => some wrongType
      | none => some .nil
  | .exists ks => some (.int (ks.filter (liveKey cs)).length)
  | .keys => some (cKeys cs).2
  | _ => none

end RedisVerif.Executor
