import RedisVerif.Model.Cluster

/-
  Message level of replication (C06, layer 0): what the code does between `record_*` and
  `apply_remote_delta`.

  Anchors
  * /repo/src/replication/state/shard_state.rs — `pending_deltas`, `MAX_PENDING_DELTAS`,
    `enforce_pending_capacity` (drops from the FRONT), `drain_pending_deltas`;
  * /repo/src/replication/gossip.rs — `GossipMessage` (5 variants), `RoutedMessage`, `GossipState`
    (`queue_deltas` broadcast / selective, `queue_deltas_broadcast`, `queue_heartbeat`,
    `advance_epoch`, `drain_outbound`, `MAX_OUTBOUND_QUEUE`, `enforce_outbound_capacity`);
  * /repo/src/replication/gossip_router.rs — `route_deltas` (`route_selective` / `route_broadcast`);
  * /repo/src/production/replicated_state.rs — `execute`: the delta handed back by the shard is
    queued with `queue_deltas(vec![delta])` when `config.enabled`; `collect_pending_deltas`;
  * /repo/src/production/gossip_actor.rs — the same `GossipState` behind a mailbox;
  * /repo/src/production/gossip_manager.rs — `start_gossip_loop[_with_actor]`: per tick
    `collect_deltas()`, `advance_epoch`, `queue_deltas`, `drain_outbound`, then one send per
    (message, peer): a targeted message goes to `peer_map[target]` (dropped when the map has no
    entry), a broadcast to every configured peer; a failed send is not retried;
    `handle_peer_connection`: every `DeltaBatch` / `TargetedDelta` / `SyncResponse` that arrives is
    applied (`target_replica` is not checked), a frame above the size limit closes the connection.

  Not modelled: the TCP connection pool (a send is one oracle bit: the frame reached the peer or
  not), serde (C14), the contents of `SyncRequest`.
-/
namespace RedisVerif
namespace Gossip

/-- `MAX_PENDING_DELTAS` (shard_state.rs) -/
def maxPending : Nat := 100
/-- `MAX_OUTBOUND_QUEUE` (gossip.rs) -/
def maxOutbound : Nat := 10000
/-- `u64::MAX` (`advance_epoch` saturates there) -/
def u64Max : Nat := 18446744073709551615

/-- `enforce_pending_capacity` / `enforce_outbound_capacity`:
    `if q.len() > CAP { q.drain(..q.len() - CAP) }` — the OLDEST entries go -/
def enforceCap {α : Type} (cap : Nat) (q : List α) : List α :=
  if q.length > cap then q.drop (q.length - cap) else q

/-- what `enforceCap` removed -/
def overflow {α : Type} (cap : Nat) (q : List α) : List α :=
  if q.length > cap then q.take (q.length - cap) else []

/-! ## the shard with its outbox -/

/-- `ShardReplicaState` with `pending_deltas` (M2's `Shard` returns the delta instead) -/
structure PShard where
  sh : Shard
  pending : List Msg
  deriving Repr

namespace PShard

def init (rid : Nat) (causal : Bool) : PShard := { sh := Shard.init rid causal, pending := [] }

/-- a local `record_*`: every operation that hands a delta back pushes a clone of it and then
    enforces the capacity.  `me` = index of the node (the `origin` of its messages). -/
def localOp (cap : Nat) (me : Nat) (ps : PShard) (op : LOp) : PShard × Option RV :=
  let r := Shard.step ps.sh op.toOp
  match r.2 with
  | some d => ({ sh := r.1, pending := enforceCap cap (ps.pending ++ [⟨me, op.key, d⟩]) }, some d)
  | none => ({ ps with sh := r.1 }, none)

/-- `drain_pending_deltas` = `mem::take` -/
def drain (ps : PShard) : PShard × List Msg := ({ ps with pending := [] }, ps.pending)

end PShard

/-! ## gossip messages -/

/-- `GossipMessage` (replication/gossip.rs) -/
inductive GMsg where
  | deltaBatch (src : Nat) (deltas : List Msg) (epoch : Nat)
  | targetedDelta (src tgt : Nat) (deltas : List Msg) (epoch : Nat)
  | syncRequest (src : Nat)
  | syncResponse (src : Nat) (deltas : List Msg)
  | heartbeat (src : Nat) (epoch : Nat)
  deriving DecidableEq, Repr

namespace GMsg

/-- `source_replica()` -/
def source : GMsg → Nat
  | deltaBatch s _ _ => s
  | targetedDelta s _ _ _ => s
  | syncRequest s => s
  | syncResponse s _ => s
  | heartbeat s _ => s

/-- `into_deltas()` -/
def intoDeltas : GMsg → Option (List Msg)
  | deltaBatch _ ds _ => some ds
  | targetedDelta _ _ ds _ => some ds
  | syncResponse _ ds => some ds
  | _ => none

/-- `is_delta_message()` (NOT `into_deltas().is_some()`: a `SyncResponse` carries deltas too) -/
def isDeltaMessage : GMsg → Bool
  | deltaBatch _ _ _ => true
  | targetedDelta _ _ _ _ => true
  | _ => false

/-- the deltas a receiver applies (`handle_peer_connection`, `handle_gossip_connection`) -/
def payload (m : GMsg) : List Msg := (m.intoDeltas).getD []

end GMsg

/-- `RoutedMessage { target: Option<ReplicaId>, message }` -/
structure Routed where
  target : Option Nat
  msg : GMsg
  deriving DecidableEq, Repr

/-- `GossipRouter` as far as `queue_deltas` uses it: `is_selective()`, and for a key the replicas
    `hash_ring.get_gossip_targets(key, my_replica)` that have an entry in `peer_addresses` (the
    ring itself is C19's model; here it is a table) -/
structure Router where
  selective : Bool
  /-- key ↦ target replica ids -/
  targets : NMap (List Nat)
  deriving DecidableEq, Repr

def Router.targetsOf (r : Router) (k : Nat) : List Nat := (NMap.get r.targets k).getD []

/-- `route_selective`: `routing_table.entry(target).or_default().push(delta)` for every delta, for
    every target of its key — a map target ↦ deltas (in delta order) -/
def routeSelective (r : Router) (deltas : List Msg) : NMap (List Msg) :=
  deltas.foldl (fun t d =>
    (r.targetsOf d.key).foldl (fun t tg => NMap.insert tg ((NMap.get t tg).getD [] ++ [d]) t) t) []

/-- the entries of the routing table in the iteration order of the real `HashMap`: `order` is
    the implementation's choice (targets it names first, in that order; the rest in key order) -/
def tableInOrder (order : List Nat) (t : NMap (List Msg)) : List (Nat × List Msg) :=
  (order.eraseDups.filterMap (fun tg => (NMap.get t tg).map (fun ds => (tg, ds))))
    ++ t.filter (fun p => !order.contains p.1)

/-- `GossipState` -/
structure GState where
  /-- `replica_id` -/
  me : Nat
  epoch : Nat
  outbound : List Routed
  router : Option Router
  deriving Repr

namespace GState

def init (rid : Nat) : GState := { me := rid, epoch := 0, outbound := [], router := none }

/-- `advance_epoch`: `saturating_add(1)` -/
def advanceEpoch (g : GState) : GState := { g with epoch := if g.epoch < u64Max then g.epoch + 1 else u64Max }

/-- push + `enforce_outbound_capacity` -/
def push (cap : Nat) (g : GState) (ms : List Routed) : GState :=
  { g with outbound := enforceCap cap (g.outbound ++ ms) }

def isSelective (g : GState) : Bool :=
  match g.router with
  | some r => r.selective
  | none => false

/-- the messages one `queue_deltas(deltas)` call appends -/
def routedFor (g : GState) (order : List Nat) (deltas : List Msg) : List Routed :=
  if deltas.isEmpty then []
  else
    match g.router with
    | some r =>
      if r.selective then
        (tableInOrder order (routeSelective r deltas)).filterMap (fun p =>
          if p.2.isEmpty then none
          else some ⟨some p.1, .targetedDelta g.me p.1 p.2 g.epoch⟩)
      else [⟨none, .deltaBatch g.me deltas g.epoch⟩]
    | none => [⟨none, .deltaBatch g.me deltas g.epoch⟩]

/-- `queue_deltas`.  (With no delta the function returns before touching the queue; in selective
    mode the capacity is enforced even when the routing table is empty — `enforceCap` of an
    unchanged queue that was within capacity is the identity.) -/
def queueDeltas (cap : Nat) (g : GState) (order : List Nat) (deltas : List Msg) : GState :=
  if deltas.isEmpty then g else g.push cap (g.routedFor order deltas)

/-- `queue_deltas_broadcast` -/
def queueDeltasBroadcast (cap : Nat) (g : GState) (deltas : List Msg) : GState :=
  if deltas.isEmpty then g else g.push cap [⟨none, .deltaBatch g.me deltas g.epoch⟩]

/-- `queue_heartbeat` -/
def queueHeartbeat (cap : Nat) (g : GState) : GState := g.push cap [⟨none, .heartbeat g.me g.epoch⟩]

/-- `drain_outbound` -/
def drainOutbound (g : GState) : GState × List Routed := ({ g with outbound := [] }, g.outbound)

end GState

/-! ## a node, the wire, the cluster -/

/-- the part of `ReplicationConfig` / of the deployment the message level reads -/
structure NodeCfg where
  /-- `config.enabled`: `execute` queues the delta it was handed only when set -/
  enabled : Bool
  /-- `config.replica_id` -/
  rid : Nat
  /-- `config.peers`: addresses, here the index of the node that listens there -/
  peers : List Nat
  /-- does the `collect_deltas` closure handed to the gossip loop drain `pending_deltas`
      (`collect_pending_deltas`) or return nothing (server_persistent.rs: "queue_deltas is called
      elsewhere")? -/
  collect : Bool
  /-- `true` = the peer-id arithmetic of `GossipRouter::from_config` after fix faccb9f
      (`i + 1 >= replica_id`); `false` = `(i as u64) >= config.replica_id`, what BOTH gossip loops
      of gossip_manager.rs compute today -/
  peerIdFixed : Bool
  /-- the router the gossip state starts with (`GossipState::with_router`,
      `GossipActor::spawn_with_router`; `none` = `GossipState::new`, what
      `ReplicatedShardedState::new` builds) -/
  router : Option Router
  deriving DecidableEq, Repr

/-- the id the gossip loop gives to the peer at config index `i` -/
def peerId (fixed : Bool) (rid i : Nat) : Nat :=
  if fixed then (if i + 1 ≥ rid then i + 2 else i + 1)
  else (if i ≥ rid then i + 2 else i + 1)

/-- `peer_map: HashMap<ReplicaId, String>` of the gossip loop (later entries win) -/
def peerMap (cfg : NodeCfg) : NMap Nat :=
  NMap.ofList ((List.range cfg.peers.length).zip cfg.peers |>.map
    (fun p => (peerId cfg.peerIdFixed cfg.rid p.1, p.2)))

structure MNode where
  ps : PShard
  g : GState
  cfg : NodeCfg
  deriving Repr

/-- a frame on its way to the node listening at `to` -/
structure Packet where
  to : Nat
  msg : GMsg
  deriving DecidableEq, Repr

/-- why a delta did not get any further (ghost bookkeeping, not in the code) -/
inductive Loss where
  | pendingOverflow | outboundOverflow | noAddress | sendFailed | tooLarge
  deriving DecidableEq, Repr

structure MCluster where
  nodes : List MNode
  wire : List Packet
  /-- ghost: every delta ever handed back by a shard (= `Cluster.sent`) -/
  issued : List Msg
  /-- ghost: every absorption (= `Cluster.log`) -/
  log : List Absorbed
  /-- ghost: every delta copy that was discarded, with the reason and the node that did not get it
      (`none` = nobody: the copy was dropped before it had a destination) -/
  lost : List (Msg × Loss × Option Nat)
  deriving Repr

/-- capacities (the code's constants are `caps`; theorems quantify over them, counterexamples
    use small ones) -/
structure Caps where
  pending : Nat
  outbound : Nat
  deriving DecidableEq, Repr

def caps : Caps := { pending := maxPending, outbound := maxOutbound }

inductive MEv where
  /-- a client command on node `i` (`ReplicatedShardedState::execute`) -/
  | loc (i : Nat) (op : LOp) (order : List Nat)
  /-- one iteration of the gossip loop of node `i`; `oks` = did the k-th send of this iteration
      reach the peer (missing entries: yes) -/
  | tick (i : Nat) (order : List Nat) (oks : List Bool)
  /-- `queue_heartbeat` -/
  | heartbeat (i : Nat)
  /-- `set_router` (also how a change of the replication factor / ring reaches the sender) -/
  | setRouter (i : Nat) (r : Option Router)
  /-- the network hands packet `p` of the wire to its destination (any order, any number of
      times, or never); `tooLarge` = the frame exceeds the receiver's size limit -/
  | recv (p : Nat) (tooLarge : Bool)
  deriving Repr

namespace MCluster

def initNode (i : Nat) (causal : Bool) (cfg : NodeCfg) : MNode :=
  { ps := PShard.init (i + 1) causal, g := { GState.init (i + 1) with router := cfg.router }, cfg := cfg }

def init (causal : Bool) (cfgs : List NodeCfg) : MCluster :=
  { nodes := (List.range cfgs.length).zip cfgs |>.map (fun p => initNode p.1 causal p.2)
    wire := [], issued := [], log := [], lost := [] }

/-- the deltas inside a list of routed messages -/
def deltasOf (ms : List Routed) : List Msg := ms.flatMap (fun r => r.msg.payload)

/-- one send attempt per destination of one routed message; returns the packets put on the wire,
    the losses, and the unused part of the oracle -/
def sendOne (cfg : NodeCfg) (r : Routed) (oks : List Bool) :
    List Packet × List (Msg × Loss × Option Nat) × List Bool :=
  match r.target with
  | some t =>
    match NMap.get (peerMap cfg) t with
    | some addr =>
      if oks.headD true then ([⟨addr, r.msg⟩], [], oks.tail)
      else ([], r.msg.payload.map (fun d => (d, Loss.sendFailed, some addr)), oks.tail)
    | none => ([], r.msg.payload.map (fun d => (d, Loss.noAddress, none)), oks)
  | none =>
    cfg.peers.foldl (fun acc addr =>
      if acc.2.2.headD true then (acc.1 ++ [⟨addr, r.msg⟩], acc.2.1, acc.2.2.tail)
      else (acc.1, acc.2.1 ++ r.msg.payload.map (fun d => (d, Loss.sendFailed, some addr)), acc.2.2.tail))
      ([], [], oks)

def sendAll (cfg : NodeCfg) (rs : List Routed) (oks : List Bool) :
    List Packet × List (Msg × Loss × Option Nat) :=
  (rs.foldl (fun acc r =>
    let s := sendOne cfg r acc.2.2
    (acc.1 ++ s.1, acc.2.1 ++ s.2.1, s.2.2)) ([], [], oks)) |> fun a => (a.1, a.2.1)

/-- apply the deltas of a received frame in order (`for delta in deltas { apply_remote_delta }`) -/
def applyAll (s : Shard) (ds : List Msg) : Shard := ds.foldl (fun s d => s.applyRemote d.key d.val) s

def step (cp : Caps) (c : MCluster) : MEv → MCluster
  | .loc i op order =>
    match c.nodes[i]? with
    | none => c
    | some nd =>
      let r := nd.ps.localOp cp.pending i op
      match r.2 with
      | none => { c with nodes := c.nodes.set i { nd with ps := r.1 } }
      | some d =>
        let m : Msg := ⟨i, op.key, d⟩
        let lostP := (overflow cp.pending (nd.ps.pending ++ [m])).map (fun x => (x, Loss.pendingOverflow, none))
        let g' := if nd.cfg.enabled then nd.g.queueDeltas cp.outbound order [m] else nd.g
        let lostO :=
          if nd.cfg.enabled then
            (deltasOf (overflow cp.outbound (nd.g.outbound ++ nd.g.routedFor order [m]))).map
              (fun x => (x, Loss.outboundOverflow, none))
          else []
        { c with
          nodes := c.nodes.set i { nd with ps := r.1, g := g' }
          issued := c.issued ++ [m]
          log := c.log ++ [⟨i, op.key, d⟩]
          lost := c.lost ++ lostP ++ lostO }
  | .tick i order oks =>
    match c.nodes[i]? with
    | none => c
    | some nd =>
      let dr := if nd.cfg.collect then nd.ps.drain else (nd.ps, [])
      let g1 := nd.g.advanceEpoch
      let g2 := g1.queueDeltas cp.outbound order dr.2
      let lostO := (deltasOf (overflow cp.outbound (g1.outbound ++ g1.routedFor order dr.2))).map
        (fun x => (x, Loss.outboundOverflow, none))
      let out := g2.drainOutbound
      let s := sendAll nd.cfg out.2 oks
      { c with
        nodes := c.nodes.set i { nd with ps := dr.1, g := out.1 }
        wire := c.wire ++ s.1
        lost := c.lost ++ lostO ++ s.2 }
  | .heartbeat i =>
    match c.nodes[i]? with
    | none => c
    | some nd =>
      { c with
        nodes := c.nodes.set i { nd with g := nd.g.queueHeartbeat cp.outbound }
        lost := c.lost ++ (deltasOf (overflow cp.outbound (nd.g.outbound ++ [⟨none, .heartbeat nd.g.me nd.g.epoch⟩]))).map
          (fun x => (x, Loss.outboundOverflow, none)) }
  | .setRouter i r =>
    match c.nodes[i]? with
    | none => c
    | some nd => { c with nodes := c.nodes.set i { nd with g := { nd.g with router := r } } }
  | .recv p tooLarge =>
    match c.wire[p]? with
    | none => c
    | some pk =>
      match c.nodes[pk.to]? with
      | none => c
      | some nd =>
        if tooLarge then
          { c with lost := c.lost ++ pk.msg.payload.map (fun d => (d, Loss.tooLarge, some pk.to)) }
        else
          { c with
            nodes := c.nodes.set pk.to { nd with ps := { nd.ps with sh := applyAll nd.ps.sh pk.msg.payload } }
            log := c.log ++ pk.msg.payload.map (fun d => ⟨pk.to, d.key, d.val⟩) }

def run (cp : Caps) (c : MCluster) (evs : List MEv) : MCluster := evs.foldl (step cp) c

/-- the layer-1 view: replication states, history, absorption log -/
def abs (c : MCluster) : Cluster :=
  { nodes := c.nodes.map (fun nd => nd.ps.sh), sent := c.issued, log := c.log }

end MCluster
end Gossip
end RedisVerif
