/-
  M7 / Grammar — the command grammar of redis-rust, transcribed from the code that exists.

  Anchors
    * `/repo/src/redis/parser.rs`      `Command::from_resp`            (simulation parser)   → `parseCmd`
    * `/repo/src/redis/commands.rs`    `Command::from_resp_zero_copy`  (production parser)   → `parseCmd` + `zcDiffers`
    * `/repo/src/redis/executor/script_ops.rs` `parse_lua_command_bytes` (redis.call / pcall) → `parseLua`
    * `resp_to_lua_value` / `lua_to_resp`                                                    → `LuaConv.respToLua / luaToResp`

  A frame is the list of bulk-string arguments a client sent (`List Bytes`, command name first).
  The result is the canonical rendering of the Rust `Command` value: constructor name + the
  flattened field tokens (`Cmd`), or the error (`Err`): the exact text (a `crash` outcome exists
  for a panic of the Rust code; since the fixes of `SCAN … MATCH` and `EVAL s -1` no table entry
  produces it).

  The grammar is TABLE DRIVEN: `table` lists one `Spec` per command name (arity rule, arity
  error text, body shape); sub-command families (`CONFIG GET` …) are two-level.  The dispatcher
  `parseCmd` performs the name normalisation, the table lookup and the arity test once, so that
  the theorems of `Props/C16.lean` are proved once over the table.

  Where the two RESP parsers differ the model follows `from_resp`; the differences are listed in
  `zcArityErr` / `zcAclStubs` (both empty since the LPUSH/RPUSH/SADD texts and the ACL stubs were
  aligned).

  Strings: Rust `String`s obtained by `String::from_utf8_lossy` are modelled as the UTF-8 bytes
  of the lossy string (`lossy`).  `to_uppercase()` is modelled exactly for ASCII and for the
  non-ASCII characters whose upper-case expansion contains an ASCII letter (they can select a
  grammar branch: `ſet` IS `SET`); other non-ASCII letters are left unchanged (trusted base:
  generators use case-less non-ASCII characters only; the special table is compared with Rust's
  `char::to_uppercase` over all of Unicode on every run).

  This file must not import anything outside core (it is linked into the native driver).
-/
namespace RedisVerif.Grammar

abbrev Bytes := List Nat

/-- ASCII string literal → bytes (kernel-reducible) -/
def s2b (s : String) : Bytes := s.toList.map Char.toNat

/-! ## `String::from_utf8_lossy` -/

def isCont (c : Nat) : Bool := 0x80 ≤ c && c ≤ 0xBF

/-- U+FFFD -/
def fffd : Bytes := [0xEF, 0xBF, 0xBD]

/-- second byte admissible after a 3-byte lead (`Utf8Chunks`) -/
def ok3 (b c : Nat) : Bool :=
  (b == 0xE0 && 0xA0 ≤ c && c ≤ 0xBF) ||
  (0xE1 ≤ b && b ≤ 0xEC && 0x80 ≤ c && c ≤ 0xBF) ||
  (b == 0xED && 0x80 ≤ c && c ≤ 0x9F) ||
  (0xEE ≤ b && b ≤ 0xEF && 0x80 ≤ c && c ≤ 0xBF)

/-- second byte admissible after a 4-byte lead -/
def ok4 (b c : Nat) : Bool :=
  (b == 0xF0 && 0x90 ≤ c && c ≤ 0xBF) ||
  (0xF1 ≤ b && b ≤ 0xF3 && 0x80 ≤ c && c ≤ 0xBF) ||
  (b == 0xF4 && 0x80 ≤ c && c ≤ 0x8F)

/-- the first chunk of `Utf8Chunks`: how many bytes it spans (≥ 1 on a non-empty input) and
    whether it is a valid character (otherwise: a maximal invalid subpart) -/
def chunk : Bytes → Nat × Bool
  | [] => (0, true)
  | b :: rest =>
    if b < 0x80 then (1, true)
    else if 0xC2 ≤ b && b ≤ 0xDF then
      match rest with
      | c :: _ => if isCont c then (2, true) else (1, false)
      | [] => (1, false)
    else if 0xE0 ≤ b && b ≤ 0xEF then
      match rest with
      | c :: r =>
        if ok3 b c then
          match r with
          | d :: _ => if isCont d then (3, true) else (2, false)
          | [] => (2, false)
        else (1, false)
      | [] => (1, false)
    else if 0xF0 ≤ b && b ≤ 0xF4 then
      match rest with
      | c :: r =>
        if ok4 b c then
          match r with
          | d :: r' =>
            if isCont d then
              match r' with
              | e :: _ => if isCont e then (4, true) else (3, false)
              | [] => (3, false)
            else (2, false)
          | [] => (2, false)
        else (1, false)
      | [] => (1, false)
    else (1, false)

def lossyF : Nat → Bytes → Bytes
  | 0, _ => []
  | _ + 1, [] => []
  | fuel + 1, b :: rest =>
    let c := chunk (b :: rest)
    (if c.2 then (b :: rest).take c.1 else fffd) ++ lossyF fuel ((b :: rest).drop c.1)

/-- `String::from_utf8_lossy(bs)` as UTF-8 bytes: every maximal invalid subpart becomes one U+FFFD -/
def lossy (bs : Bytes) : Bytes := lossyF bs.length bs

/-! ## `str::to_uppercase` / `to_lowercase` (on valid UTF-8 bytes) -/

def upperAscii (b : Nat) : Nat := if 97 ≤ b && b ≤ 122 then b - 32 else b
def lowerAscii (b : Nat) : Nat := if 65 ≤ b && b ≤ 90 then b + 32 else b

/-- the non-ASCII characters whose `to_uppercase` contains an ASCII letter, with that expansion -/
def specials : List (Bytes × Bytes) :=
  [ ([0xC3, 0x9F], [83, 83]),                 -- ß  → SS
    ([0xC4, 0xB1], [73]),                     -- ı  → I
    ([0xC5, 0x89], [0xCA, 0xBC, 78]),         -- ŉ  → ʼN
    ([0xC5, 0xBF], [83]),                     -- ſ  → S
    ([0xC7, 0xB0], [74, 0xCC, 0x8C]),         -- ǰ  → J̌
    ([0xE1, 0xBA, 0x96], [72, 0xCC, 0xB1]),   -- ẖ → H̱
    ([0xE1, 0xBA, 0x97], [84, 0xCC, 0x88]),   -- ẗ → T̈
    ([0xE1, 0xBA, 0x98], [87, 0xCC, 0x8A]),   -- ẘ → W̊
    ([0xE1, 0xBA, 0x99], [89, 0xCC, 0x8A]),   -- ẙ → Y̊
    ([0xE1, 0xBA, 0x9A], [65, 0xCA, 0xBE]),   -- ẚ → Aʾ
    ([0xEF, 0xAC, 0x80], [70, 70]),           -- ﬀ → FF
    ([0xEF, 0xAC, 0x81], [70, 73]),           -- ﬁ → FI
    ([0xEF, 0xAC, 0x82], [70, 76]),           -- ﬂ → FL
    ([0xEF, 0xAC, 0x83], [70, 70, 73]),       -- ﬃ → FFI
    ([0xEF, 0xAC, 0x84], [70, 70, 76]),       -- ﬄ → FFL
    ([0xEF, 0xAC, 0x85], [83, 84]),           -- ﬅ → ST
    ([0xEF, 0xAC, 0x86], [83, 84]) ]          -- ﬆ → ST

def isPrefix : Bytes → Bytes → Bool
  | [], _ => true
  | _ :: _, [] => false
  | p :: ps, x :: xs => p == x && isPrefix ps xs

def findSpecial : List (Bytes × Bytes) → Bytes → Option (Bytes × Bytes)
  | [], _ => none
  | (p, e) :: t, x => if isPrefix p x then some (p, e) else findSpecial t x

def upperSpecialF : Nat → Bytes → Bytes
  | 0, _ => []
  | _ + 1, [] => []
  | fuel + 1, b :: r =>
    match findSpecial specials (b :: r) with
    | some (p, e) => e ++ upperSpecialF fuel ((b :: r).drop p.length)
    | none => b :: upperSpecialF fuel r

/-- replace the special characters by their expansions -/
def upperSpecial (s : Bytes) : Bytes := upperSpecialF s.length s

def upper (s : Bytes) : Bytes := (upperSpecial s).map upperAscii
def lower (s : Bytes) : Bytes := s.map lowerAscii

/-- the keyword an argument is compared as: `String::from_utf8_lossy(a).to_uppercase()` -/
def kw (a : Bytes) : Bytes := upper (lossy a)

/-! ## integer arguments -/

def digitVal (b : Nat) : Option Nat := if 48 ≤ b && b ≤ 57 then some (b - 48) else none

def i64Max : Nat := 9223372036854775807
def u64Max : Nat := 18446744073709551615
def u32Max : Nat := 4294967295
def two64 : Nat := 18446744073709551616

inductive IntErr where
  | empty | invalid | overflow
  deriving DecidableEq, Repr

/-- the checked digit loop of `from_str_radix`: first offending position decides the error kind -/
def scanDigits (max : Nat) (acc : Nat) : Bytes → Except IntErr Nat
  | [] => .ok acc
  | c :: cs =>
    match digitVal c with
    | none => .error .invalid
    | some d =>
      let v := acc * 10 + d
      if v > max then .error .overflow else scanDigits max v cs

/-- `str::parse::<u64>` (also `usize`; `max` = the type's maximum): optional `+`, digits -/
def parseUnsigned (max : Nat) : Bytes → Except IntErr Nat
  | [] => .error .empty
  | [43] => .error .invalid
  | [45] => .error .invalid
  | 43 :: ds => scanDigits max 0 ds
  | ds => scanDigits max 0 ds

/-- `str::parse::<i64>` (= `isize`): optional sign, digits, range −2^63 … 2^63−1 -/
def parseI64 : Bytes → Option Int
  | [] => none
  | [43] => none
  | [45] => none
  | 45 :: ds => match scanDigits (i64Max + 1) 0 ds with
    | .ok n => some (- (n : Int))
    | .error _ => none
  | 43 :: ds => match scanDigits i64Max 0 ds with
    | .ok n => some (n : Int)
    | .error _ => none
  | ds => match scanDigits i64Max 0 ds with
    | .ok n => some (n : Int)
    | .error _ => none

/-- `x as usize` for an `isize` -/
def asUsize (i : Int) : Nat := (i % (two64 : Int)).toNat

/-! ## float arguments: `str::parse::<f64>`, exact (correctly rounded) as an IEEE-754 bit pattern -/

def bitLen (n : Nat) : Nat := if n = 0 then 0 else Nat.log2 n + 1

def infBits : Nat := 0x7FF0000000000000
def nanBits : Nat := 0x7FF8000000000000
def signBit : Nat := 0x8000000000000000

/-- nearest-even binary64 bit pattern (sign excluded) of the positive rational `num / den` -/
def f64OfRat (num den : Nat) : Nat :=
  if num = 0 ∨ den = 0 then 0 else
  let e0 : Int := (bitLen num : Int) - (bitLen den : Int) - 53
  let quot (e : Int) : Nat × Nat × Nat :=
    let N := if e ≤ 0 then num * 2 ^ (-e).toNat else num
    let D := if e ≤ 0 then den else den * 2 ^ e.toNat
    (N / D, N % D, D)
  let e1 : Int := if (quot e0).1 ≥ 2 ^ 53 then e0 + 1 else e0
  let e : Int := if e1 < -1074 then -1074 else e1
  let (q, r, D) := quot e
  let q' := if 2 * r > D ∨ (2 * r = D ∧ q % 2 = 1) then q + 1 else q
  let m := if q' = 2 ^ 53 then 2 ^ 52 else q'
  let e' : Int := if q' = 2 ^ 53 then e + 1 else e
  if m < 2 ^ 52 then m
  else
    let E : Int := e' + 1075
    if E ≥ 2047 then infBits else E.toNat * 2 ^ 52 + (m - 2 ^ 52)

def takeDigits : Bytes → Bytes × Bytes
  | [] => ([], [])
  | c :: cs =>
    if 48 ≤ c && c ≤ 57 then
      let (d, r) := takeDigits cs
      (c :: d, r)
    else ([], c :: cs)

def digitsVal (ds : Bytes) : Nat := ds.foldl (fun acc c => acc * 10 + (c - 48)) 0

/-- an optional sign in front of the exponent's digits: (negative?, rest) -/
def stripSign : Bytes → Bool × Bytes
  | 45 :: x => (true, x)
  | 43 :: x => (false, x)
  | x => (false, x)

/-- the exponent part that follows the mantissa (`e` / `E`, optional sign, digits, nothing else); the
    empty rest is exponent 0; `none` = rejected by Rust -/
def expOf : Bytes → Option Int
  | [] => some 0
  | c :: r =>
    if c == 101 || c == 69 then
      if (takeDigits (stripSign r).2).1.length = 0 || (takeDigits (stripSign r).2).2.length ≠ 0 then none
      else some (if (stripSign r).1 then - (digitsVal (takeDigits (stripSign r).2).1 : Int)
                 else (digitsVal (takeDigits (stripSign r).2).1 : Int))
    else none

/-- the fraction part: the digits after a `.`, and what follows them -/
def fracOf : Bytes → Bytes × Bytes
  | 46 :: r => takeDigits r
  | r1 => ([], r1)

/-- `inf` / `infinity` / `nan`, any letter case -/
def isSpecialWord (s : Bytes) : Bool :=
  s.map upperAscii == s2b "INF" || s.map upperAscii == s2b "INFINITY" || s.map upperAscii == s2b "NAN"

/-- the correctly rounded bit pattern of `ip.fp × 10^ex` -/
def decBits (ip fp : Bytes) (ex : Int) : Nat :=
  let m := digitsVal (ip ++ fp)
  let nd := ip.length + fp.length
  let e10 : Int := ex - (fp.length : Int)
  if m = 0 then 0
  else if e10 > 400 then infBits
  else if e10 + (nd : Int) < -400 then 0
  else if e10 ≥ 0 then f64OfRat (m * 10 ^ e10.toNat) 1
  else f64OfRat m (10 ^ (-e10).toNat)

/-- the unsigned part of a float literal: `inf`/`infinity`/`nan` (any case) or decimal with
    optional fraction and exponent; `none` = rejected by Rust -/
def parseF64Abs (s : Bytes) : Option Nat :=
  if s.map upperAscii == s2b "INF" || s.map upperAscii == s2b "INFINITY" then some infBits
  else if s.map upperAscii == s2b "NAN" then some nanBits
  else if (takeDigits s).1.length + (fracOf (takeDigits s).2).1.length = 0 then none
  else match expOf (fracOf (takeDigits s).2).2 with
    | none => none
    | some ex => some (decBits (takeDigits s).1 (fracOf (takeDigits s).2).1 ex)

/-- `str::parse::<f64>` → bit pattern -/
def parseF64 : Bytes → Option Nat
  | [] => none
  | 45 :: r => (parseF64Abs r).map (· + signBit)
  | 43 :: r => parseF64Abs r
  | r => parseF64Abs r

def f64IsNan (bits : Nat) : Bool := (bits / 2 ^ 52) % 2048 == 2047 && bits % 2 ^ 52 != 0
def f64IsInf (bits : Nat) : Bool := (bits / 2 ^ 52) % 2048 == 2047 && bits % 2 ^ 52 == 0

/-! ## results -/

/-- one flattened field of a `Command` -/
inductive Tok where
  | s (b : Bytes)      -- `String` (lossy UTF-8)
  | d (b : Bytes)      -- `SDS` (raw bytes)
  | i (n : Int)        -- `i64` / `isize`
  | n (n : Nat)        -- `u64` / `usize` / `u32` / `u8`
  | f (bits : Nat)     -- `f64`, IEEE-754 bits
  | b (v : Bool)
  | none               -- `Option::None` (a `Some(x)` is rendered as `x`)
  | len (k : Nat)      -- a `Vec` of `k` elements follows (pairs: `2k` tokens)
  deriving DecidableEq, Repr

/-- canonical rendering of a Rust `Command`: constructor name and flattened fields -/
structure Cmd where
  ctor : Bytes
  toks : List Tok
  deriving DecidableEq, Repr

/-- payload-free error texts produced after the arity test -/
inductive Lit where
  | invalidFormat | expectedBulk | expectedUnsigned
  | notInt | notFloat | u64Empty | u64Invalid | u64Overflow
  | syntax | nxxx | dbRange
  | setEx | setPx | setExat | setPxat
  | getexEx | getexPx | getexExat | getexPxat
  | expireNx | expireGtLt
  | zaddPairs | limitMissing
  | evalKeys | evalshaKeys | evalNegKeys
  | lmoveFrom | lmoveTo
  | offsetRange | bitOffset | bitValue | incrNanInf
  | invalidBits
  -- Lua translator
  | luaEmpty | luaSetEx | luaSetPx | luaSetExInt | luaSetPxInt
  | luaIncrbyInt | luaExpireInt | luaHincrbyInt | luaLrangeStart | luaLrangeStop
  | luaZaddScore | luaZrangeStart | luaZrangeStop
  | luaLimitMissing | luaLimitOffset | luaLimitCount
  deriving DecidableEq, Repr

def Lit.text : Lit → Bytes
  | .invalidFormat => s2b "Invalid command format"
  | .expectedBulk => s2b "Expected bulk string"
  | .expectedUnsigned => s2b "Expected unsigned integer"
  | .notInt => s2b "ERR value is not an integer or out of range"
  | .notFloat => s2b "ERR value is not a valid float"
  | .u64Empty => s2b "cannot parse integer from empty string"
  | .u64Invalid => s2b "invalid digit found in string"
  | .u64Overflow => s2b "number too large to fit in target type"
  | .syntax => s2b "ERR syntax error"
  | .nxxx => s2b "ERR XX and NX options at the same time are not compatible"
  | .dbRange => s2b "ERR DB index is out of range"
  | .setEx => s2b "SET EX requires a value"
  | .setPx => s2b "SET PX requires a value"
  | .setExat => s2b "SET EXAT requires a value"
  | .setPxat => s2b "SET PXAT requires a value"
  | .getexEx => s2b "GETEX EX requires a value"
  | .getexPx => s2b "GETEX PX requires a value"
  | .getexExat => s2b "GETEX EXAT requires a value"
  | .getexPxat => s2b "GETEX PXAT requires a value"
  | .expireNx => s2b "ERR NX and XX, GT or LT options at the same time are not compatible"
  | .expireGtLt => s2b "ERR GT and LT options at the same time are not compatible"
  | .zaddPairs => s2b "ZADD requires score-member pairs"
  | .limitMissing => s2b "LIMIT requires offset and count"
  | .evalKeys => s2b "EVAL wrong number of keys"
  | .evalshaKeys => s2b "EVALSHA wrong number of keys"
  | .evalNegKeys => s2b "ERR Number of keys can't be negative"
  | .lmoveFrom => s2b "LMOVE wherefrom must be LEFT or RIGHT"
  | .lmoveTo => s2b "LMOVE whereto must be LEFT or RIGHT"
  | .offsetRange => s2b "ERR offset is out of range"
  | .bitOffset => s2b "ERR bit offset is not an integer or out of range"
  | .bitValue => s2b "ERR bit is not an integer or out of range"
  | .incrNanInf => s2b "ERR increment would produce NaN or Infinity"
  | .invalidBits => s2b "Invalid bits value"
  | .luaEmpty => s2b "Empty command"
  | .luaSetEx => s2b "SET EX requires value"
  | .luaSetPx => s2b "SET PX requires value"
  | .luaSetExInt => s2b "SET EX must be integer"
  | .luaSetPxInt => s2b "SET PX must be integer"
  | .luaIncrbyInt => s2b "INCRBY increment must be integer"
  | .luaExpireInt => s2b "EXPIRE seconds must be integer"
  | .luaHincrbyInt => s2b "HINCRBY increment must be integer"
  | .luaLrangeStart => s2b "LRANGE start must be integer"
  | .luaLrangeStop => s2b "LRANGE stop must be integer"
  | .luaZaddScore => s2b "ZADD score must be a number"
  | .luaZrangeStart => s2b "ZRANGE start must be integer"
  | .luaZrangeStop => s2b "ZRANGE stop must be integer"
  | .luaLimitMissing => s2b "ZRANGEBYSCORE LIMIT requires offset and count"
  | .luaLimitOffset => s2b "ZRANGEBYSCORE LIMIT offset must be integer"
  | .luaLimitCount => s2b "ZRANGEBYSCORE LIMIT count must be integer"

/-- error texts that quote (the normalised form of) an argument: `pre ++ payload ++ suf` -/
inductive Fmt where
  | unsupportedOption      -- EXPIRE / PEXPIRE
  | setNotSupported        -- SET IFEQ / IFGT
  | unknownZrbs | unknownScan | unknownHscan | unknownZscan
  | unknownAcl | unknownScript | configUnknown
  | luaUnknownSet
  deriving DecidableEq, Repr

def Fmt.pre : Fmt → Bytes
  | .unsupportedOption => s2b "ERR Unsupported option "
  | .setNotSupported => s2b "SET "
  | .unknownZrbs => s2b "Unknown ZRANGEBYSCORE option: "
  | .unknownScan => s2b "Unknown SCAN option: "
  | .unknownHscan => s2b "Unknown HSCAN option: "
  | .unknownZscan => s2b "Unknown ZSCAN option: "
  | .unknownAcl => s2b "Unknown ACL subcommand '"
  | .unknownScript => s2b "Unknown SCRIPT subcommand '"
  | .configUnknown => s2b "ERR unknown subcommand or wrong number of arguments for 'config|"
  | .luaUnknownSet => s2b "Unknown SET option: "

def Fmt.suf : Fmt → Bytes
  | .setNotSupported => s2b " option not yet supported"
  | .unknownAcl => s2b "'"
  | .unknownScript => s2b "'"
  | .configUnknown => s2b "' command"
  | _ => []

/-- what a command body can answer instead of a command -/
inductive BErr where
  | crash                          -- the Rust code panics
  | unreachable                    -- model-internal: a body was run on a rejected arity (never happens, `body_reachable`)
  | lit (l : Lit)
  | fmt (f : Fmt) (payload : Bytes)
  deriving DecidableEq, Repr

/-- the error of a parse: the arity test of the command's table entry, the body, or (redis.call
    translator only) a command name without a table entry -/
inductive Err where
  | arity (text : Bytes)
  | body (e : BErr)
  | unknown (name : Bytes)
  deriving DecidableEq, Repr

def unknownPre : Bytes := s2b "ERR Unknown Redis command '"
def unknownSuf : Bytes := s2b "' called from Lua"

/-- observable error: `none` = panic, `some t` = `Err(t)` -/
def BErr.text : BErr → Option Bytes
  | .crash => none
  | .unreachable => some (s2b "<unreachable>")
  | .lit l => some l.text
  | .fmt f p => some (f.pre ++ p ++ f.suf)

def Err.text : Err → Option Bytes
  | .arity t => some t
  | .body e => e.text
  | .unknown n => some (unknownPre ++ n ++ unknownSuf)

deriving instance DecidableEq for Except

abbrev Res := Except Err Cmd
abbrev BRes := Except BErr Cmd

/-! ## argument extraction -/

inductive ArgKind where
  | str   -- `extract_string`: lossy `String`
  | sds   -- `extract_sds`
  | int   -- `extract_integer` (isize) / `extract_i64`
  | u64   -- `extract_u64`: the error is the text of the `ParseIntError`
  | flt   -- `extract_float`
  | usz   -- `extract_string(..).parse::<usize>()` with the generic integer error
  | kw    -- `extract_string(..).to_uppercase()`: a word compared as a keyword
  | u32   -- `extract_string(..).parse::<u32>()`
  | pos   -- `extract_integer(..)?` followed by `if n < 1 { return Err("ERR syntax error") }` (SCAN / HSCAN / ZSCAN COUNT)
  deriving DecidableEq, Repr

/-- an argument slot: its kind and (Lua translator) the error text used instead of the generic one -/
structure Arg where
  kind : ArgKind
  onErr : Option Lit := none
  deriving DecidableEq, Repr

def u64Err : IntErr → Lit
  | .empty => .u64Empty
  | .invalid => .u64Invalid
  | .overflow => .u64Overflow

def Arg.extract (a : Arg) (v : Bytes) : Except BErr Tok :=
  let fail (dflt : Lit) : Except BErr Tok := .error (.lit (a.onErr.getD dflt))
  match a.kind with
  | .str => .ok (.s (lossy v))
  | .sds => .ok (.d v)
  | .int => match parseI64 v with
    | some i => .ok (.i i)
    | none => fail .notInt
  | .u64 => match parseUnsigned u64Max v with
    | .ok n => .ok (.n n)
    | .error e => fail (u64Err e)
  | .flt => match parseF64 v with
    | some bits => .ok (.f bits)
    | none => fail .notFloat
  | .usz => match parseUnsigned u64Max v with
    | .ok n => .ok (.n n)
    | .error _ => fail .notInt
  | .kw => .ok (.s (upper (lossy v)))
  | .u32 => match parseUnsigned u32Max (lossy v) with
    | .ok n => .ok (.n n)
    | .error _ => fail .notInt
  | .pos => match parseI64 v with
    | some i => if i < 1 then .error (.lit .syntax) else .ok (.i i)
    | none => fail .notInt

def aIntE (l : Lit) : Arg := { kind := .int, onErr := some l }
def aStr : Arg := { kind := .str }
def aSds : Arg := { kind := .sds }
def aInt : Arg := { kind := .int }
def aU64 : Arg := { kind := .u64 }
def aFlt : Arg := { kind := .flt }
def aKw : Arg := { kind := .kw }
def aUsz : Arg := { kind := .usz }
def aPos : Arg := { kind := .pos }

/-- extract a fixed sequence of slots, left to right, first error wins; surplus/missing
    arguments are `unreachable` (the arity test has run) -/
def extractFixed : List Arg → List Bytes → Except BErr (List Tok)
  | [], [] => .ok []
  | a :: as, v :: vs => do
    let t ← a.extract v
    let ts ← extractFixed as vs
    pure (t :: ts)
  | _, _ => .error .unreachable

/-- every argument with the same slot -/
def extractAll (a : Arg) : List Bytes → Except BErr (List Tok)
  | [] => .ok []
  | v :: vs => do
    let t ← a.extract v
    let ts ← extractAll a vs
    pure (t :: ts)

/-- (a, b) pairs; an odd tail is `unreachable` -/
def extractPairs (a b : Arg) : List Bytes → Except BErr (List Tok)
  | [] => .ok []
  | x :: y :: vs => do
    let t ← a.extract x
    let u ← b.extract y
    let ts ← extractPairs a b vs
    pure (t :: u :: ts)
  | [_] => .error .unreachable

/-- `a` and `b` are the same word up to ASCII letter case -/
def caseVariant (a b : Bytes) : Bool := a.map upperAscii == b.map upperAscii

/-! ## option scanning (`while i < elements.len() { match opt.as_str() { … } }`) -/

inductive Missing where
  | err (l : Lit)     -- explicit `if i >= len { return Err(..) }`
  | crash             -- `elements[i]` without a bounds test
  | ignore            -- `if i < len { … }`
  deriving DecidableEq, Repr

/-- what the scan answers when the values of an option are missing (`ignore`: the option has
    no effect and the scan ends, as nothing is left) -/
def Missing.result : Missing → Except BErr (List (Nat × List Tok))
  | .err l => .error (.lit l)
  | .crash => .error .crash
  | .ignore => .ok []

structure OptSpec where
  kw : Bytes
  vals : List Arg := []           -- value arguments that follow the keyword (0, 1 or 2)
  missing : Missing := .crash     -- fewer than `vals.length` arguments are left
  reject : Option Fmt := none     -- recognised but refused (`SET … IFEQ`)

def findOpt : List OptSpec → Bytes → Nat → Option (Nat × OptSpec)
  | [], _, _ => none
  | o :: os, k, i => if o.kw = k then some (i, o) else findOpt os k (i + 1)

/-- a recognised option: its index in the option table and the extracted values -/
abbrev Seen := List (Nat × List Tok)

/-- sequential scan; `unk k = none` means an unknown word is skipped -/
def scanOpts (tbl : List OptSpec) (unk : Bytes → Option BErr) : List Bytes → Except BErr Seen
  | [] => .ok []
  | a :: rest =>
    match findOpt tbl (kw a) 0 with
    | none =>
      match unk (kw a) with
      | some e => .error e
      | none => scanOpts tbl unk rest
    | some (idx, o) =>
      match o.reject with
      | some f => .error (.fmt f (kw a))
      | none =>
        match o.vals with
        | [] => do
          let s ← scanOpts tbl unk rest
          pure ((idx, []) :: s)
        | [k1] =>
          match rest with
          | v1 :: rest' => do
            let t1 ← k1.extract v1
            let s ← scanOpts tbl unk rest'
            pure ((idx, [t1]) :: s)
          | [] => o.missing.result
        | [k1, k2] =>
          match rest with
          | v1 :: v2 :: rest' => do
            let t1 ← k1.extract v1
            let t2 ← k2.extract v2
            let s ← scanOpts tbl unk rest'
            pure ((idx, [t1, t2]) :: s)
          | _ => o.missing.result
        | _ => .error .unreachable

def Seen.has (s : Seen) (idx : Nat) : Bool := s.any (·.1 == idx)

/-- the values of the LAST occurrence of option `idx` (later assignments overwrite) -/
def Seen.last (s : Seen) (idx : Nat) : Option (List Tok) :=
  s.foldl (fun acc p => if p.1 == idx then some p.2 else acc) none

/-- `Option<T>` field from a single-valued option -/
def Seen.opt1 (s : Seen) (idx : Nat) : Tok :=
  match s.last idx with
  | some [t] => t
  | _ => .none

/-- leading flags (`ZADD key [NX|XX|GT|LT|CH]… score member …`): stops at the first other word -/
def takeFlags (flags : List Bytes) : List Bytes → List Bytes × List Bytes
  | [] => ([], [])
  | a :: rest =>
    if flags.contains (kw a) then
      let (f, r) := takeFlags flags rest
      (kw a :: f, r)
    else ([], a :: rest)

/-! ## keyword-case variants of argument lists -/

/-- option tails that differ only in the letter case of the words the scan reads as keywords
    (values must be identical) -/
def optVariant (tbl : List OptSpec) : List Bytes → List Bytes → Bool
  | [], [] => true
  | a :: r, a' :: r' =>
    caseVariant a a' &&
    match findOpt tbl (kw a) 0 with
    | none => optVariant tbl r r'
    | some (_, o) =>
      match o.vals with
      | [] => optVariant tbl r r'
      | [_] =>
        match r, r' with
        | v :: s, v' :: s' => v == v' && optVariant tbl s s'
        | x, y => x == y
      | [_, _] =>
        match r, r' with
        | v :: w :: s, v' :: w' :: s' => v == v' && w == w' && optVariant tbl s s'
        | x, y => x == y
      | _ => r == r'
  | _, _ => false

/-- leading flags up to case, the rest identical -/
def flagsVariant (flags : List Bytes) : List Bytes → List Bytes → Bool
  | [], [] => true
  | a :: r, a' :: r' =>
    if flags.contains (kw a) then caseVariant a a' && flagsVariant flags r r'
    else a :: r == a' :: r'
  | _, _ => false

/-- every word up to case -/
def wordsVariant : List Bytes → List Bytes → Bool
  | [], [] => true
  | a :: r, a' :: r' => caseVariant a a' && wordsVariant r r'
  | _, _ => false

/-- the first word up to case, the rest identical -/
def headVariant : List Bytes → List Bytes → Bool
  | [], [] => true
  | a :: r, a' :: r' => caseVariant a a' && r == r'
  | _, _ => false

/-- the first `n` arguments identical, the tails related by `tail` -/
def prefixV (n : Nat) (tail : List Bytes → List Bytes → Bool) (a b : List Bytes) : Bool :=
  a.take n == b.take n && tail (a.drop n) (b.drop n)

inductive Arity where
  | any
  | exact (n : Nat)
  | atLeast (n : Nat)
  | between (lo hi : Nat)
  | evenAtLeast (n : Nat)     -- `MSET`: key value …
  | oddAtLeast (n : Nat)      -- `HSET`: key field value …
  deriving DecidableEq, Repr

/-- which argument counts (command name excluded) pass the arity test -/
def Arity.ok : Arity → Nat → Bool
  | .any, _ => true
  | .exact n, k => k == n
  | .atLeast n, k => n ≤ k
  | .between lo hi, k => lo ≤ k && k ≤ hi
  | .evenAtLeast n, k => n ≤ k && k % 2 == 0
  | .oddAtLeast n, k => n ≤ k && k % 2 == 1

/-! ## generic body shape: fixed slots, optional slots, a tail, a finishing function

  Every hand-written body below is (proved to be, `Lemmas/GrammarShape.lean`) an instance of `runGen`:
  the leading slots are extracted left to right, then the optional ones that are present, then the
  tail (a `Vec`, pairs, an option scan, leading flags + pairs, or the raw rest), and the finishing
  function builds the command from the tokens (range checks, option conflicts, constant fields).
  The structural part (`pre`, `opt`, `tail`) is what `./check C16` compares with the shape descriptor
  extracted from the match arms of the source. -/

/-- what an option scan answers for a word that is not in its table -/
inductive Unk where
  | lit (l : Lit)      -- `_ => return Err("…")`
  | fmt (f : Fmt)      -- `_ => return Err(format!("…{}", opt))`
  deriving DecidableEq, Repr

def Unk.fn : Unk → Bytes → Option BErr
  | .lit l, _ => some (.lit l)
  | .fmt f, w => some (.fmt f w)

inductive Tail where
  | none                                                  -- no further argument (the arity rule excludes them)
  | ignore                                                -- further arguments are not looked at
  | many (a : Arg)                                        -- a `Vec`
  | pairs (a b : Arg)                                     -- a `Vec` of pairs
  | scan (tbl : List OptSpec) (unk : Unk)                 -- `while i < len { match opt { … } }`
  | flagsPairs (flags : List Bytes) (odd : Lit) (a b : Arg)   -- leading flags, then pairs (ZADD)
  | raw                                                   -- handed to the finishing function as it is

/-- what the tail yields -/
inductive TailV where
  | none
  | toks (n : Nat) (ts : List Tok)
  | seen (s : Seen)
  | flags (fl : List Bytes) (n : Nat) (ts : List Tok)
  | raw (args : List Bytes)

/-- a test on the options an option scan has seen (indices into the option table) -/
inductive Cond where
  | has (i : Nat)
  | and (a b : Cond)
  | or (a b : Cond)
  | countGt (is : List Nat) (n : Nat)      -- more than `n` of these options were given
  deriving DecidableEq, Repr

def Cond.eval (s : Seen) : Cond → Bool
  | .has i => s.has i
  | .and a b => a.eval s && b.eval s
  | .or a b => a.eval s || b.eval s
  | .countGt is n => decide ((is.map s.has).count true > n)

/-- the literal of the first conflict rule that fires -/
def firstFiring (s : Seen) : List (Cond × Lit) → Option Lit
  | [] => none
  | (c, l) :: rest => if c.eval s then some l else firstFiring s rest

/-- a finishing function given by its conflict rules: the literal of the first rule that fires, else the
    command -/
def finWithChecks (checks : List (Cond × Lit)) (build : Seen → Cmd) (s : Seen) : BRes :=
  match firstFiring s checks with
  | some l => .error (.lit l)
  | none => .ok (build s)

structure GenDesc where
  dom : Arity                   -- the argument counts the body is written for (the arity rule of its entry implies it)
  pre : List Arg
  opt : List Arg := []
  tail : Tail
  fin : List Tok → TailV → BRes
  ctors : List Bytes            -- the constructors `fin` can answer
  finLits : List Lit := []      -- the error literals `fin` can answer
  checks : List (Cond × Lit) := []   -- option-scan bodies: the conflict rules, in the order they are tested

/-- the finishing function answers only the constructors and the error literals its descriptor declares
    (`unreachable`: it was handed tokens of another shape, which `runGen` never does) -/
def FinOk (d : GenDesc) : Prop :=
  ∀ ts tv, match d.fin ts tv with
    | .ok c => c.ctor ∈ d.ctors
    | .error e => e = .unreachable ∨ ∃ l ∈ d.finLits, e = .lit l

/-- the conflict rules of an option-scan body are exactly what its finishing function tests: it answers a
    command iff no rule fires, and otherwise the literal of the FIRST rule that fires; bodies without an
    option scan declare no rules -/
def ChecksOk (d : GenDesc) : Prop :=
  match d.tail with
  | .scan _ _ =>
    ∀ ts s, match d.fin ts (.seen s) with
      | .ok _ => firstFiring s d.checks = none
      | .error (.lit l) => firstFiring s d.checks = some l
      | .error .unreachable => True
      | .error _ => False
  | _ => d.checks = []

/-- the leading slots, left to right; the rest of the arguments -/
def takeSlots : List Arg → List Bytes → Except BErr (List Tok × List Bytes)
  | [], vs => .ok ([], vs)
  | _ :: _, [] => .error .unreachable
  | a :: as, v :: vs => do
    let t ← a.extract v
    let r ← takeSlots as vs
    pure (t :: r.1, r.2)

/-- the optional slots that are present -/
def takeOpt : List Arg → List Bytes → Except BErr (List Tok × List Bytes)
  | a :: as, v :: vs => do
    let t ← a.extract v
    let r ← takeOpt as vs
    pure (t :: r.1, r.2)
  | _, vs => .ok ([], vs)

def Tail.run : Tail → List Bytes → Except BErr TailV
  | .none, rest => if rest.isEmpty then .ok .none else .error .unreachable
  | .ignore, _ => .ok .none
  | .many a, rest => do
    let us ← extractAll a rest
    pure (.toks rest.length us)
  | .pairs a b, rest => do
    let us ← extractPairs a b rest
    pure (.toks (rest.length / 2) us)
  | .scan tbl unk, rest => do
    let s ← scanOpts tbl unk.fn rest
    pure (.seen s)
  | .flagsPairs flags odd a b, rest =>
    if (takeFlags flags rest).2.length % 2 != 0 || (takeFlags flags rest).2.length == 0 then .error (.lit odd)
    else do
      let us ← extractPairs a b (takeFlags flags rest).2
      pure (.flags (takeFlags flags rest).1 ((takeFlags flags rest).2.length / 2) us)
  | .raw, rest => .ok (.raw rest)

/-- the generic body: an argument count outside `dom` is `unreachable` (the arity test has run) -/
def runGen (d : GenDesc) (args : List Bytes) : BRes :=
  match d.dom.ok args.length with
  | false => .error .unreachable
  | true => do
    let p ← takeSlots d.pre args
    let o ← takeOpt d.opt p.2
    let tv ← d.tail.run o.2
    d.fin (p.1 ++ o.1) tv

/-! ## table entries -/

/-- a body written as a function, with the relation "`a` and `b` differ only in the letter case
    of words in keyword position" and the proof that the body cannot tell them apart -/
structure CustomBody where
  f : List Bytes → BRes
  kwv : List Bytes → List Bytes → Bool
  sound : ∀ a b, kwv a b = true → f a = f b
  /-- the shape of the body: `f` IS the generic body over it -/
  desc : GenDesc
  desc_ok : ∀ args, f args = runGen desc args
  fin_ok : FinOk desc
  checks_ok : ChecksOk desc

/-- a body without keyword positions -/
def CustomBody.plain (d : GenDesc) (f : List Bytes → BRes) (h : ∀ args, f args = runGen d args) (hf : FinOk d)
    (hc : ChecksOk d) : CustomBody :=
  ⟨f, fun a b => a == b, by intro a b h; simp at h; rw [h], d, h, hf, hc⟩

inductive Body where
  | const (ctor : Bytes)                                  -- arguments are not looked at
  | fixed (ctor : Bytes) (slots : List Arg)               -- exactly these slots
  | many (ctor : Bytes) (pre : List Arg) (each : Arg)     -- fixed slots, then a `Vec`
  | pairs (ctor : Bytes) (pre : List Arg) (a b : Arg)     -- fixed slots, then a `Vec` of pairs
  | custom (c : CustomBody)

def Body.run : Body → List Bytes → BRes
  | .const c, _ => .ok ⟨c, []⟩
  | .fixed c slots, args => do
    let ts ← extractFixed slots args
    pure ⟨c, ts⟩
  | .many c pre each, args => do
    let ts ← extractFixed pre (args.take pre.length)
    let rest := args.drop pre.length
    let us ← extractAll each rest
    pure ⟨c, ts ++ .len rest.length :: us⟩
  | .pairs c pre a b, args => do
    let ts ← extractFixed pre (args.take pre.length)
    let rest := args.drop pre.length
    let us ← extractPairs a b rest
    pure ⟨c, ts ++ .len (rest.length / 2) :: us⟩
  | .custom c, args => c.f args

/-- which argument lists are keyword-case variants of each other for a body -/
def Body.variant : Body → List Bytes → List Bytes → Bool
  | .custom c, a, b => a.length == b.length && c.kwv a b
  | _, a, b => a == b

structure Spec where
  name : Bytes
  arity : Arity
  arityErr : Bytes
  body : Body

/-- the arity test, then the body -/
def Spec.run (s : Spec) (args : List Bytes) : Res :=
  if s.arity.ok args.length then
    match s.body.run args with
    | .ok c => .ok c
    | .error e => .error (.body e)
  else .error (.arity s.arityErr)

def wrongArgs (name : String) : Bytes :=
  s2b "ERR wrong number of arguments for '" ++ s2b name ++ s2b "' command"

def bTrue : Tok := .b true
def bFalse : Tok := .b false

/-! ## bodies that need more than slots -/

namespace Bodies

def ping : List Bytes → BRes
  | [] => .ok ⟨s2b "Ping", [.none]⟩
  | a :: _ => .ok ⟨s2b "Ping", [.d a]⟩

def select : List Bytes → BRes
  | [a] => do
    let t ← aU64.extract a
    match t with
    | .n db => if db > 15 then .error (.lit .dbRange) else .ok ⟨s2b "Select", [.n db]⟩
    | _ => .error .unreachable
  | _ => .error .unreachable

def auth : List Bytes → BRes
  | [p] => .ok ⟨s2b "Auth", [.none, .s (lossy p)]⟩
  | [u, p] => .ok ⟨s2b "Auth", [.s (lossy u), .s (lossy p)]⟩
  | _ => .error .unreachable

/-- `Command::Set` fields: key value ex px exat pxat nx xx get keepttl -/
def mkSet (key value : Tok) (ex px exat pxat : Tok) (nx xx get keepttl : Bool) : Cmd :=
  ⟨s2b "Set", [key, value, ex, px, exat, pxat, .b nx, .b xx, .b get, .b keepttl]⟩

def setOpts : List OptSpec :=
  [ { kw := s2b "NX" }, { kw := s2b "XX" }, { kw := s2b "GET" },
    { kw := s2b "EX", vals := [aInt], missing := .err .setEx },
    { kw := s2b "PX", vals := [aInt], missing := .err .setPx },
    { kw := s2b "EXAT", vals := [aInt], missing := .err .setExat },
    { kw := s2b "PXAT", vals := [aInt], missing := .err .setPxat },
    { kw := s2b "KEEPTTL" },
    { kw := s2b "IFEQ", reject := some .setNotSupported },
    { kw := s2b "IFGT", reject := some .setNotSupported } ]

def set : List Bytes → BRes
  | k :: v :: opts => do
    let s ← scanOpts setOpts (fun _ => some (.lit .syntax)) opts
    let (nx, xx, get, keepttl) := (s.has 0, s.has 1, s.has 2, s.has 7)
    if nx && xx then .error (.lit .nxxx)
    else if keepttl && (s.has 3 || s.has 4 || s.has 5 || s.has 6) then .error (.lit .syntax)
    else .ok (mkSet (.s (lossy k)) (.d v) (s.opt1 3) (s.opt1 4) (s.opt1 5) (s.opt1 6) nx xx get keepttl)
  | _ => .error .unreachable

/-- SETEX / PSETEX key n value -/
def setex (px : Bool) : List Bytes → BRes
  | [k, n, v] => do
    let t ← aInt.extract n
    if px then .ok (mkSet (.s (lossy k)) (.d v) .none t .none .none false false false false)
    else .ok (mkSet (.s (lossy k)) (.d v) t .none .none .none false false false false)
  | _ => .error .unreachable

def expireOpts : List OptSpec :=
  [ { kw := s2b "NX" }, { kw := s2b "XX" }, { kw := s2b "GT" }, { kw := s2b "LT" } ]

/-- EXPIRE / PEXPIRE key n [NX|XX|GT|LT]… -/
def expire (ctor : Bytes) : List Bytes → BRes
  | k :: n :: opts => do
    let t ← aInt.extract n
    let s ← scanOpts expireOpts (fun w => some (.fmt .unsupportedOption w)) opts
    let (nx, xx, gt, lt) := (s.has 0, s.has 1, s.has 2, s.has 3)
    if nx && (xx || gt || lt) then .error (.lit .expireNx)
    else if gt && lt then .error (.lit .expireGtLt)
    else .ok ⟨ctor, [.s (lossy k), t, .b nx, .b xx, .b gt, .b lt]⟩
  | _ => .error .unreachable

def getexOpts : List OptSpec :=
  [ { kw := s2b "EX", vals := [aInt], missing := .err .getexEx },
    { kw := s2b "PX", vals := [aInt], missing := .err .getexPx },
    { kw := s2b "EXAT", vals := [aInt], missing := .err .getexExat },
    { kw := s2b "PXAT", vals := [aInt], missing := .err .getexPxat },
    { kw := s2b "PERSIST" } ]

def getex : List Bytes → BRes
  | k :: opts => do
    let s ← scanOpts getexOpts (fun _ => some (.lit .syntax)) opts
    let cnt := [s.has 0, s.has 1, s.has 2, s.has 3, s.has 4].count true
    if cnt > 1 then .error (.lit .syntax)
    else .ok ⟨s2b "GetEx", [.s (lossy k), s.opt1 0, s.opt1 1, s.opt1 2, s.opt1 3, .b (s.has 4)]⟩
  | _ => .error .unreachable

def lmove : List Bytes → BRes
  | [src, dst, f, t] =>
    let wf := kw f
    let wt := kw t
    if wf != s2b "LEFT" && wf != s2b "RIGHT" then .error (.lit .lmoveFrom)
    else if wt != s2b "LEFT" && wt != s2b "RIGHT" then .error (.lit .lmoveTo)
    else .ok ⟨s2b "LMove", [.s (lossy src), .s (lossy dst), .s wf, .s wt]⟩
  | _ => .error .unreachable

def spop : List Bytes → BRes
  | [k] => .ok ⟨s2b "SPop", [.s (lossy k), .none]⟩
  | [k, c] => do
    let t ← (Arg.mk .usz none).extract c
    .ok ⟨s2b "SPop", [.s (lossy k), t]⟩
  | _ => .error .unreachable

def zaddFlags : List Bytes := [s2b "NX", s2b "XX", s2b "GT", s2b "LT", s2b "CH"]

/-- ZADD key [flags] score member … (`score` slot differs between the RESP parsers and Lua) -/
def zadd (score : Arg) : List Bytes → BRes
  | k :: rest =>
    let (fl, ps) := takeFlags zaddFlags rest
    if ps.length % 2 != 0 || ps.length == 0 then .error (.lit .zaddPairs)
    else do
      let us ← extractPairs score aSds ps
      let has (w : String) : Tok := .b (fl.contains (s2b w))
      .ok ⟨s2b "ZAdd", [.s (lossy k), .len (ps.length / 2)] ++ us ++ [has "NX", has "XX", has "GT", has "LT", has "CH"]⟩
  | _ => .error .unreachable

/-- ZRANGE / ZREVRANGE key start stop [WITHSCORES] — any other 4th word is accepted and ignored -/
def zrange (ctor : Bytes) : List Bytes → BRes
  | [k, a, b] => do
    let ts ← extractFixed [aInt, aInt] [a, b]
    .ok ⟨ctor, .s (lossy k) :: ts ++ [bFalse]⟩
  | [k, a, b, w] => do
    let ts ← extractFixed [aInt, aInt] [a, b]
    .ok ⟨ctor, .s (lossy k) :: ts ++ [.b (kw w == s2b "WITHSCORES")]⟩
  | _ => .error .unreachable

/-- `LIMIT offset count`: `count` is `extract_integer(..)? as usize` in the RESP parsers -/
def zrbsOpts (offset count : Arg) (missing : Lit) : List OptSpec :=
  [ { kw := s2b "WITHSCORES" },
    { kw := s2b "LIMIT", vals := [offset, count], missing := .err missing } ]

def castUsize : Tok → Tok
  | .i v => .n (asUsize v)
  | t => t

def zrangebyscore (offset count : Arg) (missing : Lit) (unk : Fmt) : List Bytes → BRes
  | k :: mn :: mx :: opts => do
    let s ← scanOpts (zrbsOpts offset count missing) (fun w => some (.fmt unk w)) opts
    let lim : List Tok := match s.last 1 with
      | some [o, c] => [o, castUsize c]
      | _ => [.none]
    .ok ⟨s2b "ZRangeByScore", [.s (lossy k), .s (lossy mn), .s (lossy mx), .b (s.has 0)] ++ lim⟩
  | _ => .error .unreachable

def scanOptTbl : List OptSpec :=
  [ { kw := s2b "MATCH", vals := [aStr], missing := .err .syntax },
    { kw := s2b "COUNT", vals := [aPos], missing := .err .syntax } ]

/-- SCAN cursor … / HSCAN key cursor … / ZSCAN key cursor … -/
def scan (ctor : Bytes) (withKey : Bool) (unk : Fmt) (args : List Bytes) : BRes :=
  let go (pre : List Tok) (cur : Bytes) (opts : List Bytes) : BRes := do
    let c ← aU64.extract cur
    let s ← scanOpts scanOptTbl (fun w => some (.fmt unk w)) opts
    .ok ⟨ctor, pre ++ [c, s.opt1 0, castUsize (s.opt1 1)]⟩
  match withKey, args with
  | false, cur :: opts => go [] cur opts
  | true, k :: cur :: opts => go [.s (lossy k)] cur opts
  | _, _ => .error .unreachable

/-- SORT key [ASC] [STORE dst]: the options the executor implements; any other word (ALPHA, DESC,
    LIMIT, BY, GET, unknown) and a STORE without destination are a syntax error -/
def sortOpts : List OptSpec :=
  [ { kw := s2b "STORE", vals := [aStr], missing := .err .syntax }, { kw := s2b "ASC" } ]

def sort : List Bytes → BRes
  | k :: opts => do
    let s ← scanOpts sortOpts (fun _ => some (.lit .syntax)) opts
    .ok ⟨s2b "Sort", [.s (lossy k), s.opt1 0]⟩
  | _ => .error .unreachable

/-- EVAL / EVALSHA script numkeys key… arg…; a negative `numkeys` is refused before the cast -/
def eval (ctor : Bytes) (keysErr : Lit) : List Bytes → BRes
  | script :: nk :: rest => do
    let t ← aInt.extract nk
    match t with
    | .i n =>
      if n < 0 then .error (.lit .evalNegKeys)
      else
        let numkeys := n.toNat
        if rest.length < numkeys then .error (.lit keysErr)
        else
          let keys := (rest.take numkeys).map (fun a => Tok.s (lossy a))
          let args := (rest.drop numkeys).map Tok.d
          .ok ⟨ctor, [.s (lossy script), .len keys.length] ++ keys ++ [.len args.length] ++ args⟩
    | _ => .error .unreachable
  | _ => .error .unreachable

def command : List Bytes → BRes
  | [] => .ok ⟨s2b "CommandCommand", []⟩
  | sub :: _ => if kw sub == s2b "COUNT" then .ok ⟨s2b "CommandCount", []⟩ else .ok ⟨s2b "CommandCommand", []⟩

def setrange : List Bytes → BRes
  | [k, off, v] => do
    let t ← aInt.extract off
    match t with
    | .i o => if o < 0 then .error (.lit .offsetRange) else .ok ⟨s2b "SetRange", [.s (lossy k), .n o.toNat, .d v]⟩
    | _ => .error .unreachable
  | _ => .error .unreachable

def setbit : List Bytes → BRes
  | [k, off, v] => do
    let o ← (Arg.mk .u64 (some .bitOffset)).extract off
    let b ← (Arg.mk .int (some .bitValue)).extract v
    match b with
    | .i x => if x < 0 || x > 1 then .error (.lit .bitValue) else .ok ⟨s2b "SetBit", [.s (lossy k), o, .n x.toNat]⟩
    | _ => .error .unreachable
  | _ => .error .unreachable

def getbit : List Bytes → BRes
  | [k, off] => do
    let o ← (Arg.mk .u64 (some .bitOffset)).extract off
    .ok ⟨s2b "GetBit", [.s (lossy k), o]⟩
  | _ => .error .unreachable

def incrbyfloat : List Bytes → BRes
  | [k, x] => do
    let t ← aFlt.extract x
    match t with
    | .f bits => if f64IsNan bits || f64IsInf bits then .error (.lit .incrNanInf) else .ok ⟨s2b "IncrByFloat", [.s (lossy k), t]⟩
    | _ => .error .unreachable
  | _ => .error .unreachable

/-- ACL CAT [category] / optional first argument, the rest is ignored -/
def optStr (ctor : Bytes) : List Bytes → BRes
  | [] => .ok ⟨ctor, [.none]⟩
  | a :: _ => .ok ⟨ctor, [.s (lossy a)]⟩

def aclGenpass : List Bytes → BRes
  | [] => .ok ⟨s2b "AclGenPass", [.none]⟩
  | a :: _ =>
    match parseUnsigned u32Max (lossy a) with
    | .ok n => .ok ⟨s2b "AclGenPass", [.n n]⟩
    | .error _ => .error (.lit .invalidBits)

def aclDryrun : List Bytes → BRes
  | u :: c :: rest =>
    .ok ⟨s2b "AclDryrun", [.s (lossy u), .s (kw c), .len rest.length] ++ rest.map (fun a => Tok.s (lossy a))⟩
  | _ => .error .unreachable

/-- ACL LOG [count | RESET]: the argument is upper-cased before it is parsed as a number -/
def aclLog : List Bytes → BRes
  | [] => .ok ⟨s2b "AclLog", [.none]⟩
  | [a] =>
    if kw a == s2b "RESET" then .ok ⟨s2b "AclLogReset", []⟩
    else match parseUnsigned u64Max (kw a) with
      | .ok n => .ok ⟨s2b "AclLog", [.n n]⟩
      | .error _ => .error (.lit .notInt)
  | _ => .error .unreachable

/-! ### the redis.call translator's own bodies -/


def luaSetOpts : List OptSpec :=
  [ { kw := s2b "NX" }, { kw := s2b "XX" }, { kw := s2b "GET" },
    { kw := s2b "EX", vals := [aIntE .luaSetExInt], missing := .err .luaSetEx },
    { kw := s2b "PX", vals := [aIntE .luaSetPxInt], missing := .err .luaSetPx } ]

/-- no KEEPTTL/EXAT/PXAT -/
def luaSet : List Bytes → BRes
  | k :: v :: opts => do
    let s ← scanOpts luaSetOpts (fun w => some (.fmt .luaUnknownSet w)) opts
    if s.has 0 && s.has 1 then .error (.lit .nxxx)
    else .ok (mkSet (.s (lossy k)) (.d v) (s.opt1 3) (s.opt1 4) .none .none (s.has 0) (s.has 1) (s.has 2) false)
  | _ => .error .unreachable

def luaExpire : List Bytes → BRes
  | [k, n] => do
    let t ← (aIntE .luaExpireInt).extract n
    .ok ⟨s2b "Expire", [.s (lossy k), t, bFalse, bFalse, bFalse, bFalse]⟩
  | _ => .error .unreachable

def luaZrange : List Bytes → BRes
  | [k, a, b] => do
    let ts ← extractFixed [aIntE .luaZrangeStart, aIntE .luaZrangeStop] [a, b]
    .ok ⟨s2b "ZRange", .s (lossy k) :: ts ++ [bFalse]⟩
  | _ => .error .unreachable


end Bodies

/-! ## the command table (`from_resp`) -/

open Bodies in
def fixed (name ctor : String) (arityErr : Bytes) (slots : List Arg) : Spec :=
  { name := s2b name, arity := .exact slots.length, arityErr := arityErr, body := .fixed (s2b ctor) slots }

def req (name : String) (n : Nat) : Bytes :=
  s2b name ++ s2b " requires " ++ s2b (toString n) ++ s2b (if n == 1 then " argument" else " arguments")

def reqAtLeast (name : String) (n : Nat) : Bytes :=
  s2b name ++ s2b " requires at least " ++ s2b (toString n) ++ s2b (if n == 1 then " argument" else " arguments")

def const (name ctor : String) : Spec :=
  { name := s2b name, arity := .any, arityErr := [], body := .const (s2b ctor) }

def manySpec (name ctor : String) (min : Nat) (arityErr : Bytes) (pre : List Arg) (each : Arg) : Spec :=
  { name := s2b name, arity := .atLeast min, arityErr := arityErr, body := .many (s2b ctor) pre each }

def customSpec (name : String) (arity : Arity) (arityErr : Bytes) (c : CustomBody) : Spec :=
  { name := s2b name, arity := arity, arityErr := arityErr, body := .custom c }

/-- a top-level entry: a command, or a family of sub-commands with a fallback for unknown ones -/
inductive Entry where
  | cmd (s : Spec)
  | family (name : Bytes) (arityErr : Bytes) (subs : List Spec)
      (dflt : Bytes → List Bytes → Res)     -- normalised sub-command, arguments after it

def Entry.name : Entry → Bytes
  | .cmd s => s.name
  | .family n _ _ _ => n

def findEntry : List Entry → Bytes → Option Entry
  | [], _ => none
  | e :: es, k => if e.name = k then some e else findEntry es k

def findSpec : List Spec → Bytes → Option Spec
  | [], _ => none
  | s :: ss, k => if s.name = k then some s else findSpec ss k

/-- dispatch over a table: normalise the name, look it up, arity test, body -/
def parseWith (tbl : List Entry) : List Bytes → Res
  | [] => .error (.body (.lit .invalidFormat))
  | name :: args =>
    match findEntry tbl (kw name) with
    | none => .ok ⟨s2b "Unknown", [.s (kw name)]⟩
    | some (.cmd s) => s.run args
    | some (.family _ aerr subs dflt) =>
      match args with
      | [] => .error (.arity aerr)
      | sub :: rest =>
        match findSpec subs (kw sub) with
        | some s => s.run rest
        | none => dflt (kw sub) rest


/-- frames that differ only in the letter case of the command name, of the sub-command name and
    of the words the command's body reads as keywords -/
def frameVariant (tbl : List Entry) : List Bytes → List Bytes → Bool
  | [], [] => true
  | n :: args, n' :: args' =>
    caseVariant n n' &&
    match findEntry tbl (kw n) with
    | none => args == args'
    | some (.cmd s) => s.body.variant args args'
    | some (.family _ _ subs _) =>
      match args, args' with
      | [], [] => true
      | sub :: r, sub' :: r' =>
        caseVariant sub sub' &&
        match findSpec subs (kw sub) with
        | some s => s.body.variant r r'
        | none => r == r'
      | _, _ => false
  | _, _ => false

end RedisVerif.Grammar
