import RedisVerif.Model.Crdt
import RedisVerif.Model.SipHash

/-
  The byte streams Rust's `Hash` impls write into a `Hasher` — the vocabulary shared by the
  anti-entropy digest (`canonical_hash`, `KeyDigest::new`, `MerkleNode::{from_digests, combine}`)
  and the hash ring (`hash_key`, `hash_virtual_node`):

    u8 / bool            1 byte
    u32                  4 bytes little endian
    u64 / usize / isize  8 bytes little endian (64-bit target)
    str / String         the UTF-8 bytes followed by 0xff   (`Hasher::write_str`)
    [T] / Vec<T>         `write_length_prefix(len)` = 8-byte length, then every element
    Option<T>            the discriminant as `isize` (8 bytes: 0 = None, 1 = Some), then the payload
    tuples, structs      the fields in order

  (observed with a recording `Hasher` and, for every value of every run, confirmed by comparing
  `sip13` of the model's stream with the real `DefaultHasher` result).

  Strings of the Rust side (`String` keys, set elements, hash field names) are Nat codes in the
  models (`Driver.keyCode`: the bytes read as base-256 digits after a leading 1); `keyStr`
  decodes a code into its bytes.
-/
namespace RedisVerif
namespace HB

/-- `n.to_le_bytes()` of a `w`-byte unsigned integer.  The LAST byte is not reduced mod 256, so
    the function is injective on all of `Nat` and is exactly `to_le_bytes` for `n < 256^w`. -/
def leBytes : Nat → Nat → List Nat
  | 0, _ => []
  | 1, n => [n]
  | w + 2, n => n % 256 :: leBytes (w + 1) (n / 256)

def le64 (n : Nat) : List Nat := leBytes 8 n
def le32 (n : Nat) : List Nat := leBytes 4 n

/-- compiled form of `le64`: split once into 32-bit halves (two big-number operations for a
    hash value ≥ 2^63 instead of sixteen), then small-number arithmetic -/
def le64Fast (n : Nat) : List Nat :=
  let lo := n % 4294967296
  let hi := n / 4294967296
  [lo % 256, lo / 256 % 256, lo / 65536 % 256, lo / 16777216,
   hi % 256, hi / 256 % 256, hi / 65536 % 256, hi / 16777216]

@[csimp] theorem le64_eq_fast : @le64 = @le64Fast := by
  funext n
  simp only [le64, le64Fast, leBytes]
  refine List.cons_eq_cons.mpr ⟨by omega, List.cons_eq_cons.mpr ⟨by omega, List.cons_eq_cons.mpr ⟨by omega,
    List.cons_eq_cons.mpr ⟨by omega, List.cons_eq_cons.mpr ⟨by omega, List.cons_eq_cons.mpr ⟨by omega,
    List.cons_eq_cons.mpr ⟨by omega, List.cons_eq_cons.mpr ⟨by omega, rfl⟩⟩⟩⟩⟩⟩⟩⟩

/-- byte-wise lexicographic `≤` — `Ord for str / String / [u8]` -/
def bytesLe : List Nat → List Nat → Bool
  | [], _ => true
  | _ :: _, [] => false
  | x :: xs, y :: ys => if x < y then true else if y < x then false else bytesLe xs ys

/-- stable insertion sort under `le` (structural: the kernel evaluates it) -/
def insertBy {α : Type} (le : α → α → Bool) (e : α) : List α → List α
  | [] => [e]
  | x :: xs => if le e x then e :: x :: xs else x :: insertBy le e xs

def isort {α : Type} (le : α → α → Bool) (l : List α) : List α := l.foldr (insertBy le) []

/-- `Driver.keyCode`: a byte string as a Nat code -/
def code (b : List Nat) : Nat := b.foldl (fun acc x => acc * 256 + x) 1

/-- the base-256 digits of `n` below its leading digit, most significant first (fuel `n`) -/
def digitsAux : Nat → Nat → List Nat → List Nat
  | 0, _, acc => acc
  | fuel + 1, n, acc => if n ≤ 1 then acc else digitsAux fuel (n / 256) (n % 256 :: acc)

def digits (n : Nat) : List Nat := digitsAux n n []

/-- the bytes of the string with code `k`.  Total and injective: a number that is not the code
    of a byte string (never produced by the drivers) is mapped to a two-element list that starts
    with the non-byte 256. -/
def keyStr (k : Nat) : List Nat :=
  if code (digits k) = k then digits k else [256, k]

/-- what `str::hash` / `String::hash` writes -/
def strBytes (kb : Nat → List Nat) (k : Nat) : List Nat := kb k ++ [255]

/-- `Option<u64>::hash` -/
def optU64 : Option Nat → List Nat
  | none => le64 0
  | some n => le64 1 ++ le64 n

/-- `Option<u8>::hash` -/
def optU8 : Option Nat → List Nat
  | none => le64 0
  | some n => le64 1 ++ [n]

/-- `Vec<(u64, u64)>::hash` of the entries of a canonical map in key order (`counts`: the
    `(replica, n)` pairs `sort_unstable`d — replica ids are unique, so sorted by replica id) -/
def pairsBytes (m : NMap Nat) : List Nat := le64 m.length ++ m.flatMap fun p => le64 p.1 ++ le64 p.2

/-- no byte of the string is 0xff (true of every UTF-8 string) -/
def noFF (b : List Nat) : Bool := b.all fun x => x != 255

end HB
end RedisVerif
