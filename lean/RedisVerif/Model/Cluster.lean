import RedisVerif.Model.Replica

/-
  Cluster model for C06 (replication at the message level): n shard replication states, the
  monotone history of every delta ever issued, and the log of every absorption (a node taking a
  delta into its state, either by creating it or by receiving it).  The network is an arbitrary
  list of `deliver` events: any message of the history may be delivered to any node (its origin included) at any
  time, any number of times, in any order (delay, reordering, duplication, loss followed by
  redelivery, partitions that heal); anti-entropy pushes are deliveries too.

  Anchors: /repo/src/replication/state/shard_state.rs (local ops, apply_remote_delta),
  /repo/src/replication/gossip.rs + production/gossip_manager.rs (deltas are shipped as whole
  `ReplicationDelta { key, value, source_replica }` and applied with `apply_remote_delta`).
-/
namespace RedisVerif

/-- local (client-originated) operations of a shard's replication state -/
inductive LOp where
  | write (k : Nat) (v : Bytes) (exp : Option Nat)
  | delete (k : Nat)
  | hwrite (k : Nat) (fields : List (Nat × Bytes))
  | hdelete (k : Nat) (fields : List Nat)
  deriving DecidableEq, Repr

namespace LOp
def toOp : LOp → Shard.Op
  | write k v e => .write k v e
  | delete k => .delete k
  | hwrite k fs => .hwrite k fs
  | hdelete k fs => .hdelete k fs

def key : LOp → Nat
  | write k _ _ => k
  | delete k => k
  | hwrite k _ => k
  | hdelete k _ => k
end LOp

structure Msg where
  origin : Nat
  key : Nat
  val : RV
  deriving DecidableEq, Repr

structure Absorbed where
  node : Nat
  key : Nat
  val : RV
  deriving DecidableEq, Repr

structure Cluster where
  nodes : List Shard
  sent : List Msg
  log : List Absorbed
  deriving Repr

inductive Ev where
  | loc (i : Nat) (op : LOp)
  | deliver (j : Nat) (idx : Nat)
  deriving DecidableEq, Repr

namespace Cluster

def init (n : Nat) (causal : Bool) : Cluster :=
  { nodes := (List.range n).map (fun i => Shard.init (i + 1) causal), sent := [], log := [] }

def step (c : Cluster) : Ev → Cluster
  | .loc i op =>
    match c.nodes[i]? with
    | none => c
    | some s =>
      let r := Shard.step s op.toOp
      match r.2 with
      | some d =>
        { nodes := c.nodes.set i r.1
          sent := c.sent ++ [⟨i, op.key, d⟩]
          log := c.log ++ [⟨i, op.key, d⟩] }
      | none => { c with nodes := c.nodes.set i r.1 }
  | .deliver j idx =>
    match c.nodes[j]?, c.sent[idx]? with
    | some s, some m =>
      -- no origin check: `apply_remote_delta` merges (and advances the clock past) whatever arrives,
      -- the node's own deltas echoed back by a peer, anti-entropy or recovery included
      { c with
        nodes := c.nodes.set j (Shard.applyRemote s m.key m.val)
        log := c.log ++ [⟨j, m.key, m.val⟩] }
    | _, _ => c

def run (c : Cluster) (evs : List Ev) : Cluster := evs.foldl step c

/-- node `i` crashes and comes back EMPTY (`ShardReplicaState::new` with the same replica id and
    consistency level: Lamport clock 0, no keys).  What it gets back — from its WAL / segments
    through `apply_recovered_state(None, deltas)` = `apply_remote_deltas`, from a peer's
    redelivery or anti-entropy — are ordinary `deliver` events, its OWN old deltas included.  The
    absorption log forgets what the lost state had absorbed. -/
def restart (c : Cluster) (i : Nat) : Cluster :=
  match c.nodes[i]? with
  | none => c
  | some s =>
    { c with
      nodes := c.nodes.set i (Shard.init s.rid s.causal)
      log := c.log.filter (fun a => a.node ≠ i) }

/-- events of an execution with crashes -/
inductive REv where
  | ev (e : Ev)
  | restart (i : Nat)
  deriving DecidableEq, Repr

def stepR (c : Cluster) : REv → Cluster
  | .ev e => c.step e
  | .restart i => c.restart i

def runR (c : Cluster) (evs : List REv) : Cluster := evs.foldl stepR c

/-- `deliver` as it would be if `apply_remote_delta` did NOT advance the Lamport clock for a delta
    stamped with the node's own replica id ("our own delta echoed back is never ahead of our
    clock") — not the code that exists; the object of `C06.own_echo_skips_clock_counterexample` -/
def stepSkipOwn (c : Cluster) : REv → Cluster
  | .ev (.deliver j idx) =>
    match c.nodes[j]?, c.sent[idx]? with
    | some s, some m =>
      let s' := Shard.applyRemote s m.key m.val
      { c with
        nodes := c.nodes.set j (if m.val.ts.rid = s.rid then { s' with clock := s.clock } else s')
        log := c.log ++ [⟨j, m.key, m.val⟩] }
    | _, _ => c
  | e => c.stepR e

end Cluster
end RedisVerif
