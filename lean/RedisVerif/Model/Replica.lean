import RedisVerif.Model.Crdt

/-
  M2 — model of one shard's replication state.

  Anchors: /repo/src/replication/state/shard_state.rs (ShardReplicaState: record_write,
  record_delete, record_hash_write, record_hash_delete, apply_remote_delta),
  /repo/src/replication/state/replicated_value.rs (set, delete, hash_set, hash_delete),
  /repo/src/production/replicated_shard_actor.rs (ApplyRecoveredState arm).

  `pending_deltas` (a bounded queue drained by gossip) is not part of the state: every
  operation *returns* the delta it pushes.
-/
namespace RedisVerif

namespace RV

/-- `ReplicatedValue::new(replica_id)` -/
def new (rid : Nat) : RV :=
  { crdt := .lww (Lww.new rid), vc := none, expiry := none, ts := ⟨0, rid⟩, rf := none }

def isHash (a : RV) : Bool :=
  match a.crdt with
  | .hash _ => true
  | _ => false

end RV

/-- the field map of a hash value, empty for any other kind (`crdt = new_hash()` on a type change) -/
def Crdt.hashOf : Crdt → NMap Lww
  | .hash h => h
  | _ => []

structure Shard where
  rid : Nat
  clock : Stamp
  causal : Bool
  vclock : NMap Nat
  keys : NMap RV
  deriving DecidableEq, Repr, Inhabited

namespace Shard

/-- `ShardReplicaState::new` -/
def init (rid : Nat) (causal : Bool) : Shard :=
  { rid := rid, clock := ⟨0, rid⟩, causal := causal, vclock := [], keys := [] }

/-- `VectorClock::increment` -/
def vcIncrement (vc : NMap Nat) (rid : Nat) : NMap Nat :=
  NMap.insert rid ((NMap.get vc rid).getD 0 + 1) vc

/-- `record_write` (→ `ReplicatedValue::set`, then `expiry_ms = expiry`) -/
def recordWrite (s : Shard) (k : Nat) (v : Bytes) (exp : Option Nat) : Shard × RV :=
  let rv0 := (NMap.get s.keys k).getD (RV.new s.rid)
  let clock' := s.clock.tick
  let vclock' := if s.causal then vcIncrement s.vclock s.rid else s.vclock
  let rv : RV :=
    { rv0 with
      crdt := .lww (Lww.set v clock')
      ts := clock'
      vc := if s.causal then some vclock' else rv0.vc
      expiry := exp }
  ({ s with clock := clock', vclock := vclock', keys := NMap.insert k rv s.keys }, rv)

/-- `record_delete` (→ `ReplicatedValue::delete`: an LWW value is tombstoned; since the `fix:`
    commit recorded in known_findings.json a hash value has every field tombstoned with one fresh
    stamp; other kinds are left alone; the delta is produced in every case) -/
def recordDelete (s : Shard) (k : Nat) : Shard × Option RV :=
  match NMap.get s.keys k with
  | none => (s, none)
  | some rv =>
    match rv.crdt with
    | .lww _ =>
      let clock' := s.clock.tick
      let rv' : RV := { rv with crdt := .lww (Lww.delete clock'), ts := clock' }
      ({ s with clock := clock', keys := NMap.insert k rv' s.keys }, some rv')
    | .hash h =>
      let clock' := s.clock.tick
      let rv' : RV :=
        { rv with crdt := .hash (NMap.mapVal (fun _ => Lww.delete clock') h), ts := clock' }
      ({ s with clock := clock', keys := NMap.insert k rv' s.keys }, some rv')
    | _ => (s, some rv)

/-- one `ReplicatedValue::hash_set` on an already-hash value -/
def hashSetStep (acc : Stamp × NMap Lww) (fv : Nat × Bytes) : Stamp × NMap Lww :=
  let clock' := acc.1.tick
  (clock', NMap.insert fv.1 (Lww.set fv.2 clock') acc.2)

/-- `record_hash_write` -/
def recordHashWrite (s : Shard) (k : Nat) (fields : List (Nat × Bytes)) : Shard × RV :=
  let rv0 : RV := (NMap.get s.keys k).getD { RV.new s.rid with crdt := .hash [] }
  let h0 : NMap Lww := rv0.crdt.hashOf
  let r := fields.foldl hashSetStep (s.clock, h0)
  -- `self.timestamp = *clock` runs once per field: unchanged when there is no field
  let ts' := if fields.isEmpty then rv0.ts else r.1
  let rv : RV := { rv0 with crdt := .hash r.2, ts := ts' }
  ({ s with clock := r.1, keys := NMap.insert k rv s.keys }, rv)

/-- one `ReplicatedValue::hash_delete`: ticks only when the field exists -/
def hashDelStep (acc : Stamp × NMap Lww) (f : Nat) : Stamp × NMap Lww :=
  match NMap.get acc.2 f with
  | some _ =>
    let clock' := acc.1.tick
    (clock', NMap.insert f (Lww.delete clock') acc.2)
  | none => acc

/-- `record_hash_delete` -/
def recordHashDelete (s : Shard) (k : Nat) (fields : List Nat) : Shard × Option RV :=
  match NMap.get s.keys k with
  | none => (s, none)
  | some rv =>
    match rv.crdt with
    | .hash h =>
      let r := fields.foldl hashDelStep (s.clock, h)
      let ts' := if fields.isEmpty then rv.ts else r.1
      let rv' : RV := { rv with crdt := .hash r.2, ts := ts' }
      ({ s with clock := r.1, keys := NMap.insert k rv' s.keys }, some rv')
    | _ => (s, none)

/-- `record_hash_delete` as it would be if `ReplicatedValue::hash_delete` did NOT set
    `self.timestamp = *clock` after tombstoning the fields (not the code that exists; the object of
    `C08.hdel_keeps_outer_stamp_counterexample`): the field tombstones get fresh stamps, the
    outer stamp stays behind them -/
def recordHashDeleteKeepOuter (s : Shard) (k : Nat) (fields : List Nat) : Shard × Option RV :=
  match NMap.get s.keys k with
  | none => (s, none)
  | some rv =>
    match rv.crdt with
    | .hash h =>
      let r := fields.foldl hashDelStep (s.clock, h)
      let rv' : RV := { rv with crdt := .hash r.2 }
      ({ s with clock := r.1, keys := NMap.insert k rv' s.keys }, some rv')
    | _ => (s, none)

/-- FLUSHDB / FLUSHALL at the replicated shard actor (`record_mutation_post_execute`:
    `Command::FlushDb | Command::FlushAll => None`): the executor is emptied, the replication state
    — keys, Lamport clock, vector clock — is NOT touched (`reset = false`, the code that exists).
    `reset = true` is the variant "drop the replication metadata with the keys" implemented as
    `*self = ShardReplicaState::new(..)`, which also takes the Lamport clock back to 0: the object
    of `C08.flush_resets_clock_counterexample`. -/
def flushWith (reset : Bool) (s : Shard) : Shard :=
  if reset then Shard.init s.rid s.causal else s

/-- the current tree -/
def flush (s : Shard) : Shard := flushWith false s

/-- `apply_remote_delta` -/
def applyRemote (s : Shard) (k : Nat) (d : RV) : Shard :=
  let merged := match NMap.get s.keys k with
    | some l => RV.merge l d
    | none => d
  { s with clock := s.clock.update d.ts, keys := NMap.insert k merged s.keys }

/-- `ReplicatedShardMessage::ApplyRecoveredState`: plain insert (no merge).  `updClock` says
    whether the Lamport clock is advanced past the recovered stamp — `false` is the pinned
    commit, `true` the tree after the `fix:` commit recorded in known_findings.json. -/
def applyRecoveredWith (updClock : Bool) (s : Shard) (k : Nat) (v : RV) : Shard :=
  { s with
    clock := if updClock then s.clock.update v.ts else s.clock
    keys := NMap.insert k v s.keys }

/-- the current tree -/
def applyRecovered (s : Shard) (k : Nat) (v : RV) : Shard := applyRecoveredWith true s k v

inductive Op where
  | write (k : Nat) (v : Bytes) (exp : Option Nat)
  | delete (k : Nat)
  | hwrite (k : Nat) (fields : List (Nat × Bytes))
  | hdelete (k : Nat) (fields : List Nat)
  | remote (k : Nat) (d : RV)
  | recovered (k : Nat) (v : RV)
  deriving DecidableEq, Repr

/-- one step; the second component is the delta value handed to gossip / persistence -/
def step (s : Shard) : Op → Shard × Option RV
  | .write k v e => ((recordWrite s k v e).1, some (recordWrite s k v e).2)
  | .delete k => recordDelete s k
  | .hwrite k fs => ((recordHashWrite s k fs).1, some (recordHashWrite s k fs).2)
  | .hdelete k fs => recordHashDelete s k fs
  | .remote k d => (applyRemote s k d, none)
  | .recovered k v => (applyRecovered s k v, none)

/-- is this op a local write that changes the stored value (and therefore must carry a fresh,
    greater stamp)?  `write`/`hwrite` with at least one field always; `delete` of an LWW or hash value;
    `hdelete` naming at least one stored field. -/
def effective (s : Shard) : Op → Bool
  | .write _ _ _ => true
  | .hwrite _ fs => !fs.isEmpty
  | .delete k =>
    match NMap.get s.keys k with
    | some rv => (match rv.crdt with | .lww _ => true | .hash _ => true | _ => false)
    | none => false
  | .hdelete k fs =>
    match NMap.get s.keys k with
    | some rv => (match rv.crdt with
      | .hash h => fs.any (fun f => (NMap.get h f).isSome)
      | _ => false)
    | none => false
  | _ => false

end Shard

/-! ## a node: all shards of one `ReplicatedShardedState`

  Anchors: /repo/src/production/replicated_state.rs — `shards: Vec<ReplicatedShardHandle>`,
  `apply_recovered_state(checkpoint_state, deltas)`: step 1 sends every checkpoint entry to the
  shard of its key (`ApplyRecoveredState`, the only place a checkpoint-recovered stamp advances
  that shard's Lamport clock), in the iteration order of the checkpoint map; step 2 applies every
  delta through `apply_remote_deltas`.  `hash_key` is the parameter `route`. -/

/-- index = shard id -/
abbrev ShardedNode := List Shard

namespace ShardedNode

/-- `ReplicatedShardedState::new`: every shard actor is spawned with the node's replica id -/
def init (rid : Nat) (causal : Bool) (nshards : Nat) : ShardedNode :=
  List.replicate nshards (Shard.init rid causal)

/-- one message to the shard actor `s` -/
def onShard (nd : ShardedNode) (s : Nat) (f : Shard → Shard) : ShardedNode :=
  match nd[s]? with
  | some sh => nd.set s (f sh)
  | none => nd

/-- `apply_recovered_state(Some(ckpt), deltas)`.  `skipTombstones = false` is the code that exists;
    `true` is the variant "deleted keys have nothing to restore" whose counterexample is
    `C08.node_recovery_skip_tombstones_counterexample`. -/
def recoverNode (skipTombstones : Bool) (route : Nat → Nat) (nd : ShardedNode)
    (ckpt deltas : List (Nat × RV)) : ShardedNode :=
  deltas.foldl (fun nd p => nd.onShard (route p.1) (fun sh => sh.applyRemote p.1 p.2))
    (ckpt.foldl (fun nd p =>
      if skipTombstones && p.2.isTombstone then nd
      else nd.onShard (route p.1) (fun sh => sh.applyRecovered p.1 p.2)) nd)

end ShardedNode
end RedisVerif
