/-
  NMap / NSet: canonical (strictly sorted) Nat-keyed finite maps and sets.

  Every unordered Rust container (`HashMap`, `HashSet`, `AHashMap`) that the
  modelled code uses is represented by one of these.  Keys of any Rust type
  (ReplicaId, String, UniqueTag, …) are mapped to `Nat` by an *injective*
  encoding performed in the driver (see `Driver/Codec.lean`); none of the
  modelled algorithms inspects the structure of a key, so this loses nothing.

  Canonical form = strictly increasing keys, so that Lean's structural `=`
  coincides with Rust's extensional `PartialEq` (`NMap.ext`).  Well-formedness
  is a separate predicate with preservation theorems (in `Lemmas/NMap.lean`),
  not a subtype.

  This file must not import anything outside core (it is linked into the
  native driver).
-/
namespace RedisVerif

abbrev NMap (ν : Type) := List (Nat × ν)
abbrev NSet := List Nat

namespace NMap
variable {ν : Type}

/-- lookup -/
def get : NMap ν → Nat → Option ν
  | [], _ => none
  | (k', v) :: m, k => if k = k' then some v else get m k

/-- canonical form: strictly increasing keys -/
def WF (m : NMap ν) : Prop := m.Pairwise (fun a b => a.1 < b.1)

instance : DecidablePred (WF (ν := ν)) := fun m => by unfold WF; infer_instance

/-- insert or replace -/
def insert (k : Nat) (v : ν) : NMap ν → NMap ν
  | [] => [(k, v)]
  | (k', v') :: m =>
    if k < k' then (k, v) :: (k', v') :: m
    else if k = k' then (k, v) :: m
    else (k', v') :: insert k v m

/-- remove a key -/
def erase (k : Nat) : NMap ν → NMap ν
  | [] => []
  | (k', v') :: m =>
    if k = k' then m
    else (k', v') :: erase k m

/-- insert `k ↦ v`, combining with an existing value as `f v old` -/
def insertWith (f : ν → ν → ν) (k : Nat) (v : ν) : NMap ν → NMap ν
  | [] => [(k, v)]
  | (k', v') :: m =>
    if k < k' then (k, v) :: (k', v') :: m
    else if k = k' then (k, f v v') :: m
    else (k', v') :: insertWith f k v m

/-- pointwise merge of two canonical maps; `f x y` combines a value `x` of `a` with the
    value `y` of `b` under the same key (structural recursion, so the kernel can evaluate it) -/
def merge (f : ν → ν → ν) (a b : NMap ν) : NMap ν :=
  a.foldr (fun p acc => insertWith f p.1 p.2 acc) b

/-- build a canonical map from an arbitrary association list (later entries win) -/
def ofList (l : List (Nat × ν)) : NMap ν := l.foldl (fun m p => insert p.1 p.2 m) []

def keys (m : NMap ν) : List Nat := m.map (·.1)

/-- apply `f` to every value (keys unchanged) -/
def mapVal {μ : Type} (f : ν → μ) (m : NMap ν) : NMap μ := m.map (fun p => (p.1, f p.2))

end NMap

/-- combine two optional values -/
def optMerge {ν : Type} (f : ν → ν → ν) : Option ν → Option ν → Option ν
  | some x, some y => some (f x y)
  | some x, none => some x
  | none, some y => some y
  | none, none => none

namespace NSet

def mem (s : NSet) (k : Nat) : Bool := s.contains k

def WF (s : NSet) : Prop := s.Pairwise (· < ·)

instance : DecidablePred WF := fun s => by unfold WF; infer_instance

def insert (k : Nat) : NSet → NSet
  | [] => [k]
  | k' :: s =>
    if k < k' then k :: k' :: s
    else if k = k' then k' :: s
    else k' :: insert k s

def union (a b : NSet) : NSet := a.foldr (fun k acc => insert k acc) b

def ofList (l : List Nat) : NSet := l.foldl (fun s k => insert k s) []

end NSet

end RedisVerif
