import RedisVerif.Model.NMap
import RedisVerif.Model.Crdt

/-
  M3 (first half) — model of the write-ahead log: entry codec, file header, per-file
  reader, recovery / truncation over a store image, and the rotator over a store with
  per-file `(data, syncedLen)` and a fault oracle.

  Anchors: /repo/src/streaming/wal.rs (WalEntry::{encode,decode}, WalWriter::new,
  WalReader::{open,entries}, WalRotator::{append,rotate,sync,recover_all_entries,
  recover_entries_after,truncate_before}), /repo/src/streaming/wal_store.rs (WalStore,
  InMemoryWalStore: `synced_pos`, `simulate_crash`).

  Bytes are `List Nat` (every element < 256 in images that come from the real code; the
  model never needs that).  `crc : Bytes → Nat` is a PARAMETER (crc32fast::hash in the
  real code; the driver instantiates it with `Driver.Crc32.crc32`).
  Files are keyed by their sequence number (the rotator only ever creates the canonical
  name `wal-{seq:08x}.wal`; `WalStore::list` returns names sorted, which for canonical names
  of sequences < 2^32 is the order of sequences), so a store is a canonical sorted `NMap`.
-/
namespace RedisVerif
namespace Wal

/-! ## little-endian integers -/

/-- `v.to_le_bytes()` of a `k`-byte unsigned integer (value taken mod 256^k, which is
    what `as u32` does to a `usize` length) -/
def le : Nat → Nat → Bytes
  | 0, _ => []
  | k + 1, v => v % 256 :: le k (v / 256)

/-- `uN::from_le_bytes` -/
def leVal : Bytes → Nat
  | [] => 0
  | b :: bs => b + 256 * leVal bs

/-! ## on-disk format version -/

/-- which WAL format the code speaks:
    * `v1` — the pinned tree: entry checksum = CRC of the payload only, an empty entry is
      accepted, file version byte 1;
    * `v2` — the repaired tree (`fix:` commit "WAL entry checksum covers length and timestamp"):
      checksum = CRC of `data_length | timestamp | data`, `decode` rejects `data_length == 0`,
      file version byte 2.
    Every definition takes the format as a parameter, so the theorems about the current code
    (`v2`) and the counterexamples about the old format (`v1`) are statements about the same
    functions. -/
inductive Format where
  | v1
  | v2
  deriving DecidableEq, Repr, Inhabited

/-- the bytes the entry checksum is computed over (`entry_checksum`) -/
def covered (fmt : Format) (len ts : Nat) (d : Bytes) : Bytes :=
  match fmt with
  | .v1 => d
  | .v2 => le 4 len ++ (le 8 ts ++ d)

/-- the file version byte (`WAL_VERSION`) -/
def Format.version : Format → Nat
  | .v1 => 1
  | .v2 => 2

/-! ## entry codec: `len:u32 | timestamp:u64 | checksum:u32 | data` -/

/-- `WalEntry { data, timestamp, checksum }` — the checksum is a stored FIELD, written as
    is by `encode` (only `from_delta` computes it) -/
structure Entry where
  data : Bytes
  ts : Nat
  crc : Nat
  deriving DecidableEq, Repr, Inhabited

/-- `WAL_ENTRY_OVERHEAD` = `WAL_HEADER_SIZE` = 16 -/
def overhead : Nat := 16

namespace Entry

/-- `WalEntry::from_delta` after serialisation: checksum = `entry_checksum(timestamp, data)` -/
def mk' (fmt : Format) (crc : Bytes → Nat) (data : Bytes) (ts : Nat) : Entry :=
  ⟨data, ts, crc (covered fmt data.length ts data)⟩

/-- `WalEntry::validate` -/
def Valid (fmt : Format) (crc : Bytes → Nat) (e : Entry) : Prop :=
  crc (covered fmt e.data.length e.ts e.data) = e.crc

instance (fmt : Format) (crc : Bytes → Nat) : DecidablePred (Valid fmt crc) := fun e => by
  unfold Valid; infer_instance

/-- the field widths of the on-disk format are respected (u32 length, u64 stamp, u32 crc) -/
def Fits (e : Entry) : Prop := e.data.length < 2 ^ 32 ∧ e.ts < 2 ^ 64 ∧ e.crc < 2 ^ 32

instance : DecidablePred Fits := fun e => by unfold Fits; infer_instance

/-- `WalEntry::encode` -/
def encode (e : Entry) : Bytes := le 4 e.data.length ++ (le 8 e.ts ++ (le 4 e.crc ++ e.data))

/-- `WalEntry::disk_size` -/
def size (e : Entry) : Nat := overhead + e.data.length

end Entry

/-- `WalEntry::decode`: `None` when the 16-byte entry header is incomplete, (v2) the declared
    length is 0, the declared payload is not fully present, or the checksum of the covered
    bytes differs from the stored one.  In `v1` the timestamp is NOT covered by any check. -/
def decode (fmt : Format) (crc : Bytes → Nat) (bs : Bytes) : Option (Entry × Nat) :=
  if bs.length < overhead then none
  else
    let len := leVal (bs.take 4)
    let ts := leVal ((bs.drop 4).take 8)
    let ck := leVal ((bs.drop 12).take 4)
    if fmt = .v2 ∧ len = 0 then none
    else if bs.length < overhead + len then none
    else
      let d := (bs.drop overhead).take len
      if crc (covered fmt len ts d) = ck then some (⟨d, ts, ck⟩, overhead + len) else none

/-! ### the size arithmetic of `decode` (and of every `offset + len` bound test)

  `decode` above compares lengths in unbounded `Nat`.  The Rust code computes
  `total_size = WAL_ENTRY_OVERHEAD.checked_add(data_len)?` in `usize` for a `u32` length; the
  definitions below model exactly that arithmetic (and the variants that would be wrong), so
  that "the model's test is the code's test" is a theorem (`C10.decode_total_no_wrap`) and a
  width change of the addition is visible (`C10.size_wrap_counterexample`). -/

/-- in which integer type `base + len` is computed -/
inductive SizeArith where
  | usizeChecked    -- `base.checked_add(len)?` in 64-bit `usize` (WalEntry::decode, current code)
  | usizeWrapping   -- plain `base + len` in 64-bit `usize`, release profile (DeltaIterator, CheckpointReader)
  | u32Wrapping     -- `(base as u32 + len) as usize`: the sum wraps at 2^32
  deriving DecidableEq, Repr

def totalSize (a : SizeArith) (base len : Nat) : Option Nat :=
  match a with
  | .usizeChecked => if base + len < 2 ^ 64 then some (base + len) else none
  | .usizeWrapping => some ((base + len) % 2 ^ 64)
  | .u32Wrapping => some ((base + len) % 2 ^ 32)

/-- what the bound test + the slice `data[base..total]` do -/
inductive SizeRes where
  | reject                 -- `None` / `Err`: not enough bytes
  | slice (total : Nat)    -- accepted, payload = `data[base..total]`
  | crash                  -- accepted, then `data[base..total]` with `total < base` panics
  deriving DecidableEq, Repr

def sizeTest (a : SizeArith) (base remaining len : Nat) : SizeRes :=
  match totalSize a base len with
  | none => .reject
  | some t => if remaining < t then .reject else if t < base then .crash else .slice t

/-- `WalReader::entries` from an offset: decode entries until the first failure.
    `fuel` bounds the loop (every iteration consumes ≥ 16 bytes, so `bs.length` suffices). -/
def entriesAux (fmt : Format) (crc : Bytes → Nat) : Nat → Bytes → List Entry
  | 0, _ => []
  | fuel + 1, bs =>
    match decode fmt crc bs with
    | none => []
    | some (e, n) => e :: entriesAux fmt crc fuel (bs.drop n)

/-- entries of the body of a file (everything after the 16-byte file header) -/
def entries (fmt : Format) (crc : Bytes → Nat) (bs : Bytes) : List Entry := entriesAux fmt crc bs.length bs

/-! ## file header: `"RWAL" | version | flags | reserved(2) | sequence:u64` -/

def magic : Bytes := [82, 87, 65, 76]

/-- what `WalWriter::new` appends first -/
def header (fmt : Format) (seq : Nat) : Bytes := magic ++ ([fmt.version, 0, 0, 0] ++ le 8 seq)

/-- `WalReader::open`: `some sequence` or `none` (= `Err(Corruption)`): too short, wrong
    magic, wrong version.  Flags, reserved bytes and the sequence field are not checked. -/
def openFile (fmt : Format) (bs : Bytes) : Option Nat :=
  if bs.length < overhead then none
  else if bs.take 4 ≠ magic then none
  else if (bs.drop 4).head? ≠ some fmt.version then none
  else some (leVal ((bs.drop 8).take 8))

/-- `WalReader::open` + `entries`; `none` = the file is skipped -/
def readFile (fmt : Format) (crc : Bytes → Nat) (bs : Bytes) : Option (List Entry) :=
  match openFile fmt bs with
  | none => none
  | some _ => some (entries fmt crc (bs.drop overhead))

/-- contribution of one file to recovery (`continue` on an unreadable file) -/
def fileEntries (fmt : Format) (crc : Bytes → Nat) (bs : Bytes) : List Entry :=
  match readFile fmt crc bs with
  | none => []
  | some es => es

/-- image of a well-formed file: header followed by the encoded entries -/
def encs (es : List Entry) : Bytes := es.flatMap Entry.encode

def fileImage (fmt : Format) (seq : Nat) (es : List Entry) : Bytes := header fmt seq ++ encs es

/-! ## recovery and truncation over a store image (files in sequence order) -/

abbrev Image := NMap Bytes

/-- `WalRotator::recover_all_entries` -/
def recoverAll (fmt : Format) (crc : Bytes → Nat) (img : Image) : List Entry :=
  img.flatMap (fun p => fileEntries fmt crc p.2)

/-- `Option::mapM`-style traversal (structural, kernel-reducible) -/
def allSome {α β : Type} (f : α → Option β) : List α → Option (List β)
  | [] => some []
  | a :: as =>
    match f a with
    | none => none
    | some b => match allSome f as with
      | none => none
      | some bs => some (b :: bs)

/-- `WalRotator::recover_entries_after`: entries with `timestamp >= t`, each deserialised
    (`de` = bincode of a delta, a parameter); one undecodable payload fails the call. -/
def recoverAfter {δ : Type} (fmt : Format) (crc : Bytes → Nat) (de : Bytes → Option δ) (t : Nat) (img : Image) :
    Option (List δ) :=
  allSome (fun e => de e.data) ((recoverAll fmt crc img).filter (fun e => t ≤ e.ts))

/-- `entries.iter().map(|e| e.timestamp).max().unwrap_or(0)` -/
def maxTs (es : List Entry) : Nat := es.foldr (fun e m => Nat.max e.ts m) 0

/-- does `truncate_before(T)` delete this (non-active) file? -/
def deletable (fmt : Format) (crc : Bytes → Nat) (T : Nat) (bs : Bytes) : Bool :=
  match readFile fmt crc bs with
  | none => false
  | some es => es.isEmpty || decide (maxTs es ≤ T)

/-- `WalRotator::truncate_before` with `active` = sequence of `current_writer` (if any):
    the files that remain -/
def truncateBefore (fmt : Format) (crc : Bytes → Nat) (T : Nat) (active : Option Nat) (img : Image) : Image :=
  img.filter (fun p => active == some p.1 || !deletable fmt crc T p.2)

/-! ## file names and directory listings

  The rotator names its files `wal-{seq:08x}.wal` and relies on `WalStore::list()` (names in
  lexicographic BYTE order) only through `parse_wal_sequence`; what it does with every other
  name in the directory, and what the real ordering of names is, is made explicit here. -/

abbrev Name := Bytes

/-- lower-case hex digit -/
def hexChar (d : Nat) : Nat := if d < 10 then 48 + d else 87 + d

/-- `n` in exactly `w` hex digits, most significant first (`n` taken mod 16^w) -/
def hexW : Nat → Nat → Bytes
  | 0, _ => []
  | w + 1, n => hexChar (n / 16 ^ w % 16) :: hexW w (n % 16 ^ w)

/-- number of hex digits of `n` (at least 1) -/
def hexDigits (n : Nat) : Nat := if n = 0 then 1 else Nat.log2 n / 4 + 1

def walPrefix : Bytes := [119, 97, 108, 45]   -- "wal-"
def walSuffix : Bytes := [46, 119, 97, 108]   -- ".wal"

/-- `wal_file_name`: `format!("wal-{:08x}.wal", sequence)` — at least 8 digits, more when needed -/
def walName (seq : Nat) : Name := walPrefix ++ (hexW (Nat.max 8 (hexDigits seq)) seq ++ walSuffix)

def hexVal? (c : Nat) : Option Nat :=
  if 48 ≤ c ∧ c ≤ 57 then some (c - 48)
  else if 97 ≤ c ∧ c ≤ 102 then some (c - 87)
  else if 65 ≤ c ∧ c ≤ 70 then some (c - 55)
  else none

/-- digits of `u64::from_str_radix(_, 16)`: any non-hex character or a value ≥ 2^64 is an error -/
def parseHex : Nat → Bytes → Option Nat
  | acc, [] => some acc
  | acc, c :: cs =>
    match hexVal? c with
    | none => none
    | some d => if acc * 16 + d < 2 ^ 64 then parseHex (acc * 16 + d) cs else none

/-- `parse_wal_sequence`: strip `"wal-"` and `".wal"`, then `u64::from_str_radix(_, 16)` — which
    accepts upper-case digits, a leading `+`, and any number of digits: several names can denote
    the same sequence -/
def parseSeq (n : Name) : Option Nat :=
  if n.take 4 ≠ walPrefix then none
  else
    let r := n.drop 4
    if r.length < 4 ∨ r.drop (r.length - 4) ≠ walSuffix then none
    else
      let mid := r.take (r.length - 4)
      let digits := match mid with
        | 43 :: ds => ds      -- one leading '+'
        | ds => ds
      if digits.isEmpty then none else parseHex 0 digits

/-- byte-wise lexicographic order of names (`impl Ord for String`; `names.sort()` in `list()`) -/
def nameLt : Name → Name → Bool
  | [], [] => false
  | [], _ :: _ => true
  | _ :: _, [] => false
  | a :: as, b :: bs => decide (a < b) || (a == b && nameLt as bs)

/-- a directory as `WalStore::list()` + `open_read` present it: (name, contents) in listing order -/
abbrev Dir := List (Name × Bytes)

/-- the entries of the listing that parse as WAL files, with their sequence, in listing order -/
def walFiles (dir : Dir) : List (Nat × Bytes) :=
  dir.filterMap (fun p => (parseSeq p.1).map (fun s => (s, p.2)))

def insertBySeq (x : Nat × Bytes) : List (Nat × Bytes) → List (Nat × Bytes)
  | [] => [x]
  | y :: ys => if x.1 ≤ y.1 then x :: y :: ys else y :: insertBySeq x ys

/-- `wal_files.sort_by_key(|(seq, _)| *seq)`: stable — names denoting the same sequence keep their
    listing order -/
def sortBySeq (l : List (Nat × Bytes)) : List (Nat × Bytes) := l.foldr insertBySeq []

/-- `WalRotator::recover_all_entries` over a directory: foreign names are ignored, WAL files are
    read in sequence order -/
def recoverAllD (fmt : Format) (crc : Bytes → Nat) (dir : Dir) : List Entry :=
  recoverAll fmt crc (sortBySeq (walFiles dir))

/-- `WalRotator::truncate_before` over a directory.  It iterates over ALL listed names (foreign
    ones included: a foreign file with a valid WAL header and no entry stamped later than `T` is
    deleted too) and spares exactly the name `active` of the open writer. -/
def truncateBeforeD (fmt : Format) (crc : Bytes → Nat) (T : Nat) (active : Option Name) (dir : Dir) : Dir :=
  dir.filter (fun p => active == some p.1 || !deletable fmt crc T p.2)

/-- the name that comes last in the listing -/
def lastListed (dir : Dir) : Option Name := dir.getLast?.map (·.1)

/-- highest sequence found by `WalRotator::new` (0 for none) -/
def maxSeqD (dir : Dir) : Nat := (walFiles dir).foldr (fun p m => Nat.max p.1 m) 0

/-- put / replace a file, keeping the listing sorted by name (`create` truncates an existing one) -/
def Dir.put (n : Name) (b : Bytes) : Dir → Dir
  | [] => [(n, b)]
  | p :: ps => if p.1 = n then (n, b) :: ps else if nameLt n p.1 then (n, b) :: p :: ps else p :: Dir.put n b ps

def Dir.get (dir : Dir) (n : Name) : Option Bytes := (dir.find? (fun p => p.1 = n)).map (·.2)

/-- a rotator over a directory without faults: state = (directory, open writer's sequence,
    `current_sequence`); `none` = the process panicked (`checked_add(1).expect("WAL sequence
    overflow")` when the directory holds a file with sequence 2^64 - 1) -/
structure DRot where
  dir : Dir
  cur : Option Nat
  seq : Nat
  deriving Repr

/-- `WalRotator::new` -/
def DRot.new (dir : Dir) : DRot := ⟨dir, none, maxSeqD dir⟩

/-- `WalRotator::append` (no faults) -/
def DRot.append (fmt : Format) (maxSize : Nat) (r : DRot) (e : Entry) : Option DRot :=
  let needsNew : Bool :=
    match r.cur with
    | none => true
    | some c => decide (maxSize ≤ ((r.dir.get (walName c)).getD []).length)
  if needsNew then
    if r.seq + 1 < 2 ^ 64 then
      let s := r.seq + 1
      some ⟨r.dir.put (walName s) (header fmt s ++ e.encode), some s, s⟩
    else none
  else
    match r.cur with
    | none => none
    | some c => some { r with dir := r.dir.put (walName c) ((r.dir.get (walName c)).getD [] ++ e.encode) }

def DRot.appendAll (fmt : Format) (maxSize : Nat) : DRot → List Entry → Option DRot
  | r, [] => some r
  | r, e :: es =>
    match DRot.append fmt maxSize r e with
    | none => none
    | some r' => DRot.appendAll fmt maxSize r' es

/-! ## store with durability state, fault oracle, rotator -/

/-- `InMemoryFile { data, synced_pos }` -/
structure File where
  data : Bytes
  synced : Nat
  deriving DecidableEq, Repr, Inhabited

abbrev Store := NMap File

/-- result of one I/O call as decided by the fault oracle.  `torn k` (a partial write): the first
    `min k len` bytes reach the file and the call reports an error. -/
inductive Outcome where
  | ok
  | fail
  | torn (k : Nat)
  | diskFull
  deriving DecidableEq, Repr, Inhabited

/-- error classes of `WalError` that reach a writer -/
inductive Err where
  | io | full | torn | fsync
  deriving DecidableEq, Repr, Inhabited

def Outcome.err : Outcome → Err
  | .diskFull => .full
  | .torn _ => .torn
  | _ => .io

/-- error of a failed `create` (a "partial create" does not exist: plain I/O error) -/
def Outcome.createErr : Outcome → Err
  | .diskFull => .full
  | _ => .io

/-- one recorded I/O call (what the harness-side `WalStore` logs) -/
inductive Call where
  | create (seq : Nat) (ok : Bool) (existed : Bool)   -- `existed`: a file of that name was there (and is truncated by a successful create)
  | crash                                             -- pseudo-call: the machine crashed here (every file cut to its synced length)
  | append (seq : Nat) (len : Nat) (o : Outcome)
  | sync (seq : Nat) (ok : Bool)
  | delete (seq : Nat) (ok : Bool)
  deriving DecidableEq, Repr, Inhabited

/-- everything below the rotator: the store, the number of I/O calls issued, and the
    history of stores after every call (`hist.head` = after the latest call, last element
    = initial store) so that the crash image at EVERY call boundary is available -/
structure World where
  store : Store
  hist : List Store
  trace : List Call      -- newest first
  deriving Repr

def World.init : World := { store := [], hist := [[]], trace := [] }

/-- index of the next I/O call -/
def World.io (w : World) : Nat := w.trace.length

def World.push (w : World) (st : Store) (c : Call) : World :=
  { store := st, hist := st :: w.hist, trace := c :: w.trace }

/-- `WalStore::create` (truncates/creates the file) -/
def ioCreate (φ : Nat → Outcome) (w : World) (seq : Nat) : World × Option Err :=
  match φ w.io with
  | .ok => (w.push (NMap.insert seq ⟨[], 0⟩ w.store) (.create seq true (NMap.get w.store seq).isSome), none)
  | o => (w.push w.store (.create seq false (NMap.get w.store seq).isSome), some o.createErr)

def appendData (st : Store) (seq : Nat) (bs : Bytes) : Store :=
  match NMap.get st seq with
  | none => st
  | some f => NMap.insert seq { f with data := f.data ++ bs } st

/-- `WalFileWriter::append` -/
def ioAppend (φ : Nat → Outcome) (w : World) (seq : Nat) (bs : Bytes) : World × Option Err :=
  let o := φ w.io
  match o with
  | .ok => (w.push (appendData w.store seq bs) (.append seq bs.length o), none)
  | .torn k => (w.push (appendData w.store seq (bs.take k)) (.append seq bs.length o), some o.err)
  | _ => (w.push w.store (.append seq bs.length o), some o.err)

def syncFile (st : Store) (seq : Nat) : Store :=
  match NMap.get st seq with
  | none => st
  | some f => NMap.insert seq { f with synced := f.data.length } st

/-- `WalFileWriter::sync` -/
def ioSync (φ : Nat → Outcome) (w : World) (seq : Nat) : World × Bool :=
  match φ w.io with
  | .ok => (w.push (syncFile w.store seq) (.sync seq true), true)
  | _ => (w.push w.store (.sync seq false), false)

/-- the store without file `seq` -/
def deleteFile (st : Store) (seq : Nat) : Store := st.filter (fun p => p.1 != seq)

/-- `WalStore::delete` -/
def ioDelete (φ : Nat → Outcome) (w : World) (seq : Nat) : World × Bool :=
  match φ w.io with
  | .ok => (w.push (deleteFile w.store seq) (.delete seq true), true)
  | _ => (w.push w.store (.delete seq false), false)

/-- what a crash leaves: every file cut to its synced length -/
def crashImage (st : Store) : Image := st.map (fun p => (p.1, p.2.data.take p.2.synced))

/-- what is on disk if nothing is lost -/
def fullImage (st : Store) : Image := st.map (fun p => (p.1, p.2.data))

/-- `WalRotator` (store handle replaced by the `World`).
    `syncBeforeDrop` (`fix`) selects the code variant:
    * `false` = the pinned tree: `rotate()` drops the writer unsynced; an append error drops it
      too; `sync()` covers only the current writer and returns `Ok` when there is none.
    * `true` = the repaired tree: `rotate()` fsyncs the old writer before dropping it; a failed
      closing fsync or a failed append POISONS the rotator, and the next `sync()` then reports
      `Err` (once) instead of syncing, so the waiting acks fail.
    `poisoned` is real state of the repaired code; in the pinned variant it is a GHOST with the
    same meaning ("a writer was dropped without a successful fsync since the last `sync()`"),
    which no result of the pinned variant depends on — it only lets the partial theorem name
    the runs on which the pinned code is safe. -/
structure Rot where
  w : World
  maxSize : Nat
  cur : Option Nat       -- `current_writer` (its sequence)
  seq : Nat              -- `current_sequence`
  poisoned : Bool
  deriving Repr

def Rot.init (maxSize : Nat) : Rot :=
  { w := World.init, maxSize := maxSize, cur := none, seq := 0, poisoned := false }

/-- size reported by the current writer = length of its file -/
def Rot.curSize (r : Rot) (c : Nat) : Nat :=
  match NMap.get r.w.store c with
  | none => 0
  | some f => f.data.length

/-- "close current writer" at the start of `rotate()` -/
def Rot.close (fix : Bool) (φ : Nat → Outcome) (r : Rot) : Rot :=
  match r.cur with
  | none => r
  | some c =>
    if fix then
      let (w', ok) := ioSync φ r.w c
      { r with w := w', cur := none, poisoned := r.poisoned || !ok }
    else
      { r with cur := none, poisoned := true }

/-- `WalRotator::rotate` -/
def Rot.rotate (fix : Bool) (fmt : Format) (φ : Nat → Outcome) (r : Rot) : Rot × Option Err :=
  let r1 := Rot.close fix φ r
  let r2 := { r1 with seq := r1.seq + 1 }
  match ioCreate φ r2.w r2.seq with
  | (w', some e) => ({ r2 with w := w' }, some e)
  | (w', none) =>
    match ioAppend φ w' r2.seq (header fmt r2.seq) with
    | (w'', some e) => ({ r2 with w := w'' }, some e)
    | (w'', none) => ({ r2 with w := w'', cur := some r2.seq }, none)

/-- `needs_new_file` -/
def Rot.needsNew (r : Rot) : Bool :=
  match r.cur with
  | none => true
  | some c => decide (r.maxSize ≤ r.curSize c)

/-- second half of `WalRotator::append`: `writer.append_entry(entry)` on the current writer -/
def Rot.appendTo (φ : Nat → Outcome) (r1 : Rot) (e : Entry) : Rot × Option Err :=
  match r1.cur with
  | none => (r1, some .io)   -- unreachable (`expect("current_writer must exist after rotate")`)
  | some c =>
    match ioAppend φ r1.w c e.encode with
    | (w', none) => ({ r1 with w := w' }, none)
    | (w', some x) => ({ r1 with w := w', cur := none, poisoned := true }, some x)

/-- `WalRotator::append` -/
def Rot.append (fix : Bool) (fmt : Format) (φ : Nat → Outcome) (r : Rot) (e : Entry) : Rot × Option Err :=
  if r.needsNew then
    match Rot.rotate fix fmt φ r with
    | (r1, some x) => (r1, some x)       -- `self.rotate()?`
    | (r1, none) => Rot.appendTo φ r1 e
  else Rot.appendTo φ r e

/-- the deletions of `truncate_before`, in listing order; the first failing `delete` aborts
    (`self.store.delete(name)?`) -/
def truncLoop (φ : Nat → Outcome) : List Nat → World → World
  | [], w => w
  | k :: rest, w =>
    match ioDelete φ w k with
    | (w', true) => truncLoop φ rest w'
    | (w', false) => w'

/-- `WalRotator::truncate_before` on the live store: every file other than the current writer's
    that is readable and holds no entry stamped later than `T` (judged on its FULL contents,
    synced or not) is deleted -/
def Rot.truncate (fmt : Format) (crc : Bytes → Nat) (φ : Nat → Outcome) (T : Nat) (r : Rot) : Rot :=
  let victims := (r.w.store.map (·.1)).filter (fun k => r.cur != some k &&
    match NMap.get r.w.store k with     -- `open_read(name)`
    | some f => deletable fmt crc T f.data
    | none => false)
  { r with w := truncLoop φ victims r.w }

/-- what is left of the store after a machine crash: every file cut to its synced length
    (and that much is, of course, on disk) -/
def crashStore (st : Store) : Store :=
  st.map (fun p => (p.1, (⟨p.2.data.take p.2.synced, (p.2.data.take p.2.synced).length⟩ : File)))

/-- highest sequence number among the files of the store (`0` if there is none) -/
def maxKey (st : Store) : Nat := st.foldr (fun p m => Nat.max p.1 m) 0

/-- a NEW rotator over an existing store (`WalRotator::new` after a restart):
    `current_sequence` = the highest sequence found in the listing, no current writer, so the
    first `rotate()` creates `max + 1`.  `reuse = true` is the variant in which the first rotate
    re-creates the name of the highest-numbered EXISTING file (the counter is treated as "next
    sequence to use" by `rotate` but still initialised to the highest one found). -/
def Rot.reopen (reuse : Bool) (r : Rot) : Rot :=
  { r with cur := none, poisoned := false,
           seq := if reuse then maxKey r.w.store - 1 else maxKey r.w.store }

/-- `WalRotator::sync` -/
def Rot.sync (fix : Bool) (φ : Nat → Outcome) (r : Rot) : Rot × Bool :=
  if fix && r.poisoned then ({ r with poisoned := false }, false)
  else
    match r.cur with
    | none => ({ r with poisoned := false }, true)
    | some c =>
      let (w', ok) := ioSync φ r.w c
      ({ r with w := w', poisoned := false }, ok)

end Wal
end RedisVerif
