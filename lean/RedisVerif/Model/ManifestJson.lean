/-
  M4j — the manifest object byte for byte: `ManifestManager::save` writes
  `serde_json::to_vec_pretty(&Manifest)`, `ManifestManager::load` reads
  `serde_json::from_slice::<Manifest>` (manifest.rs).  The manifest is the one stored object
  WITHOUT a checksum (segments, checkpoints and WAL entries carry a CRC: C14), so what a reader
  makes of a damaged manifest is decided entirely by this grammar.

  Anchors: /repo/src/streaming/manifest.rs (`Manifest`, `SegmentInfo`, `CheckpointInfo`:
  `#[derive(Serialize, Deserialize)]`, no serde attributes), serde_json 1.0.148 (`de.rs`,
  `read.rs`, `ser.rs`: `PrettyFormatter` with two spaces), serde_derive's struct visitor.

  `encode` is the pretty serialiser for these three structs.  `decode` is the deserialiser as it
  exists, transcribed: a struct is accepted as a JSON object (fields in ANY order, unknown fields
  skipped with a full syntax check of their value, a duplicate field is an error, a missing
  `Option` field is `None`, any other missing field an error) AND as a JSON array (the fields in
  declaration order — serde_derive's `visit_seq`); `u64` / `u32` fields accept exactly an
  unsigned decimal integer without leading zeros, in range, not followed by `.` / `e` / `E`
  (anything else — negative, float, overflow — is a type error); strings are unescaped
  (`\uXXXX` with surrogate pairs; a lone surrogate, a control byte, an unknown escape is an
  error) and must be valid UTF-8 — except inside skipped values, where only the escapes are
  checked; whitespace is space / tab / LF / CR; a trailing comma and trailing non-whitespace
  are errors.  All errors are one outcome (`none`): the caller only distinguishes Ok / Err.

  Bytes are `Nat`s below 256; a key string is its list of UTF-8 bytes.
-/
namespace RedisVerif
namespace ManifestJson

/-- `SegmentInfo` -/
structure JSeg where
  id : Nat
  key : List Nat
  count : Nat       -- `record_count: u32`
  size : Nat
  minTs : Nat
  maxTs : Nat
  deriving DecidableEq, Repr, Inhabited

/-- `CheckpointInfo` -/
structure JChk where
  key : List Nat
  ts : Nat          -- `timestamp_ms`
  keyCount : Nat
  last : Nat        -- `last_segment_id`
  deriving DecidableEq, Repr, Inhabited

/-- `Manifest` -/
structure JMan where
  version : Nat
  rid : Nat
  segments : List JSeg
  checkpoint : Option JChk
  next : Nat
  deriving DecidableEq, Repr, Inhabited

def u64Max : Nat := 2 ^ 64 - 1
def u32Max : Nat := 2 ^ 32 - 1

/-! ## the serialiser (`to_vec_pretty`) -/

/-- decimal digits of a number, most significant first (`itoa`) -/
def digitsRev : Nat → Nat → List Nat
  | 0, _ => []
  | fuel + 1, n => if n < 10 then [48 + n] else (48 + n % 10) :: digitsRev fuel (n / 10)

def encNat (n : Nat) : List Nat := (digitsRev (n + 1) n).reverse

def hexDigit (n : Nat) : Nat := if n < 10 then 48 + n else 87 + n   -- lowercase

/-- `format_escaped_str_contents`: `"` `\` and the control bytes are escaped, everything else
    (DEL and non-ASCII included) is written as it is -/
def escByte (b : Nat) : List Nat :=
  if b = 34 then [92, 34]
  else if b = 92 then [92, 92]
  else if b = 8 then [92, 98]
  else if b = 12 then [92, 102]
  else if b = 10 then [92, 110]
  else if b = 13 then [92, 114]
  else if b = 9 then [92, 116]
  else if b < 32 then [92, 117, 48, 48, hexDigit (b / 16), hexDigit (b % 16)]
  else [b]

def encStr (s : List Nat) : List Nat := [34] ++ s.flatMap escByte ++ [34]

def indent (n : Nat) : List Nat := List.replicate (2 * n) 32

/-- one `"name": value` member at nesting level `lvl`; `first` = no comma before it -/
def member (lvl : Nat) (first : Bool) (name : List Nat) (value : List Nat) : List Nat :=
  (if first then [10] else [44, 10]) ++ indent lvl ++ encStr name ++ [58, 32] ++ value

def closeObj (lvl : Nat) : List Nat := [10] ++ indent lvl ++ [125]

def encSeg (lvl : Nat) (s : JSeg) : List Nat :=
  [123] ++ member (lvl + 1) true /- id -/ [105, 100] (encNat s.id) ++ member (lvl + 1) false /- key -/ [107, 101, 121] (encStr s.key) ++
  member (lvl + 1) false /- record_count -/ [114, 101, 99, 111, 114, 100, 95, 99, 111, 117, 110, 116] (encNat s.count) ++ member (lvl + 1) false /- size_bytes -/ [115, 105, 122, 101, 95, 98, 121, 116, 101, 115] (encNat s.size) ++
  member (lvl + 1) false /- min_timestamp -/ [109, 105, 110, 95, 116, 105, 109, 101, 115, 116, 97, 109, 112] (encNat s.minTs) ++ member (lvl + 1) false /- max_timestamp -/ [109, 97, 120, 95, 116, 105, 109, 101, 115, 116, 97, 109, 112] (encNat s.maxTs) ++
  closeObj lvl

def encChk (lvl : Nat) (c : JChk) : List Nat :=
  [123] ++ member (lvl + 1) true /- key -/ [107, 101, 121] (encStr c.key) ++ member (lvl + 1) false /- timestamp_ms -/ [116, 105, 109, 101, 115, 116, 97, 109, 112, 95, 109, 115] (encNat c.ts) ++
  member (lvl + 1) false /- key_count -/ [107, 101, 121, 95, 99, 111, 117, 110, 116] (encNat c.keyCount) ++ member (lvl + 1) false /- last_segment_id -/ [108, 97, 115, 116, 95, 115, 101, 103, 109, 101, 110, 116, 95, 105, 100] (encNat c.last) ++
  closeObj lvl

/-- the elements of a non-empty array at nesting level `lvl` (each on its own line) -/
def encSegElems (lvl : Nat) : Bool → List JSeg → List Nat
  | _, [] => []
  | first, s :: rest =>
    (if first then [10] else [44, 10]) ++ indent lvl ++ encSeg lvl s ++ encSegElems lvl false rest

def encSegs (lvl : Nat) (l : List JSeg) : List Nat :=
  match l with
  | [] => [91, 93]
  | _ => [91] ++ encSegElems (lvl + 1) true l ++ [10] ++ indent lvl ++ [93]

/-- `Option<CheckpointInfo>`: `null` or the object -/
def encChkOpt (lvl : Nat) : Option JChk → List Nat
  | none => /- null -/ [110, 117, 108, 108]
  | some c => encChk lvl c

def encode (m : JMan) : List Nat :=
  [123] ++ member 1 true /- version -/ [118, 101, 114, 115, 105, 111, 110] (encNat m.version) ++ member 1 false /- replica_id -/ [114, 101, 112, 108, 105, 99, 97, 95, 105, 100] (encNat m.rid) ++
  member 1 false /- segments -/ [115, 101, 103, 109, 101, 110, 116, 115] (encSegs 1 m.segments) ++
  member 1 false /- checkpoint -/ [99, 104, 101, 99, 107, 112, 111, 105, 110, 116] (encChkOpt 1 m.checkpoint) ++
  member 1 false /- next_segment_id -/ [110, 101, 120, 116, 95, 115, 101, 103, 109, 101, 110, 116, 95, 105, 100] (encNat m.next) ++ closeObj 0

/-! ## the deserialiser (`from_slice`) -/

def isWs (b : Nat) : Bool := b == 32 || b == 10 || b == 9 || b == 13

def skipWs : List Nat → List Nat
  | [] => []
  | b :: r => if isWs b then skipWs r else b :: r

def isDigit (b : Nat) : Bool := 48 ≤ b && b ≤ 57

/-- all leading digits, accumulated -/
def takeDigits : Nat → List Nat → Nat × List Nat
  | acc, [] => (acc, [])
  | acc, b :: r => if isDigit b then takeDigits (acc * 10 + (b - 48)) r else (acc, b :: r)

def floatMark (s : List Nat) : Bool :=
  match s with
  | b :: _ => b == 46 || b == 101 || b == 69
  | [] => false

/-- `deserialize_u64` / `u32` (whitespace already skipped): an unsigned decimal integer, no
    leading zero, at most `max`, not continued as a float -/
def parseUInt (max : Nat) (s : List Nat) : Option (Nat × List Nat) :=
  match s with
  | [] => none
  | b :: r =>
    if b == 48 then
      (match r with
       | c :: _ => if isDigit c || floatMark r then none else some (0, r)
       | [] => some (0, []))
    else if isDigit b then
      let (v, rest) := takeDigits (b - 48) r
      if floatMark rest then none else if v ≤ max then some (v, rest) else none
    else none

def hexVal (b : Nat) : Option Nat :=
  if 48 ≤ b && b ≤ 57 then some (b - 48)
  else if 97 ≤ b && b ≤ 102 then some (b - 87)
  else if 65 ≤ b && b ≤ 70 then some (b - 55)
  else none

/-- `decode_hex_escape`: four hex digits -/
def hex4 (s : List Nat) : Option (Nat × List Nat) :=
  match s with
  | a :: b :: c :: d :: r =>
    match hexVal a, hexVal b, hexVal c, hexVal d with
    | some a, some b, some c, some d => some (((a * 16 + b) * 16 + c) * 16 + d, r)
    | _, _, _, _ => none
  | _ => none

/-- `push_wtf8_codepoint` -/
def utf8Of (n : Nat) : List Nat :=
  if n < 0x80 then [n]
  else if n < 0x800 then [0xC0 + n / 64, 0x80 + n % 64]
  else if n < 0x10000 then [0xE0 + n / 4096, 0x80 + (n / 64) % 64, 0x80 + n % 64]
  else [0xF0 + n / 262144, 0x80 + (n / 4096) % 64, 0x80 + (n / 64) % 64, 0x80 + n % 64]

/-- `parse_escape` with `validate = true` (the byte after the backslash is the head) -/
def parseEscape (s : List Nat) : Option (List Nat × List Nat) :=
  match s with
  | [] => none
  | e :: r =>
    if e == 34 then some ([34], r)
    else if e == 92 then some ([92], r)
    else if e == 47 then some ([47], r)
    else if e == 98 then some ([8], r)
    else if e == 102 then some ([12], r)
    else if e == 110 then some ([10], r)
    else if e == 114 then some ([13], r)
    else if e == 116 then some ([9], r)
    else if e == 117 then
      match hex4 r with
      | none => none
      | some (n, r1) =>
        if 0xDC00 ≤ n && n ≤ 0xDFFF then none
        else if n < 0xD800 || n > 0xDBFF then some (utf8Of n, r1)
        else
          match r1 with
          | 92 :: 117 :: r2 =>
            (match hex4 r2 with
             | none => none
             | some (n2, r3) =>
               if n2 < 0xDC00 || n2 > 0xDFFF then none
               else some (utf8Of ((n - 0xD800) * 1024 + (n2 - 0xDC00) + 0x10000), r3))
          | _ => none
    else none

/-- `parse_str_bytes` with `validate = true`, after the opening quote; `acc` is reversed -/
def parseStrBody : Nat → List Nat → List Nat → Option (List Nat × List Nat)
  | 0, _, _ => none
  | _ + 1, [], _ => none
  | fuel + 1, b :: r, acc =>
    if b == 34 then some (acc.reverse, r)
    else if b == 92 then
      match parseEscape r with
      | none => none
      | some (bytes, r') => parseStrBody fuel r' (bytes.reverse ++ acc)
    else if b < 32 then none
    else parseStrBody fuel r (b :: acc)

/-- `core::str::from_utf8` as a validity check (no overlong forms, no surrogates, ≤ U+10FFFF) -/
def validUtf8 : Nat → List Nat → Bool
  | 0, _ => false
  | _ + 1, [] => true
  | fuel + 1, b :: r =>
    let cont (x : Nat) : Bool := 0x80 ≤ x && x ≤ 0xBF
    if b < 0x80 then validUtf8 fuel r
    else if 0xC2 ≤ b && b ≤ 0xDF then
      (match r with
       | c :: r' => cont c && validUtf8 fuel r'
       | _ => false)
    else if 0xE0 ≤ b && b ≤ 0xEF then
      (match r with
       | c :: d :: r' =>
         (if b == 0xE0 then (0xA0 ≤ c && c ≤ 0xBF) else if b == 0xED then (0x80 ≤ c && c ≤ 0x9F) else cont c) &&
         cont d && validUtf8 fuel r'
       | _ => false)
    else if 0xF0 ≤ b && b ≤ 0xF4 then
      (match r with
       | c :: d :: e :: r' =>
         (if b == 0xF0 then (0x90 ≤ c && c ≤ 0xBF) else if b == 0xF4 then (0x80 ≤ c && c ≤ 0x8F) else cont c) &&
         cont d && cont e && validUtf8 fuel r'
       | _ => false)
    else false

/-- `parse_str` on a slice: unescape, then `from_utf8` (opening quote already consumed) -/
def parseStr (s : List Nat) : Option (List Nat × List Nat) :=
  match parseStrBody (s.length + 1) s [] with
  | none => none
  | some (bytes, r) => if validUtf8 (bytes.length + 1) bytes then some (bytes, r) else none

/-- `deserialize_string` (whitespace already skipped) -/
def parseString (s : List Nat) : Option (List Nat × List Nat) :=
  match s with
  | 34 :: r => parseStr r
  | _ => none

/-! ### skipped values (`IgnoredAny`: `ignore_value`) -/

/-- `ignore_str` after the opening quote: escapes are checked, UTF-8 is not -/
def skipStrBody : Nat → List Nat → Option (List Nat)
  | 0, _ => none
  | _ + 1, [] => none
  | fuel + 1, b :: r =>
    if b == 34 then some r
    else if b == 92 then
      match r with
      | [] => none
      | e :: r' =>
        if e == 34 || e == 92 || e == 47 || e == 98 || e == 102 || e == 110 || e == 114 || e == 116 then skipStrBody fuel r'
        else if e == 117 then
          match hex4 r' with
          | some (_, r'') => skipStrBody fuel r''
          | none => none
        else none
    else if b < 32 then none
    else skipStrBody fuel r

def dropDigits : List Nat → List Nat
  | [] => []
  | b :: r => if isDigit b then dropDigits r else b :: r

/-- `ignore_exponent` after the `e` / `E` -/
def skipExponent (s : List Nat) : Option (List Nat) :=
  let s := match s with
    | b :: r => if b == 43 || b == 45 then r else b :: r
    | [] => []
  match s with
  | b :: r => if isDigit b then some (dropDigits r) else none
  | [] => none

/-- after the integer part: `ignore_decimal` / `ignore_exponent` -/
def skipFraction (s : List Nat) : Option (List Nat) :=
  match s with
  | 46 :: r =>
    (match r with
     | b :: r' =>
       if isDigit b then
         (match dropDigits r' with
          | e :: r'' => if e == 101 || e == 69 then skipExponent r'' else some (e :: r'')
          | [] => some [])
       else none
     | [] => none)
  | e :: r => if e == 101 || e == 69 then skipExponent r else some (e :: r)
  | [] => some []

/-- `ignore_integer` (a `-` already consumed by the caller) -/
def skipNumber (s : List Nat) : Option (List Nat) :=
  match s with
  | [] => none
  | b :: r =>
    if b == 48 then
      (match r with
       | c :: _ => if isDigit c then none else skipFraction r
       | [] => some [])
    else if isDigit b then skipFraction (dropDigits r)
    else none

def expectBytes : List Nat → List Nat → Option (List Nat)
  | [], s => some s
  | e :: es, b :: s => if e == b then expectBytes es s else none
  | _ :: _, [] => none

mutual
/-- one JSON value (leading whitespace included), syntax only -/
def skipValue : Nat → List Nat → Option (List Nat)
  | 0, _ => none
  | fuel + 1, s =>
    match skipWs s with
    | [] => none
    | b :: r =>
      if b == 110 then expectBytes [117, 108, 108] r
      else if b == 116 then expectBytes [114, 117, 101] r
      else if b == 102 then expectBytes [97, 108, 115, 101] r
      else if b == 45 then skipNumber r
      else if isDigit b then skipNumber (b :: r)
      else if b == 34 then skipStrBody (r.length + 1) r
      else if b == 91 then
        (match skipWs r with
         | 93 :: r' => some r'
         | _ => skipElems fuel r)
      else if b == 123 then
        (match skipWs r with
         | 125 :: r' => some r'
         | _ => skipMembers fuel r)
      else none
/-- `value (, value)* ]` -/
def skipElems : Nat → List Nat → Option (List Nat)
  | 0, _ => none
  | fuel + 1, s =>
    match skipValue fuel s with
    | none => none
    | some r =>
      match skipWs r with
      | 44 :: r' => skipElems fuel r'
      | 93 :: r' => some r'
      | _ => none
/-- `/- key -/ [107, 101, 121] : value (, /- key -/ [107, 101, 121] : value)* }` -/
def skipMembers : Nat → List Nat → Option (List Nat)
  | 0, _ => none
  | fuel + 1, s =>
    match skipWs s with
    | 34 :: r =>
      (match skipStrBody (r.length + 1) r with
       | none => none
       | some r1 =>
         match skipWs r1 with
         | 58 :: r2 =>
           (match skipValue fuel r2 with
            | none => none
            | some r3 =>
              match skipWs r3 with
              | 44 :: r4 => skipMembers fuel r4
              | 125 :: r4 => some r4
              | _ => none)
         | _ => none)
    | _ => none
end

/-! ### structs -/

/-- a field value of one of the three structs while it is being read -/
inductive FVal where
  | num (n : Nat)
  | text (s : List Nat)
  | segs (l : List JSeg)
  | chk (c : Option JChk)
  deriving Repr, Inhabited

/-- what kind of value a field holds -/
inductive FKind where
  | u64 | u32 | text | segs | optChk
  deriving DecidableEq, Repr

/-- field tables (declaration order) -/
def segFields : List (List Nat × FKind) :=
  [(/- id -/ [105, 100], .u64), (/- key -/ [107, 101, 121], .text), (/- record_count -/ [114, 101, 99, 111, 114, 100, 95, 99, 111, 117, 110, 116], .u32), (/- size_bytes -/ [115, 105, 122, 101, 95, 98, 121, 116, 101, 115], .u64), (/- min_timestamp -/ [109, 105, 110, 95, 116, 105, 109, 101, 115, 116, 97, 109, 112], .u64), (/- max_timestamp -/ [109, 97, 120, 95, 116, 105, 109, 101, 115, 116, 97, 109, 112], .u64)]
def chkFields : List (List Nat × FKind) :=
  [(/- key -/ [107, 101, 121], .text), (/- timestamp_ms -/ [116, 105, 109, 101, 115, 116, 97, 109, 112, 95, 109, 115], .u64), (/- key_count -/ [107, 101, 121, 95, 99, 111, 117, 110, 116], .u64), (/- last_segment_id -/ [108, 97, 115, 116, 95, 115, 101, 103, 109, 101, 110, 116, 95, 105, 100], .u64)]
def manFields : List (List Nat × FKind) :=
  [(/- version -/ [118, 101, 114, 115, 105, 111, 110], .u64), (/- replica_id -/ [114, 101, 112, 108, 105, 99, 97, 95, 105, 100], .u64), (/- segments -/ [115, 101, 103, 109, 101, 110, 116, 115], .segs), (/- checkpoint -/ [99, 104, 101, 99, 107, 112, 111, 105, 110, 116], .optChk), (/- next_segment_id -/ [110, 101, 120, 116, 95, 115, 101, 103, 109, 101, 110, 116, 95, 105, 100], .u64)]

def getNum (vals : List (Nat × FVal)) (i : Nat) : Option Nat :=
  match vals.lookup i with
  | some (.num n) => some n
  | _ => none

def getText (vals : List (Nat × FVal)) (i : Nat) : Option (List Nat) :=
  match vals.lookup i with
  | some (.text s) => some s
  | _ => none

/-- assemble a `SegmentInfo` from the values read, by field index; every field is required -/
def buildSeg (vals : List (Nat × FVal)) : Option JSeg := do
  let id ← getNum vals 0
  let key ← getText vals 1
  let count ← getNum vals 2
  let size ← getNum vals 3
  let minTs ← getNum vals 4
  let maxTs ← getNum vals 5
  pure { id := id, key := key, count := count, size := size, minTs := minTs, maxTs := maxTs }

def buildChk (vals : List (Nat × FVal)) : Option JChk := do
  let key ← getText vals 0
  let ts ← getNum vals 1
  let kc ← getNum vals 2
  let last ← getNum vals 3
  pure { key := key, ts := ts, keyCount := kc, last := last }

/-- assemble a `Manifest`; a missing `checkpoint` (an `Option`) is `None` -/
def buildMan (vals : List (Nat × FVal)) : Option JMan := do
  let version ← getNum vals 0
  let rid ← getNum vals 1
  let segments ← (match vals.lookup 2 with | some (.segs l) => some l | _ => none)
  let checkpoint ← (match vals.lookup 3 with | some (.chk c) => some c | none => some none | _ => none)
  let next ← getNum vals 4
  pure { version := version, rid := rid, segments := segments, checkpoint := checkpoint, next := next }

/-- index of a field name in a table -/
def fieldIndex (fields : List (List Nat × FKind)) (name : List Nat) : Option (Nat × FKind) :=
  let rec go (i : Nat) : List (List Nat × FKind) → Option (Nat × FKind)
    | [] => none
    | (n, k) :: rest => if n == name then some (i, k) else go (i + 1) rest
  go 0 fields

/-- which struct is being read (decides the field table and the builder) -/
inductive SKind where
  | seg | chk | man
  deriving DecidableEq, Repr

def fieldsOf : SKind → List (List Nat × FKind)
  | .seg => segFields
  | .chk => chkFields
  | .man => manFields

mutual
/-- one field value of kind `k` (leading whitespace included) -/
def parseField : Nat → FKind → List Nat → Option (FVal × List Nat)
  | 0, _, _ => none
  | fuel + 1, k, s =>
    let s := skipWs s
    match k with
    | .u64 => (parseUInt u64Max s).map (fun p => (.num p.1, p.2))
    | .u32 => (parseUInt u32Max s).map (fun p => (.num p.1, p.2))
    | .text => (parseString s).map (fun p => (.text p.1, p.2))
    | .segs =>
      (match s with
       | 91 :: r => (parseSegElems fuel true r []).map (fun p => (.segs p.1, p.2))
       | _ => none)
    | .optChk =>
      (match s with
       | 110 :: r => (expectBytes [117, 108, 108] r).map (fun r' => (.chk none, r'))
       | _ =>
         match parseStruct fuel .chk s with
         | some (vals, r) => (buildChk vals).map (fun c => (.chk (some c), r))
         | none => none)
/-- `SeqAccess::next_element` for `Vec<SegmentInfo>`, after the `[`; ends with the `]` consumed -/
def parseSegElems : Nat → Bool → List Nat → List JSeg → Option (List JSeg × List Nat)
  | 0, _, _, _ => none
  | fuel + 1, first, s, acc =>
    match skipWs s with
    | [] => none
    | b :: r =>
      if b == 93 then some (acc.reverse, r)
      else
        -- a comma is required between elements and must not be followed by `]`
        let elemStart : Option (List Nat) :=
          if first then some (b :: r)
          else if b == 44 then
            (match skipWs r with
             | 93 :: _ => none
             | [] => none
             | r' => some r')
          else none
        match elemStart with
        | none => none
        | some s' =>
          match parseStruct fuel .seg s' with
          | none => none
          | some (vals, r') =>
            match buildSeg vals with
            | none => none
            | some seg => parseSegElems fuel false r' (seg :: acc)
/-- `deserialize_struct`: `{` → `visit_map`, `[` → `visit_seq`; returns the values by field index
    (whitespace already skipped by the caller for `.optChk`; skipped here too) -/
def parseStruct : Nat → SKind → List Nat → Option (List (Nat × FVal) × List Nat)
  | 0, _, _ => none
  | fuel + 1, sk, s =>
    match skipWs s with
    | 123 :: r => parseMembers fuel sk true r []
    | 91 :: r => parseSeqFields fuel (fieldsOf sk) 0 true r []
    | _ => none
/-- `visit_map` loop, after the `{`; ends with the `}` consumed -/
def parseMembers : Nat → SKind → Bool → List Nat → List (Nat × FVal) → Option (List (Nat × FVal) × List Nat)
  | 0, _, _, _, _ => none
  | fuel + 1, sk, first, s, vals =>
    match skipWs s with
    | [] => none
    | b :: r =>
      if b == 125 then some (vals, r)
      else
        let keyStart : Option (List Nat) :=
          if first then some (b :: r)
          else if b == 44 then some (skipWs r)
          else none
        match keyStart with
        | some (34 :: r1) =>
          (match parseStr r1 with
           | none => none
           | some (name, r2) =>
             match skipWs r2 with
             | 58 :: r3 =>
               (match fieldIndex (fieldsOf sk) name with
                | none =>
                  (match skipValue (r3.length + 1) r3 with
                   | some r4 => parseMembers fuel sk false r4 vals
                   | none => none)
                | some (i, k) =>
                  if (vals.lookup i).isSome then none      -- duplicate field
                  else
                    match parseField fuel k r3 with
                    | some (v, r4) => parseMembers fuel sk false r4 ((i, v) :: vals)
                    | none => none)
             | _ => none)
        | _ => none
/-- `visit_seq`: the fields in declaration order, after the `[`; every field must be present and
    nothing may follow; ends with the `]` consumed -/
def parseSeqFields : Nat → List (List Nat × FKind) → Nat → Bool → List Nat → List (Nat × FVal) →
    Option (List (Nat × FVal) × List Nat)
  | 0, _, _, _, _, _ => none
  | fuel + 1, fields, i, first, s, vals =>
    match fields with
    | [] =>
      -- `end_seq`
      (match skipWs s with
       | 93 :: r => some (vals, r)
       | _ => none)
    | (_, k) :: rest =>
      match skipWs s with
      | [] => none
      | b :: r =>
        if b == 93 then none          -- invalid length
        else
          let elemStart : Option (List Nat) :=
            if first then some (b :: r)
            else if b == 44 then
              (match skipWs r with
               | 93 :: _ => none
               | [] => none
               | r' => some r')
            else none
          match elemStart with
          | none => none
          | some s' =>
            match parseField fuel k s' with
            | none => none
            | some (v, r') => parseSeqFields fuel rest (i + 1) false r' ((i, v) :: vals)
end

/-- `serde_json::from_slice::<Manifest>` -/
def decode (bs : List Nat) : Option JMan :=
  match parseStruct (2 * bs.length + 8) .man bs with
  | none => none
  | some (vals, rest) =>
    match buildMan vals with
    | none => none
    | some m => if skipWs rest == [] then some m else none

end ManifestJson
end RedisVerif
