import RedisVerif.Model.NMap

/-
  M1 — model of the replicated value lattice.

  Anchors: /repo/src/replication/lattice.rs (LamportClock, LwwRegister, VectorClock,
  GCounter, PNCounter, GSet, ORSet), /repo/src/replication/state/crdt_value.rs
  (CrdtValue::try_merge, merge_with_timestamps),
  /repo/src/replication/state/replicated_value.rs (ReplicatedValue::merge).

  Keys of every HashMap/HashSet are Nat codes (injective encoding done by the
  driver); maps/sets are canonical sorted lists (`NMap`, `NSet`).
  Payload bytes are `List Nat` (never inspected by merge).
-/
namespace RedisVerif

abbrev Bytes := List Nat

/-- `LamportClock { time, replica_id }`; doubles as the "stamp" of a value -/
structure Stamp where
  time : Nat
  rid : Nat
  deriving DecidableEq, Repr, Inhabited

namespace Stamp

/-- `impl Ord for LamportClock`: time first, replica id breaks ties; `a.lt b` is `a < b` -/
def lt (a b : Stamp) : Bool := a.time < b.time || (a.time == b.time && a.rid < b.rid)

/-- `std::cmp::max(a, b)` under that order -/
def max (a b : Stamp) : Stamp := if a.lt b then b else a

/-- `LamportClock::merge` (keeps `self.replica_id` with the larger time).  Since the
    `fix:` commit recorded in known_findings.json it is no longer used by
    `ReplicatedValue::merge`; kept because it is still public API and because the
    counterexample theorem of C07 is stated about it. -/
def mergeClock (a b : Stamp) : Stamp := { time := Max.max a.time b.time, rid := a.rid }

/-- `LamportClock::tick` -/
def tick (c : Stamp) : Stamp := { c with time := c.time + 1 }

/-- `LamportClock::update` -/
def update (c other : Stamp) : Stamp := { c with time := Max.max c.time other.time + 1 }

end Stamp

/-- `LwwRegister<SDS>` -/
structure Lww where
  value : Option Bytes
  ts : Stamp
  tomb : Bool
  deriving DecidableEq, Repr, Inhabited

namespace Lww

/-- `LwwRegister::new` -/
def new (rid : Nat) : Lww := { value := none, ts := ⟨0, rid⟩, tomb := false }

/-- `LwwRegister::merge`: `if other.timestamp > self.timestamp { other } else { self }` -/
def merge (a b : Lww) : Lww := if a.ts.lt b.ts then b else a

/-- `LwwRegister::get` -/
def get (a : Lww) : Option Bytes := if a.tomb then none else a.value

/-- `LwwRegister::set` with an already ticked clock value -/
def set (v : Bytes) (ts : Stamp) : Lww := { value := some v, ts := ts, tomb := false }

/-- `LwwRegister::delete` with an already ticked clock value -/
def delete (ts : Stamp) : Lww := { value := none, ts := ts, tomb := true }

end Lww

/-- `CrdtValue` -/
inductive Crdt where
  | lww (r : Lww)
  | gcounter (c : NMap Nat)
  | pncounter (p n : NMap Nat)
  | gset (s : NSet)
  | orset (elems : NMap NSet) (next : NMap Nat)
  | hash (h : NMap Lww)
  deriving DecidableEq, Repr, Inhabited

namespace Crdt

/-- `type_name` as a small enum -/
def kind : Crdt → Nat
  | lww _ => 0 | gcounter _ => 1 | pncounter _ _ => 2 | gset _ => 3 | orset _ _ => 4 | hash _ => 5

/-- `ORSet::merge`: next_sequence by max, tag sets by union, empty unions are not inserted -/
def orsetMergeElems (a b : NMap NSet) : NMap NSet :=
  (NMap.merge NSet.union a b).filter (fun p => !p.2.isEmpty)

/-- `CrdtValue::try_merge` (`none` = `Err(CrdtTypeMismatchError)`) -/
def tryMerge : Crdt → Crdt → Option Crdt
  | lww a, lww b => some (lww (a.merge b))
  | gcounter a, gcounter b => some (gcounter (NMap.merge Max.max a b))
  | pncounter p n, pncounter p' n' =>
      some (pncounter (NMap.merge Max.max p p') (NMap.merge Max.max n n'))
  | gset a, gset b => some (gset (NSet.union a b))
  | orset e s, orset e' s' => some (orset (orsetMergeElems e e') (NMap.merge Max.max s s'))
  | hash a, hash b => some (hash (NMap.merge Lww.merge a b))
  | _, _ => none

/-- `CrdtValue::merge_with_timestamps` -/
def mergeWithTimestamps (a b : Crdt) (sa sb : Stamp) : Crdt :=
  match tryMerge a b with
  | some m => m
  | none => if sa.lt sb then b else a

/-- canonical-form predicate (what `verify_invariants` + HashMap uniqueness give) -/
def WF : Crdt → Prop
  | lww _ => True
  | gcounter c => NMap.WF c
  | pncounter p n => NMap.WF p ∧ NMap.WF n
  | gset s => NSet.WF s
  | orset e s => NMap.WF e ∧ NMap.WF s ∧ (∀ p ∈ e, NSet.WF p.2 ∧ p.2 ≠ [])
  | hash h => NMap.WF h

instance : DecidablePred WF := fun c => by cases c <;> simp only [WF] <;> infer_instance

end Crdt

/-- `ReplicatedValue` -/
structure RV where
  crdt : Crdt
  vc : Option (NMap Nat)
  expiry : Option Nat
  ts : Stamp
  rf : Option Nat
  deriving DecidableEq, Repr, Inhabited

namespace RV

/-- which stamp combiner `ReplicatedValue::merge` uses for the outer stamp -/
inductive StampMerge where
  | clockMerge   -- `self.timestamp.merge(&other.timestamp)` (pinned commit)
  | ordMax       -- `std::cmp::max(self.timestamp, other.timestamp)` (after the fix)
  deriving DecidableEq, Repr

def stampMerge : StampMerge → Stamp → Stamp → Stamp
  | .clockMerge => Stamp.mergeClock
  | .ordMax => Stamp.max

/-- `ReplicatedValue::merge`, parameterised by the outer-stamp combiner so that the
    theorem about the code that exists (`ordMax`, after the fix) and the counterexample
    about the pinned code (`clockMerge`) are both statements about *this* function. -/
def mergeWith (sm : StampMerge) (a b : RV) : RV :=
  { crdt := Crdt.mergeWithTimestamps a.crdt b.crdt a.ts b.ts
    vc := optMerge (NMap.merge Max.max) a.vc b.vc
    expiry := optMerge Max.max a.expiry b.expiry
    ts := stampMerge sm a.ts b.ts
    rf := optMerge Max.max a.rf b.rf }

/-- the merge of the current tree -/
def merge (a b : RV) : RV := mergeWith .ordMax a b

def vcWF : Option (NMap Nat) → Prop
  | some m => NMap.WF m
  | none => True

instance : DecidablePred vcWF := fun x => by cases x <;> simp only [vcWF] <;> infer_instance

def WF (a : RV) : Prop := a.crdt.WF ∧ vcWF a.vc

instance : DecidablePred WF := fun a => by unfold WF; infer_instance

/-- `ReplicatedValue::get` -/
def get (a : RV) : Option Bytes :=
  match a.crdt with
  | .lww r => r.get
  | _ => none

/-- `ReplicatedValue::is_tombstone` -/
def isTombstone (a : RV) : Bool :=
  match a.crdt with
  | .lww r => r.tomb
  | _ => false

/-- `ReplicatedValue::with_value` -/
def withValue (v : Bytes) (ts : Stamp) : RV :=
  { crdt := .lww (Lww.set v ts), vc := none, expiry := none, ts := ts, rf := none }

end RV

end RedisVerif
