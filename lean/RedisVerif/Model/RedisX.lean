import RedisVerif.Model.Redis

/-
  `Model.RedisX` — extension of the reference model M7 by the data commands of `Command` that
  `Model.Redis.Cmd` does not have: SETBIT / GETBIT (bitmaps on strings), the internal shard-batch
  forms BatchSet / BatchGet (= MSET / MGET, but not classified read-only), KEYS with a glob pattern.
  They live in their own type `XCmd` so that `Cmd` (matched exhaustively by other models and
  lemma files) is unchanged; `stepX` runs them on the same `State` with the same lazy-expiry
  convention as `Redis.step`.  Written from Redis' documented semantics (bitops.c, t_string.c,
  util.c `stringmatchlen`), not from /repo.
-/
namespace RedisVerif.RedisX
open RedisVerif.Redis

/-- 512 MB * 8: offsets at or beyond are "bit offset is not an integer or out of range" -/
def maxBitOffset : Nat := 4294967296

/-- bit `i` of a byte, `i = 0` the most significant one -/
def bitOf (byte i : Nat) : Nat := (byte / 2 ^ (7 - i)) % 2

def withBit (byte i bit : Nat) : Nat :=
  if bitOf byte i = bit then byte
  else if bit = 1 then byte + 2 ^ (7 - i) else byte - 2 ^ (7 - i)

/-- GETBIT: 0 for a missing key and beyond the end of the string -/
def execGetBit (s : State) (k off : Nat) : State × Reply :=
  if off ≥ maxBitOffset then (s, .err .notInt)
  else
    match lookupStr s k with
    | .missing => (s, .int 0)
    | .wrong => (s, .err .wrongType)
    | .found b _ =>
      match b[off / 8]? with
      | none => (s, .int 0)
      | some byte => (s, .int (bitOf byte (off % 8)))

/-- the string grown with zero bytes so that byte `off / 8` exists -/
def growFor (b : BS) (off : Nat) : BS := b ++ List.replicate (off / 8 + 1 - b.length) 0

/-- SETBIT: the key is created (also when a 0 is written), an existing key keeps its deadline;
    reply = the old bit -/
def execSetBit (s : State) (k off bit : Nat) : State × Reply :=
  if off ≥ maxBitOffset then (s, .err .notInt)
  else
    match lookupStr s k with
    | .wrong => (s, .err .wrongType)
    | .missing =>
      (NMap.insert k ⟨.str ((growFor [] off).set (off / 8) (withBit 0 (off % 8) bit)), none⟩ s, .int 0)
    | .found b dl =>
      (NMap.insert k ⟨.str ((growFor b off).set (off / 8)
          (withBit ((growFor b off).getD (off / 8) 0) (off % 8) bit)), dl⟩ s,
       .int (bitOf ((growFor b off).getD (off / 8) 0) (off % 8)))

/-! ## glob patterns (`stringmatchlen` of util.c, case sensitive) on bytes

`*` any sequence, `?` one byte, `[...]` a class with ranges `a-z` (ends in either order), negation
`^`, `\x` inside and outside a class = the byte `x` literally; a class that is not closed runs to
the end of the pattern; a trailing lone `\` is a literal backslash. -/

/-- one pass over a class body, as the `while(1)` of `stringmatchlen`: (does the class contain `c`,
    the pattern after the closing `]`).  Each arm binds its recursive call ONCE (`let r := …`): the
    compiled driver would otherwise evaluate it twice per byte — exponential in a long class body. -/
def classScan (c : Nat) : BS → Bool × BS
  | [] => (false, [])
  | 92 :: x :: rest => let r := classScan c rest; ((c == x) || r.1, r.2)
  | 93 :: rest => (false, rest)
  | [x] => (c == x, [])
  | [x, y] => let r := classScan c [y]; ((c == x) || r.1, r.2)
  | lo :: 45 :: hi :: rest =>
    let r := classScan c rest
    ((decide (min lo hi ≤ c) && decide (c ≤ max lo hi)) || r.1, r.2)
  | x :: y :: z :: rest => let r := classScan c (y :: z :: rest); ((c == x) || r.1, r.2)

/-- the matcher with explicit fuel (every call consumes a pattern byte or a string byte) -/
def globFuel : Nat → BS → BS → Bool
  | 0, _, _ => false
  | _ + 1, [], s => s.isEmpty
  | n + 1, 42 :: p, s =>
    globFuel n p s || (match s with | [] => false | _ :: s' => globFuel n (42 :: p) s')
  | n + 1, 63 :: p, s =>
    match s with
    | [] => false
    | _ :: s' => globFuel n p s'
  | n + 1, 91 :: p, s =>
    match s with
    | [] => false
    | c :: s' =>
      match p with
      | 94 :: p' => let r := classScan c p'; !r.1 && globFuel n r.2 s'
      | _ => let r := classScan c p; r.1 && globFuel n r.2 s'
  | n + 1, 92 :: x :: p, s =>
    match s with
    | [] => false
    | c :: s' => c == x && globFuel n p s'
  | n + 1, x :: p, s =>
    match s with
    | [] => false
    | c :: s' => c == x && globFuel n p s'

/-- `stringmatchlen(pattern, string, nocase = 0)` -/
def globMatch (p s : BS) : Bool := globFuel (2 * (p.length + s.length) + 2) p s

/-! ## the commands -/

inductive XCmd
  | setbit (k off bit : Nat)
  | getbit (k off : Nat)
  /-- `Command::BatchSet` (internal shard batch of MSET) -/
  | batchset (kvs : List (Nat × BS))
  /-- `Command::BatchGet` (internal shard batch of MGET) -/
  | batchget (ks : List Nat)
  /-- KEYS pattern; keys are codes, `codeBytes` gives their bytes -/
  | keys (pattern : BS)
  deriving Repr

def execKeysPat (s : State) (pat : BS) : State × Reply :=
  (s, .arr ((s.filter (fun p => globMatch pat (codeBytes p.1))).map (fun p => Elem.key p.1)))

def execX (s : State) : XCmd → State × Reply
  | .setbit k off bit => execSetBit s k off bit
  | .getbit k off => execGetBit s k off
  | .batchset kvs => execMSet s kvs
  | .batchget ks => execMGet s ks
  | .keys pat => execKeysPat s pat

def stepX (s : State) (now : Nat) (c : XCmd) : State × Reply := execX (purge s now) c

/-- `Command::is_read_only` on these variants (BatchGet is NOT in the list) -/
def isReadOnlyX : XCmd → Bool
  | .getbit _ _ | .keys _ => true
  | _ => false

end RedisVerif.RedisX
