import RedisVerif.Model.NMap
import RedisVerif.Model.Crdt

/-
  M6 (transaction part): MULTI / EXEC / DISCARD / WATCH / UNWATCH.

  1. `Txn.step` — the CONNECTION-level state machine of
     `production/connection_optimized.rs` (`try_execute_command`, lines 343-456 and 545-553):
     `in_transaction`, `transaction_queue`, `transaction_errors`, `watched_keys` as
     `(key, reply-of-GET)` snapshots compared with `resp_values_equal` (= structural equality of
     `RespValue`, every constructor pair is covered), over an ABSTRACT executor
     `Backend` (`ShardedActorState::execute`).  EXEC re-reads every watched key with GET (one
     awaited call per key, stops at the first mismatch) and then replays the queue through
     `state.execute(cmd).await` ONE COMMAND AT A TIME.  Every such await is a point where the
     shard actors may serve other connections; the model makes that explicit: `sched` is what the
     other clients do from the moment EXEC starts, chunked by EXEC's accesses to the store
     (`sched[0]` before the first access, `sched[1]` between the first and the second, …; what is
     left over when EXEC is done happens right after it).
  2. `Txn.xstep` — the EXECUTOR-level machine of `redis/executor/transaction_ops.rs` + the
     queueing prologue of `CommandExecutor::execute` (`redis/executor/mod.rs:391-406`), used by the
     simulation path.  One `&mut self`, no awaits: no interleaving inside EXEC; WATCH snapshots the
     full `Value` (`self.data.get(key).cloned()`) in a map (re-WATCH overwrites).
  3. `KV` — a small concrete store (strings, lists, hashes, sets, sorted sets with their scores;
     about twenty commands; a passing deadline is the explicit step `evict`) that instantiates
     both, used by the driver (correspondence with the real executor is checked by the harness)
     and by the kernel-checked counterexamples.

  As everywhere: this transcribes the code as it is, including what looks wrong.
-/
namespace RedisVerif
namespace Txn

/-! ## the abstract executor under a connection -/

/-- `σ` store, `κ` key, `γ` command, `ρ` reply (`RespValue`).
    * `exec` = `ShardedActorState::execute(&cmd)` for a command that is not handled by the
      connection itself;
    * `getReply s k` = the reply of `execute(&Command::Get(k))` — the WATCH snapshot is literally
      this reply, *including* the WRONGTYPE error when `k` is not a string (GET is read-only:
      C17's statement, exercised here by the store dumps of the harness);
    * `unwatchCmd` = `Command::Unwatch` seen as a queueable command (UNWATCH inside MULTI is
      queued like any other command and replayed through `exec`);
    * `localReply c` = the answer the connection itself gives, outside MULTI, to a command it
      handles without the executor (AUTH, ACL …, the HELLO / RESET / CLIENT … / PubSub stubs). -/
structure Backend (σ κ γ ρ : Type) where
  exec : σ → γ → σ × ρ
  getReply : σ → κ → ρ
  unwatchCmd : γ
  localReply : γ → ρ

/-- errors produced by the connection state machine itself -/
inductive ConnErr where
  | execAbort            -- "EXECABORT Transaction discarded because of previous errors."
  | nestedMulti          -- "ERR MULTI calls can not be nested"
  | watchInMulti         -- "ERR WATCH inside MULTI is not allowed"
  | execWithoutMulti     -- "ERR EXEC without MULTI"
  | discardWithoutMulti  -- "ERR DISCARD without MULTI"
  | unknownInMulti       -- "ERR unknown command '…', with args beginning with: "
  | noperm               -- "NOPERM this user has no permissions to access the channel …"
  | parse                -- `Command::from_resp_zero_copy` failed (arity, bad integer, …)
  | protocol             -- "ERR protocol error": `RespCodec::parse` failed (the read buffer is dropped)
  deriving DecidableEq, Repr

inductive Reply (ρ : Type) where
  | ok
  | queued
  | err (e : ConnErr)
  | nil                        -- `*-1`: EXEC aborted by WATCH
  | results (rs : List ρ)      -- EXEC: one executor reply per queued command
  | plain (r : ρ)              -- a reply of the executor / of the connection-local handler
  deriving DecidableEq, Repr

/-- what `Command::from_resp_zero_copy` hands to the state machine -/
inductive Input (κ γ : Type) where
  | multi | exec | discard | unwatch
  | watch (ks : List κ)
  | cmd (c : γ)          -- a parsed command that the executor runs
  | unknown (c : γ)      -- `Command::Unknown(name)`, not a stub: run by the executor outside MULTI
                         --   (which answers with an error), refused at queue time inside MULTI
  | chanStub (c : γ)     -- PUBLISH / SUBSCRIBE … stubs: NOPERM + abort flag inside MULTI
  | connLocal (c : γ)    -- AUTH, ACL …, HELLO, RESET, CLIENT …: answered by the connection
                         --   outside MULTI, but QUEUED inside MULTI and replayed through `exec`
  | parseErr             -- `Err(e)` of `from_resp_zero_copy`
  | protoErr             -- `Err(e)` of `RespCodec::parse` (`CommandResult::ParseError`): the connection
                         --   answers `-ERR protocol error`, drops what is left of the read buffer and
                         --   goes on; `try_execute_command` never reaches the transaction state, so
                         --   inside MULTI the transaction is NOT flagged (Redis closes the connection)
  deriving DecidableEq, Repr

/-- `in_transaction`, `transaction_queue`, `transaction_errors`, `watched_keys` -/
structure ConnTxn (κ γ ρ : Type) where
  inTxn : Bool
  queue : List γ
  errors : Bool
  watched : List (κ × ρ)
  deriving DecidableEq, Repr

def ConnTxn.idle {κ γ ρ : Type} : ConnTxn κ γ ρ :=
  { inTxn := false, queue := [], errors := false, watched := [] }

variable {σ κ γ ρ : Type}

/-- commands of other clients, applied in order (their replies go elsewhere) -/
def foreign (B : Backend σ κ γ ρ) (s : σ) (cs : List γ) : σ :=
  cs.foldl (fun s c => (B.exec s c).1) s

/-- the reference: run the commands consecutively, collecting one reply each -/
def runSeq (B : Backend σ κ γ ρ) : σ → List γ → σ × List ρ
  | s, [] => (s, [])
  | s, c :: cs =>
    let r := B.exec s c
    let q := runSeq B r.1 cs
    (q.1, r.2 :: q.2)

/-- EXEC, phase 1: `for (key, old) in &watched { current = GET key (await); if
    !resp_values_equal(current, old) { watch_failed = true; break } }`.
    Returns (rest of the schedule, store, watch_failed). -/
def checkWatch [DecidableEq ρ] (B : Backend σ κ γ ρ) :
    List (List γ) → σ → List (κ × ρ) → List (List γ) × σ × Bool
  | sc, s, [] => (sc, s, false)
  | sc, s, (k, old) :: rest =>
    let s1 := foreign B s (sc.headD [])
    if B.getReply s1 k = old then checkWatch B sc.tail s1 rest else (sc.tail, s1, true)

/-- EXEC, phase 2: `for cmd in &queued { results.push(state.execute(cmd).await) }` -/
def runQueue (B : Backend σ κ γ ρ) : List (List γ) → σ → List γ → List (List γ) × σ × List ρ
  | sc, s, [] => (sc, s, [])
  | sc, s, c :: cs =>
    let s1 := foreign B s (sc.headD [])
    let r := B.exec s1 c
    let q := runQueue B sc.tail r.1 cs
    (q.1, q.2.1, r.2 :: q.2.2)

/-- one parsed input of the modelled connection.  `sched` is used by EXEC only (see the header);
    WATCH takes its snapshots one awaited GET per key too, but a foreign write between two of
    those is indistinguishable from one before / after the WATCH of the respective key. -/
def step [DecidableEq ρ] (B : Backend σ κ γ ρ) (sched : List (List γ)) (t : ConnTxn κ γ ρ) (s : σ) :
    Input κ γ → ConnTxn κ γ ρ × σ × Reply ρ
  | inp =>
    if t.inTxn then
      match inp with
      | .exec =>
        if t.errors then
          -- no store access at all on this branch
          (ConnTxn.idle, foreign B s sched.flatten, .err .execAbort)
        else
          let w := checkWatch B sched s t.watched
          if w.2.2 then
            (ConnTxn.idle, foreign B w.2.1 w.1.flatten, .nil)
          else
            let r := runQueue B w.1 w.2.1 t.queue
            (ConnTxn.idle, foreign B r.2.1 r.1.flatten, .results r.2.2)
      | .discard => (ConnTxn.idle, s, .ok)
      | .multi => (t, s, .err .nestedMulti)
      | .watch _ => (t, s, .err .watchInMulti)
      | .chanStub _ => ({ t with errors := true }, s, .err .noperm)
      | .connLocal c => ({ t with queue := t.queue ++ [c] }, s, .queued)
      | .unknown _ => ({ t with errors := true }, s, .err .unknownInMulti)
      | .parseErr => ({ t with errors := true }, s, .err .parse)
      | .protoErr => (t, s, .err .protocol)
      | .unwatch => ({ t with queue := t.queue ++ [B.unwatchCmd] }, s, .queued)
      | .cmd c => ({ t with queue := t.queue ++ [c] }, s, .queued)
    else
      match inp with
      | .multi => ({ t with inTxn := true, queue := [], errors := false }, s, .ok)
      | .exec => (t, s, .err .execWithoutMulti)
      | .discard => (t, s, .err .discardWithoutMulti)
      | .watch ks => ({ t with watched := t.watched ++ ks.map (fun k => (k, B.getReply s k)) }, s, .ok)
      | .unwatch => ({ t with watched := [] }, s, .ok)
      | .connLocal c => (t, s, .plain (B.localReply c))
      | .chanStub c => (t, s, .plain (B.localReply c))
      | .unknown c => (t, (B.exec s c).1, .plain (B.exec s c).2)
      | .cmd c => (t, (B.exec s c).1, .plain (B.exec s c).2)
      | .parseErr => (t, s, .err .parse)
      | .protoErr => (t, s, .err .protocol)

/-- the machine since the `fix:` commit 6b9d6a7 (the CURRENT tree): a protocol error between
    MULTI and EXEC flags the transaction, as an arity error does (`transaction_errors = true` in
    the `CommandResult::ParseError` branch of `run`); everything else is `step` -/
def stepFixed [DecidableEq ρ] (B : Backend σ κ γ ρ) (sched : List (List γ)) (t : ConnTxn κ γ ρ) (s : σ) :
    Input κ γ → ConnTxn κ γ ρ × σ × Reply ρ
  | .protoErr => if t.inTxn then ({ t with errors := true }, s, .err .protocol) else (t, s, .err .protocol)
  | i => step B sched t s i

/-- `protoFlags = false`: the pinned commit; `true`: the current tree (since `fix:` 6b9d6a7) -/
def stepWith [DecidableEq ρ] (protoFlags : Bool) (B : Backend σ κ γ ρ) (sched : List (List γ))
    (t : ConnTxn κ γ ρ) (s : σ) (i : Input κ γ) : ConnTxn κ γ ρ × σ × Reply ρ :=
  if protoFlags then stepFixed B sched t s i else step B sched t s i

/-- a trace of the modelled connection: each input with the schedule of the other clients
    during it -/
def run [DecidableEq ρ] (B : Backend σ κ γ ρ) :
    ConnTxn κ γ ρ → σ → List (Input κ γ × List (List γ)) → ConnTxn κ γ ρ × σ × List (Reply ρ)
  | t, s, [] => (t, s, [])
  | t, s, e :: rest =>
    let r := step B e.2 t s e.1
    let q := run B r.1 r.2.1 rest
    (q.1, q.2.1, r.2.2 :: q.2.2)

/-- the other clients do nothing while EXEC runs -/
def NoInterleaving (sched : List (List γ)) : Prop := sched.all List.isEmpty = true

instance (sched : List (List γ)) : Decidable (NoInterleaving sched) := by
  unfold NoInterleaving; infer_instance

/-- all ways to cut a list in two -/
def splits {α : Type} (l : List α) : List (List α × List α) :=
  (List.range (l.length + 1)).map (fun i => (l.take i, l.drop i))

/-- an ATOMIC EXEC serialised after `pre` and before `post` (commands of the other clients):
    the watched keys are compared and the whole queue is run with nothing in between -/
def serialExec [DecidableEq ρ] (B : Backend σ κ γ ρ) (t : ConnTxn κ γ ρ) (s : σ)
    (pre post : List γ) : σ × Reply ρ :=
  let s1 := foreign B s pre
  if t.watched.any (fun p => decide (B.getReply s1 p.1 ≠ p.2)) then (foreign B s1 post, .nil)
  else
    let m := runSeq B s1 t.queue
    (foreign B m.1 post, .results m.2)

/-! ## the decision table of the connection-level machine, as data

  `tableReply` / `tableNext` give, for every (state class × input class) pair, the class of the
  reply and the flags of the next state.  `Props/C05.lean` proves that `step` IS this table
  (`step_table`); the driver prints it (`TBL` op) and the harness compares it cell by cell with
  the table it extracts from the real handler by driving every cell. -/

inductive ICls where
  | multi | exec | discard | unwatch | watch | cmd | unknown | chanStub | connLocal | parseErr
  | protoErr
  deriving DecidableEq, Repr

inductive RCls where
  | ok | queued
  | err (e : ConnErr)
  | nil
  | results (n : Nat)
  | plain
  deriving DecidableEq, Repr

def icls : Input κ γ → ICls
  | .multi => .multi | .exec => .exec | .discard => .discard | .unwatch => .unwatch
  | .watch _ => .watch | .cmd _ => .cmd | .unknown _ => .unknown | .chanStub _ => .chanStub
  | .connLocal _ => .connLocal | .parseErr => .parseErr | .protoErr => .protoErr

def rcls : Reply ρ → RCls
  | .ok => .ok | .queued => .queued | .err e => .err e | .nil => .nil
  | .results rs => .results rs.length | .plain _ => .plain

/-- `watchFails` = the watch comparison of this EXEC fails (only consulted for EXEC inside
    MULTI without the error flag); `qlen` = length of the queue -/
def tableReply (inTxn errors watchFails : Bool) (qlen : Nat) : ICls → RCls
  | .exec =>
    if inTxn then (if errors then .err .execAbort else if watchFails then .nil else .results qlen)
    else .err .execWithoutMulti
  | .discard => if inTxn then .ok else .err .discardWithoutMulti
  | .multi => if inTxn then .err .nestedMulti else .ok
  | .watch => if inTxn then .err .watchInMulti else .ok
  | .unwatch => if inTxn then .queued else .ok
  | .cmd => if inTxn then .queued else .plain
  | .connLocal => if inTxn then .queued else .plain
  | .unknown => if inTxn then .err .unknownInMulti else .plain
  | .chanStub => if inTxn then .err .noperm else .plain
  | .parseErr => .err .parse
  | .protoErr => .err .protocol

/-- (in_transaction, transaction_errors) after the input -/
def tableNext (inTxn errors : Bool) : ICls → Bool × Bool
  | .exec => if inTxn then (false, false) else (inTxn, errors)
  | .discard => if inTxn then (false, false) else (inTxn, errors)
  | .multi => if inTxn then (inTxn, errors) else (true, false)
  | .unknown => if inTxn then (true, true) else (inTxn, errors)
  | .chanStub => if inTxn then (true, true) else (inTxn, errors)
  | .parseErr => if inTxn then (true, true) else (inTxn, errors)
  | _ => (inTxn, errors)

/-- queue length after the input -/
def tableQueue (inTxn : Bool) (qlen : Nat) : ICls → Nat
  | .exec => if inTxn then 0 else qlen
  | .discard => if inTxn then 0 else qlen
  | .multi => if inTxn then qlen else 0
  | .unwatch => if inTxn then qlen + 1 else qlen
  | .cmd => if inTxn then qlen + 1 else qlen
  | .connLocal => if inTxn then qlen + 1 else qlen
  | _ => qlen

/-- what happens to the watch list: kept, cleared, or extended -/
inductive WAct where
  | keep | clear | extend
  deriving DecidableEq, Repr

def tableWatch (inTxn : Bool) : ICls → WAct
  | .exec => if inTxn then .clear else .keep
  | .discard => if inTxn then .clear else .keep
  | .unwatch => if inTxn then .keep else .clear
  | .watch => if inTxn then .keep else .extend
  | _ => .keep

/-! ## the executor-level machine (`transaction_ops.rs`) -/

/-- the data side of a `CommandExecutor`: `exec` = `execute` of a non-transaction command with
    `in_transaction = false`; `value s k` = `self.data.get(k).cloned()` -/
structure XBackend (σ κ γ ρ ν : Type) where
  exec : σ → γ → σ × ρ
  value : σ → κ → Option ν

inductive XErr where
  | nestedMulti | watchInMulti | execWithoutMulti | discardWithoutMulti
  deriving DecidableEq, Repr

inductive XReply (ρ : Type) where
  | ok | queued
  | err (e : XErr)
  | nil                        -- `$-1` (BulkString(None)): EXEC aborted by WATCH
  | results (rs : List ρ)
  | plain (r : ρ)
  deriving DecidableEq, Repr

inductive XInput (κ γ : Type) where
  | multi | exec | discard | unwatch
  | watch (ks : List κ)
  | cmd (c : γ)               -- every other `Command`, `Unknown` included (it is queued too)
  deriving DecidableEq, Repr

/-- a queued command: UNWATCH is queued like a data command (`_ => queue`) -/
inductive XQ (γ : Type) where
  | cmd (c : γ)
  | unwatch
  deriving DecidableEq, Repr

/-- `in_transaction`, `queued_commands`, `watched_keys : AHashMap<String, Option<Value>>`
    (association list with overwrite; only membership matters) -/
structure ExTxn (κ γ ν : Type) where
  inTxn : Bool
  queue : List (XQ γ)
  watched : List (κ × Option ν)
  deriving DecidableEq, Repr

def ExTxn.idle {κ γ ν : Type} : ExTxn κ γ ν := { inTxn := false, queue := [], watched := [] }

variable {ν : Type}

/-- `HashMap::insert` (the pinned commit's `execute_watch`: a later WATCH overwrites) -/
def upsert [DecidableEq κ] (k : κ) (v : Option ν) : List (κ × Option ν) → List (κ × Option ν)
  | [] => [(k, v)]
  | (k', v') :: m => if k = k' then (k, v) :: m else (k', v') :: upsert k v m

/-- `HashMap::entry(k).or_insert(v)` (since the `fix:` commit: the first snapshot stands) -/
def putIfAbsent [DecidableEq κ] (k : κ) (v : Option ν) : List (κ × Option ν) → List (κ × Option ν)
  | [] => [(k, v)]
  | (k', v') :: m => if k = k' then (k', v') :: m else (k', v') :: putIfAbsent k v m

/-- `keepFirst = false` is the pinned commit, `true` the tree after the `fix:` commit recorded in
    known_findings.json -/
def watchPut [DecidableEq κ] (keepFirst : Bool) (k : κ) (v : Option ν)
    (w : List (κ × Option ν)) : List (κ × Option ν) :=
  if keepFirst then putIfAbsent k v w else upsert k v w

/-- replay of the queue inside `execute_exec` (`in_transaction` is already false; a queued
    UNWATCH finds `watched_keys` already empty and answers OK = `okR`) -/
def xrunQueue (X : XBackend σ κ γ ρ ν) (okR : ρ) : σ → List (XQ γ) → σ × List ρ
  | s, [] => (s, [])
  | s, .unwatch :: cs =>
    let q := xrunQueue X okR s cs
    (q.1, okR :: q.2)
  | s, .cmd c :: cs =>
    let r := X.exec s c
    let q := xrunQueue X okR r.1 cs
    (q.1, r.2 :: q.2)

def xstepWith [DecidableEq κ] [DecidableEq ν] (keepFirst : Bool) (X : XBackend σ κ γ ρ ν) (okR : ρ)
    (t : ExTxn κ γ ν) (s : σ) : XInput κ γ → ExTxn κ γ ν × σ × XReply ρ
  | inp =>
    if t.inTxn then
      match inp with
      | .exec =>
        if t.watched.any (fun p => decide (X.value s p.1 ≠ p.2)) then (ExTxn.idle, s, .nil)
        else
          let r := xrunQueue X okR s t.queue
          (ExTxn.idle, r.1, .results r.2)
      | .discard => (ExTxn.idle, s, .ok)
      | .multi => (t, s, .err .nestedMulti)
      | .watch _ => (t, s, .err .watchInMulti)
      | .unwatch => ({ t with queue := t.queue ++ [.unwatch] }, s, .queued)
      | .cmd c => ({ t with queue := t.queue ++ [.cmd c] }, s, .queued)
    else
      match inp with
      | .multi => ({ t with inTxn := true, queue := [] }, s, .ok)
      | .exec => (t, s, .err .execWithoutMulti)
      | .discard => (t, s, .err .discardWithoutMulti)
      | .watch ks =>
        ({ t with watched := ks.foldl (fun w k => watchPut keepFirst k (X.value s k) w) t.watched }, s, .ok)
      | .unwatch => ({ t with watched := [] }, s, .ok)
      | .cmd c => (t, (X.exec s c).1, .plain (X.exec s c).2)

/-- the current tree -/
def xstep [DecidableEq κ] [DecidableEq ν] (X : XBackend σ κ γ ρ ν) (okR : ρ)
    (t : ExTxn κ γ ν) (s : σ) (i : XInput κ γ) : ExTxn κ γ ν × σ × XReply ρ :=
  xstepWith true X okR t s i

def xrun [DecidableEq κ] [DecidableEq ν] (X : XBackend σ κ γ ρ ν) (okR : ρ) :
    ExTxn κ γ ν → σ → List (XInput κ γ) → ExTxn κ γ ν × σ × List (XReply ρ)
  | t, s, [] => (t, s, [])
  | t, s, e :: rest =>
    let r := xstep X okR t s e
    let q := xrun X okR r.1 r.2.1 rest
    (q.1, q.2.1, r.2.2 :: q.2.2)

/-! ## one executor shared by several clients

  `SimulationHarness::execute(client_id, cmd)` (`simulator/harness.rs`) and
  `RedisServer::handle_event` (`redis/server.rs`) hand the commands of ALL their clients to ONE
  `CommandExecutor`: the transaction state of `transaction_ops.rs` is per executor, the client
  id is not an input of it. -/

def xsharedRun [DecidableEq κ] [DecidableEq ν] (X : XBackend σ κ γ ρ ν) (okR : ρ) :
    ExTxn κ γ ν → σ → List (Nat × XInput κ γ) → ExTxn κ γ ν × σ × List (Nat × XReply ρ)
  | t, s, [] => (t, s, [])
  | t, s, e :: rest =>
    let r := xstep X okR t s e.2
    let q := xsharedRun X okR r.1 r.2.1 rest
    (q.1, q.2.1, (e.1, r.2.2) :: q.2.2)

/-! ## the replicated front end (`ReplicatedShardedState::execute`, `bin/server_persistent.rs`)

  `handle_connection` of the persistent server hands EVERY parsed command to
  `ReplicatedShardedState::execute`; there is no connection-level transaction state.  MULTI, EXEC,
  DISCARD and UNWATCH name no key (`get_primary_key = None`) and fall into `execute_global`'s
  `_ => "ERR unknown command"`; `WATCH k …` names its first key and is executed by that shard's
  executor (`execute_watch`: +OK; the snapshot is never looked at again because no EXEC ever
  reaches a shard); every other command is executed at once. -/

inductive RReply (ρ : Type) where
  | ok
  | errUnknown                 -- "ERR unknown command"
  | plain (r : ρ)
  deriving DecidableEq, Repr

def rstep (exec : σ → γ → σ × ρ) (s : σ) : XInput κ γ → σ × RReply ρ
  | .multi => (s, .errUnknown)
  | .exec => (s, .errUnknown)
  | .discard => (s, .errUnknown)
  | .unwatch => (s, .errUnknown)
  | .watch _ => (s, .ok)
  | .cmd c => ((exec s c).1, .plain (exec s c).2)

def rrun (exec : σ → γ → σ × ρ) : σ → List (XInput κ γ) → σ × List (RReply ρ)
  | s, [] => (s, [])
  | s, i :: rest =>
    let r := rstep exec s i
    let q := rrun exec r.1 rest
    (q.1, r.2 :: q.2)

end Txn

/-! ## a tiny concrete store: strings and lists -/
namespace KV

/-- the five value types of the executor.  Unordered Rust containers are canonical maps keyed by
    the injective code of the field / member bytes, so Lean's `=` is Rust's extensional
    `PartialEq` — for a sorted set that includes the SCORES (`RedisSortedSet::eq` compares the
    member → score maps). -/
inductive Val where
  | str (b : Bytes)
  | list (l : List Bytes)
  | hash (h : NMap Bytes)      -- field code ↦ value
  | set (m : NSet)             -- member codes
  | zset (z : NMap Int)        -- member code ↦ score (integral scores in the runs)
  deriving DecidableEq, Repr

abbrev Store := NMap Val

inductive Simple where
  | ok | pong | reset
  deriving DecidableEq, Repr

inductive KErr where
  | wrongType     -- "WRONGTYPE Operation against a key holding the wrong kind of value"
  | notInt        -- "ERR value is not an integer or out of range"
  | overflow      -- "ERR increment or decrement would overflow"
  | unknownCmd    -- "ERR unknown command '…'"
  | connLevel     -- "ERR … is handled at connection level, not executor"
  | noSuchKey     -- "ERR no such key"
  deriving DecidableEq, Repr

inductive Rep where
  | simple (s : Simple)
  | int (i : Int)
  | bulk (b : Option Bytes)
  | arr (l : List Bytes)
  | marr (l : List (Option Bytes))     -- MGET: one bulk or nil per key
  | err (e : KErr)
  deriving DecidableEq, Repr

/-- connection-level commands used by the harness -/
inductive Local where
  | auth          -- AUTH x        (no password configured: +OK;  executor: connLevel error)
  | aclWhoami     -- ACL WHOAMI    ($default;                      executor: connLevel error)
  | reset         -- RESET         (+RESET;                        executor: unknown command)
  | clientSetname -- CLIENT SETNAME a  (+OK;                       executor: +OK)
  | publish       -- PUBLISH c m   (:0 outside MULTI; refused with NOPERM inside: never queued)
  deriving DecidableEq, Repr

inductive Cmd where
  | get (k : Nat)
  | set (k : Nat) (v : Bytes)
  | incr (k : Nat)
  | append (k : Nat) (v : Bytes)
  | del (k : Nat)
  | rpush (k : Nat) (vs : List Bytes)
  | lrange (k : Nat)                     -- LRANGE k 0 -1
  | llen (k : Nat)
  | lset0 (k : Nat) (v : Bytes)          -- LSET k 0 v     (same-length replacement)
  | lpop (k : Nat)
  | hset (k : Nat) (f : Nat) (v : Bytes)
  | hdel (k : Nat) (f : Nat)
  | sadd (k : Nat) (m : Nat)
  | srem (k : Nat) (m : Nat)
  | zadd (k : Nat) (score : Int) (m : Nat)
  | zrem (k : Nat) (m : Nat)
  | expire (k : Nat)                     -- EXPIRE k <far future>: the value is untouched
  | persist (k : Nat) (had : Bool)       -- PERSIST k; `had` = the key carried a deadline (deadlines
                                         --   are not modelled: the driver passes the observation)
  | evict (k : Nat)                      -- not a command: the key's deadline passed and the shard
                                         --   evicted it (`set_time` before the next command)
  | mset (ps : List (Nat × Bytes))        -- MSET k v [k v …]: fanned out per shard (`BatchSet`)
  | mget (ks : List Nat)                 -- MGET k [k …]: fanned out per shard (`BatchGet`)
  | delm (ks : List Nat)                 -- DEL k k' [k'' …] (two or more keys: fanned out per shard)
  | ping
  | unwatch
  | unknown                              -- `Command::Unknown(name)`
  | loc (l : Local)
  deriving DecidableEq, Repr

/-- value of a decimal digit string (`none` if empty or not all digits) -/
def digits : List Nat → Option Nat
  | [] => none
  | ds => ds.foldl (fun acc d =>
      match acc with
      | none => none
      | some a => if 48 ≤ d ∧ d ≤ 57 then some (a * 10 + (d - 48)) else none) (some 0)

/-- `i64::to_string` as bytes -/
def showInt (i : Int) : Bytes := (toString i).toList.map Char.toNat

/-- the INCR family's integer parse: `str::parse::<i64>` (optional sign, at least one digit,
    nothing else, in range) and — since the `fix:` commit for C01:incr-noncanonical — only the
    canonical rendering is accepted (`007`, `+5`, `-0` are rejected, as Redis' string2ll does) -/
def parseI64 (b : Bytes) : Option Int :=
  let v : Option Int :=
    match b with
    | 45 :: ds => (digits ds).map (fun n => - (n : Int))
    | 43 :: ds => (digits ds).map (fun n => (n : Int))
    | ds => (digits ds).map (fun n => (n : Int))
  match v with
  | some i =>
    if -9223372036854775808 ≤ i ∧ i ≤ 9223372036854775807 ∧ showInt i = b then some i else none
  | none => none

/-- "default" -/
def defaultUser : Bytes := [100, 101, 102, 97, 117, 108, 116]

/-- the answer of the connection's own handlers -/
def localReply : Cmd → Rep
  | .loc .auth => .simple .ok
  | .loc .aclWhoami => .bulk (some defaultUser)
  | .loc .reset => .simple .reset
  | .loc .clientSetname => .simple .ok
  | .loc .publish => .int 0
  | _ => .err .unknownCmd   -- not a connection-level command (never asked by the driver)

/-- what the EXEC loop (and, for data commands, the connection outside MULTI) does with a
    command.  `localFixed = false` is the pinned commit: every queued command goes to the shard
    executor, which does not implement the connection-level ones; `true` is the tree after the
    `fix:` commit: `execute_connection_level(cmd)` answers those, the rest goes to the shards. -/
def execWith (localFixed : Bool) (s : Store) : Cmd → Store × Rep
  | .get k =>
    match NMap.get s k with
    | some (.str b) => (s, .bulk (some b))
    | some _ => (s, .err .wrongType)
    | none => (s, .bulk none)
  | .set k v => (NMap.insert k (.str v) s, .simple .ok)
  | .incr k =>
    match NMap.get s k with
    | some (.str b) =>
      match parseI64 b with
      | none => (s, .err .notInt)
      | some n =>
        if n + 1 ≤ 9223372036854775807 then (NMap.insert k (.str (showInt (n + 1))) s, .int (n + 1))
        else (s, .err .overflow)
    | some _ => (s, .err .wrongType)
    | none => (NMap.insert k (.str (showInt 1)) s, .int 1)
  | .append k v =>
    match NMap.get s k with
    | some (.str b) => (NMap.insert k (.str (b ++ v)) s, .int (b ++ v).length)
    | some _ => (s, .err .wrongType)
    | none => (NMap.insert k (.str v) s, .int v.length)
  | .del k =>
    match NMap.get s k with
    | some _ => (NMap.erase k s, .int 1)
    | none => (s, .int 0)
  | .rpush k vs =>
    match NMap.get s k with
    | some (.list l) => (NMap.insert k (.list (l ++ vs)) s, .int (l ++ vs).length)
    | some _ => (s, .err .wrongType)
    | none => (NMap.insert k (.list vs) s, .int vs.length)
  | .lrange k =>
    match NMap.get s k with
    | some (.list l) => (s, .arr l)
    | some _ => (s, .err .wrongType)
    | none => (s, .arr [])
  | .llen k =>
    match NMap.get s k with
    | some (.list l) => (s, .int l.length)
    | some _ => (s, .err .wrongType)
    | none => (s, .int 0)
  | .lset0 k v =>
    match NMap.get s k with
    | some (.list (_ :: l)) => (NMap.insert k (.list (v :: l)) s, .simple .ok)
    | some (.list []) => (s, .err .noSuchKey)     -- unreachable: no empty lists are stored
    | some _ => (s, .err .wrongType)
    | none => (s, .err .noSuchKey)
  | .lpop k =>
    match NMap.get s k with
    | some (.list (x :: l)) =>
      (if l.isEmpty then NMap.erase k s else NMap.insert k (.list l) s, .bulk (some x))
    | some (.list []) => (s, .bulk none)
    | some _ => (s, .err .wrongType)
    | none => (s, .bulk none)
  | .hset k f v =>
    match NMap.get s k with
    | some (.hash h) =>
      (NMap.insert k (.hash (NMap.insert f v h)) s, .int (if (NMap.get h f).isSome then 0 else 1))
    | some _ => (s, .err .wrongType)
    | none => (NMap.insert k (.hash [(f, v)]) s, .int 1)
  | .hdel k f =>
    match NMap.get s k with
    | some (.hash h) =>
      if (NMap.get h f).isSome then
        (if (NMap.erase f h).isEmpty then NMap.erase k s else NMap.insert k (.hash (NMap.erase f h)) s,
         .int 1)
      else (s, .int 0)
    | some _ => (s, .err .wrongType)
    | none => (s, .int 0)
  | .sadd k m =>
    match NMap.get s k with
    | some (.set ms) =>
      (NMap.insert k (.set (NSet.insert m ms)) s, .int (if ms.contains m then 0 else 1))
    | some _ => (s, .err .wrongType)
    | none => (NMap.insert k (.set [m]) s, .int 1)
  | .srem k m =>
    match NMap.get s k with
    | some (.set ms) =>
      if ms.contains m then
        (if (ms.erase m).isEmpty then NMap.erase k s else NMap.insert k (.set (ms.erase m)) s, .int 1)
      else (s, .int 0)
    | some _ => (s, .err .wrongType)
    | none => (s, .int 0)
  | .zadd k sc m =>
    match NMap.get s k with
    | some (.zset z) =>
      (NMap.insert k (.zset (NMap.insert m sc z)) s, .int (if (NMap.get z m).isSome then 0 else 1))
    | some _ => (s, .err .wrongType)
    | none => (NMap.insert k (.zset [(m, sc)]) s, .int 1)
  | .zrem k m =>
    match NMap.get s k with
    | some (.zset z) =>
      if (NMap.get z m).isSome then
        (if (NMap.erase m z).isEmpty then NMap.erase k s else NMap.insert k (.zset (NMap.erase m z)) s,
         .int 1)
      else (s, .int 0)
    | some _ => (s, .err .wrongType)
    | none => (s, .int 0)
  | .expire k => (s, .int (if (NMap.get s k).isSome then 1 else 0))
  | .persist k had => (s, .int (if (NMap.get s k).isSome && had then 1 else 0))
  | .evict k => (NMap.erase k s, .simple .ok)
  | .mset ps => (ps.foldl (fun s p => NMap.insert p.1 (.str p.2) s) s, .simple .ok)
  | .mget ks =>
    (s, .marr (ks.map (fun k =>
      match NMap.get s k with
      | some (.str b) => some b
      | _ => none)))
  | .delm ks =>
    let r := ks.foldl (fun (a : Store × Int) k =>
      match NMap.get a.1 k with
      | some _ => (NMap.erase k a.1, a.2 + 1)
      | none => a) (s, 0)
    (r.1, .int r.2)
  | .ping => (s, .simple .pong)
  | .unwatch => (s, .simple .ok)
  | .unknown => (s, .err .unknownCmd)
  | .loc l =>
    if localFixed then (s, localReply (.loc l))
    else match l with
      | .auth => (s, .err .connLevel)
      | .aclWhoami => (s, .err .connLevel)
      | .reset => (s, .err .unknownCmd)
      | .clientSetname => (s, .simple .ok)
      | .publish => (s, .err .unknownCmd)

/-- the current tree -/
def exec (s : Store) (c : Cmd) : Store × Rep := execWith true s c

def backendWith (localFixed : Bool) : Txn.Backend Store Nat Cmd Rep where
  exec := execWith localFixed
  getReply := fun s k => (execWith localFixed s (.get k)).2
  unwatchCmd := .unwatch
  localReply := localReply

/-- the current tree -/
def backend : Txn.Backend Store Nat Cmd Rep := backendWith true

def xbackend : Txn.XBackend Store Nat Cmd Rep Val where
  exec := exec
  value := NMap.get

/-- members of a sorted set in rank order (score, then member code) -/
def rankInsert (p : Nat × Int) : List (Nat × Int) → List (Nat × Int)
  | [] => [p]
  | q :: r => if p.2 < q.2 ∨ (p.2 = q.2 ∧ p.1 ≤ q.1) then p :: q :: r else q :: rankInsert p r

def rankOrder (z : NMap Int) : List Nat := (z.foldr rankInsert []).map (·.1)

/-- what an equality on sorted sets that compares "cardinality and member names in rank order
    but NOT the scores" can see of a value -/
def blindScores : Val → Val
  | .zset z => .zset (NMap.ofList ((rankOrder z).zipIdx.map (fun p => (p.1, (p.2 : Int)))))
  | v => v

/-- an executor whose WATCH snapshot is compared through a projection `proj` of the value
    (`proj = id`: the current code, `Value: PartialEq` is extensional) -/
def xbackendProj (proj : Val → Val) : Txn.XBackend Store Nat Cmd Rep Val where
  exec := exec
  value := fun s k => (NMap.get s k).map proj

end KV
end RedisVerif
