import RedisVerif.Model.Wal

/-
  M5 — framing of segments and checkpoints over abstract `crc`, `ser`, `de`.

  Anchors: /repo/src/streaming/segment.rs (SegmentHeader::{to_bytes,from_bytes,validate},
  SegmentFooter, SegmentWriter::finish, SegmentReader::{open,validate,deltas,read_all},
  DeltaIterator::next), /repo/src/streaming/checkpoint.rs (CheckpointHeader, CheckpointFooter,
  CheckpointWriter::write, CheckpointReader::{open,validate,load}).  The WAL entry codec is in
  `Model/Wal.lean`.  zstd compression is a cargo feature that is off: a non-zero compression
  flag is an error on both read paths and the writers never set it.

  `crc32fast::Hasher` fed with several slices = CRC of their concatenation, so a header
  checksum is the CRC of the header bytes that carry the covered fields.  The Rust code
  recomputes it from the PARSED fields, i.e. from `le k (leVal x)` for each numeric field
  `x`; for byte-valued lists that is `x` itself (`Lemmas/Codec.lean: le_leVal`), and the model
  uses the raw bytes.
-/
namespace RedisVerif
namespace Codec

open Wal (le leVal)

/-- error classes of `SegmentError` / `CheckpointError` (what the caller can observe) -/
inductive Err where
  | eof            -- Io(UnexpectedEof): image / header / footer / record too short
  | magic          -- InvalidMagic / InvalidFormat("Invalid magic")
  | version        -- UnsupportedVersion
  | checksum       -- ChecksumMismatch
  | compression    -- UnsupportedCompression / "Compression not enabled"
  | ser            -- Serialization (bincode)
  | tooSmall       -- InvalidFormat("Checkpoint too small")
  | noLength       -- InvalidFormat("Missing data length")
  | noFooter       -- InvalidFormat("Missing footer")
  | size           -- InvalidFormat("Data size mismatch")
  | truncated      -- InvalidFormat("Checkpoint data truncated") (only `load` after the proposed fix)
  deriving DecidableEq, Repr, Inhabited

abbrev Res (α : Type) := Except Err α

/-! ## segment: header(40) | records | footer(24) -/

def segMagic : Bytes := [82, 83, 69, 71]      -- "RSEG"
def footMagic : Bytes := [71, 69, 83, 82]     -- "GESR"

/-- one length-prefixed record -/
def record (payload : Bytes) : Bytes := le 4 payload.length ++ payload

def records (ps : List Bytes) : Bytes := ps.flatMap record

/-- the 26 covered bytes of a segment header -/
def segCovered (count minTs maxTs : Nat) : Bytes :=
  segMagic ++ ([1, 0] ++ (le 4 count ++ (le 8 minTs ++ le 8 maxTs)))

/-- `SegmentHeader::new(..).to_bytes()` -/
def segHeader (crc : Bytes → Nat) (count minTs maxTs : Nat) : Bytes :=
  segCovered count minTs maxTs ++ (le 4 (crc (segCovered count minTs maxTs)) ++ List.replicate 10 0)

/-- `SegmentFooter::new(..).to_bytes()` (no compression: both sizes = record bytes) -/
def segFooter (crc : Bytes → Nat) (recs : Bytes) : Bytes :=
  le 4 (crc recs) ++ (le 8 recs.length ++ (le 8 recs.length ++ footMagic))

def minOf (ts : List Nat) : Nat := ts.foldl Nat.min (2 ^ 64 - 1)
def maxOf (ts : List Nat) : Nat := ts.foldl Nat.max 0

/-- `SegmentWriter::{write_delta*, finish}` for payloads `ps` (already serialised) with delta
    stamps `ts`; `none` = `Err(Empty)` -/
def writeSegment (crc : Bytes → Nat) (ps : List Bytes) (ts : List Nat) : Option Bytes :=
  if ps.isEmpty then none
  else
    let recs := records ps
    some (segHeader crc ps.length (minOf ts) (maxOf ts) ++ (recs ++ segFooter crc recs))

/-- `DeltaIterator`: at most `remaining` records; errors on a torn length prefix / torn record /
    undecodable one.  When the data is exhausted (`offset >= data.len()`) although records are
    still announced by the header:
    * `strict = true` (CURRENT code, after the `fix:` commit "segment iterator errors when fewer
      records than record_count are present"): `Err(UnexpectedEof)`;
    * `strict = false` (before it): the iterator stopped SILENTLY, i.e. `record_count` was not
      cross-checked against the number of records present. -/
def readRecords {δ : Type} (strict : Bool) (de : Bytes → Option δ) : Nat → Bytes → Res (List δ)
  | 0, _ => .ok []
  | r + 1, data =>
    if data.length = 0 then (if strict then .error .eof else .ok [])
    else if data.length < 4 then .error .eof
    else
      let len := leVal (data.take 4)
      let rest := data.drop 4
      if rest.length < len then .error .eof
      else
        match de (rest.take len) with
        | none => .error .ser
        | some d =>
          match readRecords strict de r (rest.drop len) with
          | .ok ds => .ok (d :: ds)
          | .error e => .error e

/-- `SegmentReader::open` + `validate` + `read_all` on the three parts of an image
    (`hdr` = first 40 bytes, `foot` = last 24 bytes, `recs` = what lies between) -/
def readSegParts {δ : Type} (strict : Bool) (crc : Bytes → Nat) (de : Bytes → Option δ)
    (hdr recs foot : Bytes) : Res (List δ) :=
  let h := hdr.take 30
  -- SegmentHeader::validate
  if h.take 4 ≠ segMagic then .error .magic
  else if (h.drop 4).take 1 ≠ [1] then .error .version
  else if crc (h.take 26) ≠ leVal ((h.drop 26).take 4) then .error .checksum
  -- SegmentFooter::from_bytes
  else if (foot.drop 20).take 4 ≠ footMagic then .error .magic
  -- Compression::from_flag
  else if (h.drop 5).take 1 ≠ [0] then .error .compression
  -- SegmentReader::validate
  else if crc recs ≠ leVal (foot.take 4) then .error .checksum
  -- read_all
  else readRecords strict de (leVal ((h.drop 6).take 4)) recs

/-- what recovery does with a segment object (`RecoveryManager::load_segment`) -/
def readSegment {δ : Type} (strict : Bool) (crc : Bytes → Nat) (de : Bytes → Option δ) (data : Bytes) :
    Res (List δ) :=
  if data.length < 64 then .error .eof   -- HEADER_SIZE + FOOTER_SIZE
  else
    readSegParts strict crc de (data.take 40) ((data.drop 40).take (data.length - 64))
      (data.drop (data.length - 24))

/-! ## checkpoint: header(48) | data_len:u32 | data | footer(16) | (anything) -/

def chkMagic : Bytes := [82, 67, 72, 75]      -- "RCHK"

/-- covered header fields: bytes 0..6 and 8..32 -/
def chkCoveredA : Bytes := chkMagic ++ [1, 0]
def chkCoveredB (keyCount tsMs lastSeg : Nat) : Bytes := le 8 keyCount ++ (le 8 tsMs ++ le 8 lastSeg)

/-- `CheckpointHeader::new(..).write_to` (uncompressed) -/
def chkHeader (crc : Bytes → Nat) (keyCount tsMs lastSeg : Nat) : Bytes :=
  chkCoveredA ++ ([0, 0] ++ (chkCoveredB keyCount tsMs lastSeg ++ (List.replicate 12 0 ++
    le 4 (crc (chkCoveredA ++ chkCoveredB keyCount tsMs lastSeg)))))

/-- `CheckpointFooter::new(..).write_to` -/
def chkFooter (crc : Bytes → Nat) (payload : Bytes) : Bytes :=
  (le 4 (crc payload) ++ le 8 payload.length) ++ le 4 (crc (le 4 (crc payload) ++ le 8 payload.length))

/-- `CheckpointWriter::write` for the serialised state `payload` -/
def writeCheckpoint (crc : Bytes → Nat) (keyCount tsMs lastSeg : Nat) (payload : Bytes) : Bytes :=
  chkHeader crc keyCount tsMs lastSeg ++ (le 4 payload.length ++ (payload ++ chkFooter crc payload))

/-- `CheckpointReader::open` + `validate` + `load` (as `RecoveryManager` and
    `CheckpointManager::load_checkpoint` call them) -/
def readCheckpoint {σ : Type} (crc : Bytes → Nat) (de : Bytes → Option σ) (data : Bytes) : Res σ :=
  -- open
  if data.length < 48 then .error .tooSmall
  else
    let h := data.take 48
    if h.take 4 ≠ chkMagic then .error .magic
    else if (h.drop 4).take 1 ≠ [1] then .error .version
    else if crc (h.take 6 ++ (h.drop 8).take 24) ≠ leVal ((h.drop 44).take 4) then .error .checksum
    -- validate
    else if data.length < 52 then .error .noLength
    else
      let dlen := leVal ((data.drop 48).take 4)
      if data.length < 52 + dlen + 16 then .error .noFooter
      else
        let payload := (data.drop (52)).take dlen
        let foot := (data.drop (52 + dlen)).take 16
        if crc (foot.take 12) ≠ leVal ((foot.drop 12).take 4) then .error .checksum
        else if ((h.drop 5).take 1).any (fun b => b % 2 = 1) then .error .compression
        else if crc payload ≠ leVal (foot.take 4) then .error .checksum
        else if payload.length ≠ leVal ((foot.drop 4).take 8) then .error .size
        -- load
        else match de payload with
          | none => .error .ser
          | some s => .ok s

/-- outcome of a read path that can PANIC -/
inductive LoadRes (σ : Type) where
  | ok (s : σ)
  | error (e : Err)
  | crash            -- index / slice out of bounds: the process panics
  deriving Repr

def LoadRes.isCrash {σ : Type} : LoadRes σ → Bool
  | .crash => true
  | _ => false

def LoadRes.toOption {σ : Type} : LoadRes σ → Option σ
  | .ok s => some s
  | _ => none

/-- `CheckpointReader::open` + `load` WITHOUT `validate` (both are public; every caller inside
    /repo validates first).  `load` reads the data-length field and slices the payload:
    * `checked = false` (the code as it is): without any bounds check — an image that ends inside
      the length field or before the announced end of the payload PANICS (`self.data[data_offset]`,
      `&self.data[data_start..data_end]`);
    * `checked = true` (the proposed fix): the same two situations are `InvalidFormat` errors.
    No checksum is looked at on this path (that is `validate`'s job). -/
def loadCheckpoint {σ : Type} (checked : Bool) (crc : Bytes → Nat) (de : Bytes → Option σ) (data : Bytes) : LoadRes σ :=
  if data.length < 48 then .error .tooSmall
  else
    let h := data.take 48
    if h.take 4 ≠ chkMagic then .error .magic
    else if (h.drop 4).take 1 ≠ [1] then .error .version
    else if crc (h.take 6 ++ (h.drop 8).take 24) ≠ leVal ((h.drop 44).take 4) then .error .checksum
    else if data.length < 52 then (if checked then .error .noLength else .crash)
    else
      let dlen := leVal ((data.drop 48).take 4)
      if data.length < 52 + dlen then (if checked then .error .truncated else .crash)
      else if ((h.drop 5).take 1).any (fun b => b % 2 = 1) then .error .compression
      else match de ((data.drop 52).take dlen) with
        | none => .error .ser
        | some s => .ok s

/-! ## gossip frames: `GossipMessage::{serialize,deserialize}` = serde_json over derived impls

  serde_json is not modelled.  The gossip codec is an abstract `ser`/`de` pair like the storage
  payload codecs; a frame is the serialised message itself (no header, no checksum).  What the
  property claims for it is the round trip, i.e. the law `de (ser m) = some m`; that law is an
  explicit obligation (`Lawful`) which the correspondence checks on every run (`g` lines of the
  C14 harness: every delta through every message variant, payload bytes compared). -/

structure SerDe (μ : Type) where
  ser : μ → Bytes
  de : Bytes → Option μ

/-- the round-trip obligation for one message -/
def SerDe.Lawful {μ : Type} (c : SerDe μ) (m : μ) : Prop := c.de (c.ser m) = some m

/-- what a peer makes of a gossip frame sent for `m` -/
def gossipDeliver {μ : Type} (c : SerDe μ) (m : μ) : Option μ := c.de (c.ser m)

end Codec
end RedisVerif
