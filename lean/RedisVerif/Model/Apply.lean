import RedisVerif.Model.Replica
import RedisVerif.Model.Stream

/-
  The last step of recovery: `ReplicatedShardedState::apply_recovered_state`
  (/repo/src/production/replicated_state.rs), as `StreamingIntegration::recover`
  (/repo/src/streaming/integration.rs) calls it with the `RecoveredState` of
  `RecoveryManager::recover`:

      for (key, value) in checkpoint_state   → shards[hash_key(key)].apply_recovered_state(key, value)
      for delta in deltas                    → shards[hash_key(delta.key)].apply_remote_delta(delta)

  on top of M2 (`Model/Replica.lean`): `Shard.applyRecovered` (plain insert + clock update) and
  `Shard.applyRemote` (merge).  The router `hash_key` (SipHash of the key modulo 16) is an
  abstract parameter `route : key → shard index`; nothing below depends on it.

  The checkpoint is a `HashMap`: its iteration order is a parameter (the list order of
  `chk`); the per-key result does not depend on it (`apply_recovered_equals_fold`), only the
  shards' Lamport clocks do, which are not part of what recovery promises.
-/
namespace RedisVerif
namespace Stream

/-- the shards of one node, by index: the shards that have been touched, every other index
    still being the fresh `ShardReplicaState` of `ReplicatedShardedState::new` -/
structure Node where
  rid : Nat
  causal : Bool
  shards : NMap Shard
  deriving Repr, Inhabited

namespace Node

/-- `ReplicatedShardedState::new`: every shard a fresh `ShardReplicaState` -/
def fresh (rid : Nat) (causal : Bool) : Node := { rid := rid, causal := causal, shards := [] }

/-- shard `i` -/
def shard (n : Node) (i : Nat) : Shard := (NMap.get n.shards i).getD (Shard.init n.rid n.causal)

def upd (n : Node) (i : Nat) (s : Shard) : Node := { n with shards := NMap.insert i s n.shards }

/-- the replication-state value of a key (`snapshot_state()[key]`) -/
def value (route : Nat → Nat) (n : Node) (k : Nat) : Option RV := NMap.get (n.shard (route k)).keys k

end Node

/-- one checkpoint entry: `ReplicatedShardMessage::ApplyRecoveredState` on the key's shard -/
def applyChkEntry (route : Nat → Nat) (n : Node) (d : Delta) : Node :=
  n.upd (route d.1) ((n.shard (route d.1)).applyRecovered d.1 d.2)

/-- one delta: `apply_remote_delta` on the key's shard -/
def applyDeltaNode (route : Nat → Nat) (n : Node) (d : Delta) : Node :=
  n.upd (route d.1) ((n.shard (route d.1)).applyRemote d.1 d.2)

/-- `ReplicatedShardedState::apply_recovered_state` -/
def applyRecoveredState (route : Nat → Nat) (n : Node) (chk : Option (List Delta)) (deltas : List Delta) :
    Node :=
  deltas.foldl (applyDeltaNode route) ((chk.getD []).foldl (applyChkEntry route) n)

/-- `StreamingIntegration::recover`: recover, then apply (`none` = recovery failed) -/
def recoverAndApply (route : Nat → Nat) (n : Node) (st : Store) (rid : Nat) : Option Node :=
  match recover st rid with
  | .ok r => some (applyRecoveredState route n r.chk r.deltas)
  | .error _ => none

end Stream
end RedisVerif
