import RedisVerif.Model.ExecutorColl
import RedisVerif.Model.RedisX

/-
  `Model.ExecutorScan` — SCAN as `execute_scan` (scan_ops.rs) does it: the live keys that match the
  pattern, SORTED (bytes, lexicographic — `Vec<String>::sort`), `skip(cursor as usize).take(count + 1)`,
  `if results.len() > count { (cursor + count, first count) } else { (0, all) }`.
  HSCAN / ZSCAN page over the sorted fields / members with the same arithmetic (`scanPage`).

  The arithmetic is on `usize` / `u64`.  Since the fix 60ffe53 the page size is `count.saturating_add(1)`
  and both parsers refuse `COUNT < 1` with a syntax error (before: `COUNT -1` became `usize::MAX`, whose
  `count + 1` trapped / wrapped).  `Command::Scan { count: Some(0) }` can still be BUILT (not parsed): the
  COUNT 0 counterexamples of `Props/C01Scan.lean` remain statements about `execute_scan`.
-/
namespace RedisVerif.Executor
open RedisVerif.Redis

/-- one page: `take(count.saturating_add(1))` (after the fix 60ffe53 nothing can trap: always `some`) -/
def scanPage {α : Type} (keys : List α) (cursor count : Nat) : Option (Nat × List α) :=
  if ((keys.drop cursor).take (min (count + 1) (two64 - 1))).length > count then
    some (cursor + count, ((keys.drop cursor).take (min (count + 1) (two64 - 1))).take count)
  else some (0, (keys.drop cursor).take (min (count + 1) (two64 - 1)))

/-- insertion sort by the bytes of the key (`String`'s `Ord` = bytewise lexicographic) -/
def insertByBytes (k : Nat) : List Nat → List Nat
  | [] => [k]
  | x :: xs => if bsLt (codeBytes x) (codeBytes k) then x :: insertByBytes k xs else k :: x :: xs

def sortByBytes (l : List Nat) : List Nat := l.foldr insertByBytes []

/-- the key list `execute_scan` pages over -/
def scanKeys (cs : CState) (pat : Option BS) : List Nat :=
  sortByBytes (((cs.data.filter (fun p => !isExpired cs p.1)).map (fun p => p.1)).filter
    (fun k => match pat with
      | none => true
      | some p => RedisX.globMatch p (codeBytes k)))

/-- `execute_scan`: the state is not touched (`&mut self` only for the borrow) -/
def cScan (cs : CState) (cursor : Nat) (pat : Option BS) (count : Option Nat) :
    Option (CState × Nat × List Nat) :=
  (scanPage (scanKeys cs pat) cursor (count.getD 10)).map (fun r => (cs, r.1, r.2))

/-- a client's full iteration: start at cursor 0, follow the returned cursor until it is 0 again;
    `fuel` bounds the number of calls; `none` = a trap, or the fuel ran out (no termination) -/
def scanAll {α : Type} (keys : List α) (count : Nat) : Nat → Nat → Option (List α)
  | 0, _ => none
  | fuel + 1, cursor =>
    match scanPage keys cursor count with
    | none => none
    | some (next, page) =>
      if next = 0 then some page
      else (scanAll keys count fuel next).map (fun rest => page ++ rest)

end RedisVerif.Executor
